//! The same observation interface over real std::path (cfg(unix) host): the oracle C01/C06/C07/C13 name.
use crate::api::*;
use crate::val::*;
use std::ffi::OsStr;
use std::os::unix::ffi::OsStrExt;
use std::path::{Component, Path, PathBuf};

pub fn sp(bytes: &[u8]) -> &Path {
    Path::new(OsStr::from_bytes(bytes))
}
fn pbytes(p: &Path) -> Vec<u8> {
    p.as_os_str().as_bytes().to_vec()
}
pub fn comp(cm: &Component) -> Val {
    match cm {
        Component::RootDir => c("R", vec![]),
        Component::CurDir => c("C", vec![]),
        Component::ParentDir => c("P", vec![]),
        Component::Normal(x) => c("Nm", vec![b(x.as_bytes())]),
        Component::Prefix(_) => c("Px", vec![]),
    }
}

pub struct SD;
impl Api for SD {
    fn accepts(_p: &[u8]) -> bool {
        true
    }
    fn sched(p: &[u8], sched: &[bool]) -> Val {
        let path = sp(p);
        let mut it = path.components();
        let mut steps = Vec::new();
        for d in sched {
            let cm = if *d { it.next_back() } else { it.next() };
            let off = Val::N;
            let rp = it.as_path();
            let st = c("t", vec![Val::Bool(rp.has_root()), Val::Bool(rp.is_absolute()), b(pbytes(rp)), Val::N, Val::N]);
            steps.push(c("st", vec![opt(cm, |x| comp(&x)), b(pbytes(it.as_path())), off, st]));
        }
        Val::L(steps)
    }
    fn iter_sched(p: &[u8], sched: &[bool]) -> Val {
        let path = sp(p);
        let mut it = path.iter();
        let mut steps = Vec::new();
        for d in sched {
            let cm = if *d { it.next_back() } else { it.next() };
            steps.push(t2(opt(cm, |x| b(x.as_bytes())), b(pbytes(it.as_path()))));
        }
        Val::L(steps)
    }
    fn flags(p: &[u8]) -> Val {
        let path = sp(p);
        c("t", vec![Val::Bool(path.has_root()), Val::Bool(path.is_absolute()), Val::Bool(path.is_relative())])
    }
    fn is_valid(_p: &[u8]) -> Val {
        Val::N
    }
    fn comp_valid(_p: &[u8]) -> Val {
        Val::N
    }
    fn parent(p: &[u8]) -> Val {
        opt(sp(p).parent(), |x| b(pbytes(x)))
    }
    fn parent_variants(_p: &[u8]) -> Val {
        Val::L(vec![])
    }
    fn cons(_a: &[u8], _b: &[u8]) -> (Vec<Val>, Val) {
        (vec![], Val::L(vec![]))
    }
    fn ancestors(p: &[u8]) -> Val {
        list(sp(p).ancestors(), |a| b(pbytes(a)))
    }
    fn names(p: &[u8]) -> Val {
        let path = sp(p);
        c("t", vec![
            opt(path.file_name(), |x| b(x.as_bytes())),
            opt(path.file_stem(), |x| b(x.as_bytes())),
            opt(path.extension(), |x| b(x.as_bytes())),
        ])
    }
    fn rel(a: &[u8], b_: &[u8]) -> Val {
        let path = sp(a);
        let arg = sp(b_);
        c("t", vec![
            Val::Bool(path.starts_with(arg)),
            Val::Bool(path.ends_with(arg)),
            opt(path.strip_prefix(arg).ok(), |x| b(pbytes(x))),
        ])
    }
    fn eqcmp(a: &[u8], b_: &[u8]) -> Val {
        let pa = sp(a);
        let pb_ = sp(b_);
        c("t", vec![Val::Bool(pa == pb_), ord_val(pa.cmp(pb_)), opt(pa.partial_cmp(pb_), ord_val), Val::Bool(pa != pb_)])
    }
    fn hash(_p: &[u8]) -> Val {
        Val::N
    }
    fn join(a: &[u8], b_: &[u8]) -> Val {
        t2(b(pbytes(&sp(a).join(sp(b_)))), Val::N)
    }
    fn join_checked(_a: &[u8], _b: &[u8]) -> Val {
        Val::N
    }
    fn normalize(_p: &[u8]) -> Val {
        Val::N
    }
    fn with_file_name(p: &[u8], n: &[u8]) -> Val {
        b(pbytes(&sp(p).with_file_name(OsStr::from_bytes(n))))
    }
    fn with_extension(p: &[u8], e: &[u8]) -> Val {
        // C13 names PathBuf::set_extension as the oracle; std's own with_extension takes a different
        // code path (it pre-slices by the old extension's length) and differs from set_extension on
        // names like "..a", so the std side of with_extension is set_extension on a clone
        let mut x = sp(p).to_path_buf();
        x.set_extension(OsStr::from_bytes(e));
        b(pbytes(&x))
    }
    fn hist(init: &[u8], ops: &[Val]) -> Val {
        let mut buf = PathBuf::from(OsStr::from_bytes(init));
        let mut out = Vec::new();
        for op in ops {
            let (tag, a) = op.tag();
            let res: Val = match tag {
                "push" => {
                    buf.push(sp(a[0].bytes()));
                    Val::N
                }
                "pop" => Val::Bool(buf.pop()),
                "sfn" => {
                    buf.set_file_name(OsStr::from_bytes(a[0].bytes()));
                    Val::N
                }
                "sext" => Val::Bool(buf.set_extension(OsStr::from_bytes(a[0].bytes()))),
                "clear" => {
                    buf.clear();
                    Val::N
                }
                "join" => {
                    buf = buf.join(sp(a[0].bytes()));
                    Val::N
                }
                "wfn" => {
                    buf = buf.with_file_name(OsStr::from_bytes(a[0].bytes()));
                    Val::N
                }
                "wext" => {
                    let mut x = buf.clone();
                    x.set_extension(OsStr::from_bytes(a[0].bytes()));
                    buf = x;
                    Val::N
                }
                "extend" => {
                    buf.extend(a[0].items().iter().map(|x| sp(x.bytes())));
                    Val::N
                }
                "collect" => {
                    buf = a[0].items().iter().map(|x| sp(x.bytes())).collect();
                    Val::N
                }
                "reserve" => {
                    buf.reserve(a[0].int() as usize);
                    Val::N
                }
                "shrinkfit" => {
                    buf.shrink_to_fit();
                    Val::N
                }
                "shrinkto" => {
                    buf.shrink_to(a[0].int() as usize);
                    Val::N
                }
                "clonefrom" => {
                    let other = PathBuf::from(OsStr::from_bytes(a[0].bytes()));
                    buf.clone_from(&other);
                    Val::N
                }
                _ => c("badop", vec![]),
            };
            out.push(c("t", vec![b(pbytes(&buf)), res, Val::N]));
        }
        Val::L(out)
    }
}
