//! One observation interface (`Api`) implemented for every family of typed-path's public
//! API (byte / UTF-8 / runtime-typed / runtime-typed UTF-8, each for Unix and Windows) and
//! for real `std::path` (Unix host).  All results are normalised to byte strings so that the
//! same extracted model answers for all of them.
#![allow(clippy::all)]
use crate::val::*;
use core::convert::TryFrom;
use std::hash::{Hash, Hasher};
use typed_path::*;

// ------------------------------------------------------------------ recording hasher
#[derive(Default)]
pub struct Rec(pub Vec<Val>);
impl Hasher for Rec {
    fn finish(&self) -> u64 {
        0
    }
    fn write(&mut self, bytes: &[u8]) {
        self.0.push(c("w", vec![b(bytes)]));
    }
    fn write_u8(&mut self, i: u8) {
        self.0.push(c("u8", vec![Val::I(i as u64)]));
    }
    fn write_u16(&mut self, i: u16) {
        self.0.push(c("u16", vec![Val::I(i as u64)]));
    }
    fn write_u32(&mut self, i: u32) {
        self.0.push(c("u32", vec![Val::I(i as u64)]));
    }
    fn write_u64(&mut self, i: u64) {
        self.0.push(c("u64", vec![Val::I(i)]));
    }
    fn write_usize(&mut self, i: usize) {
        self.0.push(c("us", vec![Val::I(i as u64)]));
    }
    fn write_i8(&mut self, i: i8) {
        self.0.push(c("i8", vec![Val::I(i as u8 as u64)]));
    }
    fn write_i32(&mut self, i: i32) {
        self.0.push(c("i32", vec![Val::I(i as u32 as u64)]));
    }
    fn write_i64(&mut self, i: i64) {
        self.0.push(c("i64", vec![Val::I(i as u64)]));
    }
    fn write_isize(&mut self, i: isize) {
        self.0.push(c("is", vec![Val::I(i as usize as u64)]));
    }
}
pub fn feed<T: Hash + ?Sized>(t: &T) -> Val {
    let mut r = Rec::default();
    t.hash(&mut r);
    Val::L(r.0)
}

// ------------------------------------------------------------------ byte views
pub trait AB {
    fn ab(&self) -> Vec<u8>;
}
impl AB for [u8] {
    fn ab(&self) -> Vec<u8> {
        self.to_vec()
    }
}
impl AB for str {
    fn ab(&self) -> Vec<u8> {
        // every &str handed out must be valid UTF-8; flag it otherwise
        match std::str::from_utf8(self.as_bytes()) {
            Ok(_) => self.as_bytes().to_vec(),
            Err(_) => {
                let mut v = b"\xff!BADUTF8!".to_vec();
                v.extend_from_slice(self.as_bytes());
                v
            }
        }
    }
}
impl AB for String {
    fn ab(&self) -> Vec<u8> {
        self.as_str().ab()
    }
}
impl AB for Vec<u8> {
    fn ab(&self) -> Vec<u8> {
        self.clone()
    }
}
impl<T: for<'enc> Encoding<'enc>> AB for Path<T> {
    fn ab(&self) -> Vec<u8> {
        self.as_bytes().to_vec()
    }
}
impl<T: for<'enc> Encoding<'enc>> AB for PathBuf<T> {
    fn ab(&self) -> Vec<u8> {
        self.as_bytes().to_vec()
    }
}
impl<T: for<'enc> Utf8Encoding<'enc>> AB for Utf8Path<T> {
    fn ab(&self) -> Vec<u8> {
        self.as_str().ab()
    }
}
impl<T: for<'enc> Utf8Encoding<'enc>> AB for Utf8PathBuf<T> {
    fn ab(&self) -> Vec<u8> {
        self.as_str().ab()
    }
}
impl AB for TypedPath<'_> {
    fn ab(&self) -> Vec<u8> {
        self.as_bytes().to_vec()
    }
}
impl AB for TypedPathBuf {
    fn ab(&self) -> Vec<u8> {
        self.as_bytes().to_vec()
    }
}
impl AB for Utf8TypedPath<'_> {
    fn ab(&self) -> Vec<u8> {
        self.as_str().ab()
    }
}
impl AB for Utf8TypedPathBuf {
    fn ab(&self) -> Vec<u8> {
        self.as_str().ab()
    }
}
impl AB for UnixComponents<'_> {
    fn ab(&self) -> Vec<u8> {
        self.as_bytes().to_vec()
    }
}
impl AB for WindowsComponents<'_> {
    fn ab(&self) -> Vec<u8> {
        self.as_bytes().to_vec()
    }
}
impl AB for Utf8UnixComponents<'_> {
    fn ab(&self) -> Vec<u8> {
        self.as_str().ab()
    }
}
impl AB for Utf8WindowsComponents<'_> {
    fn ab(&self) -> Vec<u8> {
        self.as_str().ab()
    }
}
impl AB for TypedComponents<'_> {
    fn ab(&self) -> Vec<u8> {
        self.as_bytes().to_vec()
    }
}
impl AB for Utf8TypedComponents<'_> {
    fn ab(&self) -> Vec<u8> {
        self.as_str().ab()
    }
}
impl<'a, T: for<'enc> Encoding<'enc> + 'a> AB for Iter<'a, T> {
    fn ab(&self) -> Vec<u8> {
        self.as_path().as_bytes().to_vec()
    }
}
impl<'a, T: for<'enc> Utf8Encoding<'enc> + 'a> AB for Utf8Iter<'a, T> {
    fn ab(&self) -> Vec<u8> {
        self.as_path().as_str().ab()
    }
}
impl AB for TypedIter<'_> {
    fn ab(&self) -> Vec<u8> {
        self.as_bytes().to_vec()
    }
}
impl AB for Utf8TypedIter<'_> {
    fn ab(&self) -> Vec<u8> {
        self.as_str().ab()
    }
}
impl<T: AB + ?Sized> AB for &T {
    fn ab(&self) -> Vec<u8> {
        (**self).ab()
    }
}
impl<T: AB + ?Sized> AB for Box<T> {
    fn ab(&self) -> Vec<u8> {
        (**self).ab()
    }
}

/// the storage the components of a path point into
pub trait Raw {
    fn raw(&self) -> &[u8];
}
impl<T: for<'enc> Encoding<'enc>> Raw for Path<T> {
    fn raw(&self) -> &[u8] {
        self.as_bytes()
    }
}
impl<T: for<'enc> Encoding<'enc>> Raw for PathBuf<T> {
    fn raw(&self) -> &[u8] {
        self.as_bytes()
    }
}
impl<T: for<'enc> Utf8Encoding<'enc>> Raw for Utf8Path<T> {
    fn raw(&self) -> &[u8] {
        self.as_str().as_bytes()
    }
}
impl<T: for<'enc> Utf8Encoding<'enc>> Raw for Utf8PathBuf<T> {
    fn raw(&self) -> &[u8] {
        self.as_str().as_bytes()
    }
}
impl Raw for TypedPath<'_> {
    fn raw(&self) -> &[u8] {
        self.as_bytes()
    }
}
impl Raw for TypedPathBuf {
    fn raw(&self) -> &[u8] {
        self.as_bytes()
    }
}
impl Raw for Utf8TypedPath<'_> {
    fn raw(&self) -> &[u8] {
        self.as_str().as_bytes()
    }
}
impl Raw for Utf8TypedPathBuf {
    fn raw(&self) -> &[u8] {
        self.as_str().as_bytes()
    }
}
impl<T: Raw + ?Sized> Raw for &T {
    fn raw(&self) -> &[u8] {
        (**self).raw()
    }
}

/// which variant a runtime-typed value wraps (U / W), "-" for the statically typed families
pub trait Variant {
    fn variant(&self) -> Val {
        Val::N
    }
}
impl Variant for TypedPath<'_> {
    fn variant(&self) -> Val {
        c(if self.is_unix() { "tu" } else { "tw" }, vec![])
    }
}
impl Variant for TypedPathBuf {
    fn variant(&self) -> Val {
        c(if self.is_unix() { "tu" } else { "tw" }, vec![])
    }
}
impl Variant for Utf8TypedPath<'_> {
    fn variant(&self) -> Val {
        c(if self.is_unix() { "tu" } else { "tw" }, vec![])
    }
}
impl Variant for Utf8TypedPathBuf {
    fn variant(&self) -> Val {
        c(if self.is_unix() { "tu" } else { "tw" }, vec![])
    }
}
impl<T: for<'enc> Encoding<'enc>> Variant for Path<T> {}
impl<T: for<'enc> Encoding<'enc>> Variant for PathBuf<T> {}
impl<T: for<'enc> Utf8Encoding<'enc>> Variant for Utf8Path<T> {}
impl<T: for<'enc> Utf8Encoding<'enc>> Variant for Utf8PathBuf<T> {}
impl<T: Variant + ?Sized> Variant for &T {
    fn variant(&self) -> Val {
        (**self).variant()
    }
}

// ------------------------------------------------------------------ components as values
pub trait CompVal {
    fn val(&self) -> Val;
    /// the slice that must lie inside the input (Normal name or prefix raw bytes)
    fn inner(&self) -> Option<&[u8]>;
    fn bytes(&self) -> Vec<u8>;
    fn valid(&self) -> Val;
}
fn wkind(k: &WindowsPrefix) -> Val {
    match k {
        WindowsPrefix::Verbatim(x) => c("V", vec![b(x)]),
        WindowsPrefix::VerbatimUNC(x, y) => c("VU", vec![b(x), b(y)]),
        WindowsPrefix::VerbatimDisk(d) => c("VD", vec![Val::I(*d as u64)]),
        WindowsPrefix::DeviceNS(x) => c("DN", vec![b(x)]),
        WindowsPrefix::UNC(x, y) => c("U", vec![b(x), b(y)]),
        WindowsPrefix::Disk(d) => c("Dk", vec![Val::I(*d as u64)]),
    }
}
pub fn wkind_val(k: &WindowsPrefix) -> Val {
    wkind(k)
}
fn w8kind(k: &Utf8WindowsPrefix) -> Val {
    match k {
        Utf8WindowsPrefix::Verbatim(x) => c("V", vec![b(x.ab())]),
        Utf8WindowsPrefix::VerbatimUNC(x, y) => c("VU", vec![b(x.ab()), b(y.ab())]),
        Utf8WindowsPrefix::VerbatimDisk(d) => c("VD", vec![Val::I(*d as u64)]),
        Utf8WindowsPrefix::DeviceNS(x) => c("DN", vec![b(x.ab())]),
        Utf8WindowsPrefix::UNC(x, y) => c("U", vec![b(x.ab()), b(y.ab())]),
        Utf8WindowsPrefix::Disk(d) => c("Dk", vec![Val::I(*d as u64)]),
    }
}
pub fn w8kind_val(k: &Utf8WindowsPrefix) -> Val {
    w8kind(k)
}
impl CompVal for UnixComponent<'_> {
    fn val(&self) -> Val {
        match self {
            UnixComponent::RootDir => c("R", vec![]),
            UnixComponent::CurDir => c("C", vec![]),
            UnixComponent::ParentDir => c("P", vec![]),
            UnixComponent::Normal(x) => c("Nm", vec![b(x)]),
        }
    }
    fn inner(&self) -> Option<&[u8]> {
        match self {
            UnixComponent::Normal(x) => Some(x),
            _ => None,
        }
    }
    fn bytes(&self) -> Vec<u8> {
        self.as_bytes().to_vec()
    }
    fn valid(&self) -> Val {
        Val::Bool(self.is_valid())
    }
}
impl CompVal for WindowsComponent<'_> {
    fn val(&self) -> Val {
        match self {
            WindowsComponent::Prefix(p) => c("Px", vec![b(p.as_bytes()), wkind(&p.kind())]),
            WindowsComponent::RootDir => c("R", vec![]),
            WindowsComponent::CurDir => c("C", vec![]),
            WindowsComponent::ParentDir => c("P", vec![]),
            WindowsComponent::Normal(x) => c("Nm", vec![b(x)]),
        }
    }
    fn inner(&self) -> Option<&[u8]> {
        match self {
            WindowsComponent::Normal(x) => Some(x),
            WindowsComponent::Prefix(p) => Some(p.as_bytes()),
            _ => None,
        }
    }
    fn bytes(&self) -> Vec<u8> {
        self.as_bytes().to_vec()
    }
    fn valid(&self) -> Val {
        Val::Bool(self.is_valid())
    }
}
impl CompVal for Utf8UnixComponent<'_> {
    fn val(&self) -> Val {
        match self {
            Utf8UnixComponent::RootDir => c("R", vec![]),
            Utf8UnixComponent::CurDir => c("C", vec![]),
            Utf8UnixComponent::ParentDir => c("P", vec![]),
            Utf8UnixComponent::Normal(x) => c("Nm", vec![b(x.ab())]),
        }
    }
    fn inner(&self) -> Option<&[u8]> {
        match self {
            Utf8UnixComponent::Normal(x) => Some(x.as_bytes()),
            _ => None,
        }
    }
    fn bytes(&self) -> Vec<u8> {
        self.as_str().ab()
    }
    fn valid(&self) -> Val {
        Val::Bool(self.is_valid())
    }
}
impl CompVal for Utf8WindowsComponent<'_> {
    fn val(&self) -> Val {
        match self {
            Utf8WindowsComponent::Prefix(p) => c("Px", vec![b(p.as_str().ab()), w8kind(&p.kind())]),
            Utf8WindowsComponent::RootDir => c("R", vec![]),
            Utf8WindowsComponent::CurDir => c("C", vec![]),
            Utf8WindowsComponent::ParentDir => c("P", vec![]),
            Utf8WindowsComponent::Normal(x) => c("Nm", vec![b(x.ab())]),
        }
    }
    fn inner(&self) -> Option<&[u8]> {
        match self {
            Utf8WindowsComponent::Normal(x) => Some(x.as_bytes()),
            Utf8WindowsComponent::Prefix(p) => Some(p.as_str().as_bytes()),
            _ => None,
        }
    }
    fn bytes(&self) -> Vec<u8> {
        self.as_str().ab()
    }
    fn valid(&self) -> Val {
        Val::Bool(self.is_valid())
    }
}
impl CompVal for TypedComponent<'_> {
    fn val(&self) -> Val {
        match self {
            TypedComponent::Unix(x) => x.val(),
            TypedComponent::Windows(x) => x.val(),
        }
    }
    fn inner(&self) -> Option<&[u8]> {
        match self {
            TypedComponent::Unix(x) => x.inner(),
            TypedComponent::Windows(x) => x.inner(),
        }
    }
    fn bytes(&self) -> Vec<u8> {
        self.as_bytes().to_vec()
    }
    fn valid(&self) -> Val {
        Val::N
    }
}
impl CompVal for Utf8TypedComponent<'_> {
    fn val(&self) -> Val {
        match self {
            Utf8TypedComponent::Unix(x) => x.val(),
            Utf8TypedComponent::Windows(x) => x.val(),
        }
    }
    fn inner(&self) -> Option<&[u8]> {
        match self {
            Utf8TypedComponent::Unix(x) => x.inner(),
            Utf8TypedComponent::Windows(x) => x.inner(),
        }
    }
    fn bytes(&self) -> Vec<u8> {
        self.as_str().ab()
    }
    fn valid(&self) -> Val {
        Val::N
    }
}

pub fn off_in(p: &[u8], x: &[u8]) -> Val {
    let a = p.as_ptr() as usize;
    let s = x.as_ptr() as usize;
    if s >= a && s + x.len() <= a + p.len() {
        some(Val::I((s - a) as u64))
    } else {
        c("outside", vec![])
    }
}
pub fn err_val(e: CheckedPathError) -> Val {
    match e {
        CheckedPathError::UnexpectedPrefix => c("EPrefix", vec![]),
        CheckedPathError::UnexpectedRoot => c("ERoot", vec![]),
        CheckedPathError::PathTraversalAttack => c("ETraversal", vec![]),
        CheckedPathError::InvalidFilename => c("EInvalid", vec![]),
    }
}
pub fn ord_val(o: core::cmp::Ordering) -> Val {
    Val::I(match o {
        core::cmp::Ordering::Less => 0,
        core::cmp::Ordering::Equal => 1,
        core::cmp::Ordering::Greater => 2,
    })
}

// ------------------------------------------------------------------ what an iterator reports about itself
/// (t has_root is_absolute path-view-bytes variant) of a components iterator in its current state
pub trait ItState {
    fn it_state(&self) -> Val;
}
fn its(hr: bool, ab: bool, bytes: Vec<u8>, var: Val, px: Val) -> Val {
    c("t", vec![Val::Bool(hr), Val::Bool(ab), b(&bytes), var, px])
}
impl ItState for UnixComponents<'_> {
    fn it_state(&self) -> Val {
        its(self.has_root(), self.is_absolute(), self.as_path::<UnixEncoding>().as_bytes().to_vec(), Val::N, Val::N)
    }
}
impl ItState for WindowsComponents<'_> {
    fn it_state(&self) -> Val {
        let px = opt(self.prefix(), |x| t2(b(x.as_bytes()), wkind(&x.kind())));
        // the queries built on prefix() must agree with it
        let consistent = self.has_prefix() == self.prefix().is_some() && self.prefix_kind() == self.prefix().map(|x| x.kind());
        let px = if consistent { px } else { c("prefix_queries_disagree", vec![]) };
        its(self.has_root(), self.is_absolute(), self.as_path::<WindowsEncoding>().as_bytes().to_vec(), Val::N, px)
    }
}
impl ItState for Utf8UnixComponents<'_> {
    fn it_state(&self) -> Val {
        its(self.has_root(), self.is_absolute(), self.as_path::<Utf8UnixEncoding>().as_str().as_bytes().to_vec(), Val::N, Val::N)
    }
}
impl ItState for Utf8WindowsComponents<'_> {
    fn it_state(&self) -> Val {
        let px = opt(self.prefix(), |x| t2(b(x.as_str().as_bytes()), w8kind(&x.kind())));
        let consistent = self.has_prefix() == self.prefix().is_some() && self.prefix_kind() == self.prefix().map(|x| x.kind());
        let px = if consistent { px } else { c("prefix_queries_disagree", vec![]) };
        its(self.has_root(), self.is_absolute(), self.as_path::<Utf8WindowsEncoding>().as_str().as_bytes().to_vec(), Val::N, px)
    }
}
impl ItState for TypedComponents<'_> {
    fn it_state(&self) -> Val {
        let p = self.to_path();
        its(self.has_root(), self.is_absolute(), p.as_bytes().to_vec(), p.variant(), Val::N)
    }
}
impl ItState for Utf8TypedComponents<'_> {
    fn it_state(&self) -> Val {
        let p = self.to_path();
        its(self.has_root(), self.is_absolute(), p.as_str().as_bytes().to_vec(), p.variant(), Val::N)
    }
}

// ------------------------------------------------------------------ the interface
pub trait Api {
    /// Some(()) when the family can represent these bytes (UTF-8 families need valid UTF-8)
    fn accepts(p: &[u8]) -> bool;
    fn sched(p: &[u8], sched: &[bool]) -> Val;
    fn iter_sched(p: &[u8], sched: &[bool]) -> Val;
    fn flags(p: &[u8]) -> Val;
    fn is_valid(p: &[u8]) -> Val;
    fn comp_valid(p: &[u8]) -> Val;
    fn parent(p: &[u8]) -> Val;
    fn ancestors(p: &[u8]) -> Val;
    /// variant tags of the paths parent() and ancestors() hand out (runtime-typed families; empty otherwise)
    fn parent_variants(p: &[u8]) -> Val;
    fn names(p: &[u8]) -> Val;
    fn rel(a: &[u8], b_: &[u8]) -> Val;
    fn eqcmp(a: &[u8], b_: &[u8]) -> Val;
    fn hash(p: &[u8]) -> Val;
    fn join(a: &[u8], b_: &[u8]) -> Val;
    fn join_checked(a: &[u8], b_: &[u8]) -> Val;
    fn normalize(p: &[u8]) -> Val;
    fn with_file_name(p: &[u8], n: &[u8]) -> Val;
    fn with_extension(p: &[u8], e: &[u8]) -> Val;
    /// run a history of buffer mutations; snapshot (buffer, result, variant) after every step
    fn hist(init: &[u8], ops: &[Val]) -> Val;
    /// self-consistency of the iterators and components of `a` (and of the first components of `a` and `b`):
    /// (list of inconsistency tags, parity data = Components == / partial_cmp after 1 and 2 front steps on both)
    fn cons(a: &[u8], b_: &[u8]) -> (Vec<Val>, Val);
}

pub fn not_utf8() -> Val {
    c("notutf8", vec![])
}

macro_rules! impl_api {
    // $name: marker type; $mk: |bytes| -> path value (borrowed view); $arg: |bytes| -> argument
    // $buf: |bytes| -> owned buffer; $utf8: whether inputs must be UTF-8
    ($name:ident, utf8 = $utf8:expr, path = |$pb:ident| $mk:expr, arg = |$ab:ident| $arg:expr, buf = |$bb:ident| $buf:expr,
     collect = |$cb:ident| $collect:expr, has_valid = $hv:tt) => {
        pub struct $name;
        impl Api for $name {
            fn accepts(p: &[u8]) -> bool {
                !$utf8 || std::str::from_utf8(p).is_ok()
            }
            fn sched(p: &[u8], sched: &[bool]) -> Val {
                let $pb = p;
                let path = $mk;
                let mut it = path.components();
                let mut steps = Vec::new();
                for d in sched {
                    let cm = if *d { it.next_back() } else { it.next() };
                    let off = match &cm {
                        Some(x) => match x.inner() {
                            Some(s) => off_in(path.raw(), s),
                            None => Val::N,
                        },
                        None => Val::N,
                    };
                    steps.push(c("st", vec![opt(cm, |x| x.val()), b(it.ab()), off, it.it_state()]));
                    it = it.clone(); // every later step runs on a clone of the partially consumed iterator
                }
                Val::L(steps)
            }
            fn iter_sched(p: &[u8], sched: &[bool]) -> Val {
                let $pb = p;
                let path = $mk;
                let mut it = path.iter();
                let mut steps = Vec::new();
                for d in sched {
                    let cm = if *d { it.next_back() } else { it.next() };
                    steps.push(t2(opt(cm, |x| b(x.ab())), b(it.ab())));
                    it = it.clone();
                }
                Val::L(steps)
            }
            fn flags(p: &[u8]) -> Val {
                let $pb = p;
                let path = $mk;
                c("t", vec![Val::Bool(path.has_root()), Val::Bool(path.is_absolute()), Val::Bool(path.is_relative())])
            }
            fn is_valid(p: &[u8]) -> Val {
                let $pb = p;
                let path = $mk;
                impl_api!(@valid $hv, path)
            }
            fn comp_valid(p: &[u8]) -> Val {
                let $pb = p;
                let path = $mk;
                list(path.components(), |x| x.valid())
            }
            fn parent(p: &[u8]) -> Val {
                let $pb = p;
                let path = $mk;
                opt(path.parent(), |x| b(x.ab()))
            }
            fn ancestors(p: &[u8]) -> Val {
                let $pb = p;
                let path = $mk;
                let mut v = Vec::new();
                for (i, a) in path.ancestors().enumerate() {
                    if i > p.len() + 3 {
                        v.push(c("runaway", vec![]));
                        break;
                    }
                    v.push(b(a.ab()));
                }
                Val::L(v)
            }
            fn parent_variants(p: &[u8]) -> Val {
                let $pb = p;
                let path = $mk;
                let mut v = Vec::new();
                if let Some(x) = path.parent() {
                    v.push(x.variant());
                }
                for (i, a) in path.ancestors().enumerate() {
                    if i > p.len() + 3 {
                        break;
                    }
                    v.push(a.variant());
                }
                Val::L(v.into_iter().filter(|x| !matches!(x, Val::N)).collect())
            }
            fn names(p: &[u8]) -> Val {
                let $pb = p;
                let path = $mk;
                c("t", vec![
                    opt(path.file_name(), |x| b(x.ab())),
                    opt(path.file_stem(), |x| b(x.ab())),
                    opt(path.extension(), |x| b(x.ab())),
                ])
            }
            fn rel(a: &[u8], b_: &[u8]) -> Val {
                let $pb = a;
                let path = $mk;
                let $ab = b_;
                let arg = $arg;
                c("t", vec![
                    Val::Bool(path.starts_with(arg)),
                    Val::Bool(path.ends_with(arg)),
                    opt(path.strip_prefix(arg).ok(), |x| b(x.ab())),
                ])
            }
            fn cons(a: &[u8], b_: &[u8]) -> (Vec<Val>, Val) {
                use crate::selfcheck::{de_checks, iter_checks};
                let mut bad: Vec<Val> = Vec::new();
                let $pb = a;
                let pa = $mk;
                let $pb = b_;
                let pb_ = $mk;
                // components(): fresh, after one front step, after one back step
                let it = pa.components();
                iter_checks("components", &it, &|x| x.val(), &mut bad);
                de_checks("components", &it, &|x| x.val(), &mut bad);
                let mut it1 = pa.components();
                it1.next();
                iter_checks("components+f", &it1, &|x| x.val(), &mut bad);
                de_checks("components+f", &it1, &|x| x.val(), &mut bad);
                let mut it2 = pa.components();
                it2.next_back();
                iter_checks("components+b", &it2, &|x| x.val(), &mut bad);
                de_checks("components+b", &it2, &|x| x.val(), &mut bad);
                // iter()
                let ii = pa.iter();
                iter_checks("iter", &ii, &|x| x.ab(), &mut bad);
                de_checks("iter", &ii, &|x| x.ab(), &mut bad);
                let mut ii1 = pa.iter();
                ii1.next();
                iter_checks("iter+f", &ii1, &|x| x.ab(), &mut bad);
                de_checks("iter+f", &ii1, &|x| x.ab(), &mut bad);
                let mut ii2 = pa.iter();
                ii2.next_back();
                iter_checks("iter+b", &ii2, &|x| x.ab(), &mut bad);
                // ancestors()
                let an = pa.ancestors();
                iter_checks("ancestors", &an, &|x| x.ab(), &mut bad);
                let mut an1 = pa.ancestors();
                an1.next();
                iter_checks("ancestors+f", &an1, &|x| x.ab(), &mut bad);
                // Eq / Ord / Hash coherence of the first components of a and b
                if let (Some(x), Some(y)) = (pa.components().next(), pb_.components().next()) {
                    let e = x == y;
                    if (x.cmp(&y) == core::cmp::Ordering::Equal) != e || (x.partial_cmp(&y) == Some(core::cmp::Ordering::Equal)) != e {
                        bad.push(c("component:eq_vs_cmp", vec![]));
                    }
                    if e && feed(&x) != feed(&y) {
                        bad.push(c("component:eq_but_hash_differs", vec![]));
                    }
                }
                // parity data: what == / partial_cmp of two partially consumed Components answer
                let mut par = Vec::new();
                for k in 1..=2 {
                    let (mut ia, mut ib) = (pa.components(), pb_.components());
                    for _ in 0..k {
                        ia.next();
                        ib.next();
                    }
                    par.push(c("t", vec![Val::Bool(PartialEq::eq(&ia, &ib)), opt(PartialOrd::partial_cmp(&ia, &ib), ord_val)]));
                }
                (bad, Val::L(par))
            }
            fn eqcmp(a: &[u8], b_: &[u8]) -> Val {
                let $pb = a;
                let pa = $mk;
                let $pb = b_;
                let pb_ = $mk;
                c("t", vec![
                    Val::Bool(PartialEq::eq(&pa, &pb_)),
                    ord_val(Ord::cmp(&pa, &pb_)),
                    opt(PartialOrd::partial_cmp(&pa, &pb_), ord_val),
                    Val::Bool(PartialEq::ne(&pa, &pb_)),
                ])
            }
            fn hash(p: &[u8]) -> Val {
                let $pb = p;
                let path = $mk;
                feed(&path)
            }
            fn join(a: &[u8], b_: &[u8]) -> Val {
                let $pb = a;
                let path = $mk;
                let $ab = b_;
                let arg = $arg;
                let r = path.join(arg);
                t2(b(r.ab()), r.variant())
            }
            fn join_checked(a: &[u8], b_: &[u8]) -> Val {
                let $pb = a;
                let path = $mk;
                let $ab = b_;
                let arg = $arg;
                match path.join_checked(arg) {
                    Ok(r) => c("ok", vec![b(r.ab())]),
                    Err(e) => c("err", vec![err_val(e)]),
                }
            }
            fn normalize(p: &[u8]) -> Val {
                let $pb = p;
                let path = $mk;
                b(path.normalize().ab())
            }
            fn with_file_name(p: &[u8], n: &[u8]) -> Val {
                let $pb = p;
                let path = $mk;
                let $ab = n;
                let arg = $arg;
                b(path.with_file_name(arg).ab())
            }
            fn with_extension(p: &[u8], e: &[u8]) -> Val {
                let $pb = p;
                let path = $mk;
                let $ab = e;
                let arg = $arg;
                b(path.with_extension(arg).ab())
            }
            fn hist(init: &[u8], ops: &[Val]) -> Val {
                let $bb = init;
                let mut buf = $buf;
                let mut out = Vec::new();
                for op in ops {
                    let (tag, a) = op.tag();
                    let res: Val = match tag {
                        "push" => {
                            let $ab = a[0].bytes();
                            buf.push($arg);
                            Val::N
                        }
                        "pushc" => {
                            let $ab = a[0].bytes();
                            match buf.push_checked($arg) {
                                Ok(()) => Val::N,
                                Err(e) => err_val(e),
                            }
                        }
                        "pop" => Val::Bool(buf.pop()),
                        "sfn" => {
                            let $ab = a[0].bytes();
                            buf.set_file_name($arg);
                            Val::N
                        }
                        "sext" => {
                            let $ab = a[0].bytes();
                            Val::Bool(buf.set_extension($arg))
                        }
                        "clear" => {
                            buf.clear();
                            Val::N
                        }
                        "join" => {
                            let $ab = a[0].bytes();
                            buf = buf.join($arg);
                            Val::N
                        }
                        "wfn" => {
                            let $ab = a[0].bytes();
                            buf = buf.with_file_name($arg);
                            Val::N
                        }
                        "wext" => {
                            let $ab = a[0].bytes();
                            buf = buf.with_extension($arg);
                            Val::N
                        }
                        "norm" => {
                            buf = buf.normalize();
                            Val::N
                        }
                        "extend" => {
                            for x in a[0].items() {
                                let $ab = x.bytes();
                                buf.push($arg);
                            }
                            Val::N
                        }
                        // capacity management: the contents must not change, and the documented contracts of the
                        // underlying Vec / String hold (reserve: room for n more; shrink_to: never below the length or
                        // the requested minimum, never above the old capacity; shrink_to_fit: never below the length)
                        "reserve" => {
                            let n = a[0].int() as usize;
                            buf.reserve(n);
                            if buf.capacity() >= buf.ab().len() + n { Val::N } else { c("badcap", vec![]) }
                        }
                        "shrinkfit" => {
                            let old = buf.capacity();
                            buf.shrink_to_fit();
                            if buf.capacity() >= buf.ab().len() && buf.capacity() <= old { Val::N } else { c("badcap", vec![]) }
                        }
                        "shrinkto" => {
                            let n = a[0].int() as usize;
                            let old = buf.capacity();
                            let len = buf.ab().len();
                            buf.shrink_to(n);
                            let cap = buf.capacity();
                            if cap >= len && cap <= old && (old < n || cap >= n) { Val::N } else { c("badcap", vec![]) }
                        }
                        "clonefrom" => {
                            let $bb = a[0].bytes();
                            let other = $buf;
                            buf.clone_from(&other);
                            Val::N
                        }
                        "collect" => {
                            let $cb = a[0].items();
                            buf = $collect;
                            Val::N
                        }
                        _ => c("badop", vec![]),
                    };
                    out.push(c("t", vec![b(buf.ab()), res, buf.variant()]));
                }
                Val::L(out)
            }
        }
    };
    (@valid yes, $path:ident) => { Val::Bool($path.is_valid()) };
    (@valid no, $path:ident) => { Val::N };
}

fn s(x: &[u8]) -> &str {
    std::str::from_utf8(x).expect("harness: utf8 family fed invalid utf8")
}

impl_api!(UB, utf8 = false, path = |p| UnixPath::new(p), arg = |a| a, buf = |x| UnixPathBuf::from(x),
          collect = |xs| xs.iter().map(|x| x.bytes()).collect::<UnixPathBuf>(), has_valid = yes);
impl_api!(WB, utf8 = false, path = |p| WindowsPath::new(p), arg = |a| a, buf = |x| WindowsPathBuf::from(x),
          collect = |xs| xs.iter().map(|x| x.bytes()).collect::<WindowsPathBuf>(), has_valid = yes);
impl_api!(U8, utf8 = true, path = |p| Utf8UnixPath::new(s(p)), arg = |a| s(a), buf = |x| Utf8UnixPathBuf::from(s(x)),
          collect = |xs| xs.iter().map(|x| s(x.bytes())).collect::<Utf8UnixPathBuf>(), has_valid = yes);
impl_api!(W8, utf8 = true, path = |p| Utf8WindowsPath::new(s(p)), arg = |a| s(a), buf = |x| Utf8WindowsPathBuf::from(s(x)),
          collect = |xs| xs.iter().map(|x| s(x.bytes())).collect::<Utf8WindowsPathBuf>(), has_valid = yes);
impl_api!(TU, utf8 = false, path = |p| TypedPath::unix(p), arg = |a| a, buf = |x| TypedPathBuf::from_unix(x),
          collect = |xs| { let mut t = TypedPathBuf::unix(); for x in xs { t.push(x.bytes()); } t }, has_valid = no);
impl_api!(TW, utf8 = false, path = |p| TypedPath::windows(p), arg = |a| a, buf = |x| TypedPathBuf::from_windows(x),
          collect = |xs| { let mut t = TypedPathBuf::windows(); for x in xs { t.push(x.bytes()); } t }, has_valid = no);
impl_api!(T8U, utf8 = true, path = |p| Utf8TypedPath::unix(s(p)), arg = |a| s(a), buf = |x| Utf8TypedPathBuf::from_unix(s(x)),
          collect = |xs| { let mut t = Utf8TypedPathBuf::unix(); for x in xs { t.push(s(x.bytes())); } t }, has_valid = no);
impl_api!(T8W, utf8 = true, path = |p| Utf8TypedPath::windows(s(p)), arg = |a| s(a), buf = |x| Utf8TypedPathBuf::from_windows(s(x)),
          collect = |xs| { let mut t = Utf8TypedPathBuf::windows(); for x in xs { t.push(s(x.bytes())); } t }, has_valid = no);

// owned buffers: PathBuf / Utf8PathBuf have their own Eq / Ord / Hash impls, TypedPathBuf / Utf8TypedPathBuf
// re-dispatch every query: families bu bw b8u b8w tbu tbw tb8u tb8w
impl_api!(BU, utf8 = false, path = |p| UnixPathBuf::from(p), arg = |a| a, buf = |x| UnixPathBuf::from(x),
          collect = |xs| xs.iter().map(|x| x.bytes()).collect::<UnixPathBuf>(), has_valid = yes);
impl_api!(BW, utf8 = false, path = |p| WindowsPathBuf::from(p), arg = |a| a, buf = |x| WindowsPathBuf::from(x),
          collect = |xs| xs.iter().map(|x| x.bytes()).collect::<WindowsPathBuf>(), has_valid = yes);
impl_api!(B8U, utf8 = true, path = |p| Utf8UnixPathBuf::from(s(p)), arg = |a| s(a), buf = |x| Utf8UnixPathBuf::from(s(x)),
          collect = |xs| xs.iter().map(|x| s(x.bytes())).collect::<Utf8UnixPathBuf>(), has_valid = yes);
impl_api!(B8W, utf8 = true, path = |p| Utf8WindowsPathBuf::from(s(p)), arg = |a| s(a), buf = |x| Utf8WindowsPathBuf::from(s(x)),
          collect = |xs| xs.iter().map(|x| s(x.bytes())).collect::<Utf8WindowsPathBuf>(), has_valid = yes);
impl_api!(TBU, utf8 = false, path = |p| TypedPathBuf::from_unix(p), arg = |a| a, buf = |x| TypedPathBuf::from_unix(x),
          collect = |xs| { let mut t = TypedPathBuf::unix(); for x in xs { t.push(x.bytes()); } t }, has_valid = no);
impl_api!(TBW, utf8 = false, path = |p| TypedPathBuf::from_windows(p), arg = |a| a, buf = |x| TypedPathBuf::from_windows(x),
          collect = |xs| { let mut t = TypedPathBuf::windows(); for x in xs { t.push(x.bytes()); } t }, has_valid = no);
impl_api!(TB8U, utf8 = true, path = |p| Utf8TypedPathBuf::from_unix(s(p)), arg = |a| s(a), buf = |x| Utf8TypedPathBuf::from_unix(s(x)),
          collect = |xs| { let mut t = Utf8TypedPathBuf::unix(); for x in xs { t.push(s(x.bytes())); } t }, has_valid = no);
impl_api!(TB8W, utf8 = true, path = |p| Utf8TypedPathBuf::from_windows(s(p)), arg = |a| s(a), buf = |x| Utf8TypedPathBuf::from_windows(s(x)),
          collect = |xs| { let mut t = Utf8TypedPathBuf::windows(); for x in xs { t.push(s(x.bytes())); } t }, has_valid = no);

// PlatformEncoding forwards to the native encoding of the host (Unix here): families pu / p8
impl_api!(PB, utf8 = false, path = |p| PlatformPath::new(p), arg = |a| a, buf = |x| PlatformPathBuf::from(x),
          collect = |xs| xs.iter().map(|x| x.bytes()).collect::<PlatformPathBuf>(), has_valid = yes);
impl_api!(P8, utf8 = true, path = |p| Utf8PlatformPath::new(s(p)), arg = |a| s(a), buf = |x| Utf8PlatformPathBuf::from(s(x)),
          collect = |xs| xs.iter().map(|x| s(x.bytes())).collect::<Utf8PlatformPathBuf>(), has_valid = yes);

/// TryFrom for single components / prefixes (byte families)
pub fn u_try_from(p: &[u8]) -> Val {
    opt(UnixComponent::try_from(p).ok(), |x| x.val())
}
pub fn w_try_from(p: &[u8]) -> Val {
    opt(WindowsComponent::try_from(p).ok(), |x| x.val())
}
