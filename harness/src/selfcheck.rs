//! Self-consistency observations (op `cons`): things whose contract is fixed by the standard traits
//! themselves, so that no model of the crate is needed to judge them.  Every function pushes a tag for
//! each inconsistency it finds; an empty list is the only acceptable answer.
//!  * the std iterator methods (last, count, nth, size_hint, rev, nth_back, fused behaviour) of the crate's
//!    own iterators against the sequence their own next() / next_back() produce;
//!  * comparison impls between different types against the same comparison between two paths;
//!  * Eq / Ord / Hash coherence of single components.
use crate::val::*;

fn tag(what: &str, which: &str) -> Val {
    c(&format!("{what}:{which}"), vec![])
}

pub fn iter_checks<I, K>(name: &str, it: &I, key: &dyn Fn(I::Item) -> K, bad: &mut Vec<Val>)
where
    I: Iterator + Clone,
    K: PartialEq + Clone,
{
    let mut reference: Vec<K> = Vec::new();
    let mut cl = it.clone();
    while let Some(x) = cl.next() {
        reference.push(key(x));
        if reference.len() > 20000 {
            bad.push(tag(name, "runaway"));
            return;
        }
    }
    let n = reference.len();
    if it.clone().last().map(key) != reference.last().cloned() {
        bad.push(tag(name, "last"));
    }
    if it.clone().count() != n {
        bad.push(tag(name, "count"));
    }
    let (lo, hi) = it.size_hint();
    if lo > n || hi.map_or(false, |h| h < n) {
        bad.push(tag(name, "size_hint"));
    }
    let kmax = if n > 12 { 3 } else { n + 1 };
    for k in (0..=kmax).chain(if n > 12 { vec![n - 1, n, n + 1] } else { vec![] }) {
        let mut cl = it.clone();
        if cl.nth(k).map(key) != reference.get(k).cloned() {
            bad.push(tag(name, "nth"));
        }
        // what follows nth(k) is element k+1; after an overshoot the iterator is finished
        if cl.next().map(key) != reference.get(k + 1).cloned() {
            bad.push(tag(name, "next_after_nth"));
        }
    }
    let mut cl = it.clone();
    for _ in 0..n {
        cl.next();
    }
    for _ in 0..3 {
        if cl.next().is_some() {
            bad.push(tag(name, "not_fused"));
        }
    }
}

pub fn de_checks<I, K>(name: &str, it: &I, key: &dyn Fn(I::Item) -> K, bad: &mut Vec<Val>)
where
    I: DoubleEndedIterator + Clone,
    K: PartialEq + Clone,
{
    let mut reference: Vec<K> = Vec::new();
    let mut cl = it.clone();
    while let Some(x) = cl.next() {
        reference.push(key(x));
        if reference.len() > 20000 {
            return;
        }
    }
    let n = reference.len();
    let rv: Vec<K> = it.clone().rev().map(key).collect();
    let mut want = reference.clone();
    want.reverse();
    if rv != want {
        bad.push(tag(name, "rev"));
    }
    let kmax = if n > 12 { 3 } else { n + 1 };
    for k in 0..=kmax {
        let mut cl = it.clone();
        let w = if k < n { Some(reference[n - 1 - k].clone()) } else { None };
        if cl.nth_back(k).map(key) != w {
            bad.push(tag(name, "nth_back"));
        }
    }
    let mut cl = it.clone();
    for _ in 0..n {
        cl.next_back();
    }
    for _ in 0..3 {
        if cl.next_back().is_some() || cl.next().is_some() {
            bad.push(tag(name, "not_fused_back"));
        }
    }
}

/// `lhs OP rhs` across types must be the same OP between the two read as paths of one type
#[macro_export]
macro_rules! cross {
    ($bad:expr, $name:expr, $eq:expr, $ord:expr, $l:expr, $r:expr) => {{
        if ($l == $r) != $eq || ($r == $l) != $eq {
            $bad.push($crate::val::c(&format!("cross_eq:{}", $name), vec![]));
        }
        if $l.partial_cmp(&$r) != $ord || $r.partial_cmp(&$l) != $ord.map(|o: core::cmp::Ordering| o.reverse()) {
            $bad.push($crate::val::c(&format!("cross_cmp:{}", $name), vec![]));
        }
    }};
}
#[macro_export]
macro_rules! cross_eq {
    ($bad:expr, $name:expr, $eq:expr, $l:expr, $r:expr) => {{
        if ($l == $r) != $eq || ($r == $l) != $eq {
            $bad.push($crate::val::c(&format!("cross_eq:{}", $name), vec![]));
        }
    }};
}
