//! Operations.  Each composite operation cNN gathers, for one case, everything the
//! property's oracle needs to see (see coq/theories/Ops.v for the matching model_cNN).
//! The suffix after the dot selects the API family: u w (byte), u8 w8 (UTF-8),
//! tu tw (runtime-typed), t8u t8w (runtime-typed UTF-8).
use crate::api::*;
#[cfg(all(feature = "std", unix))]
use crate::stdapi::*;
use crate::val::*;
use typed_path::*;

fn sched_of(v: &Val) -> Vec<bool> {
    v.bytes().iter().map(|x| *x != 0).collect()
}

/// c01 p sched : typed-path Unix components under a schedule, next to real std::path
#[cfg(all(feature = "std", unix))]
fn c01(args: &[Val]) -> Val {
    let p = args[0].bytes();
    let sched = sched_of(&args[1]);
    let path = UnixPath::new(p);
    let mut it = path.components();
    let mut steps = Vec::new();
    let mut flags = Vec::new();
    for d in sched.iter() {
        let cm = if *d { it.next_back() } else { it.next() };
        steps.push(t2(opt(cm, |x| x.val()), b(it.as_bytes())));
        flags.push(t2(Val::Bool(it.has_root()), Val::Bool(it.is_absolute())));
    }
    let sp_ = sp(p);
    let mut sit = sp_.components();
    let mut ssteps = Vec::new();
    let mut sflags = Vec::new();
    for d in sched.iter() {
        let cm = if *d { sit.next_back() } else { sit.next() };
        ssteps.push(t2(opt(cm, |x| comp(&x)), list(sit.as_path().components(), |x| comp(&x))));
        sflags.push(t2(Val::Bool(sit.as_path().has_root()), Val::Bool(sit.as_path().is_absolute())));
    }
    c("c01", vec![
        Val::L(steps),
        Val::L(ssteps),
        Val::Bool(path.has_root()),
        Val::Bool(path.is_absolute()),
        Val::Bool(sp_.has_root()),
        Val::Bool(sp_.is_absolute()),
        u_try_from(p),
        Val::L(flags),
        Val::L(sflags),
    ])
}

/// c03 p sched : components and iter under a schedule, with remainders and offsets
fn c03<A: Api>(args: &[Val]) -> Val {
    let p = args[0].bytes();
    if !A::accepts(p) {
        return not_utf8();
    }
    let sched = sched_of(&args[1]);
    c("c03", vec![A::sched(p, &sched), A::iter_sched(p, &sched)])
}

/// c04 base p : push_checked (buffer after, error), join_checked, unchecked join
fn c04<A: Api>(args: &[Val]) -> Val {
    let (base, p) = (args[0].bytes(), args[1].bytes());
    if !A::accepts(base) || !A::accepts(p) {
        return not_utf8();
    }
    c("c04", vec![A::hist(base, &[c("pushc", vec![b(p)])]), A::join_checked(base, p), A::join(base, p)])
}

/// c05 a b : eq / cmp / partial_cmp / ne and the hasher feeds of both
fn c05<A: Api>(args: &[Val]) -> Val {
    let (a, b_) = (args[0].bytes(), args[1].bytes());
    if !A::accepts(a) || !A::accepts(b_) {
        return not_utf8();
    }
    c("c05", vec![A::eqcmp(a, b_), A::hash(a), A::hash(b_)])
}

/// c06 a b : the queries C06 names
fn c06<A: Api>(args: &[Val]) -> Val {
    let (a, b_) = (args[0].bytes(), args[1].bytes());
    if !A::accepts(a) || !A::accepts(b_) {
        return not_utf8();
    }
    c("c06", vec![A::parent(a), A::ancestors(a), A::names(a), A::rel(a, b_), A::eqcmp(a, b_), A::flags(a)])
}

/// hist init ops : a mutation history with a snapshot after every step
fn hist<A: Api>(args: &[Val]) -> Val {
    let init = args[0].bytes();
    let ops = args[1].items();
    if !A::accepts(init) {
        return not_utf8();
    }
    for o in ops {
        let (_, a) = o.tag();
        for x in a {
            match x {
                Val::B(v) => {
                    if !A::accepts(v) {
                        return not_utf8();
                    }
                }
                Val::L(l) => {
                    for y in l {
                        if !A::accepts(y.bytes()) {
                            return not_utf8();
                        }
                    }
                }
                _ => {}
            }
        }
    }
    c("hist", vec![A::hist(init, ops)])
}

fn c08<A: Api>(args: &[Val]) -> Val {
    let (a, b_) = (args[0].bytes(), args[1].bytes());
    if !A::accepts(a) || !A::accepts(b_) {
        return not_utf8();
    }
    c("c08", vec![A::join(a, b_), A::hist(a, &[c("push", vec![b(b_)])])])
}

/// c09 p : parent, ancestors, pop
fn c09<A: Api>(args: &[Val]) -> Val {
    let p = args[0].bytes();
    if !A::accepts(p) {
        return not_utf8();
    }
    c("c09", vec![A::parent(p), A::ancestors(p), A::hist(p, &[c("pop", vec![])]), A::parent_variants(p)])
}

fn c10<A: Api>(args: &[Val]) -> Val {
    let (a, b_) = (args[0].bytes(), args[1].bytes());
    if !A::accepts(a) || !A::accepts(b_) {
        return not_utf8();
    }
    let j = A::join(a, b_);
    let jb = match &j {
        Val::C(_, v) => v[0].bytes().to_vec(),
        _ => vec![],
    };
    c("c10", vec![A::rel(a, b_), A::eqcmp(a, b_), j, A::rel(&jb, a)])
}

fn c11<A: Api>(args: &[Val]) -> Val {
    let p = args[0].bytes();
    if !A::accepts(p) {
        return not_utf8();
    }
    let n = A::normalize(p);
    let nb = n.bytes().to_vec();
    let sched = vec![false; nb.len() + 1];
    c("c11", vec![n, A::flags(p), A::flags(&nb), A::normalize(&nb), A::sched(&nb, &sched)])
}

fn c12<A: Api>(args: &[Val]) -> Val {
    let (p, n) = (args[0].bytes(), args[1].bytes());
    if !A::accepts(p) || !A::accepts(n) {
        return not_utf8();
    }
    let w = A::with_file_name(p, n);
    let wb = w.bytes().to_vec();
    c("c12", vec![A::names(p), w, A::names(&wb), A::parent(&wb), A::parent(p), A::join(p, n)])
}

fn c13<A: Api>(args: &[Val]) -> Val {
    let (p, e) = (args[0].bytes(), args[1].bytes());
    if !A::accepts(p) || !A::accepts(e) {
        return not_utf8();
    }
    let r = A::with_extension(p, e);
    let rb = r.bytes().to_vec();
    c("c13", vec![A::hist(p, &[c("sext", vec![b(e)])]), r, A::names(&rb), A::parent(&rb), A::parent(p), A::names(p)])
}

fn c17<A: Api>(args: &[Val]) -> Val {
    let p = args[0].bytes();
    if !A::accepts(p) {
        return not_utf8();
    }
    c("c17", vec![A::is_valid(p), A::comp_valid(p), A::join_checked(b"", p)])
}

fn res<T: AB>(r: Result<T, CheckedPathError>) -> Val {
    match r {
        Ok(x) => c("ok", vec![b(x.ab())]),
        Err(e) => c("err", vec![err_val(e)]),
    }
}

/// c16 p : conversion to the other encoding (unchecked / checked), to the own encoding, and back
fn c16(suffix: &str, args: &[Val]) -> Val {
    let p = args[0].bytes();
    match suffix {
        "u" => {
            let x = UnixPath::new(p);
            let o = x.with_encoding::<WindowsEncoding>();
            c("c16", vec![
                b(o.ab()),
                res(x.with_encoding_checked::<WindowsEncoding>()),
                b(x.with_encoding::<UnixEncoding>().ab()),
                res(x.with_encoding_checked::<UnixEncoding>()),
                b(o.with_encoding::<UnixEncoding>().ab()),
            ])
        }
        "w" => {
            let x = WindowsPath::new(p);
            let o = x.with_encoding::<UnixEncoding>();
            c("c16", vec![
                b(o.ab()),
                res(x.with_encoding_checked::<UnixEncoding>()),
                b(x.with_encoding::<WindowsEncoding>().ab()),
                res(x.with_encoding_checked::<WindowsEncoding>()),
                b(o.with_encoding::<WindowsEncoding>().ab()),
            ])
        }
        "u8" => {
            let st = match std::str::from_utf8(p) {
                Ok(x) => x,
                Err(_) => return not_utf8(),
            };
            let x = Utf8UnixPath::new(st);
            let o = x.with_encoding::<Utf8WindowsEncoding>();
            c("c16", vec![
                b(o.ab()),
                res(x.with_encoding_checked::<Utf8WindowsEncoding>()),
                b(x.with_encoding::<Utf8UnixEncoding>().ab()),
                res(x.with_encoding_checked::<Utf8UnixEncoding>()),
                b(o.with_encoding::<Utf8UnixEncoding>().ab()),
            ])
        }
        "w8" => {
            let st = match std::str::from_utf8(p) {
                Ok(x) => x,
                Err(_) => return not_utf8(),
            };
            let x = Utf8WindowsPath::new(st);
            let o = x.with_encoding::<Utf8UnixEncoding>();
            c("c16", vec![
                b(o.ab()),
                res(x.with_encoding_checked::<Utf8UnixEncoding>()),
                b(x.with_encoding::<Utf8WindowsEncoding>().ab()),
                res(x.with_encoding_checked::<Utf8WindowsEncoding>()),
                b(o.with_encoding::<Utf8WindowsEncoding>().ab()),
            ])
        }
        "tu" | "tw" => {
            let x = if suffix == "tu" { TypedPath::unix(p) } else { TypedPath::windows(p) };
            let (o, oc, sf, sc) = if suffix == "tu" {
                (x.with_windows_encoding(), x.with_windows_encoding_checked(), x.with_unix_encoding(), x.with_unix_encoding_checked())
            } else {
                (x.with_unix_encoding(), x.with_unix_encoding_checked(), x.with_windows_encoding(), x.with_windows_encoding_checked())
            };
            let back = if suffix == "tu" { o.with_unix_encoding() } else { o.with_windows_encoding() };
            // the documented target variant is part of the observation
            let ok_variants = o.is_unix() != x.is_unix() && sf.is_unix() == x.is_unix() && back.is_unix() == x.is_unix();
            if !ok_variants {
                return c("wrongvariant", vec![]);
            }
            c("c16", vec![b(o.ab()), res(oc), b(sf.ab()), res(sc), b(back.ab())])
        }
        "tbu" | "tbw" => {
            let x = if suffix == "tbu" { TypedPathBuf::from_unix(p) } else { TypedPathBuf::from_windows(p) };
            let u = suffix == "tbu";
            let (o, oc, sf, sc) = if u {
                (x.with_windows_encoding(), x.with_windows_encoding_checked(), x.with_unix_encoding(), x.with_unix_encoding_checked())
            } else {
                (x.with_unix_encoding(), x.with_unix_encoding_checked(), x.with_windows_encoding(), x.with_windows_encoding_checked())
            };
            let back = if u { o.with_unix_encoding() } else { o.with_windows_encoding() };
            let okv = o.is_unix() != u && sf.is_unix() == u && back.is_unix() == u
                && oc.as_ref().map(|r| r.is_unix() != u).unwrap_or(true) && sc.as_ref().map(|r| r.is_unix() == u).unwrap_or(true);
            if !okv {
                return c("wrongvariant", vec![]);
            }
            c("c16", vec![b(o.ab()), res(oc), b(sf.ab()), res(sc), b(back.ab())])
        }
        "tb8u" | "tb8w" => {
            let st = match std::str::from_utf8(p) {
                Ok(x) => x,
                Err(_) => return not_utf8(),
            };
            let u = suffix == "tb8u";
            let x = if u { Utf8TypedPathBuf::from_unix(st) } else { Utf8TypedPathBuf::from_windows(st) };
            let (o, oc, sf, sc) = if u {
                (x.with_windows_encoding(), x.with_windows_encoding_checked(), x.with_unix_encoding(), x.with_unix_encoding_checked())
            } else {
                (x.with_unix_encoding(), x.with_unix_encoding_checked(), x.with_windows_encoding(), x.with_windows_encoding_checked())
            };
            let back = if u { o.with_unix_encoding() } else { o.with_windows_encoding() };
            let okv = o.is_unix() != u && sf.is_unix() == u && back.is_unix() == u
                && oc.as_ref().map(|r| r.is_unix() != u).unwrap_or(true) && sc.as_ref().map(|r| r.is_unix() == u).unwrap_or(true);
            if !okv {
                return c("wrongvariant", vec![]);
            }
            c("c16", vec![b(o.ab()), res(oc), b(sf.ab()), res(sc), b(back.ab())])
        }
        "t8u" | "t8w" => {
            let st = match std::str::from_utf8(p) {
                Ok(x) => x,
                Err(_) => return not_utf8(),
            };
            let x = if suffix == "t8u" { Utf8TypedPath::unix(st) } else { Utf8TypedPath::windows(st) };
            let (o, oc, sf, sc) = if suffix == "t8u" {
                (x.with_windows_encoding(), x.with_windows_encoding_checked(), x.with_unix_encoding(), x.with_unix_encoding_checked())
            } else {
                (x.with_unix_encoding(), x.with_unix_encoding_checked(), x.with_windows_encoding(), x.with_windows_encoding_checked())
            };
            let back = if suffix == "t8u" { o.with_unix_encoding() } else { o.with_windows_encoding() };
            let ok_variants = o.is_unix() != x.is_unix() && sf.is_unix() == x.is_unix() && back.is_unix() == x.is_unix();
            if !ok_variants {
                return c("wrongvariant", vec![]);
            }
            c("c16", vec![b(o.ab()), res(oc), b(sf.ab()), res(sc), b(back.ab())])
        }
        _ => c("unknownfamily", vec![]),
    }
}

/// c02 p : Windows decomposition and every prefix / root query
fn c02(suffix: &str, args: &[Val]) -> Val {
    use core::convert::TryFrom;
    let p = args[0].bytes();
    match suffix {
        "w" => {
            let path = WindowsPath::new(p);
            let cs = path.components();
            let kind = cs.prefix_kind();
            c("c02", vec![
                list(path.components(), |x| x.val()),
                list(path.components().rev(), |x| x.val()),
                c("t", vec![
                    Val::Bool(cs.has_prefix()),
                    opt(kind, |k| wkind_val(&k)),
                    Val::Bool(cs.has_any_verbatim_prefix()),
                    Val::Bool(cs.has_verbatim_prefix()),
                    Val::Bool(cs.has_verbatim_unc_prefix()),
                    Val::Bool(cs.has_verbatim_disk_prefix()),
                    Val::Bool(cs.has_device_ns_prefix()),
                    Val::Bool(cs.has_unc_prefix()),
                    Val::Bool(cs.has_disk_prefix()),
                    Val::Bool(cs.has_physical_root()),
                    Val::Bool(cs.has_implicit_root()),
                    Val::Bool(cs.has_root()),
                    Val::Bool(cs.is_absolute()),
                ]),
                w_try_from(p),
                opt(WindowsPrefixComponent::try_from(p).ok(), |x| t2(b(x.as_bytes()), wkind_val(&x.kind()))),
                opt(kind, |k| t2(Val::I(k.len() as u64), Val::Bool(k.is_verbatim()))),
            ])
        }
        "w8" => {
            let st = match std::str::from_utf8(p) {
                Ok(x) => x,
                Err(_) => return not_utf8(),
            };
            let path = Utf8WindowsPath::new(st);
            let cs = path.components();
            let kind = cs.prefix_kind();
            c("c02", vec![
                list(path.components(), |x| x.val()),
                list(path.components().rev(), |x| x.val()),
                c("t", vec![
                    Val::Bool(cs.has_prefix()),
                    opt(kind, |k| w8kind_val(&k)),
                    Val::Bool(cs.has_any_verbatim_prefix()),
                    Val::Bool(cs.has_verbatim_prefix()),
                    Val::Bool(cs.has_verbatim_unc_prefix()),
                    Val::Bool(cs.has_verbatim_disk_prefix()),
                    Val::Bool(cs.has_device_ns_prefix()),
                    Val::Bool(cs.has_unc_prefix()),
                    Val::Bool(cs.has_disk_prefix()),
                    Val::Bool(cs.has_physical_root()),
                    Val::Bool(cs.has_implicit_root()),
                    Val::Bool(cs.has_root()),
                    Val::Bool(cs.is_absolute()),
                ]),
                opt(Utf8WindowsComponent::try_from(st).ok(), |x| x.val()),
                opt(Utf8WindowsPrefixComponent::try_from(st).ok(), |x| t2(b(x.as_str().ab()), w8kind_val(&x.kind()))),
                opt(kind, |k| t2(Val::I(k.len() as u64), Val::Bool(k.is_verbatim()))),
            ])
        }
        _ => c("unknownfamily", vec![]),
    }
}

/// c15d p : which variant TypedPath::derive (and the From impls) select
fn c15d(args: &[Val]) -> Val {
    let p = args[0].bytes();
    let d = TypedPath::derive(p).is_windows();
    // every construction route: (variant, bytes kept)
    let mut all = vec![
        (d, TypedPath::derive(p).as_bytes() == p),
        (TypedPath::from(p).is_windows(), TypedPath::from(p).as_bytes() == p),
        (TypedPathBuf::from(p).is_windows(), TypedPathBuf::from(p).as_bytes() == p),
        (TypedPathBuf::from(p.to_vec()).is_windows(), TypedPathBuf::from(p.to_vec()).as_bytes() == p),
    ];
    if let Ok(st) = std::str::from_utf8(p) {
        all.push((Utf8TypedPath::derive(st).is_windows(), Utf8TypedPath::derive(st).as_str() == st));
        all.push((Utf8TypedPath::from(st).is_windows(), Utf8TypedPath::from(st).as_str() == st));
        all.push((Utf8TypedPathBuf::from(st).is_windows(), Utf8TypedPathBuf::from(st).as_str() == st));
        all.push((Utf8TypedPathBuf::from(st.to_string()).is_windows(), Utf8TypedPathBuf::from(st.to_string()).as_str() == st));
        all.push((TypedPathBuf::from(st).is_windows(), TypedPathBuf::from(st).as_bytes() == p));
        all.push((TypedPathBuf::from(st.to_string()).is_windows(), TypedPathBuf::from(st.to_string()).as_bytes() == p));
        all.push((TypedPath::from(st).is_windows(), TypedPath::from(st).as_bytes() == p));
    }
    if all.iter().any(|x| x.0 != d) {
        return c("inconsistent", vec![]);
    }
    if all.iter().any(|x| !x.1) {
        return c("bytes_changed", vec![]);
    }
    c("c15d", vec![Val::Bool(d)])
}

/// cons a b : self-consistency (iterator std methods, cross-type comparisons, component Eq/Ord/Hash,
/// platform = native) plus the parity data of partially consumed Components
fn cons<A: Api>(suffix: &str, args: &[Val]) -> Val {
    let (a, b_) = (args[0].bytes(), args[1].bytes());
    if !A::accepts(a) || !A::accepts(b_) {
        return not_utf8();
    }
    let (mut bad, par) = A::cons(a, b_);
    cross_types(suffix, a, b_, &mut bad);
    crate::surface::surface(suffix, a, &mut bad);
    crate::surface::surface(suffix, b_, &mut bad);
    c("cons", vec![Val::L(bad), par])
}

fn cross_byte<T: for<'enc> Encoding<'enc>>(a: &[u8], b_: &[u8], bad: &mut Vec<Val>) {
    use std::borrow::Cow;
    let (pa, pb) = (Path::<T>::new(a), Path::<T>::new(b_));
    let (ba, bb) = (pa.to_path_buf(), pb.to_path_buf());
    let eq = pa == pb;
    let ord = pa.partial_cmp(pb);
    crate::cross!(bad, "pathbuf/path", eq, ord, ba, *pb);
    crate::cross!(bad, "pathbuf/&path", eq, ord, ba, pb);
    crate::cross!(bad, "cow/path", eq, ord, Cow::Borrowed(pa), *pb);
    crate::cross!(bad, "cow/pathbuf", eq, ord, Cow::Borrowed(pa), bb);
    crate::cross!(bad, "pathbuf/[u8]", eq, ord, ba, *b_);
    crate::cross!(bad, "pathbuf/&[u8]", eq, ord, ba, b_);
    crate::cross!(bad, "pathbuf/cow[u8]", eq, ord, ba, Cow::Borrowed(b_));
    crate::cross!(bad, "pathbuf/vec", eq, ord, ba, b_.to_vec());
    crate::cross!(bad, "path/[u8]", eq, ord, *pa, *b_);
    crate::cross!(bad, "path/&[u8]", eq, ord, *pa, b_);
    crate::cross!(bad, "path/vec", eq, ord, *pa, b_.to_vec());
    crate::cross!(bad, "&path/vec", eq, ord, pa, b_.to_vec());
    crate::cross!(bad, "&path/cow[u8]", eq, ord, pa, Cow::Borrowed(b_));
}

fn cross_utf8<T: for<'enc> Utf8Encoding<'enc>>(a: &str, b_: &str, bad: &mut Vec<Val>) {
    use std::borrow::Cow;
    let (pa, pb) = (Utf8Path::<T>::new(a), Utf8Path::<T>::new(b_));
    let (ba, bb) = (pa.to_path_buf(), pb.to_path_buf());
    let eq = pa == pb;
    let ord = pa.partial_cmp(pb);
    crate::cross!(bad, "utf8pathbuf/path", eq, ord, ba, *pb);
    crate::cross!(bad, "utf8pathbuf/&path", eq, ord, ba, pb);
    crate::cross!(bad, "utf8cow/path", eq, ord, Cow::Borrowed(pa), *pb);
    crate::cross!(bad, "utf8cow/pathbuf", eq, ord, Cow::Borrowed(pa), bb);
    crate::cross!(bad, "utf8pathbuf/str", eq, ord, ba, *b_);
    crate::cross!(bad, "utf8pathbuf/&str", eq, ord, ba, b_);
    crate::cross!(bad, "utf8pathbuf/cowstr", eq, ord, ba, Cow::Borrowed(b_));
    crate::cross!(bad, "utf8pathbuf/string", eq, ord, ba, b_.to_string());
    crate::cross!(bad, "utf8path/str", eq, ord, *pa, *b_);
    crate::cross!(bad, "utf8path/&str", eq, ord, *pa, b_);
    crate::cross!(bad, "utf8path/string", eq, ord, *pa, b_.to_string());
    crate::cross!(bad, "&utf8path/string", eq, ord, pa, b_.to_string());
    crate::cross!(bad, "&utf8path/cowstr", eq, ord, pa, Cow::Borrowed(b_));
}

fn cross_types(suffix: &str, a: &[u8], b_: &[u8], bad: &mut Vec<Val>) {
    let strs = match (std::str::from_utf8(a), std::str::from_utf8(b_)) {
        (Ok(x), Ok(y)) => Some((x, y)),
        _ => None,
    };
    match suffix {
        "u" | "bu" => cross_byte::<UnixEncoding>(a, b_, bad),
        "w" | "bw" => cross_byte::<WindowsEncoding>(a, b_, bad),
        "pu" => {
            cross_byte::<PlatformEncoding>(a, b_, bad);
            // the platform encoding behaves like the native one, also through the platform-only conversions
            let p = PlatformPath::new(a);
            let n = Path::<NativeEncoding>::new(a);
            let x = p.with_platform_encoding_checked().map(|x| x.into_vec());
            let y = n.with_encoding_checked::<NativeEncoding>().map(|x| x.into_vec());
            if x != y {
                bad.push(c("platform:with_platform_encoding_checked", vec![]));
            }
            if p.with_platform_encoding().into_vec() != n.with_encoding::<NativeEncoding>().into_vec() {
                bad.push(c("platform:with_platform_encoding", vec![]));
            }
            if n.with_platform_encoding_checked().map(|x| x.into_vec()) != y {
                bad.push(c("platform:native.with_platform_encoding_checked", vec![]));
            }
        }
        "u8" | "b8u" => {
            if let Some((x, y)) = strs {
                cross_utf8::<Utf8UnixEncoding>(x, y, bad)
            }
        }
        "w8" | "b8w" => {
            if let Some((x, y)) = strs {
                cross_utf8::<Utf8WindowsEncoding>(x, y, bad)
            }
        }
        "p8" => {
            if let Some((x, y)) = strs {
                cross_utf8::<Utf8PlatformEncoding>(x, y, bad);
                let p = Utf8PlatformPath::new(x);
                let n = Utf8Path::<Utf8NativeEncoding>::new(x);
                let r1 = p.with_platform_encoding_checked().map(|z| z.into_string());
                let r2 = n.with_encoding_checked::<Utf8NativeEncoding>().map(|z| z.into_string());
                if r1 != r2 {
                    bad.push(c("platform:utf8.with_platform_encoding_checked", vec![]));
                }
            }
        }
        "tu" | "tw" | "tbu" | "tbw" => {
            let (pa, pb) = if suffix.ends_with('u') { (TypedPath::unix(a), TypedPath::unix(b_)) } else { (TypedPath::windows(a), TypedPath::windows(b_)) };
            let eq = pa == pb;
            crate::cross_eq!(bad, "typedpathbuf/typedpath", eq, pa.to_path_buf(), pb);
            crate::cross_eq!(bad, "typedpath/typedpathbuf", eq, pa, pb.to_path_buf());
        }
        "t8u" | "t8w" | "tb8u" | "tb8w" => {
            if let Some((x, y)) = strs {
                let (pa, pb) = if suffix.ends_with('u') { (Utf8TypedPath::unix(x), Utf8TypedPath::unix(y)) } else { (Utf8TypedPath::windows(x), Utf8TypedPath::windows(y)) };
                let eq = pa == pb;
                crate::cross_eq!(bad, "utf8typedpathbuf/utf8typedpath", eq, pa.to_path_buf(), pb);
                crate::cross_eq!(bad, "utf8typedpath/utf8typedpathbuf", eq, pa, pb.to_path_buf());
                // a typed path against a plain string: same text
                let seq = x == y;
                crate::cross_eq!(bad, "utf8typedpath/str", seq, pa, *y);
                crate::cross_eq!(bad, "utf8typedpath/&str", seq, pa, y);
                crate::cross_eq!(bad, "utf8typedpathbuf/str", seq, pa.to_path_buf(), *y);
                crate::cross_eq!(bad, "utf8typedpathbuf/&str", seq, pa.to_path_buf(), y);
            }
        }
        _ => {}
    }
}

macro_rules! fam {
    ($f:ident, $suffix:expr, $args:expr) => {
        match $suffix {
            "u" => $f::<UB>($args),
            "w" => $f::<WB>($args),
            "u8" => $f::<U8>($args),
            "w8" => $f::<W8>($args),
            "tu" => $f::<TU>($args),
            "tw" => $f::<TW>($args),
            "t8u" => $f::<T8U>($args),
            "t8w" => $f::<T8W>($args),
            "bu" => $f::<BU>($args),
            "bw" => $f::<BW>($args),
            "b8u" => $f::<B8U>($args),
            "b8w" => $f::<B8W>($args),
            "tbu" => $f::<TBU>($args),
            "tbw" => $f::<TBW>($args),
            "tb8u" => $f::<TB8U>($args),
            "tb8w" => $f::<TB8W>($args),
            "pu" => $f::<PB>($args),
            "p8" => $f::<P8>($args),
            #[cfg(all(feature = "std", unix))]
            "sd" => $f::<SD>($args),
            _ => c("unknownfamily", vec![]),
        }
    };
}

macro_rules! fam_s {
    ($f:ident, $suffix:expr, $args:expr) => {
        match $suffix {
            "u" => $f::<UB>($suffix, $args),
            "w" => $f::<WB>($suffix, $args),
            "u8" => $f::<U8>($suffix, $args),
            "w8" => $f::<W8>($suffix, $args),
            "tu" => $f::<TU>($suffix, $args),
            "tw" => $f::<TW>($suffix, $args),
            "t8u" => $f::<T8U>($suffix, $args),
            "t8w" => $f::<T8W>($suffix, $args),
            "bu" => $f::<BU>($suffix, $args),
            "bw" => $f::<BW>($suffix, $args),
            "b8u" => $f::<B8U>($suffix, $args),
            "b8w" => $f::<B8W>($suffix, $args),
            "tbu" => $f::<TBU>($suffix, $args),
            "tbw" => $f::<TBW>($suffix, $args),
            "tb8u" => $f::<TB8U>($suffix, $args),
            "tb8w" => $f::<TB8W>($suffix, $args),
            "pu" => $f::<PB>($suffix, $args),
            "p8" => $f::<P8>($suffix, $args),
            #[cfg(all(feature = "std", unix))]
            "sd" => $f::<SD>($suffix, $args),
            _ => c("unknownfamily", vec![]),
        }
    };
}

pub fn dispatch(op: &str, args: &[Val]) -> Val {
    let (name, suffix) = match op.find('.') {
        Some(i) => (&op[..i], &op[i + 1..]),
        None => (op, ""),
    };
    match name {
        // same.<op>.<family> : a UTF-8 / typed / platform family next to the byte family of its encoding
        "same" => {
            let (n2, fam) = match suffix.find('.') {
                Some(i) => (&suffix[..i], &suffix[i + 1..]),
                None => (suffix, ""),
            };
            let bytefam = if fam.ends_with('w') || fam.starts_with('w') { "w" } else { "u" };
            if fam.starts_with("tb") && n2 == "c16" {
                // owned runtime-typed buffers re-dispatch the conversions themselves
                return t2(c16(fam, args), dispatch(&format!("{}.{}", n2, bytefam), args));
            }
            t2(dispatch(suffix, args), dispatch(&format!("{}.{}", n2, bytefam), args))
        }
        // pair.<op> : the Unix byte family next to real std::path on the same arguments
        "pair" => t2(dispatch(&format!("{}.u", suffix), args), dispatch(&format!("{}.sd", suffix), args)),
        #[cfg(all(feature = "std", unix))]
        "c01" => c01(args),
        "c02" => c02(suffix, args),
        "c03" => fam!(c03, suffix, args),
        "c04" => fam!(c04, suffix, args),
        "c05" => fam!(c05, suffix, args),
        "c06" => fam!(c06, suffix, args),
        "hist" => fam!(hist, suffix, args),
        "c08" => fam!(c08, suffix, args),
        "c09" => fam!(c09, suffix, args),
        "c10" => fam!(c10, suffix, args),
        "c11" => fam!(c11, suffix, args),
        "c12" => fam!(c12, suffix, args),
        "c13" => fam!(c13, suffix, args),
        "c15d" => c15d(args),
        "c14c" => crate::conv::c14c(args),
        "c19" => crate::conv::c19(args),
        "c19p" => crate::conv::c19p(suffix, args),
        "c16" => c16(suffix, args),
        "c17" => fam!(c17, suffix, args),
        "cons" => fam_s!(cons, suffix, args),
        _ => c("unknownop", vec![]),
    }
}
