//! Operations.  Each composite operation cNN gathers, for one case, everything the
//! property's oracle needs to see (see coq/theories/Ops.v for the matching model_cNN).
use crate::val::*;
use typed_path::*;

pub trait CompVal {
    fn val(&self) -> Val;
}
impl CompVal for UnixComponent<'_> {
    fn val(&self) -> Val {
        match self {
            UnixComponent::RootDir => c("R", vec![]),
            UnixComponent::CurDir => c("C", vec![]),
            UnixComponent::ParentDir => c("P", vec![]),
            UnixComponent::Normal(x) => c("Nm", vec![b(x)]),
        }
    }
}

#[cfg(all(feature = "std", unix))]
mod stdside {
    use super::*;
    use std::ffi::OsStr;
    use std::os::unix::ffi::OsStrExt;
    use std::path::{Component, Path};

    pub fn sp(bytes: &[u8]) -> &Path {
        Path::new(OsStr::from_bytes(bytes))
    }
    pub fn pb(p: &Path) -> Val {
        b(p.as_os_str().as_bytes())
    }
    pub fn comp(cm: &Component) -> Val {
        match cm {
            Component::RootDir => c("R", vec![]),
            Component::CurDir => c("C", vec![]),
            Component::ParentDir => c("P", vec![]),
            Component::Normal(x) => c("Nm", vec![b(x.as_bytes())]),
            Component::Prefix(_) => c("Px", vec![]),
        }
    }
}
#[cfg(all(feature = "std", unix))]
use stdside::*;

fn sched_of(v: &Val) -> Vec<bool> {
    v.bytes().iter().map(|x| *x != 0).collect()
}

/// c01 p sched
fn c01(args: &[Val]) -> Val {
    let p = args[0].bytes();
    let sched = sched_of(&args[1]);
    let path = UnixPath::new(p);
    let mut it = path.components();
    let mut steps = Vec::new();
    for d in sched.iter() {
        let cm = if *d { it.next_back() } else { it.next() };
        steps.push(t2(opt(cm, |x| x.val()), b(it.as_bytes())));
    }
    let sp_ = sp(p);
    let mut sit = sp_.components();
    let mut ssteps = Vec::new();
    for d in sched.iter() {
        let cm = if *d { sit.next_back() } else { sit.next() };
        ssteps.push(t2(
            opt(cm, |x| comp(&x)),
            list(sit.as_path().components(), |x| comp(&x)),
        ));
    }
    let tf = <UnixComponent as core::convert::TryFrom<&[u8]>>::try_from(p).ok();
    c(
        "c01",
        vec![
            Val::L(steps),
            Val::L(ssteps),
            Val::Bool(path.has_root()),
            Val::Bool(path.is_absolute()),
            Val::Bool(sp_.has_root()),
            Val::Bool(sp_.is_absolute()),
            opt(tf, |x| x.val()),
        ],
    )
}

pub fn dispatch(op: &str, args: &[Val]) -> Val {
    match op {
        "c01" => c01(args),
        _ => c("unknownop", vec![]),
    }
}
