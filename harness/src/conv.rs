//! Construction / conversion chains (C14 conversions between the byte and UTF-8 families, C19).
//! Every chain is checked inside the harness against the input bytes; the names of the chains
//! that do not reproduce the bytes (or change eq / ord / hash) are reported.
#![allow(clippy::all)]
use crate::api::*;
use crate::val::*;
use std::borrow::Cow;
use std::rc::Rc;
use std::sync::Arc;
use typed_path::*;

fn chains_byte<T>(p: &[u8], bad: &mut Vec<Val>, tag: &str)
where
    T: for<'enc> Encoding<'enc>,
{
    let path = Path::<T>::new(p);
    let f0 = feed(path);
    let mut chk = |name: &str, got: Vec<u8>, fd: Val, eq: bool, ord: core::cmp::Ordering| {
        if got != p || fd != f0 || !eq || ord != core::cmp::Ordering::Equal {
            bad.push(c(&format!("{}.{}", tag, name), vec![b(got)]));
        }
    };
    let buf = path.to_path_buf();
    chk("to_path_buf", buf.ab(), feed(&buf), buf.as_path() == path, buf.as_path().cmp(path));
    let v = buf.clone().into_vec();
    chk("into_vec", v.clone(), feed(&buf.clone()), true, core::cmp::Ordering::Equal);
    let from_vec = PathBuf::<T>::from(v.clone());
    chk("from_vec", from_vec.ab(), feed(&from_vec), from_vec == buf, from_vec.cmp(&buf));
    let v2: Vec<u8> = from_vec.clone().into();
    chk("vec_from", v2, feed(&from_vec), true, core::cmp::Ordering::Equal);
    let from_slice = PathBuf::<T>::from(p);
    chk("from_slice", from_slice.ab(), feed(&from_slice), from_slice == buf, from_slice.cmp(&buf));
    let boxed: Box<Path<T>> = buf.clone().into_boxed_path();
    chk("into_boxed_path", boxed.ab(), feed(&*boxed), &*boxed == path, (&*boxed).cmp(path));
    let boxed2: Box<Path<T>> = Box::from(path);
    chk("box_from_ref", boxed2.ab(), feed(&*boxed2), &*boxed2 == path, (&*boxed2).cmp(path));
    let boxed3 = boxed2.clone();
    chk("box_clone", boxed3.ab(), feed(&*boxed3), &*boxed3 == path, (&*boxed3).cmp(path));
    let back = boxed.into_path_buf();
    chk("into_path_buf", back.ab(), feed(&back), back == buf, back.cmp(&buf));
    let back2 = PathBuf::<T>::from(boxed2);
    chk("pathbuf_from_box", back2.ab(), feed(&back2), back2 == buf, back2.cmp(&buf));
    let boxed4: Box<Path<T>> = Box::from(buf.clone());
    chk("box_from_buf", boxed4.ab(), feed(&*boxed4), &*boxed4 == path, (&*boxed4).cmp(path));
    let cow: Cow<Path<T>> = Cow::from(path);
    chk("cow_borrowed", cow.ab_cow(), feed(&*cow), &*cow == path, (&*cow).cmp(path));
    let cow2: Cow<Path<T>> = Cow::from(buf.clone());
    chk("cow_owned", cow2.ab_cow(), feed(&*cow2), &*cow2 == path, (&*cow2).cmp(path));
    let cow3: Cow<Path<T>> = Cow::from(&buf);
    chk("cow_from_ref_buf", cow3.ab_cow(), feed(&*cow3), &*cow3 == path, (&*cow3).cmp(path));
    let from_cow = PathBuf::<T>::from(cow2.clone());
    chk("pathbuf_from_cow", from_cow.ab(), feed(&from_cow), from_cow == buf, from_cow.cmp(&buf));
    let box_from_cow: Box<Path<T>> = Box::from(cow.clone());
    chk("box_from_cow", box_from_cow.ab(), feed(&*box_from_cow), &*box_from_cow == path, (&*box_from_cow).cmp(path));
    let rc: Rc<Path<T>> = Rc::from(path);
    chk("rc_from_ref", rc.ab_rc(), feed(&*rc), &*rc == path, (&*rc).cmp(path));
    let rc2: Rc<Path<T>> = Rc::from(buf.clone());
    chk("rc_from_buf", rc2.ab_rc(), feed(&*rc2), &*rc2 == path, (&*rc2).cmp(path));
    let arc: Arc<Path<T>> = Arc::from(path);
    chk("arc_from_ref", arc.as_bytes().to_vec(), feed(&*arc), &*arc == path, (&*arc).cmp(path));
    let arc2: Arc<Path<T>> = Arc::from(buf.clone());
    chk("arc_from_buf", arc2.as_bytes().to_vec(), feed(&*arc2), &*arc2 == path, (&*arc2).cmp(path));
    let owned = path.to_owned();
    chk("to_owned", owned.ab(), feed(&owned), owned == buf, owned.cmp(&buf));
    let cl = buf.clone();
    chk("clone", cl.ab(), feed(&cl), cl == buf, cl.cmp(&buf));
    let asref: &[u8] = path.as_ref();
    chk("as_ref_bytes", asref.to_vec(), feed(path), true, core::cmp::Ordering::Equal);
    let asref2: &Path<T> = p.as_ref();
    chk("bytes_as_ref_path", asref2.ab(), feed(asref2), asref2 == path, asref2.cmp(path));
    let vv = p.to_vec();
    let asref3: &Path<T> = vv.as_ref();
    chk("vec_as_ref_path", asref3.ab(), feed(asref3), asref3 == path, asref3.cmp(path));
    let mut de = PathBuf::<T>::new();
    de.push(p);
    // push onto an empty buffer is the identity on the bytes
    chk("push_onto_empty", de.ab(), feed(path), true, core::cmp::Ordering::Equal);
    #[cfg(all(feature = "std", unix))]
    {
        use std::ffi::{OsStr, OsString};
        use std::os::unix::ffi::{OsStrExt, OsStringExt};
        let os = OsStr::from_bytes(p);
        let r1: &Path<T> = os.as_ref();
        chk("osstr_as_ref_path", r1.ab(), feed(r1), r1 == path, r1.cmp(path));
        let oss = OsString::from_vec(p.to_vec());
        let r2: &Path<T> = oss.as_ref();
        chk("osstring_as_ref_path", r2.ab(), feed(r2), r2 == path, r2.cmp(path));
        let r3: &OsStr = path.as_ref();
        chk("path_as_ref_osstr", r3.as_bytes().to_vec(), feed(path), true, core::cmp::Ordering::Equal);
        let r4: OsString = buf.clone().into();
        chk("osstring_from_pathbuf", r4.into_vec(), feed(&buf), true, core::cmp::Ordering::Equal);
        let r5: &OsStr = buf.as_ref();
        chk("pathbuf_as_ref_osstr", r5.as_bytes().to_vec(), feed(&buf), true, core::cmp::Ordering::Equal);
    }
    if let Ok(st) = std::str::from_utf8(p) {
        let fs: PathBuf<T> = st.parse().unwrap();
        chk("from_str", fs.ab(), feed(&fs), fs == buf, fs.cmp(&buf));
        let fs2 = PathBuf::<T>::from(st.to_string());
        chk("from_string", fs2.ab(), feed(&fs2), fs2 == buf, fs2.cmp(&buf));
        let r: &Path<T> = st.as_ref();
        chk("str_as_ref_path", r.ab(), feed(r), r == path, r.cmp(path));
    }
}

trait CowB {
    fn ab_cow(&self) -> Vec<u8>;
}
impl<T: for<'enc> Encoding<'enc>> CowB for Cow<'_, Path<T>> {
    fn ab_cow(&self) -> Vec<u8> {
        self.as_bytes().to_vec()
    }
}
trait RcB {
    fn ab_rc(&self) -> Vec<u8>;
}
impl<T: for<'enc> Encoding<'enc>> RcB for Rc<Path<T>> {
    fn ab_rc(&self) -> Vec<u8> {
        self.as_bytes().to_vec()
    }
}

fn chains_utf8<T>(st: &str, bad: &mut Vec<Val>, tag: &str)
where
    T: for<'enc> Utf8Encoding<'enc>,
{
    let p = st.as_bytes();
    let path = Utf8Path::<T>::new(st);
    let f0 = feed(path);
    let mut chk = |name: &str, got: Vec<u8>, fd: Val, eq: bool| {
        if got != p || fd != f0 || !eq {
            bad.push(c(&format!("{}.{}", tag, name), vec![b(got)]));
        }
    };
    let buf = path.to_path_buf();
    chk("to_path_buf", buf.ab(), feed(&buf), buf.as_path() == path);
    let s1 = buf.clone().into_string();
    chk("into_string", s1.ab(), feed(&buf), true);
    let s2: String = buf.clone().into();
    chk("string_from", s2.ab(), feed(&buf), true);
    let b1 = Utf8PathBuf::<T>::from(st.to_string());
    chk("from_string", b1.ab(), feed(&b1), b1 == buf);
    let b2 = Utf8PathBuf::<T>::from(st);
    chk("from_str_ref", b2.ab(), feed(&b2), b2 == buf);
    let b3: Utf8PathBuf<T> = st.parse().unwrap();
    chk("parse", b3.ab(), feed(&b3), b3 == buf);
    let bx: Box<Utf8Path<T>> = buf.clone().into_boxed_path();
    chk("into_boxed_path", bx.ab(), feed(&*bx), &*bx == path);
    let bx2: Box<Utf8Path<T>> = Box::from(path);
    chk("box_from_ref", bx2.ab(), feed(&*bx2), &*bx2 == path);
    let bx3 = bx2.clone();
    chk("box_clone", bx3.ab(), feed(&*bx3), &*bx3 == path);
    let back = bx.into_path_buf();
    chk("into_path_buf", back.ab(), feed(&back), back == buf);
    let back2 = Utf8PathBuf::<T>::from(bx2);
    chk("pathbuf_from_box", back2.ab(), feed(&back2), back2 == buf);
    let cow: Cow<Utf8Path<T>> = Cow::from(path);
    chk("cow_borrowed", cow.as_str().ab(), feed(&*cow), &*cow == path);
    let cow2: Cow<Utf8Path<T>> = Cow::from(buf.clone());
    chk("cow_owned", cow2.as_str().ab(), feed(&*cow2), &*cow2 == path);
    let fc = Utf8PathBuf::<T>::from(cow2.clone());
    chk("pathbuf_from_cow", fc.ab(), feed(&fc), fc == buf);
    let rc: Rc<Utf8Path<T>> = Rc::from(path);
    chk("rc_from_ref", rc.as_str().ab(), feed(&*rc), &*rc == path);
    let rc2: Rc<Utf8Path<T>> = Rc::from(buf.clone());
    chk("rc_from_buf", rc2.as_str().ab(), feed(&*rc2), &*rc2 == path);
    let arc: Arc<Utf8Path<T>> = Arc::from(path);
    chk("arc_from_ref", arc.as_str().ab(), feed(&*arc), &*arc == path);
    let arc2: Arc<Utf8Path<T>> = Arc::from(buf.clone());
    chk("arc_from_buf", arc2.as_str().ab(), feed(&*arc2), &*arc2 == path);
    let r1: &str = path.as_ref();
    chk("as_ref_str", r1.ab(), feed(path), true);
    let r2: &[u8] = path.as_ref();
    chk("as_ref_bytes", r2.to_vec(), feed(path), true);
    let r3: &Utf8Path<T> = st.as_ref();
    chk("str_as_ref_path", r3.ab(), feed(r3), r3 == path);
}

/// c14c p : conversions between the byte and the UTF-8 family succeed exactly on valid UTF-8 and keep the bytes
pub fn c14c(args: &[Val]) -> Val {
    let p = args[0].bytes();
    let valid = std::str::from_utf8(p).is_ok();
    let mut bad = Vec::new();
    let r1 = Utf8UnixPath::from_bytes_path(UnixPath::new(p));
    let r2 = Utf8WindowsPath::from_bytes_path(WindowsPath::new(p));
    let r3 = Utf8UnixPathBuf::from_bytes_path_buf(UnixPathBuf::from(p));
    let r4 = Utf8WindowsPathBuf::from_bytes_path_buf(WindowsPathBuf::from(p));
    let oks = [r1.is_ok(), r2.is_ok(), r3.is_ok(), r4.is_ok()];
    if oks.iter().any(|x| *x != oks[0]) {
        bad.push(c("inconsistent_success", vec![]));
    }
    if let Ok(x) = &r1 {
        if x.as_str().as_bytes() != p {
            bad.push(c("from_bytes_path.u", vec![]));
        }
        let bp: &UnixPath = x.as_bytes_path();
        if bp.as_bytes() != p {
            bad.push(c("as_bytes_path.u", vec![]));
        }
    }
    if let Ok(x) = &r2 {
        if x.as_str().as_bytes() != p {
            bad.push(c("from_bytes_path.w", vec![]));
        }
        let bp: &WindowsPath = x.as_bytes_path();
        if bp.as_bytes() != p {
            bad.push(c("as_bytes_path.w", vec![]));
        }
    }
    if let Ok(x) = r3 {
        if x.as_str().as_bytes() != p {
            bad.push(c("from_bytes_path_buf.u", vec![]));
        }
        let bb: UnixPathBuf = x.into_bytes_path_buf();
        if bb.as_bytes() != p {
            bad.push(c("into_bytes_path_buf.u", vec![]));
        }
    }
    if let Ok(x) = r4 {
        if x.as_str().as_bytes() != p {
            bad.push(c("from_bytes_path_buf.w", vec![]));
        }
        let bb: WindowsPathBuf = x.into_bytes_path_buf();
        if bb.as_bytes() != p {
            bad.push(c("into_bytes_path_buf.w", vec![]));
        }
    }
    if let Ok(st) = std::str::from_utf8(p) {
        chains_utf8::<Utf8UnixEncoding>(st, &mut bad, "u8");
        chains_utf8::<Utf8WindowsEncoding>(st, &mut bad, "w8");
    }
    let _ = valid;
    if !bad.is_empty() {
        return c("c14c", vec![Val::Bool(oks[0]), Val::L(bad)]);
    }
    c("c14c", vec![Val::Bool(oks[0])])
}

/// c19 p : to_str / to_string_lossy / Display, and every construction-conversion chain
pub fn c19(args: &[Val]) -> Val {
    let p = args[0].bytes();
    let mut bad = Vec::new();
    chains_byte::<UnixEncoding>(p, &mut bad, "u");
    chains_byte::<WindowsEncoding>(p, &mut bad, "w");
    chains_byte::<PlatformEncoding>(p, &mut bad, "p");
    let up = UnixPath::new(p);
    let wp = WindowsPath::new(p);
    let ts = up.to_str().map(|x| x.as_bytes().to_vec());
    if ts != wp.to_str().map(|x| x.as_bytes().to_vec())
        || ts != TypedPath::unix(p).to_str().map(|x| x.as_bytes().to_vec())
        || ts != TypedPathBuf::from_windows(p).to_str().map(|x| x.as_bytes().to_vec())
    {
        bad.push(c("to_str_differs", vec![]));
    }
    let lossy = up.to_string_lossy().as_bytes().to_vec();
    if lossy != wp.to_string_lossy().as_bytes().to_vec()
        || lossy != TypedPath::windows(p).to_string_lossy().as_bytes().to_vec()
        || lossy != String::from_utf8_lossy(p).as_bytes()
    {
        bad.push(c("lossy_differs", vec![]));
    }
    let disp = format!("{}", up.display()).into_bytes();
    if disp != format!("{}", wp.display()).into_bytes()
        || disp != format!("{}", up).into_bytes()
        || disp != format!("{}", TypedPath::unix(p).display()).into_bytes()
        || disp != format!("{}", UnixPathBuf::from(p).display()).into_bytes()
    {
        bad.push(c("display_differs", vec![]));
    }
    // typed wrappers: bytes and variant survive conversion
    let tb = TypedPathBuf::from_unix(p);
    if tb.as_bytes() != p || !tb.is_unix() || tb.to_path().as_bytes() != p || tb.clone().into_vec() != p {
        bad.push(c("typed_unix_roundtrip", vec![]));
    }
    let tw = TypedPathBuf::from_windows(p);
    if tw.as_bytes() != p || !tw.is_windows() || tw.to_path().to_path_buf() != tw {
        bad.push(c("typed_windows_roundtrip", vec![]));
    }
    // Display ignores width, fill and precision -- for the borrowed adaptor, the owned one and the path itself
    let ub = UnixPathBuf::from(p);
    let wb = WindowsPathBuf::from(p);
    let fmts = vec![
        b(format!("{:>40}", up.display()).into_bytes()),
        b(format!("{:.2}", up.display()).into_bytes()),
        b(format!("{:*<40}", ub.display()).into_bytes()),
        b(format!("{:.2}", wb.display()).into_bytes()),
        b(format!("{:>40}", wp.display()).into_bytes()),
        b(format!("{:.2}", TypedPathBuf::from_unix(p).to_path().display()).into_bytes()),
    ];
    let mut v = vec![opt(ts, |x| b(x)), b(lossy), b(disp), Val::Bool(bad.is_empty()), Val::L(fmts)];
    if !bad.is_empty() {
        v.push(Val::L(bad));
    }
    c("c19", v)
}

fn pair_byte<T>(a: &[u8], b_: &[u8], bad: &mut Vec<Val>, tag: &str) -> (bool, core::cmp::Ordering)
where
    T: for<'enc> Encoding<'enc>,
{
    use core::cmp::Ordering;
    let (pa, pb) = (Path::<T>::new(a), Path::<T>::new(b_));
    let eq0 = pa == pb;
    let ord0 = pa.cmp(pb);
    let heq0 = feed(pa) == feed(pb);
    let mut chk = |name: &str, eq: bool, ord: Option<Ordering>, heq: Option<bool>| {
        if eq != eq0 || ord.map(|o| o != ord0).unwrap_or(false) || heq.map(|h| h != heq0).unwrap_or(false) {
            bad.push(c(&format!("{}.{}", tag, name), vec![]));
        }
    };
    let (ba, bb) = (pa.to_path_buf(), pb.to_path_buf());
    chk("pathbuf", ba == bb, Some(ba.cmp(&bb)), Some(feed(&ba) == feed(&bb)));
    chk("pathbuf_ne", !(ba != bb), ba.partial_cmp(&bb), None);
    chk("path_partial", !(pa != pb), pa.partial_cmp(pb), None);
    let (xa, xb): (Box<Path<T>>, Box<Path<T>>) = (Box::from(pa), Box::from(pb));
    chk("box", xa == xb, Some(xa.cmp(&xb)), Some(feed(&xa) == feed(&xb)));
    let (ra, rb): (Rc<Path<T>>, Rc<Path<T>>) = (Rc::from(pa), Rc::from(pb));
    chk("rc", ra == rb, Some(ra.cmp(&rb)), Some(feed(&ra) == feed(&rb)));
    let (aa, ab): (Arc<Path<T>>, Arc<Path<T>>) = (Arc::from(pa), Arc::from(pb));
    chk("arc", aa == ab, Some(aa.cmp(&ab)), Some(feed(&aa) == feed(&ab)));
    let (ca, cb): (Cow<Path<T>>, Cow<Path<T>>) = (Cow::from(pa), Cow::from(bb.clone()));
    chk("cow", ca == cb, Some(ca.cmp(&cb)), Some(feed(&ca) == feed(&cb)));
    // the mixed impl_cmp! / impl_cmp_bytes! pairs
    chk("pathbuf_path", ba == *pb, ba.partial_cmp(pb), None);
    chk("path_pathbuf", *pa == bb, pa.partial_cmp(&bb), None);
    chk("pathbuf_refpath", ba == pb, ba.partial_cmp(&pb), None);
    chk("refpath_pathbuf", pa == bb, (&pa).partial_cmp(&bb), None);
    chk("cow_path", ca == *pb, ca.partial_cmp(pb), None);
    chk("cow_refpath", ca == pb, ca.partial_cmp(&pb), None);
    chk("cow_pathbuf", ca == bb, ca.partial_cmp(&bb), None);
    chk("pathbuf_bytes", ba == *b_, ba.partial_cmp(b_), None);
    chk("pathbuf_refbytes", ba == b_, ba.partial_cmp(&b_), None);
    chk("pathbuf_vec", ba == b_.to_vec(), ba.partial_cmp(&b_.to_vec()), None);
    chk("path_bytes", *pa == *b_, pa.partial_cmp(b_), None);
    chk("path_refbytes", *pa == b_, pa.partial_cmp(&b_), None);
    chk("path_vec", *pa == b_.to_vec(), pa.partial_cmp(&b_.to_vec()), None);
    chk("refpath_vec", pa == b_.to_vec(), (&pa).partial_cmp(&b_.to_vec()), None);
    let cowb: Cow<[u8]> = Cow::Borrowed(b_);
    chk("pathbuf_cowbytes", ba == cowb, ba.partial_cmp(&cowb), None);
    chk("path_cowbytes", *pa == cowb, pa.partial_cmp(&cowb), None);
    (eq0, ord0)
}

fn pair_utf8<T>(a: &str, b_: &str, bad: &mut Vec<Val>, tag: &str, eq0: bool, ord0: core::cmp::Ordering)
where
    T: for<'enc> Utf8Encoding<'enc>,
{
    use core::cmp::Ordering;
    let (pa, pb) = (Utf8Path::<T>::new(a), Utf8Path::<T>::new(b_));
    let heq0 = feed(pa) == feed(pb);
    let mut chk = |name: &str, eq: bool, ord: Option<Ordering>, heq: Option<bool>| {
        if eq != eq0 || ord.map(|o| o != ord0).unwrap_or(false) || heq.map(|h| h != heq0).unwrap_or(false) {
            bad.push(c(&format!("{}.{}", tag, name), vec![]));
        }
    };
    chk("path", pa == pb, Some(pa.cmp(pb)), None);
    let (ba, bb) = (pa.to_path_buf(), pb.to_path_buf());
    chk("pathbuf", ba == bb, Some(ba.cmp(&bb)), Some(feed(&ba) == feed(&bb)));
    chk("pathbuf_partial", !(ba != bb), ba.partial_cmp(&bb), None);
    let (xa, xb): (Box<Utf8Path<T>>, Box<Utf8Path<T>>) = (Box::from(pa), Box::from(pb));
    chk("box", xa == xb, Some(xa.cmp(&xb)), Some(feed(&xa) == feed(&xb)));
    let (ra, rb): (Rc<Utf8Path<T>>, Rc<Utf8Path<T>>) = (Rc::from(pa), Rc::from(pb));
    chk("rc", ra == rb, Some(ra.cmp(&rb)), None);
    let (aa, ab): (Arc<Utf8Path<T>>, Arc<Utf8Path<T>>) = (Arc::from(pa), Arc::from(pb));
    chk("arc", aa == ab, Some(aa.cmp(&ab)), None);
    chk("pathbuf_path", ba == *pb, ba.partial_cmp(pb), None);
    chk("path_pathbuf", *pa == bb, pa.partial_cmp(&bb), None);
    chk("pathbuf_refpath", ba == pb, ba.partial_cmp(&pb), None);
    chk("pathbuf_str", ba == *b_, ba.partial_cmp(b_), None);
    chk("pathbuf_refstr", ba == b_, ba.partial_cmp(&b_), None);
    chk("pathbuf_string", ba == b_.to_string(), ba.partial_cmp(&b_.to_string()), None);
    chk("path_str", *pa == *b_, pa.partial_cmp(b_), None);
    chk("path_string", *pa == b_.to_string(), pa.partial_cmp(&b_.to_string()), None);
}

/// c19p.<u|w> a b : equality, ordering and hash-equality of a pair are the same through every owned / boxed /
/// reference-counted / Cow / runtime-typed form and through every mixed comparison the crate offers
pub fn c19p(suffix: &str, args: &[Val]) -> Val {
    let (a, b_) = (args[0].bytes(), args[1].bytes());
    let mut bad = Vec::new();
    let unix = suffix == "u";
    let (eq0, ord0) = if unix { pair_byte::<UnixEncoding>(a, b_, &mut bad, "u") } else { pair_byte::<WindowsEncoding>(a, b_, &mut bad, "w") };
    if unix {
        let (e2, o2) = pair_byte::<PlatformEncoding>(a, b_, &mut bad, "p");
        if e2 != eq0 || o2 != ord0 {
            bad.push(c("platform_differs", vec![]));
        }
    }
    let (ta, tb) = if unix { (TypedPath::unix(a), TypedPath::unix(b_)) } else { (TypedPath::windows(a), TypedPath::windows(b_)) };
    if (ta == tb) != eq0 || ta.cmp(&tb) != ord0 || ta.partial_cmp(&tb) != Some(ord0) {
        bad.push(c("typed_path", vec![]));
    }
    let (tba, tbb) = (ta.to_path_buf(), tb.to_path_buf());
    if (tba == tbb) != eq0 || tba.cmp(&tbb) != ord0 || (ta == tbb) != eq0 || (tba == tb) != eq0 {
        bad.push(c("typed_pathbuf", vec![]));
    }
    if let (Ok(sa), Ok(sb)) = (std::str::from_utf8(a), std::str::from_utf8(b_)) {
        if unix {
            pair_utf8::<Utf8UnixEncoding>(sa, sb, &mut bad, "u8", eq0, ord0);
            pair_utf8::<Utf8PlatformEncoding>(sa, sb, &mut bad, "p8", eq0, ord0);
        } else {
            pair_utf8::<Utf8WindowsEncoding>(sa, sb, &mut bad, "w8", eq0, ord0);
        }
        let (ua, ub) = if unix { (Utf8TypedPath::unix(sa), Utf8TypedPath::unix(sb)) } else { (Utf8TypedPath::windows(sa), Utf8TypedPath::windows(sb)) };
        let (uba, ubb) = (ua.to_path_buf(), ub.to_path_buf());
        if (ua == ub) != eq0 || ua.cmp(&ub) != ord0 || (uba == ubb) != eq0 || uba.cmp(&ubb) != ord0 || (ua == ubb) != eq0 || (uba == ub) != eq0 {
            bad.push(c("utf8_typed", vec![]));
        }
    }
    let mut v = vec![Val::Bool(eq0), ord_val(ord0), Val::Bool(bad.is_empty())];
    if !bad.is_empty() {
        v.push(Val::L(bad));
    }
    c("c19p", v)
}
