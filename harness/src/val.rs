//! Value text format shared with the extracted model (see coq/theories/Val.v).
use std::fmt::Write;

#[derive(Clone, Debug, PartialEq)]
pub enum Val {
    B(Vec<u8>),
    I(u64),
    Bool(bool),
    N,
    L(Vec<Val>),
    C(String, Vec<Val>),
}

pub fn some(v: Val) -> Val {
    Val::C("S".into(), vec![v])
}
pub fn opt<T>(o: Option<T>, f: impl FnOnce(T) -> Val) -> Val {
    match o {
        Some(x) => some(f(x)),
        None => Val::N,
    }
}
pub fn b(x: impl AsRef<[u8]>) -> Val {
    Val::B(x.as_ref().to_vec())
}
pub fn t2(a: Val, b: Val) -> Val {
    Val::C("t".into(), vec![a, b])
}
pub fn c(tag: &str, args: Vec<Val>) -> Val {
    Val::C(tag.into(), args)
}
pub fn list<T>(it: impl IntoIterator<Item = T>, f: impl Fn(T) -> Val) -> Val {
    Val::L(it.into_iter().map(f).collect())
}

impl Val {
    pub fn write(&self, out: &mut String) {
        match self {
            Val::B(v) => {
                out.push('x');
                for x in v {
                    let _ = write!(out, "{:02x}", x);
                }
            }
            Val::I(n) => {
                let _ = write!(out, "i{}", n);
            }
            Val::Bool(true) => out.push('T'),
            Val::Bool(false) => out.push('F'),
            Val::N => out.push('N'),
            Val::L(l) => {
                out.push('[');
                for (i, x) in l.iter().enumerate() {
                    if i > 0 {
                        out.push(' ');
                    }
                    x.write(out);
                }
                out.push(']');
            }
            Val::C(t, l) => {
                out.push('(');
                out.push_str(t);
                for x in l {
                    out.push(' ');
                    x.write(out);
                }
                out.push(')');
            }
        }
    }
    pub fn bytes(&self) -> &[u8] {
        match self {
            Val::B(v) => v,
            _ => panic!("harness: expected bytes, got {:?}", self),
        }
    }
    pub fn int(&self) -> u64 {
        match self {
            Val::I(v) => *v,
            _ => panic!("harness: expected int, got {:?}", self),
        }
    }
    pub fn items(&self) -> &[Val] {
        match self {
            Val::L(v) => v,
            _ => panic!("harness: expected list, got {:?}", self),
        }
    }
    pub fn tag(&self) -> (&str, &[Val]) {
        match self {
            Val::C(t, a) => (t.as_str(), a.as_slice()),
            _ => panic!("harness: expected constructor, got {:?}", self),
        }
    }
}

pub fn parse(s: &str) -> Result<Val, String> {
    let bs = s.as_bytes();
    let mut pos = 0usize;
    let v = parse_at(bs, &mut pos)?;
    while pos < bs.len() && bs[pos] == b' ' {
        pos += 1;
    }
    if pos != bs.len() {
        return Err(format!("trailing input at {}", pos));
    }
    Ok(v)
}

fn hexv(c: u8) -> Option<u8> {
    match c {
        b'0'..=b'9' => Some(c - b'0'),
        b'a'..=b'f' => Some(c - b'a' + 10),
        _ => None,
    }
}

fn parse_at(bs: &[u8], pos: &mut usize) -> Result<Val, String> {
    while *pos < bs.len() && bs[*pos] == b' ' {
        *pos += 1;
    }
    if *pos >= bs.len() {
        return Err("eof".into());
    }
    match bs[*pos] {
        b'x' => {
            *pos += 1;
            let mut v = Vec::new();
            while *pos + 1 < bs.len() {
                match (hexv(bs[*pos]), hexv(bs[*pos + 1])) {
                    (Some(h), Some(l)) => {
                        v.push(h * 16 + l);
                        *pos += 2;
                    }
                    _ => break,
                }
            }
            Ok(Val::B(v))
        }
        b'i' => {
            *pos += 1;
            let st = *pos;
            while *pos < bs.len() && bs[*pos].is_ascii_digit() {
                *pos += 1;
            }
            std::str::from_utf8(&bs[st..*pos])
                .unwrap()
                .parse::<u64>()
                .map(Val::I)
                .map_err(|e| e.to_string())
        }
        b'T' => {
            *pos += 1;
            Ok(Val::Bool(true))
        }
        b'F' => {
            *pos += 1;
            Ok(Val::Bool(false))
        }
        b'N' => {
            *pos += 1;
            Ok(Val::N)
        }
        b'[' => {
            *pos += 1;
            let mut v = Vec::new();
            loop {
                while *pos < bs.len() && bs[*pos] == b' ' {
                    *pos += 1;
                }
                if *pos >= bs.len() {
                    return Err("unterminated list".into());
                }
                if bs[*pos] == b']' {
                    *pos += 1;
                    break;
                }
                v.push(parse_at(bs, pos)?);
            }
            Ok(Val::L(v))
        }
        b'(' => {
            *pos += 1;
            let st = *pos;
            while *pos < bs.len() && (bs[*pos].is_ascii_alphanumeric() || bs[*pos] == b'_' || bs[*pos] == b'.') {
                *pos += 1;
            }
            let tag = std::str::from_utf8(&bs[st..*pos]).unwrap().to_string();
            let mut v = Vec::new();
            loop {
                while *pos < bs.len() && bs[*pos] == b' ' {
                    *pos += 1;
                }
                if *pos >= bs.len() {
                    return Err("unterminated constructor".into());
                }
                if bs[*pos] == b')' {
                    *pos += 1;
                    break;
                }
                v.push(parse_at(bs, pos)?);
            }
            Ok(Val::C(tag, v))
        }
        ch => Err(format!("unexpected {:?} at {}", ch as char, *pos)),
    }
}
