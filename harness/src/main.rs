//! Correspondence harness: runs case files through typed-path's public API (and, for the
//! properties that name it as the oracle, through real std::path) and prints one value per case.
//! Rebuilt by every check against /repo's working tree.
mod api;
mod conv;
mod ops;
mod selfcheck;
mod surface;
#[cfg(all(feature = "std", unix))]
mod stdapi;
mod val;

use std::io::{BufRead, Write};
use std::sync::mpsc;
use std::time::Duration;

fn run_line(line: &str) -> String {
    let mut parts = line.split('\t');
    let op = parts.next().unwrap_or("");
    let mut args = Vec::new();
    for p in parts {
        match val::parse(p) {
            Ok(v) => args.push(v),
            Err(e) => return format!("(badcase x{})", hex(e.as_bytes())),
        }
    }
    let r = std::panic::catch_unwind(std::panic::AssertUnwindSafe(|| ops::dispatch(op, &args)));
    let mut out = String::new();
    match r {
        Ok(v) => v.write(&mut out),
        Err(_) => out.push_str("(panic)"),
    }
    out
}

fn hex(b: &[u8]) -> String {
    b.iter().map(|x| format!("{:02x}", x)).collect()
}

fn main() {
    let argv: Vec<String> = std::env::args().collect();
    if argv.len() < 2 {
        eprintln!("usage: tpharness CASES [timeout_ms]");
        std::process::exit(2);
    }
    let timeout_ms: u64 = argv.get(2).and_then(|s| s.parse().ok()).unwrap_or(20000);
    std::panic::set_hook(Box::new(|_| {}));
    let file = std::fs::File::open(&argv[1]).expect("open cases");
    let lines: Vec<String> = std::io::BufReader::new(file).lines().map(|l| l.unwrap()).collect();
    let n = lines.len();
    let (tx, rx) = mpsc::channel::<String>();
    let worker = std::thread::Builder::new()
        .stack_size(256 << 20)
        .spawn(move || {
            for l in lines.iter() {
                let s = run_line(l);
                if tx.send(s).is_err() {
                    break;
                }
            }
        })
        .unwrap();
    let stdout = std::io::stdout();
    let mut w = std::io::BufWriter::new(stdout.lock());
    let mut done = 0usize;
    while done < n {
        match rx.recv_timeout(Duration::from_millis(timeout_ms)) {
            Ok(s) => {
                let _ = writeln!(w, "{}", s);
                done += 1;
            }
            Err(mpsc::RecvTimeoutError::Timeout) => {
                let _ = writeln!(w, "(timeout)");
                done += 1;
                while done < n {
                    let _ = writeln!(w, "(skipped)");
                    done += 1;
                }
                let _ = w.flush();
                std::process::exit(0);
            }
            Err(mpsc::RecvTimeoutError::Disconnected) => {
                // worker died (stack overflow aborts the process, so this is a thread-level failure)
                let _ = writeln!(w, "(panic)");
                done += 1;
                while done < n {
                    let _ = writeln!(w, "(skipped)");
                    done += 1;
                }
                break;
            }
        }
    }
    let _ = w.flush();
    drop(worker);
}
