//! Public surface that no other op drives (found by diffing the crate's `pub fn` / `impl` list against
//! the calls in this harness; the script is tools/apidiff.py and its residue is printed in DESIGN.md).
//! All of it is judged by self-consistency: each method has a contract that is fixed by another,
//! already modelled, method of the same value, so an empty list is the only acceptable answer.
//!  * component predicates (is_root / is_parent / is_current / is_normal / is_prefix, as_normal_*) and the
//!    constructors root() / parent() / current() against the enum variant;
//!  * has_unix_encoding / has_windows_encoding / has_platform_encoding, Encoding::label;
//!  * to_typed_path(_buf), TryAsRef and TryFrom between runtime-typed and concrete paths: variant and bytes;
//!  * the unchecked UTF-8 constructors on valid UTF-8 against the checked ones;
//!  * capacity methods keep the contents (and the variant);
//!  * Borrow agrees with == and Hash;
//!  * absolutize = normalize on absolute paths, = cwd.join(p).normalize() otherwise; utils::current_dir
//!    against std::env::current_dir;
//!  * std::path conversions (PathBuf <-> std PathBuf, component <-> std component, platform AsRef<std Path>).
use crate::api::feed;
use crate::val::*;
use core::convert::TryFrom;
use typed_path::*;

fn t(bad: &mut Vec<Val>, what: &str) {
    bad.push(c(&format!("surface:{what}"), vec![]));
}

fn unix_components(a: &[u8], bad: &mut Vec<Val>) {
    for x in UnixPath::new(a).components() {
        let want = match x {
            UnixComponent::RootDir => (true, false, false, false),
            UnixComponent::ParentDir => (false, true, false, false),
            UnixComponent::CurDir => (false, false, true, false),
            UnixComponent::Normal(_) => (false, false, false, true),
        };
        if (x.is_root(), x.is_parent(), x.is_current(), x.is_normal()) != want {
            t(bad, "unix.component.predicates");
        }
        #[cfg(all(feature = "std", unix))]
        {
            // the std component it converts to is the one std itself reads from these bytes
            use std::os::unix::ffi::OsStrExt;
            let conv = std::path::Component::try_from(x);
            let utf8 = core::str::from_utf8(x.as_bytes()).is_ok();
            match conv {
                Ok(sc) => {
                    if !utf8 || sc.as_os_str().as_bytes() != x.as_bytes() {
                        t(bad, "unix.component.to_std");
                    }
                    if UnixComponent::try_from(sc) != Ok(x) {
                        t(bad, "unix.component.from_std");
                    }
                }
                Err(back) => {
                    if utf8 || back != x {
                        t(bad, "unix.component.to_std.err");
                    }
                }
            }
        }
    }
    if <UnixComponent as Component>::root() != UnixComponent::RootDir
        || <UnixComponent as Component>::parent() != UnixComponent::ParentDir
        || <UnixComponent as Component>::current() != UnixComponent::CurDir
    {
        t(bad, "unix.component.constructors");
    }
    #[cfg(all(feature = "std", unix))]
    {
        // std's own components of the same bytes convert to ours one by one (valid UTF-8 names only)
        use std::os::unix::ffi::OsStrExt;
        let sp = std::path::Path::new(std::ffi::OsStr::from_bytes(a));
        let ours: Vec<UnixComponent> = UnixPath::new(a).components().collect();
        for (i, sc) in sp.components().enumerate() {
            match UnixComponent::try_from(sc) {
                Ok(x) => {
                    if ours.get(i) != Some(&x) {
                        t(bad, "unix.component.from_std.walk");
                    }
                }
                Err(_) => {
                    if sc.as_os_str().to_str().is_some() {
                        t(bad, "unix.component.from_std.err");
                    }
                }
            }
        }
    }
}

fn windows_components(a: &[u8], bad: &mut Vec<Val>) {
    for x in WindowsPath::new(a).components() {
        let want = match x {
            // a prefix that is not a plain drive letter implies a root (documented on is_root)
            WindowsComponent::Prefix(p) => (true, !matches!(p.kind(), WindowsPrefix::Disk(_)), false, false, false),
            WindowsComponent::RootDir => (false, true, false, false, false),
            WindowsComponent::ParentDir => (false, false, true, false, false),
            WindowsComponent::CurDir => (false, false, false, true, false),
            WindowsComponent::Normal(_) => (false, false, false, false, true),
        };
        if (x.is_prefix(), x.is_root(), x.is_parent(), x.is_current(), x.is_normal()) != want {
            t(bad, "windows.component.predicates");
        }
        #[cfg(all(feature = "std", unix))]
        {
            use std::os::unix::ffi::OsStrExt;
            let conv = std::path::Component::try_from(x);
            let utf8 = core::str::from_utf8(x.as_bytes()).is_ok();
            match (&x, conv) {
                // on a non-Windows host a prefix never converts
                (WindowsComponent::Prefix(_), Ok(_)) => t(bad, "windows.component.to_std.prefix"),
                (WindowsComponent::Prefix(_), Err(back)) => {
                    if back != x {
                        t(bad, "windows.component.to_std.prefix.err")
                    }
                }
                (_, Ok(sc)) => {
                    let same_kind = match (&x, &sc) {
                        (WindowsComponent::RootDir, std::path::Component::RootDir) => true,
                        (WindowsComponent::CurDir, std::path::Component::CurDir) => true,
                        (WindowsComponent::ParentDir, std::path::Component::ParentDir) => true,
                        (WindowsComponent::Normal(n), std::path::Component::Normal(o)) => o.as_bytes() == *n,
                        _ => false,
                    };
                    if !utf8 || !same_kind {
                        t(bad, "windows.component.to_std");
                    }
                    if WindowsComponent::try_from(sc) != Ok(x) {
                        t(bad, "windows.component.from_std");
                    }
                }
                (_, Err(back)) => {
                    if utf8 || back != x {
                        t(bad, "windows.component.to_std.err");
                    }
                }
            }
        }
    }
    if <WindowsComponent as Component>::root() != WindowsComponent::RootDir
        || <WindowsComponent as Component>::parent() != WindowsComponent::ParentDir
        || <WindowsComponent as Component>::current() != WindowsComponent::CurDir
    {
        t(bad, "windows.component.constructors");
    }
}

fn utf8_unix_components(s: &str, bad: &mut Vec<Val>) {
    let bytes: Vec<UnixComponent> = UnixPath::new(s.as_bytes()).components().collect();
    for (i, x) in Utf8UnixPath::new(s).components().enumerate() {
        let want = match x {
            Utf8UnixComponent::RootDir => (true, false, false, false),
            Utf8UnixComponent::ParentDir => (false, true, false, false),
            Utf8UnixComponent::CurDir => (false, false, true, false),
            Utf8UnixComponent::Normal(_) => (false, false, false, true),
        };
        if (x.is_root(), x.is_parent(), x.is_current(), x.is_normal()) != want {
            t(bad, "utf8unix.component.predicates");
        }
        if let Some(bc) = bytes.get(i) {
            // checked and unchecked views of the byte component are this component
            if Utf8UnixComponent::from_utf8(bc).ok() != Some(x) {
                t(bad, "utf8unix.component.from_utf8");
            }
            if unsafe { Utf8UnixComponent::from_utf8_unchecked(bc) } != x {
                t(bad, "utf8unix.component.from_utf8_unchecked");
            }
            if Utf8UnixComponent::try_from(*bc).ok() != Some(x) {
                t(bad, "utf8unix.component.try_from");
            }
        } else {
            t(bad, "utf8unix.component.count");
        }
    }
    if <Utf8UnixComponent as Utf8Component>::root() != Utf8UnixComponent::RootDir
        || <Utf8UnixComponent as Utf8Component>::parent() != Utf8UnixComponent::ParentDir
        || <Utf8UnixComponent as Utf8Component>::current() != Utf8UnixComponent::CurDir
    {
        t(bad, "utf8unix.component.constructors");
    }
}

fn utf8_windows_components(s: &str, bad: &mut Vec<Val>) {
    let bytes: Vec<WindowsComponent> = WindowsPath::new(s.as_bytes()).components().collect();
    for (i, x) in Utf8WindowsPath::new(s).components().enumerate() {
        let want = match x {
            Utf8WindowsComponent::Prefix(p) => (true, !matches!(p.kind(), Utf8WindowsPrefix::Disk(_)), false, false, false),
            Utf8WindowsComponent::RootDir => (false, true, false, false, false),
            Utf8WindowsComponent::ParentDir => (false, false, true, false, false),
            Utf8WindowsComponent::CurDir => (false, false, false, true, false),
            Utf8WindowsComponent::Normal(_) => (false, false, false, false, true),
        };
        if (x.is_prefix(), x.is_root(), x.is_parent(), x.is_current(), x.is_normal()) != want {
            t(bad, "utf8windows.component.predicates");
        }
        if let Some(bc) = bytes.get(i) {
            if Utf8WindowsComponent::from_utf8(bc).ok() != Some(x) {
                t(bad, "utf8windows.component.from_utf8");
            }
            if unsafe { Utf8WindowsComponent::from_utf8_unchecked(bc) } != x {
                t(bad, "utf8windows.component.from_utf8_unchecked");
            }
            if let (WindowsComponent::Prefix(bp), Utf8WindowsComponent::Prefix(up)) = (bc, &x) {
                if Utf8WindowsPrefixComponent::from_utf8(bp).ok().as_ref() != Some(up) {
                    t(bad, "utf8windows.prefixcomponent.from_utf8");
                }
                if unsafe { Utf8WindowsPrefixComponent::from_utf8_unchecked(bp) } != *up {
                    t(bad, "utf8windows.prefixcomponent.from_utf8_unchecked");
                }
                if Utf8WindowsPrefix::from_utf8(&bp.kind()).ok() != Some(up.kind()) {
                    t(bad, "utf8windows.prefix.from_utf8");
                }
                if unsafe { Utf8WindowsPrefix::from_utf8_unchecked(&bp.kind()) } != up.kind() {
                    t(bad, "utf8windows.prefix.from_utf8_unchecked");
                }
            }
        } else {
            t(bad, "utf8windows.component.count");
        }
    }
    if <Utf8WindowsComponent as Utf8Component>::root() != Utf8WindowsComponent::RootDir
        || <Utf8WindowsComponent as Utf8Component>::parent() != Utf8WindowsComponent::ParentDir
        || <Utf8WindowsComponent as Utf8Component>::current() != Utf8WindowsComponent::CurDir
    {
        t(bad, "utf8windows.component.constructors");
    }
}

/// everything that is generic in the byte encoding
fn byte_generic<T>(name: &str, a: &[u8], want_unix: bool, want_windows: bool, want_platform: bool, bad: &mut Vec<Val>)
where
    T: for<'enc> Encoding<'enc> + 'static,
{
    use core::borrow::Borrow;
    let p = Path::<T>::new(a);
    if p.has_unix_encoding() != want_unix || p.has_windows_encoding() != want_windows {
        t(bad, &format!("{name}.has_encoding"));
    }
    if p.has_platform_encoding() != want_platform {
        t(bad, &format!("{name}.has_platform_encoding"));
    }
    if (T::label() == UnixEncoding::label()) != want_unix || (T::label() == WindowsEncoding::label()) != want_windows {
        t(bad, &format!("{name}.label"));
    }
    // capacity methods keep the contents
    let mut buf = PathBuf::<T>::with_capacity(a.len() + 3);
    if !buf.as_bytes().is_empty() || buf.capacity() < a.len() + 3 {
        t(bad, &format!("{name}.with_capacity"));
    }
    buf.push(p);
    let pushed = buf.as_bytes().to_vec();
    if PathBuf::<T>::new().join(p).as_bytes() != &pushed[..] {
        t(bad, &format!("{name}.with_capacity.push"));
    }
    let mut buf = p.to_path_buf();
    buf.reserve(17);
    let c1 = buf.capacity() >= a.len() + 17;
    buf.reserve_exact(33);
    let c2 = buf.capacity() >= a.len() + 33;
    let r1 = buf.try_reserve(5).is_ok();
    let r2 = buf.try_reserve_exact(7).is_ok();
    let mid = buf.as_bytes() == a;
    buf.shrink_to(a.len() + 1);
    let c3 = buf.capacity() >= a.len();
    let mid2 = buf.as_bytes() == a;
    buf.shrink_to_fit();
    if !(c1 && c2 && c3 && r1 && r2 && mid && mid2) || buf.as_bytes() != a || buf.capacity() < a.len() {
        t(bad, &format!("{name}.capacity_methods"));
    }
    // provenance: a binary operation is a function of the bytes of its argument, not of where they live.  Every
    // view the path hands out of its own storage (parent, ancestors, the remainder of its components taken from
    // the back and from the front, file name / stem / extension) must be answered like an equal path allocated
    // elsewhere
    {
        let mut views: Vec<&Path<T>> = Vec::new();
        if let Some(x) = p.parent() {
            views.push(x);
        }
        for x in p.ancestors() {
            views.push(x);
        }
        let mut it = p.components();
        while it.next_back().is_some() {
            views.push(Path::<T>::new(it.as_bytes()));
        }
        let mut it = p.components();
        while it.next().is_some() {
            views.push(Path::<T>::new(it.as_bytes()));
        }
        for x in [p.file_name(), p.file_stem(), p.extension()].into_iter().flatten() {
            views.push(Path::<T>::new(x));
        }
        for v in views {
            let copy = PathBuf::<T>::from(v.as_bytes().to_vec());
            let c: &Path<T> = copy.as_path();
            let same = p.starts_with(v) == p.starts_with(c)
                && p.ends_with(v) == p.ends_with(c)
                && p.strip_prefix(v).ok().map(|x| x.as_bytes().to_vec()) == p.strip_prefix(c).ok().map(|x| x.as_bytes().to_vec())
                && p.join(v).as_bytes() == p.join(c).as_bytes()
                && (p == v) == (p == c)
                && p.cmp(v) == p.cmp(c)
                && v.starts_with(p) == c.starts_with(p);
            if !same {
                t(bad, &format!("{name}.aliased_argument"));
            }
        }
    }
    // Borrow: same path, same hash, same order
    let owned = p.to_path_buf();
    let br: &Path<T> = owned.borrow();
    if br != p || br.as_bytes() != a || feed(br) != feed(&owned) || br.cmp(p) != core::cmp::Ordering::Equal {
        t(bad, &format!("{name}.borrow"));
    }
    let set: std::collections::HashSet<PathBuf<T>> = [owned.clone()].into_iter().collect();
    if !set.contains(p) {
        t(bad, &format!("{name}.borrow.hashset"));
    }
    let bset: std::collections::BTreeSet<PathBuf<T>> = [owned.clone()].into_iter().collect();
    if !bset.contains(p) {
        t(bad, &format!("{name}.borrow.btreeset"));
    }
    #[cfg(feature = "std")]
    {
        // absolutize
        let want = if p.is_absolute() {
            Some(p.normalize())
        } else {
            utils::current_dir().ok().map(|cwd| cwd.with_encoding::<T>().join(p).normalize())
        };
        if p.absolutize().ok().map(|x| x.into_vec()) != want.map(|x| x.into_vec()) {
            t(bad, &format!("{name}.absolutize"));
        }
        // std PathBuf conversions: succeed exactly on valid UTF-8, keep the bytes
        let r = std::path::PathBuf::try_from(p.to_path_buf());
        match (core::str::from_utf8(a), r) {
            (Ok(s), Ok(sp)) => {
                if sp.to_str() != Some(s) {
                    t(bad, &format!("{name}.to_std_pathbuf"));
                }
                match PathBuf::<T>::try_from(sp) {
                    Ok(back) => {
                        if back.as_bytes() != a {
                            t(bad, &format!("{name}.from_std_pathbuf"));
                        }
                    }
                    Err(_) => t(bad, &format!("{name}.from_std_pathbuf.err")),
                }
            }
            (Err(_), Err(back)) => {
                if back.as_bytes() != a {
                    t(bad, &format!("{name}.to_std_pathbuf.err"));
                }
            }
            _ => t(bad, &format!("{name}.to_std_pathbuf.outcome")),
        }
    }
}

fn utf8_generic<T, B>(name: &str, s: &str, want_unix: bool, want_windows: bool, bad: &mut Vec<Val>)
where
    T: for<'enc> Utf8Encoding<'enc> + 'static,
    B: for<'enc> Encoding<'enc> + 'static,
{
    use core::borrow::Borrow;
    let p = Utf8Path::<T>::new(s);
    if p.has_unix_encoding() != want_unix || p.has_windows_encoding() != want_windows {
        t(bad, &format!("{name}.has_encoding"));
    }
    if (T::label() == Utf8UnixEncoding::label()) != want_unix || (T::label() == Utf8WindowsEncoding::label()) != want_windows {
        t(bad, &format!("{name}.label"));
    }
    // unchecked constructors from the byte family
    let bp = Path::<B>::new(s.as_bytes());
    let up: &Utf8Path<T> = unsafe { Utf8Path::<T>::from_bytes_path_unchecked(bp) };
    if up.as_str() != s || Utf8Path::<T>::from_bytes_path(bp).ok().map(|x| x.as_str()) != Some(s) {
        t(bad, &format!("{name}.from_bytes_path_unchecked"));
    }
    let ub: Utf8PathBuf<T> = unsafe { Utf8PathBuf::<T>::from_bytes_path_buf_unchecked(bp.to_path_buf()) };
    if ub.as_str() != s || Utf8PathBuf::<T>::from_bytes_path_buf(bp.to_path_buf()).ok().map(|x| x.into_string()) != Some(s.to_string()) {
        t(bad, &format!("{name}.from_bytes_path_buf_unchecked"));
    }
    // provenance (see byte_generic): views into the path's own storage answered like equal paths allocated elsewhere
    {
        let mut views: Vec<&Utf8Path<T>> = Vec::new();
        if let Some(x) = p.parent() {
            views.push(x);
        }
        for x in p.ancestors() {
            views.push(x);
        }
        let mut it = p.components();
        while it.next_back().is_some() {
            views.push(Utf8Path::<T>::new(it.as_str()));
        }
        let mut it = p.components();
        while it.next().is_some() {
            views.push(Utf8Path::<T>::new(it.as_str()));
        }
        for x in [p.file_name(), p.file_stem(), p.extension()].into_iter().flatten() {
            views.push(Utf8Path::<T>::new(x));
        }
        for v in views {
            let copy = Utf8PathBuf::<T>::from(v.as_str().to_string());
            let c: &Utf8Path<T> = copy.as_path();
            let same = p.starts_with(v) == p.starts_with(c)
                && p.ends_with(v) == p.ends_with(c)
                && p.strip_prefix(v).ok().map(|x| x.as_str().to_string()) == p.strip_prefix(c).ok().map(|x| x.as_str().to_string())
                && p.join(v).as_str() == p.join(c).as_str()
                && (p == v) == (p == c)
                && p.cmp(v) == p.cmp(c)
                && v.starts_with(p) == c.starts_with(p);
            if !same {
                t(bad, &format!("{name}.aliased_argument"));
            }
        }
    }
    // capacity methods
    let mut buf = Utf8PathBuf::<T>::with_capacity(s.len() + 3);
    if !buf.as_str().is_empty() || buf.capacity() < s.len() + 3 {
        t(bad, &format!("{name}.with_capacity"));
    }
    buf.push(p);
    if Utf8PathBuf::<T>::new().join(p).as_str() != buf.as_str() {
        t(bad, &format!("{name}.with_capacity.push"));
    }
    let mut buf = p.to_path_buf();
    buf.reserve(17);
    let c1 = buf.capacity() >= s.len() + 17;
    buf.reserve_exact(33);
    let c2 = buf.capacity() >= s.len() + 33;
    let r1 = buf.try_reserve(5).is_ok();
    let r2 = buf.try_reserve_exact(7).is_ok();
    let mid = buf.as_str() == s;
    buf.shrink_to(s.len() + 1);
    let mid2 = buf.as_str() == s;
    buf.shrink_to_fit();
    if !(c1 && c2 && r1 && r2 && mid && mid2) || buf.as_str() != s || buf.capacity() < s.len() {
        t(bad, &format!("{name}.capacity_methods"));
    }
    let owned = p.to_path_buf();
    let br: &Utf8Path<T> = owned.borrow();
    if br != p || br.as_str() != s || feed(br) != feed(&owned) || br.cmp(p) != core::cmp::Ordering::Equal {
        t(bad, &format!("{name}.borrow"));
    }
    let set: std::collections::HashSet<Utf8PathBuf<T>> = [owned.clone()].into_iter().collect();
    if !set.contains(p) {
        t(bad, &format!("{name}.borrow.hashset"));
    }
    let bset: std::collections::BTreeSet<Utf8PathBuf<T>> = [owned.clone()].into_iter().collect();
    if !bset.contains(p) {
        t(bad, &format!("{name}.borrow.btreeset"));
    }
    #[cfg(feature = "std")]
    {
        let want = if p.is_absolute() {
            Some(p.normalize())
        } else {
            utils::utf8_current_dir().ok().map(|cwd| cwd.with_encoding::<T>().join(p).normalize())
        };
        if p.absolutize().ok().map(|x| x.into_string()) != want.map(|x| x.into_string()) {
            t(bad, &format!("{name}.absolutize"));
        }
        #[cfg(unix)]
        {
            use std::ffi::{OsStr, OsString};
            let os = OsStr::new(s);
            let r: Option<&Utf8Path<T>> = os.try_as_ref();
            if r.map(|x| x.as_str()) != Some(s) {
                t(bad, &format!("{name}.osstr.try_as_ref"));
            }
            let oss = OsString::from(s);
            let r: Option<&Utf8Path<T>> = oss.try_as_ref();
            if r.map(|x| x.as_str()) != Some(s) {
                t(bad, &format!("{name}.osstring.try_as_ref"));
            }
        }
    }
}

#[cfg(all(feature = "std", unix))]
fn non_utf8_osstr<T: for<'enc> Utf8Encoding<'enc>>(name: &str, a: &[u8], bad: &mut Vec<Val>) {
    use std::os::unix::ffi::OsStrExt;
    if core::str::from_utf8(a).is_err() {
        let os = std::ffi::OsStr::from_bytes(a);
        let r: Option<&Utf8Path<T>> = os.try_as_ref();
        if r.is_some() {
            t(bad, &format!("{name}.osstr.try_as_ref.invalid"));
        }
    }
}

fn typed_byte(a: &[u8], unix: bool, bad: &mut Vec<Val>) {
    let tp = if unix { UnixPath::new(a).to_typed_path() } else { WindowsPath::new(a).to_typed_path() };
    let tb = if unix { UnixPath::new(a).to_typed_path_buf() } else { WindowsPath::new(a).to_typed_path_buf() };
    if tp.is_unix() != unix || tp.is_windows() == unix || tp.as_bytes() != a {
        t(bad, "typed.to_typed_path");
    }
    if tb.is_unix() != unix || tb.is_windows() == unix || tb.as_bytes() != a {
        t(bad, "typed.to_typed_path_buf");
    }
    let au: Option<&UnixPath> = tp.try_as_ref();
    let aw: Option<&WindowsPath> = tp.try_as_ref();
    if au.map(|x| x.as_bytes()) != (if unix { Some(a) } else { None }) || aw.map(|x| x.as_bytes()) != (if unix { None } else { Some(a) }) {
        t(bad, "typed.try_as_ref");
    }
    match UnixPathBuf::try_from(tb.clone()) {
        Ok(x) => {
            if !unix || x.as_bytes() != a {
                t(bad, "typed.try_from.unixpathbuf")
            }
        }
        Err(back) => {
            if unix || back != tb || back.is_unix() {
                t(bad, "typed.try_from.unixpathbuf.err")
            }
        }
    }
    match WindowsPathBuf::try_from(tb.clone()) {
        Ok(x) => {
            if unix || x.as_bytes() != a {
                t(bad, "typed.try_from.windowspathbuf")
            }
        }
        Err(back) => {
            if !unix || back != tb || back.is_windows() {
                t(bad, "typed.try_from.windowspathbuf.err")
            }
        }
    }
    #[cfg(all(feature = "std", unix))]
    {
        // on a Unix host only the Unix variant with valid UTF-8 converts to a std PathBuf
        let utf8 = core::str::from_utf8(a).ok();
        match std::path::PathBuf::try_from(tb.clone()) {
            Ok(sp) => {
                if !unix || utf8.is_none() || sp.to_str() != utf8 {
                    t(bad, "typed.try_from.std_pathbuf")
                }
            }
            Err(back) => {
                if (unix && utf8.is_some()) || back != tb || back.is_unix() != unix {
                    t(bad, "typed.try_from.std_pathbuf.err")
                }
            }
        }
    }
    // components of the typed path: predicates against the wrapped component
    for x in tp.components() {
        let (r, p, cu, n) = match &x {
            TypedComponent::Unix(y) => (y.is_root(), y.is_parent(), y.is_current(), y.is_normal()),
            TypedComponent::Windows(y) => (y.is_root(), y.is_parent(), y.is_current(), y.is_normal()),
        };
        if (x.is_root(), x.is_parent(), x.is_current(), x.is_normal()) != (r, p, cu, n) {
            t(bad, "typed.component.predicates");
        }
        if x.as_normal_bytes() != (if n { Some(x.as_bytes()) } else { None }) {
            t(bad, "typed.component.as_normal_bytes");
        }
        if x.len() != x.as_bytes().len() || x.is_empty() != x.as_bytes().is_empty() {
            t(bad, "typed.component.len");
        }
        let cp = x.to_path();
        if cp.is_unix() != unix || cp.as_bytes() != x.as_bytes() {
            t(bad, "typed.component.to_path");
        }
    }
    // capacity methods keep contents and variant
    let mut buf = tb.clone();
    buf.reserve(17);
    buf.reserve_exact(33);
    let r1 = buf.try_reserve(5).is_ok();
    let r2 = buf.try_reserve_exact(7).is_ok();
    let capok = buf.capacity() >= a.len() + 33;
    buf.shrink_to(a.len() + 1);
    buf.shrink_to_fit();
    if !(r1 && r2 && capok) || buf.as_bytes() != a || buf.is_unix() != unix || buf.capacity() < a.len() {
        t(bad, "typed.capacity_methods");
    }
    #[cfg(feature = "std")]
    {
        // absolutize of the typed path = absolutize of the wrapped path, same variant
        let want = if unix { UnixPath::new(a).absolutize().ok().map(|x| x.into_vec()) } else { WindowsPath::new(a).absolutize().ok().map(|x| x.into_vec()) };
        let got = tp.absolutize().ok();
        if got.as_ref().map(|x| x.is_unix()) != want.as_ref().map(|_| unix) || got.map(|x| x.into_vec()) != want {
            t(bad, "typed.absolutize");
        }
        let got = tb.absolutize().ok();
        let want = if unix { UnixPath::new(a).absolutize().ok().map(|x| x.into_vec()) } else { WindowsPath::new(a).absolutize().ok().map(|x| x.into_vec()) };
        if got.as_ref().map(|x| x.is_unix()) != want.as_ref().map(|_| unix) || got.map(|x| x.into_vec()) != want {
            t(bad, "typedbuf.absolutize");
        }
    }
}

fn typed_utf8(s: &str, unix: bool, bad: &mut Vec<Val>) {
    let tp = if unix { Utf8UnixPath::new(s).to_typed_path() } else { Utf8WindowsPath::new(s).to_typed_path() };
    let tb = if unix { Utf8UnixPath::new(s).to_typed_path_buf() } else { Utf8WindowsPath::new(s).to_typed_path_buf() };
    if tp.is_unix() != unix || tp.is_windows() == unix || tp.as_str() != s {
        t(bad, "utf8typed.to_typed_path");
    }
    if tb.is_unix() != unix || tb.is_windows() == unix || tb.as_str() != s {
        t(bad, "utf8typed.to_typed_path_buf");
    }
    let au: Option<&Utf8UnixPath> = tp.try_as_ref();
    let aw: Option<&Utf8WindowsPath> = tp.try_as_ref();
    if au.map(|x| x.as_str()) != (if unix { Some(s) } else { None }) || aw.map(|x| x.as_str()) != (if unix { None } else { Some(s) }) {
        t(bad, "utf8typed.try_as_ref");
    }
    match Utf8UnixPathBuf::try_from(tb.clone()) {
        Ok(x) => {
            if !unix || x.as_str() != s {
                t(bad, "utf8typed.try_from.unixpathbuf")
            }
        }
        Err(back) => {
            if unix || back != tb || back.is_unix() {
                t(bad, "utf8typed.try_from.unixpathbuf.err")
            }
        }
    }
    match Utf8WindowsPathBuf::try_from(tb.clone()) {
        Ok(x) => {
            if unix || x.as_str() != s {
                t(bad, "utf8typed.try_from.windowspathbuf")
            }
        }
        Err(back) => {
            if !unix || back != tb || back.is_windows() {
                t(bad, "utf8typed.try_from.windowspathbuf.err")
            }
        }
    }
    for x in tp.components() {
        let (r, p, cu, n) = match &x {
            Utf8TypedComponent::Unix(y) => (y.is_root(), y.is_parent(), y.is_current(), y.is_normal()),
            Utf8TypedComponent::Windows(y) => (y.is_root(), y.is_parent(), y.is_current(), y.is_normal()),
        };
        if (x.is_root(), x.is_parent(), x.is_current(), x.is_normal()) != (r, p, cu, n) {
            t(bad, "utf8typed.component.predicates");
        }
        if x.as_normal_str() != (if n { Some(x.as_str()) } else { None }) {
            t(bad, "utf8typed.component.as_normal_str");
        }
        if x.len() != x.as_str().len() || x.is_empty() != x.as_str().is_empty() {
            t(bad, "utf8typed.component.len");
        }
        let cp = x.to_path();
        if cp.is_unix() != unix || cp.as_str() != x.as_str() {
            t(bad, "utf8typed.component.to_path");
        }
    }
    let mut buf = tb.clone();
    buf.reserve(17);
    buf.reserve_exact(33);
    let r1 = buf.try_reserve(5).is_ok();
    let r2 = buf.try_reserve_exact(7).is_ok();
    let capok = buf.capacity() >= s.len() + 33;
    buf.shrink_to(s.len() + 1);
    buf.shrink_to_fit();
    if !(r1 && r2 && capok) || buf.as_str() != s || buf.is_unix() != unix || buf.capacity() < s.len() {
        t(bad, "utf8typed.capacity_methods");
    }
    #[cfg(feature = "std")]
    {
        let want = if unix { Utf8UnixPath::new(s).absolutize().ok().map(|x| x.into_string()) } else { Utf8WindowsPath::new(s).absolutize().ok().map(|x| x.into_string()) };
        let got = tp.absolutize().ok();
        if got.as_ref().map(|x| x.is_unix()) != want.as_ref().map(|_| unix) || got.map(|x| x.into_string()) != want {
            t(bad, "utf8typed.absolutize");
        }
        let got = tb.absolutize().ok();
        let want = if unix { Utf8UnixPath::new(s).absolutize().ok().map(|x| x.into_string()) } else { Utf8WindowsPath::new(s).absolutize().ok().map(|x| x.into_string()) };
        if got.as_ref().map(|x| x.is_unix()) != want.as_ref().map(|_| unix) || got.map(|x| x.into_string()) != want {
            t(bad, "utf8typedbuf.absolutize");
        }
    }
}

#[cfg(feature = "std")]
fn env_utils(bad: &mut Vec<Val>) {
    // the three environment wrappers against std::env, in both the byte and the UTF-8 form
    #[cfg(unix)]
    {
        use std::os::unix::ffi::OsStrExt;
        let same = |x: std::io::Result<NativePathBuf>, y: std::io::Result<std::path::PathBuf>| match (x, y) {
            (Ok(x), Ok(y)) => x.as_bytes() == y.as_os_str().as_bytes(),
            (Err(_), Err(_)) => true,
            _ => false,
        };
        if !same(utils::current_dir(), std::env::current_dir()) {
            t(bad, "utils.current_dir");
        }
        if !same(utils::current_exe(), std::env::current_exe()) {
            t(bad, "utils.current_exe");
        }
        if !same(utils::temp_dir(), Ok(std::env::temp_dir())) {
            t(bad, "utils.temp_dir");
        }
        let same8 = |x: std::io::Result<Utf8NativePathBuf>, y: std::io::Result<std::path::PathBuf>| match (x, y) {
            (Ok(x), Ok(y)) => Some(x.as_str()) == y.to_str(),
            (Err(_), Ok(y)) => y.to_str().is_none(),
            (Err(_), Err(_)) => true,
            _ => false,
        };
        if !same8(utils::utf8_current_dir(), std::env::current_dir()) {
            t(bad, "utils.utf8_current_dir");
        }
        if !same8(utils::utf8_current_exe(), std::env::current_exe()) {
            t(bad, "utils.utf8_current_exe");
        }
        if !same8(utils::utf8_temp_dir(), Ok(std::env::temp_dir())) {
            t(bad, "utils.utf8_temp_dir");
        }
    }
}

/// every AsRef impl hands out exactly the bytes the modelled accessor of the same value hands out
fn as_ref_byte<T>(name: &str, a: &[u8], bad: &mut Vec<Val>)
where
    T: for<'enc> Encoding<'enc> + 'static,
{
    use std::borrow::Cow;
    let p = Path::<T>::new(a);
    let buf = p.to_path_buf();
    let mut ok = true;
    let r: &Path<T> = AsRef::<Path<T>>::as_ref(a);
    ok &= r.as_bytes() == a;
    let cow: Cow<[u8]> = Cow::Borrowed(a);
    let r: &Path<T> = cow.as_ref();
    ok &= r.as_bytes() == a;
    let cow: Cow<[u8]> = Cow::Owned(a.to_vec());
    let r: &Path<T> = cow.as_ref();
    ok &= r.as_bytes() == a;
    let v = a.to_vec();
    let r: &Path<T> = v.as_ref();
    ok &= r.as_bytes() == a;
    let r: &Path<T> = p.as_ref();
    ok &= r.as_bytes() == a;
    let r: &Path<T> = buf.as_ref();
    ok &= r.as_bytes() == a;
    let r: &[u8] = p.as_ref();
    ok &= r == a;
    let r: &[u8] = buf.as_ref();
    ok &= r == a;
    if let Ok(st) = core::str::from_utf8(a) {
        let r: &Path<T> = st.as_ref();
        ok &= r.as_bytes() == a;
        let owned = st.to_string();
        let r: &Path<T> = owned.as_ref();
        ok &= r.as_bytes() == a;
    }
    if !ok {
        t(bad, &format!("{name}.as_ref"));
    }
    // Iter: fresh, after a front step, after a back step
    let mut ok = true;
    for k in 0..3 {
        let mut it = p.iter();
        if k == 1 {
            it.next();
        }
        if k == 2 {
            it.next_back();
        }
        let want = it.as_path().as_bytes().to_vec();
        let r: &Path<T> = it.as_ref();
        ok &= r.as_bytes() == &want[..];
        let r: &[u8] = it.as_ref();
        ok &= r == &want[..];
    }
    if !ok {
        t(bad, &format!("{name}.iter.as_ref"));
    }
    #[cfg(all(feature = "std", unix))]
    {
        use std::ffi::{OsStr, OsString};
        use std::os::unix::ffi::{OsStrExt, OsStringExt};
        let mut ok = true;
        let os = OsStr::from_bytes(a);
        let r: &Path<T> = os.as_ref();
        ok &= r.as_bytes() == a;
        let oss = OsString::from_vec(a.to_vec());
        let r: &Path<T> = oss.as_ref();
        ok &= r.as_bytes() == a;
        let r: &OsStr = p.as_ref();
        ok &= r.as_bytes() == a;
        let r: &OsStr = buf.as_ref();
        ok &= r.as_bytes() == a;
        if !ok {
            t(bad, &format!("{name}.osstr.as_ref"));
        }
    }
}

fn as_ref_utf8<T>(name: &str, s: &str, bad: &mut Vec<Val>)
where
    T: for<'enc> Utf8Encoding<'enc> + 'static,
{
    use std::borrow::Cow;
    let p = Utf8Path::<T>::new(s);
    let buf = p.to_path_buf();
    let mut ok = true;
    let r: &Utf8Path<T> = AsRef::<Utf8Path<T>>::as_ref(s);
    ok &= r.as_str() == s;
    let cow: Cow<str> = Cow::Borrowed(s);
    let r: &Utf8Path<T> = cow.as_ref();
    ok &= r.as_str() == s;
    let cow: Cow<str> = Cow::Owned(s.to_string());
    let r: &Utf8Path<T> = cow.as_ref();
    ok &= r.as_str() == s;
    let owned = s.to_string();
    let r: &Utf8Path<T> = owned.as_ref();
    ok &= r.as_str() == s;
    let r: &Utf8Path<T> = p.as_ref();
    ok &= r.as_str() == s;
    let r: &Utf8Path<T> = buf.as_ref();
    ok &= r.as_str() == s;
    let r: &[u8] = p.as_ref();
    ok &= r == s.as_bytes();
    let r: &[u8] = buf.as_ref();
    ok &= r == s.as_bytes();
    let r: &str = p.as_ref();
    ok &= r == s;
    let r: &str = buf.as_ref();
    ok &= r == s;
    if !ok {
        t(bad, &format!("{name}.as_ref"));
    }
    let mut ok = true;
    for k in 0..3 {
        let mut it = p.iter();
        if k == 1 {
            it.next();
        }
        if k == 2 {
            it.next_back();
        }
        let want = it.as_path().as_str().to_string();
        let r: &Utf8Path<T> = it.as_ref();
        ok &= r.as_str() == want;
        let r: &[u8] = it.as_ref();
        ok &= r == want.as_bytes();
        let r: &str = it.as_ref();
        ok &= r == want;
    }
    if !ok {
        t(bad, &format!("{name}.iter.as_ref"));
    }
    #[cfg(all(feature = "std", unix))]
    {
        use std::os::unix::ffi::OsStrExt;
        let r: &std::ffi::OsStr = p.as_ref();
        let r2: &std::ffi::OsStr = buf.as_ref();
        if r.as_bytes() != s.as_bytes() || r2.as_bytes() != s.as_bytes() {
            t(bad, &format!("{name}.osstr.as_ref"));
        }
        let os: std::ffi::OsString = buf.clone().into();
        if os.as_bytes() != s.as_bytes() {
            t(bad, &format!("{name}.into_osstring"));
        }
    }
}

/// AsRef of components iterators (fresh and partially consumed) and of single components
macro_rules! comps_as_ref {
    ($bad:expr, $name:expr, $path:expr, $pty:ty, $cb:expr, [$($target:ty => $get:expr),*]) => {{
        let mut ok = true;
        for k in 0..3 {
            let mut it = $path.components();
            if k == 1 { it.next(); }
            if k == 2 { it.next_back(); }
            let want: Vec<u8> = AsRef::<[u8]>::as_ref(it.as_path::<$pty>()).to_vec();
            $( { let r: &$target = it.as_ref(); ok &= $get(r) == &want[..]; } )*
        }
        for x in $path.components() {
            let want: Vec<u8> = $cb(&x);
            $( { let r: &$target = x.as_ref(); ok &= $get(r) == &want[..]; } )*
        }
        if !ok { t($bad, &format!("{}.components.as_ref", $name)); }
    }};
}

fn as_ref_components(suffix: &str, a: &[u8], bad: &mut Vec<Val>) {
    let s = core::str::from_utf8(a).ok();
    match suffix {
        "u" | "bu" => comps_as_ref!(bad, "unix", UnixPath::new(a), UnixEncoding, |x: &UnixComponent| x.as_bytes().to_vec(),
            [[u8] => |r: &[u8]| r.to_vec(), UnixPath => |r: &UnixPath| r.as_bytes().to_vec(), WindowsPath => |r: &WindowsPath| r.as_bytes().to_vec()]),
        "w" | "bw" => comps_as_ref!(bad, "windows", WindowsPath::new(a), WindowsEncoding, |x: &WindowsComponent| x.as_bytes().to_vec(),
            [[u8] => |r: &[u8]| r.to_vec(), WindowsPath => |r: &WindowsPath| r.as_bytes().to_vec(), UnixPath => |r: &UnixPath| r.as_bytes().to_vec()]),
        "u8" | "b8u" => {
            if let Some(s) = s {
                comps_as_ref!(bad, "utf8unix", Utf8UnixPath::new(s), Utf8UnixEncoding, |x: &Utf8UnixComponent| x.as_str().as_bytes().to_vec(),
                    [[u8] => |r: &[u8]| r.to_vec(), str => |r: &str| r.as_bytes().to_vec(), Utf8UnixPath => |r: &Utf8UnixPath| r.as_str().as_bytes().to_vec()])
            }
        }
        "w8" | "b8w" => {
            if let Some(s) = s {
                comps_as_ref!(bad, "utf8windows", Utf8WindowsPath::new(s), Utf8WindowsEncoding, |x: &Utf8WindowsComponent| x.as_str().as_bytes().to_vec(),
                    [[u8] => |r: &[u8]| r.to_vec(), str => |r: &str| r.as_bytes().to_vec(), Utf8WindowsPath => |r: &Utf8WindowsPath| r.as_str().as_bytes().to_vec()])
            }
        }
        "tu" | "tw" | "tbu" | "tbw" => {
            let tp = if suffix.ends_with('u') { TypedPath::unix(a) } else { TypedPath::windows(a) };
            let mut ok = true;
            for k in 0..3 {
                let mut it = tp.components();
                if k == 1 { it.next(); }
                if k == 2 { it.next_back(); }
                let want = it.to_path().as_bytes().to_vec();
                let r: &[u8] = it.as_ref();
                ok &= r == &want[..];
                ok &= it.as_bytes() == &want[..];
            }
            for k in 0..3 {
                let mut it = tp.iter();
                if k == 1 { it.next(); }
                if k == 2 { it.next_back(); }
                let want = it.to_path().as_bytes().to_vec();
                let r: &[u8] = it.as_ref();
                ok &= r == &want[..];
            }
            for x in tp.components() {
                let r: &[u8] = x.as_ref();
                ok &= r == x.as_bytes();
            }
            let r: &[u8] = tp.as_ref();
            ok &= r == a;
            let tb = tp.to_path_buf();
            let r: &[u8] = tb.as_ref();
            ok &= r == a;
            if !ok { t(bad, "typed.as_ref"); }
        }
        "t8u" | "t8w" | "tb8u" | "tb8w" => {
            if let Some(s) = s {
                let tp = if suffix.ends_with('u') { Utf8TypedPath::unix(s) } else { Utf8TypedPath::windows(s) };
                let mut ok = true;
                for k in 0..3 {
                    let mut it = tp.components();
                    if k == 1 { it.next(); }
                    if k == 2 { it.next_back(); }
                    let want = it.to_path().as_str().to_string();
                    let r: &[u8] = it.as_ref();
                    ok &= r == want.as_bytes();
                    let r: &str = it.as_ref();
                    ok &= r == want;
                }
                for k in 0..3 {
                    let mut it = tp.iter();
                    if k == 1 { it.next(); }
                    if k == 2 { it.next_back(); }
                    let want = it.to_path().as_str().to_string();
                    let r: &[u8] = it.as_ref();
                    ok &= r == want.as_bytes();
                    let r: &str = it.as_ref();
                    ok &= r == want;
                }
                for x in tp.components() {
                    let r: &[u8] = x.as_ref();
                    ok &= r == x.as_str().as_bytes();
                    let r: &str = x.as_ref();
                    ok &= r == x.as_str();
                }
                let r: &str = tp.as_ref();
                ok &= r == s;
                let tb = tp.to_path_buf();
                let r: &str = tb.as_ref();
                ok &= r == s;
                let r: &[u8] = tb.as_ref();
                ok &= r == s.as_bytes();
                if !ok { t(bad, "utf8typed.as_ref"); }
            }
        }
        _ => {}
    }
}

pub fn surface(suffix: &str, a: &[u8], bad: &mut Vec<Val>) {
    let s = core::str::from_utf8(a).ok();
    as_ref_components(suffix, a, bad);
    match suffix {
        "u" | "bu" => {
            unix_components(a, bad);
            byte_generic::<UnixEncoding>("unix", a, true, false, false, bad);
            as_ref_byte::<UnixEncoding>("unix", a, bad);
        }
        "w" | "bw" => {
            windows_components(a, bad);
            byte_generic::<WindowsEncoding>("windows", a, false, true, false, bad);
            as_ref_byte::<WindowsEncoding>("windows", a, bad);
        }
        "pu" => {
            byte_generic::<PlatformEncoding>("platform", a, cfg!(unix), cfg!(windows), true, bad);
            as_ref_byte::<PlatformEncoding>("platform", a, bad);
            #[cfg(feature = "std")]
            env_utils(bad);
        }
        "u8" | "b8u" => {
            if let Some(s) = s {
                utf8_unix_components(s, bad);
                utf8_generic::<Utf8UnixEncoding, UnixEncoding>("utf8unix", s, true, false, bad);
                as_ref_utf8::<Utf8UnixEncoding>("utf8unix", s, bad);
            }
            #[cfg(all(feature = "std", unix))]
            non_utf8_osstr::<Utf8UnixEncoding>("utf8unix", a, bad);
        }
        "w8" | "b8w" => {
            if let Some(s) = s {
                utf8_windows_components(s, bad);
                utf8_generic::<Utf8WindowsEncoding, WindowsEncoding>("utf8windows", s, false, true, bad);
                as_ref_utf8::<Utf8WindowsEncoding>("utf8windows", s, bad);
            }
        }
        "p8" => {
            if let Some(s) = s {
                utf8_generic::<Utf8PlatformEncoding, PlatformEncoding>("utf8platform", s, cfg!(unix), cfg!(windows), bad);
                as_ref_utf8::<Utf8PlatformEncoding>("utf8platform", s, bad);
                #[cfg(feature = "std")]
                {
                    let p = Utf8PlatformPath::new(s);
                    let sp: &std::path::Path = p.as_ref();
                    if sp.to_str() != Some(s) {
                        t(bad, "utf8platform.as_ref_std_path");
                    }
                    let pb = p.to_path_buf();
                    let sp: &std::path::Path = pb.as_ref();
                    if sp.to_str() != Some(s) {
                        t(bad, "utf8platformbuf.as_ref_std_path");
                    }
                    let spb: std::path::PathBuf = pb.into();
                    if spb.to_str() != Some(s) {
                        t(bad, "utf8platformbuf.into_std_pathbuf");
                    }
                }
            }
        }
        "tu" | "tbu" => typed_byte(a, true, bad),
        "tw" | "tbw" => typed_byte(a, false, bad),
        "t8u" | "tb8u" => {
            if let Some(s) = s {
                typed_utf8(s, true, bad)
            }
        }
        "t8w" | "tb8w" => {
            if let Some(s) = s {
                typed_utf8(s, false, bad)
            }
        }
        _ => {}
    }
}
