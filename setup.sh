#!/bin/sh
# MANIFEST.setup_cmd: clean full build of the Coq development, extraction, driver, harness
cd "$(dirname "$0")" && exec python3 tools/vcheck.py setup
