(* Hand-written glue around the extracted model (Model = model.ml, extracted from
   theories/Run.v with ExtrOcamlBasic only).  Parsing and printing of the value text
   format, nothing else.

   usage: driver run   CASES            -> one model value per case
          driver check CASES IMPL_OUT   -> per case: eq cm ci [model value when eq=0]
            eq = model value equals implementation value (Model.val_eqb)
            cm = Model.check on the model's value, ci = Model.check on the implementation's value
               (0 = property fails, 1 = holds, k >= 2 = known-finding class k) *)
module M = Model
open M
type ostring = Stdlib.String.t

let rec pos_of_int (i : int) : positive =
  if i = 1 then XH else if i land 1 = 1 then XI (pos_of_int (i lsr 1)) else XO (pos_of_int (i lsr 1))
let n_of_int (i : int) : n = if i = 0 then N0 else Npos (pos_of_int i)
let rec int_of_pos = function XH -> 1 | XO p -> 2 * int_of_pos p | XI p -> 2 * int_of_pos p + 1
let int_of_n = function N0 -> 0 | Npos p -> int_of_pos p

let ascii_of_char (c : char) : ascii =
  let i = Char.code c in
  let b k = (i lsr k) land 1 = 1 in
  Ascii (b 0, b 1, b 2, b 3, b 4, b 5, b 6, b 7)
let char_of_ascii (Ascii (b0, b1, b2, b3, b4, b5, b6, b7)) : char =
  let v b k = if b then 1 lsl k else 0 in
  Char.chr (v b0 0 + v b1 1 + v b2 2 + v b3 3 + v b4 4 + v b5 5 + v b6 6 + v b7 7)
let coq_string (s : ostring) : M.string =
  let r = ref EmptyString in
  for i = Stdlib.String.length s - 1 downto 0 do r := String (ascii_of_char (Stdlib.String.get s i), !r) done; !r
let rec ocaml_string (s : M.string) (b : Buffer.t) : unit =
  match s with EmptyString -> () | String (a, r) -> Buffer.add_char b (char_of_ascii a); ocaml_string r b

exception Parse_error of ostring

let hexval c = match c with
  | '0'..'9' -> Char.code c - 48 | 'a'..'f' -> Char.code c - 87 | 'A'..'F' -> Char.code c - 55
  | _ -> raise (Parse_error "hex")

(* parser over a string with a position *)
let parse_val (s : ostring) : val0 =
  let n = Stdlib.String.length s in
  let pos = ref 0 in
  let peek () = if !pos < n then s.[!pos] else '\000' in
  let skip_ws () = while !pos < n && s.[!pos] = ' ' do incr pos done in
  let is_tok c = match c with 'a'..'z' | 'A'..'Z' | '0'..'9' | '_' | '.' -> true | _ -> false in
  let rec value () : val0 =
    skip_ws ();
    match peek () with
    | 'x' ->
        incr pos;
        let acc = ref [] in
        while !pos + 1 < n && (match s.[!pos] with '0'..'9' | 'a'..'f' -> true | _ -> false) do
          acc := n_of_int (hexval s.[!pos] * 16 + hexval s.[!pos + 1]) :: !acc; pos := !pos + 2
        done;
        VB (List.rev !acc)
    | 'i' ->
        incr pos;
        let st = !pos in
        while !pos < n && (match s.[!pos] with '0'..'9' -> true | _ -> false) do incr pos done;
        VI (n_of_int (int_of_string (Stdlib.String.sub s st (!pos - st))))
    | 'T' -> incr pos; VBool true
    | 'F' -> incr pos; VBool false
    | 'N' -> incr pos; VN
    | '[' ->
        incr pos;
        let acc = ref [] in
        skip_ws ();
        while peek () <> ']' do
          if !pos >= n then raise (Parse_error "unterminated list");
          acc := value () :: !acc; skip_ws ()
        done;
        incr pos; VL (List.rev !acc)
    | '(' ->
        incr pos;
        let st = !pos in
        while !pos < n && is_tok s.[!pos] do incr pos done;
        let tag = Stdlib.String.sub s st (!pos - st) in
        let acc = ref [] in
        skip_ws ();
        while peek () <> ')' do
          if !pos >= n then raise (Parse_error "unterminated constructor");
          acc := value () :: !acc; skip_ws ()
        done;
        incr pos; VC (coq_string tag, List.rev !acc)
    | c -> raise (Parse_error (Printf.sprintf "unexpected %C at %d" c !pos))
  in
  let v = value () in
  skip_ws ();
  if !pos <> n then raise (Parse_error "trailing input");
  v

let rec print_val (b : Buffer.t) (v : val0) : unit =
  match v with
  | VB l -> Buffer.add_char b 'x'; List.iter (fun x -> Buffer.add_string b (Printf.sprintf "%02x" (int_of_n x))) l
  | VI x -> Buffer.add_char b 'i'; Buffer.add_string b (string_of_int (int_of_n x))
  | VBool true -> Buffer.add_char b 'T'
  | VBool false -> Buffer.add_char b 'F'
  | VN -> Buffer.add_char b 'N'
  | VL l ->
      Buffer.add_char b '[';
      List.iteri (fun i x -> if i > 0 then Buffer.add_char b ' '; print_val b x) l;
      Buffer.add_char b ']'
  | VC (t, l) ->
      Buffer.add_char b '('; ocaml_string t b;
      List.iter (fun x -> Buffer.add_char b ' '; print_val b x) l;
      Buffer.add_char b ')'

let split_tabs (s : ostring) : ostring list = Stdlib.String.split_on_char '\t' s

let parse_case (line : ostring) : M.string * val0 list =
  match split_tabs line with
  | [] -> raise (Parse_error "empty case")
  | op :: args -> (coq_string op, List.map parse_val args)

let () =
  let mode = Sys.argv.(1) in
  let cases = open_in Sys.argv.(2) in
  let impl = if mode = "check" then Some (open_in Sys.argv.(3)) else None in
  let out = Buffer.create 65536 in
  let flush_out () = print_string (Buffer.contents out); Buffer.clear out in
  (try
     while true do
       let line = input_line cases in
       let (op, args) = parse_case line in
       let m = run op args in
       (match impl with
        | None -> print_val out m; Buffer.add_char out '\n'
        | Some ic ->
            let il = input_line ic in
            let iv = (try Some (parse_val il) with Parse_error _ -> None) in
            let cm = int_of_n (check op args m) in
            let (eq, ci) = (match iv with Some v -> (val_eqb m v, int_of_n (check op args v)) | None -> (false, 0)) in
            Buffer.add_string out (if eq then "1" else "0"); Buffer.add_char out '\t';
            Buffer.add_string out (string_of_int cm); Buffer.add_char out '\t';
            Buffer.add_string out (string_of_int ci);
            if not eq then (Buffer.add_char out '\t'; print_val out m);
            Buffer.add_char out '\n');
       if Buffer.length out > 60000 then flush_out ()
     done
   with End_of_file -> ());
  flush_out ()
