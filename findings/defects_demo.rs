use typed_path::*;
use std::collections::hash_map::DefaultHasher;
use std::hash::{Hash, Hasher};
fn h<T: Hash + ?Sized>(t: &T) -> u64 { let mut s = DefaultHasher::new(); t.hash(&mut s); s.finish() }
fn main() {
    // D1
    let p = WindowsPath::new(b"\xe9:\\a");
    println!("D1 comps={:?}", p.components().collect::<Vec<_>>());
    // D2
    println!("D2 {:?} {:?}", WindowsPath::new(r"C:\a").join(".."), WindowsPath::new(r"\\?\C:\a").join(".."));
    println!("D2 anyverb C:={} \\\\?\\C:={} \\\\?\\UNC\\s\\h={}", WindowsPath::new("C:").components().has_any_verbatim_prefix(), WindowsPath::new(r"\\?\C:").components().has_any_verbatim_prefix(), WindowsPath::new(r"\\?\UNC\s\h").components().has_any_verbatim_prefix());
    // D3
    for (a,b) in [(r"C:\a", "C:/a"), ("//?/x/a/./b", "//?/x/a/b"), (r"\\s\sh\a\\b", r"\\s\sh\a\b")] {
        let (pa,pb)=(WindowsPath::new(a),WindowsPath::new(b));
        println!("D3 {a} {b} eq={} hash_eq={}", pa==pb, h(pa)==h(pb));
    }
    // D4
    println!("D4 {:?} {:?}", WindowsPath::new("a/").join("b"), WindowsPath::new("/").join("a"));
    println!("D4 checked {:?}", WindowsPath::new("/").join_checked("a").map(|p| p.components().map(|c| format!("{c:?}")).collect::<Vec<_>>()));
    // D5
    for (a,e) in [("foo.txt/","rs"),("a.",""),("..a","x"),("a.b/.","c")] {
        let mut p = UnixPathBuf::from(a); let r = p.set_extension(e);
        let mut s = std::path::PathBuf::from(a); let r2 = s.set_extension(e);
        println!("D5 {a}+{e} -> {:?} {r} std {:?} {r2}", p, s);
    }
    let r = std::panic::catch_unwind(|| { let mut p = Utf8UnixPathBuf::from("x.éé/"); p.set_extension("rs"); p });
    println!("D5 utf8 {:?}", r.map(|p| p.to_string()));
    // D6
    println!("D6 parent(C:)={:?}", WindowsPath::new("C:").parent());
    let mut p = WindowsPathBuf::from("C:"); let r = p.pop(); println!("D6 pop -> {:?} {r}", p);
    println!("D6 utf8 parent(C:)={:?}", Utf8WindowsPath::new("C:").parent());
}
