// Demonstration of the open known findings D7 D8 D9 D10 D12 D13 D14 D15 D17 against the real crate
// (public API only).  Each line prints the observed behaviour; nothing here asserts.
use typed_path::*;
fn comps(p: &WindowsPath) -> Vec<String> { p.components().map(|c| format!("{c:?}")).collect() }
fn ucomps(p: &UnixPath) -> Vec<String> { p.components().map(|c| format!("{c:?}")).collect() }
fn main() {
    // D7 (C10): relations compare raw bytes
    let (a, b) = (WindowsPath::new(r"C:\a"), WindowsPath::new(r"c:\a"));
    println!("D7 {:?} == {:?}: {}  starts_with: {}  ends_with: {}", a, b, a == b, a.starts_with(b), a.ends_with(b));
    println!("D7 {:?}.ends_with(\"C:\") = {}  (last component {:?})", r"a\C:", WindowsPath::new(r"a\C:").ends_with("C:"), comps(WindowsPath::new(r"a\C:")).last());
    // D8 (C06): untrimmed strip_prefix remainder
    println!("D8 typed-path {:?}   std {:?}", UnixPath::new("/a/").strip_prefix("/"), std::path::Path::new("/a/").strip_prefix("/"));
    // D9 (C16): drive-relative conversion keeps the drive as a name
    let u = WindowsPath::new("C:tmp").with_unix_encoding();
    println!("D9 C:tmp -> {:?} comps {:?}", u, ucomps(&u));
    // D10 (C10): base of exactly two separators
    let j = WindowsPath::new(r"\\").join("b");
    println!("D10 \\\\ comps {:?}; join b -> {:?} comps {:?}; starts_with base: {}", comps(WindowsPath::new(r"\\")), j, comps(&j), j.starts_with(r"\\"));
    // D12 (C16): names containing a separator of the target are re-split
    println!("D12 {:?}", UnixPath::new("x/a\\b").with_windows_encoding_checked().map(|p| comps(&p)));
    println!("D12 {:?}", WindowsPath::new(r"\\?\pic\a/b").with_unix_encoding_checked().map(|p| ucomps(&p)));
    // D13 (C13): empty extension on a dot stem
    let mut p = UnixPathBuf::from("/..a"); let r = p.set_extension("");
    let mut s = std::path::PathBuf::from("/..a"); let r2 = s.set_extension("");
    println!("D13 /..a + \"\" -> {:?} {} file_name {:?}   std {:?} {}", p, r, p.file_name(), s, r2);
    // D14 (C16): checked conversion to the own encoding loses a non-disk prefix
    println!("D14 {:?}   unchecked {:?}", WindowsPath::new(r"\\s\sh\a").with_windows_encoding_checked(), WindowsPath::new(r"\\s\sh\a").with_windows_encoding());
    println!("D14 {:?}", WindowsPath::new(r"C:\a").with_windows_encoding_checked());
    // D15 (C10): remainder that re-reads as a prefix
    let p = WindowsPath::new(r"C:\\a"); let r = p.strip_prefix("C:").unwrap();
    println!("D15 {:?}.strip_prefix(C:) = {:?} comps {:?}; C:.join(r) = {:?}", p, r, comps(r), WindowsPath::new("C:").join(r));
    // D10 as C04 sees it: the checked join succeeds and the result does not begin with the base
    let j = WindowsPath::new(r"\\").join_checked("b");
    println!("D10/C04 \\\\ comps {:?}; join_checked b -> {:?} comps {:?}", comps(WindowsPath::new(r"\\")), j, j.as_ref().map(|p| comps(p)));
    // D17 (C04): the verbatim prefix named UNC; a join spells a verbatim UNC prefix
    for (base, arg) in [(r"\\?\UNC", "x"), (r"\\?\UNC\", "a.a"), (r"\\?\UNC", r"x\y")] {
        let b = WindowsPath::new(base);
        let j = b.join_checked(arg);
        println!("D17 {:?} comps {:?}; join_checked {:?} -> {:?} comps {:?}", base, comps(b), arg, j, j.as_ref().map(|p| comps(p)));
    }
    println!("D17 control {:?}", WindowsPath::new(r"\\?\pic").join_checked("x").map(|p| comps(&p)));
}
