use typed_path::{TypedPath, Utf8TypedPath};
fn main() {
    // D16: a component of a runtime-typed path, turned back into a path, changes the wrapped encoding
    let w = TypedPath::windows(r"C:\dir\file.txt");
    for c in w.components() {
        let p = c.to_path();
        println!("windows path {:?}: component {:?} -> to_path() is_windows={} is_unix={}",
                 String::from_utf8_lossy(w.as_bytes()), String::from_utf8_lossy(c.as_bytes()), p.is_windows(), p.is_unix());
    }
    let u = TypedPath::unix(r"/tmp/a\b");
    for c in u.components() {
        let p = c.to_path();
        println!("unix path {:?}: component {:?} -> to_path() is_windows={} is_unix={}",
                 String::from_utf8_lossy(u.as_bytes()), String::from_utf8_lossy(c.as_bytes()), p.is_windows(), p.is_unix());
    }
    let w8 = Utf8TypedPath::windows(r"C:\dir\file.txt");
    let last = w8.components().last().unwrap();
    println!("utf8 windows path {:?}: component {:?} -> to_path() is_windows={}", w8.as_str(), last.as_str(), last.to_path().is_windows());
    // the sibling method on the iterator keeps the variant:
    let mut it = w.components(); it.next(); it.next();
    println!("TypedComponents::to_path of the same remainder: is_windows={}", it.to_path().is_windows());
}
