(* Untyped values exchanged between the Rust harness, the extracted model and the
   check scripts.  Text form (printed/parsed by harness, driver.ml, check.py):
     x<hex>      byte string            i<dec>   number
     T / F       booleans               N        None / unit
     [v v ...]   list                   (tag v v ...)   constructor / tuple
   `Some v` is (S v).  A modelled or observed panic is (panic). *)
From Coq Require Import List NArith Bool String Ascii.
Import ListNotations.
Open Scope N_scope.

Inductive val :=
| VB (b : list N)
| VI (n : N)
| VBool (b : bool)
| VN
| VL (l : list val)
| VC (tag : string) (args : list val).

Definition VSome (v : val) := VC "S" [v].
Definition VPanic := VC "panic" [].
Definition vopt {A} (f : A -> val) (o : option A) : val :=
  match o with Some a => VSome (f a) | None => VN end.
Definition vlist {A} (f : A -> val) (l : list A) : val := VL (map f l).
Definition vnat (n : nat) : val := VI (N.of_nat n).
Definition vpair (a b : val) := VC "t" [a; b].

Fixpoint beqN (a b : list N) : bool :=
  match a, b with [], [] => true | x :: a', y :: b' => (x =? y) && beqN a' b' | _, _ => false end.

Fixpoint val_eqb (a b : val) {struct a} : bool :=
  match a, b with
  | VB x, VB y => beqN x y
  | VI x, VI y => x =? y
  | VBool x, VBool y => Bool.eqb x y
  | VN, VN => true
  | VL x, VL y =>
      (fix go (x y : list val) : bool :=
         match x, y with [], [] => true | u :: x', v :: y' => val_eqb u v && go x' y' | _, _ => false end) x y
  | VC s x, VC t y =>
      String.eqb s t &&
      (fix go (x y : list val) : bool :=
         match x, y with [], [] => true | u :: x', v :: y' => val_eqb u v && go x' y' | _, _ => false end) x y
  | _, _ => false
  end.

(* decoders *)
Definition dB (v : val) : option (list N) := match v with VB b => Some b | _ => None end.
Definition dI (v : val) : option N := match v with VI n => Some n | _ => None end.
Definition dBool (v : val) : option bool := match v with VBool b => Some b | _ => None end.
Definition dOpt {A} (f : val -> option A) (v : val) : option (option A) :=
  match v with
  | VN => Some None
  | VC "S" [x] => match f x with Some a => Some (Some a) | None => None end
  | _ => None
  end.
Fixpoint dAll {A} (f : val -> option A) (l : list val) : option (list A) :=
  match l with
  | [] => Some []
  | x :: r => match f x, dAll f r with Some a, Some r' => Some (a :: r') | _, _ => None end
  end.
Definition dList {A} (f : val -> option A) (v : val) : option (list A) :=
  match v with VL l => dAll f l | _ => None end.
