(* UTF-8 validity (RFC 3629 / Unicode Table 3-7) and lossy decoding, defined -- not
   axiomatised -- following core::str::Utf8Chunks (library/core/src/str/lossy.rs):
   one step consumes either one well-formed scalar value or a maximal ill-formed
   subpart (the lead byte plus the continuation bytes accepted before the failure). *)
From Coq Require Import List NArith Bool Lia.
Import ListNotations.
From TP Require Import Core.
Open Scope N_scope.

Definition in_range (lo hi b : byte) : bool := (lo <=? b) && (b <=? hi).
Definition is_cont (b : byte) : bool := in_range 128 191 b.
Definition second_ok3 (b c : byte) : bool :=
  ((b =? 224) && in_range 160 191 c) || (in_range 225 236 b && is_cont c) ||
  ((b =? 237) && in_range 128 159 c) || (in_range 238 239 b && is_cont c).
Definition second_ok4 (b c : byte) : bool :=
  ((b =? 240) && in_range 144 191 c) || (in_range 241 243 b && is_cont c) || ((b =? 244) && in_range 128 143 c).

(* (well-formed?, bytes consumed); consumed >= 1 on non-empty input *)
Definition utf8_step (l : list byte) : bool * nat :=
  match l with
  | [] => (true, O)
  | b :: r =>
      if b <? 128 then (true, 1%nat)
      else if in_range 194 223 b then
        match r with c :: _ => if is_cont c then (true, 2%nat) else (false, 1%nat) | [] => (false, 1%nat) end
      else if in_range 224 239 b then
        match r with
        | c :: r2 =>
            if second_ok3 b c then
              match r2 with d :: _ => if is_cont d then (true, 3%nat) else (false, 2%nat) | [] => (false, 2%nat) end
            else (false, 1%nat)
        | [] => (false, 1%nat)
        end
      else if in_range 240 244 b then
        match r with
        | c :: r2 =>
            if second_ok4 b c then
              match r2 with
              | d :: r3 =>
                  if is_cont d then
                    match r3 with e :: _ => if is_cont e then (true, 4%nat) else (false, 3%nat) | [] => (false, 3%nat) end
                  else (false, 2%nat)
              | [] => (false, 2%nat)
              end
            else (false, 1%nat)
        | [] => (false, 1%nat)
        end
      else (false, 1%nat)
  end.

Fixpoint utf8_valid_fuel (fuel : nat) (l : list byte) : bool :=
  match fuel with
  | O => match l with [] => true | _ => false end
  | S f => match l with
           | [] => true
           | _ => let (ok, n) := utf8_step l in ok && utf8_valid_fuel f (skipn n l)
           end
  end.
Definition utf8_valid (l : list byte) : bool := utf8_valid_fuel (length l) l.

(* String::from_utf8_lossy: every ill-formed subpart becomes U+FFFD (EF BF BD) *)
Fixpoint lossy_fuel (fuel : nat) (l : list byte) : list byte :=
  match fuel with
  | O => []
  | S f => match l with
           | [] => []
           | _ => let (ok, n) := utf8_step l in
                  (if ok then firstn n l else [239; 191; 189]) ++ lossy_fuel f (skipn n l)
           end
  end.
Definition lossy (l : list byte) : list byte := lossy_fuel (length l) l.
