(* Windows instance: the prefix-aware parser wraps the generic core; all schedule / reverse /
   fuel / exhaustion results lift from Deq.v. *)
From Coq Require Import List NArith Bool Lia Arith PeanoNat.
Import ListNotations.
From TP Require Import Core CoreProofs CoreSched Deq Path Unix Win.
Open Scope N_scope.

Lemma wsep_dot norm : wsep norm 46 = false.
Proof. destruct norm; reflexivity. Qed.

Definition wrest (s : wstate) : list byte := skipn (plen s) (w_input s).
Definition wcore (s : wstate) : pstate * list byte := (w_st s, wrest s).
Definition winv (s : wstate) : Prop :=
  match w_prefix s with
  | Some (raw, _) => w_st s = AtBeg /\ firstn (length raw) (w_input s) = raw /\ (length raw <= length (w_input s))%nat /\ raw <> []
  | None => True
  end /\ inv (wsep (w_norm s)) (w_norm s) (wcore s) = true.
Definition wcs (s : wstate) : list wcomp :=
  match w_prefix s with Some (raw, k) => [WPrefix raw k] | None => [] end
  ++ map WC (cs (wsep (w_norm s)) (w_norm s) (wcore s)).

(* at the beginning a non-empty input always has a component *)
Lemma cs_atbeg_nonempty is_sep norm (Hd : is_sep 46 = false) l :
  l <> [] -> cs is_sep norm (AtBeg, l) <> [].
Proof.
  intros Hl. pose proof (next_front_spec is_sep norm Hd (AtBeg, l) eq_refl) as F.
  unfold next_front in F. cbn [fst snd] in F.
  destruct l as [|b r]; [congruence|].
  unfold parse_front in F. destruct (is_sep b) eqn:Hb.
  - destruct F as (E & _). rewrite E. discriminate.
  - unfold filename in F. cbn [span_nsep] in F. rewrite Hb in F.
    destruct (span_nsep is_sep r) as [n rest]. destruct F as (E & _). rewrite E. discriminate.
Qed.

Lemma skipn_firstn_add {X} (l : list X) n m : skipn n (firstn (m + n) l) = firstn m (skipn n l).
Proof. rewrite firstn_skipn_comm. f_equal. f_equal. lia. Qed.

Lemma w_nextf_spec s : winv s ->
  match w_nextf s with Some (c, s') => wcs s = c :: wcs s' /\ winv s' | None => wcs s = [] end.
Proof.
  intros [HP HI]. unfold w_nextf, wcs, winv, wcore, wrest, plen in *.
  destruct (w_prefix s) as [[raw k]|] eqn:EP.
  - cbn [w_prefix w_input w_st w_norm]. cbn [skipn app]. split; [reflexivity|]. split; [exact I|]. exact HI.
  - cbn [skipn] in *.
    pose proof (next_front_spec (wsep (w_norm s)) (w_norm s) (wsep_dot _) (w_st s, w_input s) HI) as F.
    unfold next_front in F. cbn [fst snd] in F.
    destruct (parse_front (wsep (w_norm s)) (w_norm s) (w_st s) (w_input s)) as [[c l']|].
    + cbn [w_prefix w_input w_st w_norm skipn app]. destruct F as (E & HI' & _). rewrite E. cbn [map].
      split; [reflexivity|]. split; [exact I | exact HI'].
    + cbn [app]. rewrite F. reflexivity.
Qed.

Lemma w_nextb_spec s : winv s ->
  match w_nextb s with Some (c, s') => wcs s = wcs s' ++ [c] /\ winv s' | None => wcs s = [] end.
Proof.
  intros [HP HI]. unfold w_nextb.
  destruct (skipn (plen s) (w_input s)) as [|x rest'] eqn:ER.
  - (* nothing but the prefix is left *)
    unfold wcs, wcore, wrest. rewrite ER.
    destruct (w_prefix s) as [[raw k]|] eqn:EP.
    + unfold winv, wcs, wcore, wrest, plen. cbn [w_prefix w_input w_st w_norm skipn app].
      assert (Hsk : skipn (length raw) (w_input s) = []) by (unfold plen in ER; rewrite EP in ER; exact ER).
      rewrite Hsk. unfold cs. cbn [fst snd]. rewrite !cspec_nil. cbn. split; [reflexivity|]. split; [exact I|].
      unfold inv. cbn. destruct (w_st s); [reflexivity|]. cbn. rewrite andb_false_r. reflexivity.
    + unfold cs. cbn [fst snd]. rewrite cspec_nil. reflexivity.
  - pose proof (next_back_spec (wsep (w_norm s)) (w_norm s) (wsep_dot _) (wcore s) HI) as B.
    unfold next_back, wcore, wrest in B. cbn [fst snd] in B. rewrite ER in B.
    destruct (parse_back (wsep (w_norm s)) (w_norm s) (w_st s) (x :: rest')) as [[c l']|].
    + destruct B as (E & HI' & (j & Hj)).
      assert (Hrest' : skipn (plen s) (firstn (length l' + plen s) (w_input s)) = l').
      { rewrite skipn_firstn_add. rewrite ER. rewrite Hj. rewrite firstn_app, firstn_all, Nat.sub_diag. cbn. apply app_nil_r. }
      unfold wcs, winv, wcore, wrest, plen in *. cbn [w_prefix w_input w_st w_norm].
      rewrite Hrest'. rewrite ER. rewrite E. rewrite map_app. cbn [map]. rewrite app_assoc. split; [reflexivity|].
      split; [|exact HI'].
      destruct (w_prefix s) as [[raw k]|]; [|exact I].
      destruct HP as (H1 & H2 & H3 & H4). split; [exact H1|]. split; [|split; [|exact H4]].
      * rewrite firstn_firstn. rewrite Nat.min_l by lia. exact H2.
      * rewrite firstn_length. apply Nat.min_glb; lia.
    + (* no component in a non-empty rest: impossible while the prefix is still there *)
      unfold wcs, wcore, wrest. rewrite ER.
      destruct (w_prefix s) as [[raw k]|] eqn:EP.
      * exfalso. destruct HP as (H1 & _). rewrite H1 in B.
        apply (cs_atbeg_nonempty (wsep (w_norm s)) (w_norm s) (wsep_dot _) (x :: rest')); [discriminate | exact B].
      * cbn [app]. rewrite B. reflexivity.
Qed.

(* ---- every prefix alternative consumes a non-empty leading slice: raw ++ rest = input ---- *)
Definition consumes (l r : list byte) : Prop := exists a, a <> [] /\ l = a ++ r.
Lemma consumes_trans l m r : consumes l m -> (m = r \/ consumes m r) -> consumes l r.
Proof.
  intros (a & Ha & ->) [-> | (b & Hb & ->)]; [exists a; auto|].
  exists (a ++ b). split; [destruct a; [congruence | discriminate] | rewrite app_assoc; reflexivity].
Qed.
Lemma p_sep_consumes norm l r : p_sep norm l = Some r -> consumes l r.
Proof. unfold p_sep. destruct l as [|b t]; [discriminate|]. destruct (wsep norm b); [|discriminate]. intros X; inversion X; subst. exists [b]. split; [discriminate | reflexivity]. Qed.
Lemma p_byte_consumes x l r : p_byte x l = Some r -> consumes l r.
Proof. unfold p_byte. destruct l as [|b t]; [discriminate|]. destruct (b =? x); [|discriminate]. intros X; inversion X; subst. exists [b]. split; [discriminate | reflexivity]. Qed.
Lemma span_app (f : byte -> bool) l : forall n r, span_nsep f l = (n, r) -> l = n ++ r.
Proof.
  induction l as [|b l IH]; cbn; intros n r H; [inversion H; reflexivity|].
  destruct (f b); [inversion H; reflexivity|].
  destruct (span_nsep f l) as [n' r']. inversion H; subst. cbn. f_equal. apply IH. reflexivity.
Qed.
Lemma p_normal_consumes norm l n r : p_normal norm l = Some (n, r) -> n <> [] /\ l = n ++ r.
Proof.
  unfold p_normal. destruct (span_nsep (wsep norm) l) as [n' r'] eqn:E. destruct n' as [|x t]; [discriminate|].
  intros X; inversion X; subst. split; [discriminate|]. apply (span_app _ _ _ _ E).
Qed.
Lemma p_verbatim_consumes l r : p_verbatim l = Some r -> consumes l r.
Proof.
  unfold p_verbatim. destruct (p_sep true l) as [l1|] eqn:E1; [|discriminate].
  destruct (p_sep true l1) as [l2|] eqn:E2; [|discriminate].
  destruct (p_byte 63 l2) as [l3|] eqn:E3; [|discriminate]. intros E4.
  eapply consumes_trans; [eapply p_sep_consumes; eauto|]. right.
  eapply consumes_trans; [eapply p_sep_consumes; eauto|]. right.
  eapply consumes_trans; [eapply p_byte_consumes; eauto|]. right. eapply p_sep_consumes; eauto.
Qed.
Lemma p_disk_consumes l d r : p_disk l = Some (d, r) -> consumes l r.
Proof.
  unfold p_disk. destruct l as [|x t]; [discriminate|]. destruct (is_ascii_alpha x); [|discriminate].
  destruct (p_byte 58 t) as [r'|] eqn:E; [|discriminate]. intros X; inversion X; subst.
  destruct (p_byte_consumes _ _ _ E) as (a & _ & ->). exists (x :: a). split; [discriminate | reflexivity].
Qed.
Lemma p_unc_tail_consumes norm l srv sh r : p_unc_tail norm l = Some (srv, sh, r) -> consumes l r.
Proof.
  unfold p_unc_tail. destruct (p_normal norm l) as [[s l1]|] eqn:E1; [|discriminate].
  destruct (p_normal_consumes _ _ _ _ E1) as (Hs & ->).
  assert (H2 : forall l2, (l2 = l1 \/ consumes l1 l2) ->
     match p_normal norm l2 with Some (sh', l3) => Some (s, sh', l3) | None => Some (s, [], l2) end = Some (srv, sh, r) ->
     consumes (s ++ l1) r).
  { intros l2 H12 X. assert (C1 : consumes (s ++ l1) l1) by (exists s; auto).
    destruct (p_normal norm l2) as [[sh' l3]|] eqn:E3; inversion X; subst.
    - destruct (p_normal_consumes _ _ _ _ E3) as (Hn & ->).
      eapply consumes_trans; [exact C1|]. destruct H12 as [<- | H12]; right.
      + exists sh. auto.
      + eapply consumes_trans; [exact H12|]. right. exists sh. auto.
    - destruct H12 as [-> | H12]; [exact C1|]. eapply consumes_trans; [exact C1 | right; exact H12]. }
  destruct (p_sep norm l1) as [r1|] eqn:E2.
  - apply H2. right. eapply p_sep_consumes; eauto.
  - apply H2. left. reflexivity.
Qed.
Lemma starts_with_b_app l p : starts_with_b l p = true -> l = p ++ skipn (length p) l.
Proof.
  revert l. induction p as [|y p IH]; intros l H; [reflexivity|].
  destruct l as [|x l]; [discriminate|]. cbn in H. apply andb_true_iff in H as [H1 H2]. apply N.eqb_eq in H1. subst.
  cbn. f_equal. apply IH. exact H2.
Qed.
Lemma p_unc_lit_consumes l r : p_unc_lit l = Some r -> consumes l r.
Proof.
  unfold p_unc_lit. destruct (starts_with_b l [85; 78; 67]) eqn:E; [|discriminate]. intros X; inversion X; subst.
  exists [85; 78; 67]. split; [discriminate|]. apply (starts_with_b_app _ _ E).
Qed.
Lemma prefix_verbatim_unc_consumes l k r : prefix_verbatim_unc l = Some (k, r) -> consumes l r.
Proof.
  unfold prefix_verbatim_unc. destruct (p_verbatim l) as [l0|] eqn:E0; [|discriminate].
  destruct (p_unc_lit l0) as [l1|] eqn:E1; [|discriminate].
  destruct (p_sep (negb (exact_verbatim l)) l1) as [l2|] eqn:E2; [|discriminate].
  destruct (p_unc_tail (negb (exact_verbatim l)) l2) as [[[srv sh] r']|] eqn:E3; [|discriminate].
  intros X; inversion X; subst.
  eapply consumes_trans; [eapply p_verbatim_consumes; eauto|]. right.
  eapply consumes_trans; [eapply p_unc_lit_consumes; eauto|]. right.
  eapply consumes_trans; [eapply p_sep_consumes; eauto|]. right. eapply p_unc_tail_consumes; eauto.
Qed.
Lemma prefix_verbatim_disk_consumes l k r : prefix_verbatim_disk l = Some (k, r) -> consumes l r.
Proof.
  unfold prefix_verbatim_disk. destruct (p_verbatim l) as [l1|] eqn:E0; [|discriminate].
  destruct (p_disk l1) as [[d r']|] eqn:E1; [|discriminate]. intros X; inversion X; subst.
  eapply consumes_trans; [eapply p_verbatim_consumes; eauto|]. right. eapply p_disk_consumes; eauto.
Qed.
Lemma prefix_verbatim_consumes l k r : prefix_verbatim l = Some (k, r) -> consumes l r.
Proof.
  unfold prefix_verbatim. destruct (prefix_verbatim_disk l); [discriminate|]. destruct (prefix_verbatim_unc l); [discriminate|].
  destruct (p_verbatim l) as [l1|] eqn:E0; [|discriminate].
  destruct (p_normal (negb (exact_verbatim l)) l1) as [[x r']|] eqn:E1.
  - intros X; inversion X; subst. destruct (p_normal_consumes _ _ _ _ E1) as (Hx & ->).
    eapply consumes_trans; [eapply p_verbatim_consumes; eauto|]. right. exists x. auto.
  - destruct (p_sep (negb (exact_verbatim l)) l1); [|discriminate]. intros X; inversion X; subst.
    eapply p_verbatim_consumes; eauto.
Qed.
Lemma prefix_device_ns_consumes l k r : prefix_device_ns l = Some (k, r) -> consumes l r.
Proof.
  unfold prefix_device_ns. destruct (p_sep true l) as [l1|] eqn:E1; [|discriminate].
  destruct (p_sep true l1) as [l2|] eqn:E2; [|discriminate].
  destruct (p_byte 46 l2) as [l3|] eqn:E3; [|discriminate].
  destruct (p_sep true l3) as [l4|] eqn:E4; [|discriminate].
  destruct (p_normal true l4) as [[x r']|] eqn:E5; [|discriminate]. intros X; inversion X; subst.
  destruct (p_normal_consumes _ _ _ _ E5) as (Hx & ->).
  eapply consumes_trans; [eapply p_sep_consumes; eauto|]. right.
  eapply consumes_trans; [eapply p_sep_consumes; eauto|]. right.
  eapply consumes_trans; [eapply p_byte_consumes; eauto|]. right.
  eapply consumes_trans; [eapply p_sep_consumes; eauto|]. right. exists x. auto.
Qed.
Lemma prefix_unc_consumes l k r : prefix_unc l = Some (k, r) -> consumes l r.
Proof.
  unfold prefix_unc. destruct (p_sep true l) as [l1|] eqn:E1; [|discriminate].
  destruct (p_sep true l1) as [l2|] eqn:E2; [|discriminate].
  destruct (p_unc_tail true l2) as [[[srv sh] r']|] eqn:E3; [|discriminate]. intros X; inversion X; subst.
  eapply consumes_trans; [eapply p_sep_consumes; eauto|]. right.
  eapply consumes_trans; [eapply p_sep_consumes; eauto|]. right. eapply p_unc_tail_consumes; eauto.
Qed.
Lemma prefix_disk_consumes l k r : prefix_disk l = Some (k, r) -> consumes l r.
Proof.
  unfold prefix_disk. destruct (p_disk l) as [[d r']|] eqn:E; [|discriminate]. intros X; inversion X; subst.
  eapply p_disk_consumes; eauto.
Qed.
Theorem prefix_consumes l k r : prefix l = Some (k, r) -> consumes l r.
Proof.
  unfold prefix, prefix_alternatives, first_some. cbn [map fold_right].
  destruct (prefix_verbatim_unc l) as [[k1 r1]|] eqn:E1; [intros X; inversion X; subst; eapply prefix_verbatim_unc_consumes; eauto|].
  destruct (prefix_verbatim_disk l) as [[k2 r2]|] eqn:E2; [intros X; inversion X; subst; eapply prefix_verbatim_disk_consumes; eauto|].
  destruct (prefix_verbatim l) as [[k3 r3]|] eqn:E3; [intros X; inversion X; subst; eapply prefix_verbatim_consumes; eauto|].
  destruct (prefix_device_ns l) as [[k4 r4]|] eqn:E4; [intros X; inversion X; subst; eapply prefix_device_ns_consumes; eauto|].
  destruct (prefix_unc l) as [[k5 r5]|] eqn:E5; [intros X; inversion X; subst; eapply prefix_unc_consumes; eauto|].
  destruct (prefix_disk l) as [[k6 r6]|] eqn:E6; [intros X; inversion X; subst; eapply prefix_disk_consumes; eauto|].
  discriminate.
Qed.
(* the raw prefix followed by the rest is the input, and the raw prefix is not empty *)
Theorem prefix_component_raw l raw k :
  prefix_component l = Some (raw, k) -> exists rest, prefix l = Some (k, rest) /\ l = raw ++ rest /\ raw <> [].
Proof.
  unfold prefix_component. destruct (prefix l) as [[k' r]|] eqn:E; [|discriminate].
  intros X; inversion X; subst k'. exists r. split; [reflexivity|].
  destruct (prefix_consumes _ _ _ E) as (a & Ha & ->).
  rewrite app_length. replace (length a + length r - length r)%nat with (length a) by lia.
  rewrite firstn_app, firstn_all, Nat.sub_diag. cbn. rewrite app_nil_r. auto.
Qed.

Lemma firstn_len_sub {X} (l r : list X) : (length (firstn (length l - length r) l) = length l - length r)%nat.
Proof. rewrite firstn_length. lia. Qed.
Lemma winv_init l : winv (w_init l).
Proof.
  unfold winv, w_init, wcore, wrest, plen, prefix_component. cbn [w_prefix w_input w_st w_norm].
  split; [|reflexivity].
  destruct (prefix l) as [[k r]|] eqn:E; [|exact I].
  split; [reflexivity|]. rewrite firstn_len_sub. split; [reflexivity|]. split; [lia|].
  destruct (prefix_consumes _ _ _ E) as (a & Ha & ->). rewrite app_length.
  replace (length a + length r - length r)%nat with (length a) by lia.
  rewrite firstn_app, firstn_all, Nat.sub_diag. cbn. rewrite app_nil_r. exact Ha.
Qed.

(* ---- the lifted theorems ---- *)
Theorem w_sched_spec l sched :
  map (fun x => (fst x, wcs (snd x))) (sched_run w_nextf w_nextb (w_init l) sched) = deq_run (wcs (w_init l)) sched.
Proof. apply (deq_sched wstate wcomp wcs winv w_nextf w_nextb w_nextf_spec w_nextb_spec). apply winv_init. Qed.

Lemma wcs_length s : winv s -> (length (wcs s) <= length (w_input s))%nat.
Proof.
  intros [HP HI]. unfold wcs. rewrite app_length, map_length.
  pose proof (cs_length (wsep (w_norm s)) (w_norm s) (wsep_dot _) (wcore s) HI) as H.
  unfold wcore, wrest, plen in *. cbn [snd] in H. rewrite skipn_length in H.
  destruct (w_prefix s) as [[raw k]|]; cbn [length].
  - destruct HP as (_ & H2 & H3 & H4). destruct raw as [|r0 raw']; [congruence|]. cbn [length] in *. lia.
  - lia.
Qed.

(* ---- lifted: collection, reverse, fuel, exhaustion ---- *)
Theorem w_components_spec l : w_components l = wcs (w_init l).
Proof.
  unfold w_components, components.
  apply (deq_front_all wstate wcomp wcs winv w_nextf w_nextf_spec); [apply winv_init|].
  pose proof (wcs_length (w_init l) (winv_init l)). cbn [w_init w_input] in H. lia.
Qed.
Theorem w_components_rev_spec l : w_components_rev l = rev (wcs (w_init l)).
Proof.
  unfold w_components_rev, components_rev.
  apply (deq_back_all wstate wcomp wcs winv w_nextb w_nextb_spec); [apply winv_init|].
  pose proof (wcs_length (w_init l) (winv_init l)). cbn [w_init w_input] in H. lia.
Qed.
Theorem w_back_is_rev_front l : w_components_rev l = rev (w_components l).
Proof. rewrite w_components_rev_spec, w_components_spec. reflexivity. Qed.
Theorem w_components_fuel_stable l k :
  front_all wstate wcomp w_nextf (S (length l) + k) (w_init l) = w_components l.
Proof.
  rewrite w_components_spec.
  apply (deq_front_all wstate wcomp wcs winv w_nextf w_nextf_spec); [apply winv_init|].
  pose proof (wcs_length (w_init l) (winv_init l)). cbn [w_init w_input] in H. lia.
Qed.
Theorem w_interleave l sched :
  map (fun x => (fst x, wcs (snd x))) (sched_run w_nextf w_nextb (w_init l) sched) = deq_run (w_components l) sched.
Proof. rewrite w_components_spec. apply w_sched_spec. Qed.
Theorem w_exhausted_stays l sched :
  Forall (fun x => wcs (snd x) = [] ->
                   forall sched2, sched_run w_nextf w_nextb (snd x) sched2 = map (fun _ => (None, snd x)) sched2)
         (sched_run w_nextf w_nextb (w_init l) sched).
Proof.
  pose proof (deq_inv wstate wcomp wcs winv w_nextf w_nextb w_nextf_spec w_nextb_spec sched (w_init l) (winv_init l)) as F.
  eapply Forall_impl; [|exact F]. intros x HI E sched2.
  apply (deq_exhausted wstate wcomp wcs winv w_nextf w_nextb w_nextf_spec w_nextb_spec (snd x) HI E).
Qed.
(* at most one prefix, and only as the first component *)
Theorem w_prefix_only_first l :
  forall c, In c (tl (w_components l)) -> match c with WPrefix _ _ => False | WC _ => True end.
Proof.
  rewrite w_components_spec. unfold wcs. intros c.
  destruct (w_prefix (w_init l)) as [[raw k]|]; cbn [app tl].
  - intros H. apply in_map_iff in H as (x & <- & _). exact I.
  - intros H. destruct (map WC _) as [|y t] eqn:E; [destruct H|]. cbn in H.
    assert (In c (y :: t)) by (right; exact H). rewrite <- E in H0. apply in_map_iff in H0 as (x & <- & _). exact I.
Qed.

(* ---- C09 at Windows: the back step that parent / pop / file_name perform ---- *)
Definition wremovable (c : wcomp) : bool := wc_is_normal c || wc_is_current c || wc_is_parent c.
Lemma w_nextb_init_spec l :
  match w_nextb (w_init l) with
  | Some (c, s') => w_components l = wcs s' ++ [c] /\ winv s' /\ (c = c)
  | None => w_components l = []
  end.
Proof.
  rewrite w_components_spec. pose proof (w_nextb_spec (w_init l) (winv_init l)) as B.
  destruct (w_nextb (w_init l)) as [[c s']|]; [|exact B]. destruct B as (E & HI). auto.
Qed.
(* parent is absent exactly when there is no component or the last one is a root or a prefix;
   otherwise the iterator that produced it holds exactly the components without the last one *)
Theorem w_parent_none l :
  w_parent l = None <-> (w_components l = [] \/ exists cs c, w_components l = cs ++ [c] /\ wremovable c = false).
Proof.
  unfold w_parent, parent. pose proof (w_nextb_init_spec l) as B.
  destruct (w_nextb (w_init l)) as [[c s']|].
  - destruct B as (E & _). fold (wremovable c). destruct (wremovable c) eqn:Hc.
    + split; [discriminate|]. intros [X | (cs & c' & X & Hc')].
      * rewrite X in E. destruct (wcs s'); discriminate.
      * rewrite X in E. apply app_inj_tail in E as [_ <-]. congruence.
    + split; [|reflexivity]. intros _. right. exists (wcs s'), c. auto.
  - split; [intros _; left; exact B | reflexivity].
Qed.
Theorem w_parent_some l r : w_parent l = Some r ->
  exists s' c, w_nextb (w_init l) = Some (c, s') /\ r = w_input s' /\ wremovable c = true /\
               w_components l = wcs s' ++ [c] /\ wcs s' = removelast (w_components l).
Proof.
  unfold w_parent, parent. pose proof (w_nextb_init_spec l) as B.
  destruct (w_nextb (w_init l)) as [[c s']|]; [|discriminate].
  destruct B as (E & _). fold (wremovable c). destruct (wremovable c) eqn:Hc; [|discriminate].
  intros X; inversion X; subst r. exists s', c. repeat split; try assumption; try reflexivity.
  rewrite E. rewrite removelast_last. reflexivity.
Qed.
Theorem w_file_name_spec l :
  w_file_name l = match rev (w_components l) with WC (Normal n) :: _ => Some n | _ => None end.
Proof.
  unfold w_file_name, file_name. pose proof (w_nextb_init_spec l) as B.
  destruct (w_nextb (w_init l)) as [[c s']|].
  - destruct B as (E & _). rewrite E. rewrite rev_app_distr. cbn. destruct c as [raw k|[| | |n]]; reflexivity.
  - rewrite B. reflexivity.
Qed.
Lemma w_nextb_wc_slice s c s' : w_nextb s = Some (WC c, s') -> exists j, w_input s = w_input s' ++ j.
Proof.
  unfold w_nextb. destruct (skipn (plen s) (w_input s)) as [|x rest'].
  - destruct (w_prefix s) as [[raw k]|]; discriminate.
  - destruct (parse_back _ _ _ _) as [[c0 l']|]; [|discriminate]. intros X; inversion X; subst. cbn [w_input].
    exists (skipn (length l' + plen s) (w_input s)). symmetry. apply firstn_skipn.
Qed.
Theorem w_parent_slice l r : w_parent l = Some r -> exists j, l = r ++ j.
Proof.
  intros H. destruct (w_parent_some l r H) as (s' & c & E & -> & Hc & _).
  destruct c as [raw k|c]; [discriminate|]. apply (w_nextb_wc_slice (w_init l) c s' E).
Qed.
Theorem w_pop_spec l : w_pop l = match w_parent l with Some r => (r, true) | None => (l, false) end.
Proof.
  unfold w_pop, pop. fold w_parent. destruct (w_parent l) as [r|] eqn:E; [|reflexivity].
  destruct (w_parent_slice l r E) as (j & ->). rewrite firstn_app, firstn_all, Nat.sub_diag. cbn. rewrite app_nil_r. reflexivity.
Qed.
