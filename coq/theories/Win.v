(* Windows instance.
   src/windows/non_utf8/components/parser.rs (prefix grammar, Parser),
   src/windows/non_utf8/components.rs (queries), component.rs, component/prefix.rs,
   src/windows/non_utf8.rs (hash, push, push_checked) -- as repaired by the fix: commits. *)
From Coq Require Import List NArith Bool Lia.
Import ListNotations.
From TP Require Import Core Path Unix.
Open Scope N_scope.

Inductive wprefix :=
| Verbatim (x : list byte) | VerbatimUNC (s sh : list byte) | VerbatimDisk (d : byte)
| DeviceNS (x : list byte) | UNC (s sh : list byte) | Disk (d : byte).
Inductive wcomp := WPrefix (raw : list byte) (k : wprefix) | WC (c : comp).

(* is_separator(b, normalize) *)
Definition wsep (norm : bool) (b : byte) : bool := (b =? 92) || (norm && (b =? 47)).
Definition sep_any : byte -> bool := wsep true.
(* input.starts_with(br"\\?\") *)
Definition exact_verbatim (l : list byte) : bool := starts_with_b l [92; 92; 63; 92].
Definition is_ascii_alpha (d : byte) : bool := ((65 <=? d) && (d <=? 90)) || ((97 <=? d) && (d <=? 122)).
Definition to_ascii_upper (d : byte) : byte := if (97 <=? d) && (d <=? 122) then d - 32 else d.

(* separator(normalize) *)
Definition p_sep (norm : bool) (l : list byte) : option (list byte) :=
  match l with b :: r => if wsep norm b then Some r else None | [] => None end.
(* byte(x) *)
Definition p_byte (x : byte) (l : list byte) : option (list byte) :=
  match l with b :: r => if b =? x then Some r else None | [] => None end.
(* normal_bytes(normalize) = take_until_byte_1(is_separator) *)
Definition p_normal (norm : bool) (l : list byte) : option (list byte * list byte) :=
  let (n, r) := span_nsep (wsep norm) l in match n with [] => None | _ => Some (n, r) end.
(* verbatim: sep sep '?' sep, either slash *)
Definition p_verbatim (l : list byte) : option (list byte) :=
  match p_sep true l with
  | Some l1 => match p_sep true l1 with
               | Some l2 => match p_byte 63 l2 with
                            | Some l3 => p_sep true l3
                            | None => None end
               | None => None end
  | None => None
  end.
(* disk_byte: drive_letter then ':' *)
Definition p_disk (l : list byte) : option (byte * list byte) :=
  match l with
  | d :: r => if is_ascii_alpha d then
                match p_byte 58 r with Some r' => Some (to_ascii_upper d, r') | None => None end
              else None
  | [] => None
  end.
(* server, maybe(separator), maybe(share) *)
Definition p_unc_tail (norm : bool) (l : list byte) : option (list byte * list byte * list byte) :=
  match p_normal norm l with
  | None => None
  | Some (srv, l1) =>
      let l2 := match p_sep norm l1 with Some r => r | None => l1 end in
      match p_normal norm l2 with
      | Some (sh, l3) => Some (srv, sh, l3)
      | None => Some (srv, [], l2)
      end
  end.
(* bytes(b"UNC") *)
Definition p_unc_lit (l : list byte) : option (list byte) :=
  if starts_with_b l [85; 78; 67] then Some (skipn 3 l) else None.

Definition prefix_verbatim_unc (l : list byte) : option (wprefix * list byte) :=
  let norm := negb (exact_verbatim l) in
  match p_verbatim l with
  | Some l0 =>
      match p_unc_lit l0 with
      | Some l1 =>
          match p_sep norm l1 with
          | Some l2 => match p_unc_tail norm l2 with
                       | Some (srv, sh, r) => Some (VerbatimUNC srv sh, r)
                       | None => None end
          | None => None end
      | None => None end
  | None => None
  end.
Definition prefix_verbatim_disk (l : list byte) : option (wprefix * list byte) :=
  match p_verbatim l with
  | Some l1 => match p_disk l1 with Some (d, r) => Some (VerbatimDisk d, r) | None => None end
  | None => None
  end.
Definition prefix_verbatim (l : list byte) : option (wprefix * list byte) :=
  match prefix_verbatim_disk l with
  | Some _ => None
  | None =>
      match prefix_verbatim_unc l with
      | Some _ => None
      | None =>
          let norm := negb (exact_verbatim l) in
          match p_verbatim l with
          | Some l1 =>
              match p_normal norm l1 with
              | Some (x, r) => Some (Verbatim x, r)
              | None => match p_sep norm l1 with Some _ => Some (Verbatim [], l1) | None => None end
              end
          | None => None
          end
      end
  end.
Definition prefix_device_ns (l : list byte) : option (wprefix * list byte) :=
  match p_sep true l with
  | Some l1 => match p_sep true l1 with
               | Some l2 => match p_byte 46 l2 with
                            | Some l3 => match p_sep true l3 with
                                         | Some l4 => match p_normal true l4 with
                                                      | Some (x, r) => Some (DeviceNS x, r)
                                                      | None => None end
                                         | None => None end
                            | None => None end
               | None => None end
  | None => None
  end.
Definition prefix_unc (l : list byte) : option (wprefix * list byte) :=
  match p_sep true l with
  | Some l1 => match p_sep true l1 with
               | Some l2 => match p_unc_tail true l2 with
                            | Some (srv, sh, r) => Some (UNC srv sh, r)
                            | None => None end
               | None => None end
  | None => None
  end.
Definition prefix_disk (l : list byte) : option (wprefix * list byte) :=
  match p_disk l with Some (d, r) => Some (Disk d, r) | None => None end.

Definition first_some {A} (xs : list (option A)) : option A :=
  fold_right (fun x acc => match x with Some _ => x | None => acc end) None xs.
(* any_of! in source order (re-read from the source by tie B) *)
Definition prefix_alternatives : list (list byte -> option (wprefix * list byte)) :=
  [prefix_verbatim_unc; prefix_verbatim_disk; prefix_verbatim; prefix_device_ns; prefix_unc; prefix_disk].
Definition prefix (l : list byte) : option (wprefix * list byte) :=
  first_some (map (fun f => f l) prefix_alternatives).
(* prefix_component: raw = &input[..input.len() - new_input.len()] *)
Definition prefix_component (l : list byte) : option (list byte * wprefix) :=
  match prefix l with
  | Some (k, r) => Some (firstn (length l - length r) l, k)
  | None => None
  end.

(* ---- Parser ---- *)
Record wstate := { w_input : list byte; w_st : pstate; w_prefix : option (list byte * wprefix); w_norm : bool }.
Definition w_init (l : list byte) : wstate :=
  {| w_input := l; w_st := AtBeg; w_prefix := prefix_component l; w_norm := negb (exact_verbatim l) |}.
Definition plen (s : wstate) : nat := match w_prefix s with Some (raw, _) => length raw | None => O end.
Definition w_nextf (s : wstate) : option (wcomp * wstate) :=
  match w_prefix s with
  | Some (raw, k) =>
      Some (WPrefix raw k, {| w_input := skipn (length raw) (w_input s); w_st := w_st s; w_prefix := None; w_norm := w_norm s |})
  | None =>
      match parse_front (wsep (w_norm s)) (w_norm s) (w_st s) (w_input s) with
      | Some (c, l') => Some (WC c, {| w_input := l'; w_st := NotAtBeg; w_prefix := None; w_norm := w_norm s |})
      | None => None
      end
  end.
Definition w_nextb (s : wstate) : option (wcomp * wstate) :=
  let rest := skipn (plen s) (w_input s) in
  match rest with
  | _ :: _ =>
      match parse_back (wsep (w_norm s)) (w_norm s) (w_st s) rest with
      | Some (c, l') =>
          Some (WC c, {| w_input := firstn (length l' + plen s) (w_input s); w_st := w_st s;
                         w_prefix := w_prefix s; w_norm := w_norm s |})
      | None => None
      end
  | [] =>
      match w_prefix s with
      | Some (raw, k) =>
          Some (WPrefix raw k, {| w_input := skipn (length raw) (w_input s); w_st := w_st s; w_prefix := None; w_norm := w_norm s |})
      | None => None
      end
  end.
Definition w_remaining (s : wstate) : list byte := w_input s.
Definition w_back_off (s : wstate) : nat :=
  match skipn (plen s) (w_input s) with
  | [] => O       (* the back step hands out the prefix, which starts the input *)
  | rest => (plen s + back_off (wsep (w_norm s)) (w_norm s) (w_st s) rest)%nat
  end.

(* ---- WindowsComponent ---- *)
Definition wc_bytes (c : wcomp) : list byte :=
  match c with
  | WPrefix raw _ => raw
  | WC Root => [92] | WC Cur => [46] | WC Parent => [46; 46] | WC (Normal n) => n
  end.
Definition is_disk (k : wprefix) : bool := match k with Disk _ => true | _ => false end.
Definition wc_is_root (c : wcomp) : bool :=
  match c with WC Root => true | WPrefix _ k => negb (is_disk k) | _ => false end.
Definition wc_is_normal (c : wcomp) : bool := match c with WC (Normal _) => true | _ => false end.
Definition wc_is_parent (c : wcomp) : bool := match c with WC Parent => true | _ => false end.
Definition wc_is_current (c : wcomp) : bool := match c with WC Cur => true | _ => false end.
Definition w_forbidden : list byte := [92; 47; 58; 63; 42; 34; 62; 60; 124; 0].
Definition wc_is_valid (c : wcomp) : bool := match c with WC (Normal n) => name_valid w_forbidden n | _ => true end.

(* derive(PartialEq) on WindowsPrefix; WindowsPrefixComponent compares `parsed` only *)
Definition wprefix_eqb (a b : wprefix) : bool :=
  match a, b with
  | Verbatim x, Verbatim y => beq_list x y
  | VerbatimUNC x1 x2, VerbatimUNC y1 y2 => beq_list x1 y1 && beq_list x2 y2
  | VerbatimDisk x, VerbatimDisk y => x =? y
  | DeviceNS x, DeviceNS y => beq_list x y
  | UNC x1 x2, UNC y1 y2 => beq_list x1 y1 && beq_list x2 y2
  | Disk x, Disk y => x =? y
  | _, _ => false
  end.
Definition wcomp_eqb (a b : wcomp) : bool :=
  match a, b with
  | WPrefix _ x, WPrefix _ y => wprefix_eqb x y
  | WC x, WC y => comp_eqb x y
  | _, _ => false
  end.
(* derive(PartialOrd, Ord): variant index, then fields left to right *)
Definition wprefix_idx (k : wprefix) : N :=
  match k with Verbatim _ => 0 | VerbatimUNC _ _ => 1 | VerbatimDisk _ => 2 | DeviceNS _ => 3 | UNC _ _ => 4 | Disk _ => 5 end.
Definition cmp_then (a b : comparison) : comparison := match a with Eq => b | _ => a end.
Definition wprefix_cmp (a b : wprefix) : comparison :=
  match a, b with
  | Verbatim x, Verbatim y => cmp_bytes x y
  | VerbatimUNC x1 x2, VerbatimUNC y1 y2 => cmp_then (cmp_bytes x1 y1) (cmp_bytes x2 y2)
  | VerbatimDisk x, VerbatimDisk y => x ?= y
  | DeviceNS x, DeviceNS y => cmp_bytes x y
  | UNC x1 x2, UNC y1 y2 => cmp_then (cmp_bytes x1 y1) (cmp_bytes x2 y2)
  | Disk x, Disk y => x ?= y
  | _, _ => wprefix_idx a ?= wprefix_idx b
  end.
Definition wcomp_idx (c : wcomp) : N :=
  match c with WPrefix _ _ => 0 | WC Root => 1 | WC Cur => 2 | WC Parent => 3 | WC (Normal _) => 4 end.
Definition wcomp_cmp (a b : wcomp) : comparison :=
  match a, b with
  | WPrefix _ x, WPrefix _ y => wprefix_cmp x y
  | WC (Normal x), WC (Normal y) => cmp_bytes x y
  | _, _ => wcomp_idx a ?= wcomp_idx b
  end.

(* WindowsPrefix::len / is_verbatim *)
Definition opt_share_len (y : list byte) : nat := match y with [] => O | _ => S (length y) end.
Definition wprefix_len (k : wprefix) : nat :=
  match k with
  | Verbatim x => 4 + length x
  | VerbatimUNC x y => 8 + length x + opt_share_len y
  | VerbatimDisk _ => 6
  | UNC x y => 2 + length x + opt_share_len y
  | DeviceNS x => 4 + length x
  | Disk _ => 2
  end%nat.
Definition wprefix_is_verbatim (k : wprefix) : bool :=
  match k with Verbatim _ | VerbatimDisk _ | VerbatimUNC _ _ => true | _ => false end.

(* ---- WindowsComponents queries (each clones the parser) ---- *)
Definition w_peek_front (l : list byte) : option wcomp :=
  match w_nextf (w_init l) with Some (c, _) => Some c | None => None end.
Definition w_prefix_of (l : list byte) : option (list byte * wprefix) :=
  match w_peek_front l with Some (WPrefix raw k) => Some (raw, k) | _ => None end.
Definition w_has_prefix (l : list byte) : bool := match w_prefix_of l with Some _ => true | None => false end.
Definition w_prefix_len (l : list byte) : nat := match w_prefix_of l with Some (raw, _) => length raw | None => O end.
Definition w_prefix_kind (l : list byte) : option wprefix := match w_prefix_of l with Some (_, k) => Some k | None => None end.
Definition w_is_absolute (l : list byte) : bool :=
  match w_nextf (w_init l) with
  | Some (WPrefix _ _, s1) => match w_nextf s1 with Some (WC Root, _) => true | _ => false end
  | _ => false
  end.
Definition w_has_root (l : list byte) : bool :=
  match w_nextf (w_init l) with
  | Some (WC Root, _) => true
  | Some (WPrefix _ k, s1) =>
      match k with
      | Disk _ | VerbatimDisk _ => match w_nextf s1 with Some (WC Root, _) => true | _ => false end
      | _ => true
      end
  | _ => false
  end.
(* the same two queries asked of a partially consumed iterator *)
Definition ws_is_absolute (s : wstate) : bool :=
  match w_nextf s with
  | Some (WPrefix _ _, s1) => match w_nextf s1 with Some (WC Root, _) => true | _ => false end
  | _ => false
  end.
Definition ws_has_root (s : wstate) : bool :=
  match w_nextf s with
  | Some (WC Root, _) => true
  | Some (WPrefix _ k, s1) =>
      match k with
      | Disk _ | VerbatimDisk _ => match w_nextf s1 with Some (WC Root, _) => true | _ => false end
      | _ => true
      end
  | _ => false
  end.
Definition w_has_any_verbatim_prefix (l : list byte) : bool :=
  match w_prefix_kind l with Some (Verbatim _ | VerbatimUNC _ _ | VerbatimDisk _) => true | _ => false end.
Definition w_has_verbatim_prefix l := match w_prefix_kind l with Some (Verbatim _) => true | _ => false end.
Definition w_has_verbatim_unc_prefix l := match w_prefix_kind l with Some (VerbatimUNC _ _) => true | _ => false end.
Definition w_has_verbatim_disk_prefix l := match w_prefix_kind l with Some (VerbatimDisk _) => true | _ => false end.
Definition w_has_device_ns_prefix l := match w_prefix_kind l with Some (DeviceNS _) => true | _ => false end.
Definition w_has_unc_prefix l := match w_prefix_kind l with Some (UNC _ _) => true | _ => false end.
Definition w_has_disk_prefix l := match w_prefix_kind l with Some (Disk _) => true | _ => false end.
Definition w_has_physical_root (l : list byte) : bool :=
  match w_nextf (w_init l) with
  | Some (WC Root, _) => true
  | Some (WPrefix _ _, s1) => match w_nextf s1 with Some (WC Root, _) => true | _ => false end
  | _ => false
  end.
Definition w_has_implicit_root (l : list byte) : bool :=
  match w_prefix_kind l with Some (Disk _) | None => false | Some _ => true end.
Definition w_is_only_disk (l : list byte) : bool :=
  w_has_disk_prefix l &&
  match w_nextf (w_init l) with
  | Some (_, s1) => match w_nextf s1 with Some _ => false | None => true end
  | None => true
  end.

Definition w_components (l : list byte) : list wcomp := components wstate wcomp w_init w_nextf l.
Definition w_components_rev (l : list byte) : list wcomp := components_rev wstate wcomp w_init w_nextb l.

(* ---- WindowsEncoding::push ---- *)
Fixpoint removelast_c (l : list wcomp) : list wcomp :=
  match l with [] => [] | [_] => [] | x :: r => x :: removelast_c r end.
Definition last_c (l : list wcomp) : option wcomp := match rev l with x :: _ => Some x | [] => None end.
Definition push_comp (buffer : list wcomp) (c : wcomp) : list wcomp :=
  match c with
  | WC Root => firstn 1 buffer ++ [c]
  | WC Cur => buffer
  | WC Parent => match last_c buffer with Some (WC (Normal _)) => removelast_c buffer | _ => buffer end
  | _ => buffer ++ [c]
  end.
Fixpoint rebuild (cs : list wcomp) (need_sep : bool) (acc : list byte) : list byte :=
  match cs with
  | [] => acc
  | c :: r =>
      let acc1 := if need_sep && negb (wcomp_eqb c (WC Root)) then acc ++ [92] else acc in
      let need' := match c with WC Root => false | WPrefix _ k => negb (is_disk k) | _ => true end in
      rebuild r need' (acc1 ++ wc_bytes c)
  end.
Definition ends_with_byte (l : list byte) (b : byte) : bool :=
  match last_byte l with Some x => x =? b | None => false end.
Definition w_push (cur p : list byte) : list byte :=
  match p with
  | [] => cur
  | _ =>
      if w_is_absolute p || w_has_prefix p then p
      else if w_has_any_verbatim_prefix cur then
        rebuild (fold_left push_comp (w_components p) (w_components cur)) false []
      else if w_has_root p then firstn (w_prefix_len cur) cur ++ p
      else
        let needs_sep := (negb (match cur with [] => true | _ => false end)
                          && negb (ends_with_byte cur 92) && negb (ends_with_byte cur 47))
                         && negb (w_is_only_disk cur) in
        if needs_sep then cur ++ 92 :: p else cur ++ p
  end.

(* ---- WindowsEncoding::push_checked ---- *)
Fixpoint w_scan (cs : list wcomp) (normal_cnt : nat) : option cerr :=
  match cs with
  | [] => None
  | WPrefix _ _ :: _ => Some EPrefix
  | WC Root :: _ => Some ERoot
  | WC Parent :: r => match normal_cnt with O => Some ETraversal | S n => w_scan r n end
  | WC (Normal n) :: r => if name_valid w_forbidden n then w_scan r (S normal_cnt) else Some EInvalid
  | WC Cur :: r => w_scan r normal_cnt
  end.
Definition w_push_checked (cur p : list byte) : list byte * option cerr :=
  match w_scan (w_components p) O with
  | Some e => (cur, Some e)
  | None => (w_push cur p, None)
  end.

(* ---- WindowsEncoding::hash ---- *)
(* derive(Hash) on WindowsPrefix: discriminant as isize, then fields; a slice field is
   write_length_prefix (= write_usize) followed by write of the bytes; u8 is write_u8 *)
Definition hslice (x : list byte) : list hcall := [HUsize (N.of_nat (length x)); HWrite x].
Definition wprefix_hash (k : wprefix) : list hcall :=
  HIsize (wprefix_idx k) ::
  match k with
  | Verbatim x | DeviceNS x => hslice x
  | VerbatimUNC x y | UNC x y => hslice x ++ hslice y
  | VerbatimDisk d | Disk d => [HU8 d]
  end.
Definition w_hash (l : list byte) : list hcall :=
  let verbatim := exact_verbatim l in
  let '(pfeed, pl) := match w_prefix_of l with
                      | Some (raw, k) => (wprefix_hash k, length raw)
                      | None => ([], O)
                      end in
  let bytes := skipn pl l in
  let chunks := hash_go (wsep (negb verbatim)) (negb verbatim) bytes [] [] in
  pfeed ++ map HWrite chunks ++ [HUsize (total_len chunks)].

(* ---- generic operations instantiated ---- *)
Definition w_parent := parent wstate wcomp w_init w_nextb w_remaining wc_is_normal wc_is_parent wc_is_current.
Definition w_ancestors := ancestors wstate wcomp w_init w_nextb w_remaining wc_is_normal wc_is_parent wc_is_current.
Definition w_file_name := file_name wstate wcomp w_init w_nextb wc_bytes wc_is_normal.
Definition w_file_stem := file_stem wstate wcomp w_init w_nextb wc_bytes wc_is_normal.
Definition w_extension := extension wstate wcomp w_init w_nextb wc_bytes wc_is_normal.
Definition w_strip_prefix := strip_prefix wstate wcomp w_init w_nextf w_remaining wc_bytes.
Definition w_starts_with := starts_with wstate wcomp w_init w_nextf wc_bytes.
Definition w_ends_with := ends_with wstate wcomp w_init w_nextb wc_bytes.
Definition w_is_valid := is_valid wstate wcomp w_init w_nextf wc_is_valid.
Definition w_normalize := normalize wstate wcomp w_init w_nextf wc_bytes wc_is_normal wc_is_parent wc_is_current w_push.
Definition w_join := w_push.
Definition w_join_checked := join_checked w_push_checked.
Definition w_pop := pop wstate wcomp w_init w_nextb w_remaining wc_is_normal wc_is_parent wc_is_current.
Definition w_set_file_name :=
  set_file_name wstate wcomp w_init w_nextb w_remaining wc_bytes wc_is_normal wc_is_parent wc_is_current w_push.
Definition w_set_extension :=
  set_extension wstate wcomp w_init w_nextb wc_bytes wc_is_normal w_back_off.
Definition w_path_eq := path_eq wstate wcomp w_init w_nextf wcomp_eqb.
Definition w_path_cmp := path_cmp wstate wcomp w_init w_nextf wcomp_cmp.

(* WindowsComponent::try_from / WindowsPrefixComponent::try_from *)
Definition w_try_from (l : list byte) : option wcomp :=
  match w_nextf (w_init l) with
  | Some (c, s') => match w_nextf s' with Some _ => None | None => Some c end
  | None => None
  end.
Definition w_prefix_try_from (l : list byte) : option (list byte * wprefix) :=
  match w_nextf (w_init l) with
  | Some (WPrefix raw k, s') => match w_nextf s' with Some _ => None | None => Some (raw, k) end
  | _ => None
  end.

(* ---- conversions between the encodings: Path::with_encoding(_checked) ---- *)
Definition u_to_w := with_encoding ustate comp u_init u_nextf uc_bytes c_is_root c_is_parent c_is_current w_push [92] [46] [46; 46] false.
Definition w_to_u := with_encoding wstate wcomp w_init w_nextf wc_bytes wc_is_root wc_is_parent wc_is_current u_push [47] [46] [46; 46] false.
Definition u_to_w_checked := with_encoding_checked ustate comp u_init u_nextf uc_bytes c_is_root c_is_parent c_is_current w_push w_push_checked [92] [46] [46; 46].
Definition w_to_u_checked := with_encoding_checked wstate wcomp w_init w_nextf wc_bytes wc_is_root wc_is_parent wc_is_current u_push u_push_checked [47] [46] [46; 46].
Definition u_to_u_checked := with_encoding_checked ustate comp u_init u_nextf uc_bytes c_is_root c_is_parent c_is_current u_push u_push_checked [47] [46] [46; 46].
Definition w_to_w_checked := with_encoding_checked wstate wcomp w_init w_nextf wc_bytes wc_is_root wc_is_parent wc_is_current w_push w_push_checked [92] [46] [46; 46].
