(* The bare verbatim prefix (\\?\C:, \\?\name, \\?\UNC\server\share with nothing after it): read the same way
   when a separator and anything else follows; joining a relative path onto it writes the prefix, a '\', and the
   folded components -- read again: the prefix, the root such a prefix implies, the components. *)
From Coq Require Import List NArith Bool Lia Arith.
Import ListNotations.
From TP Require Import Core CoreProofs CoreSched Path Unix Win Spec GenJoin C02Proofs C08Proofs WinProofs WinTrunc WinSimple C16Proofs
  WinExtend WinBare WinVerbJoin.
Open Scope N_scope.

Definition vcomplete (k : wprefix) : Prop :=
  match k with
  | VerbatimUNC _ sh => sh <> []
  | Verbatim x => x <> [] /\ x <> [85; 78; 67]
  | VerbatimDisk _ => True
  | _ => False
  end.

Lemma disk_none_name0 norm x r' : forallb (fun b => negb (s_wsep norm b)) x = true ->
  sep_headed (s_wsep norm) r' -> disk_at x = None -> disk_at (x ++ r') = None.
Proof.
  intros Hx (s' & t' & -> & Hs') H.
  destruct x as [|x0 [|x1 xt]]; cbn [app] in *.
  - unfold disk_at. destruct (wsep_not_unc norm s' Hs') as (_ & _ & _ & _ & Ha). rewrite Ha. destruct t'; reflexivity.
  - unfold disk_at. destruct (wsep_not_unc norm s' Hs') as (_ & _ & _ & E58 & _). rewrite E58, andb_false_r. reflexivity.
  - unfold disk_at in *. destruct (s_alpha x0 && (x1 =? 58)); [discriminate | reflexivity].
Qed.

Theorem grammar_bare_verbatim l k : wprefix_grammar l = Some (k, []) -> k_verbatim k = true -> vcomplete k ->
  (4 <= length l)%nat /\
  forall r', fitsv (s_wsep (s_norm l)) k r' -> wprefix_grammar (l ++ r') = Some (k, r') /\ s_norm (l ++ r') = s_norm l.
Proof.
  intros H Hk Hc. rewrite grammar_eq in H.
  destruct l as [|a [|b [|c [|d rest]]]]; try (apply tail_alt_kind in H; congruence).
  destruct (s_sep_any a && s_sep_any b && s_sep_any d) eqn:Eh; [|apply tail_alt_kind in H; congruence].
  destruct (c =? 63) eqn:E63.
  2:{ exfalso. destruct (c =? 46).
      - unfold dev_alt in H. destruct (take_name s_sep_any rest) as [x r1]. destruct x; [apply unc_alt_kind in H; congruence|].
        inversion H; subst k. discriminate.
      - apply unc_alt_kind in H. congruence. }
  apply N.eqb_eq in E63. subst c. split; [cbn [length]; lia|].
  set (l0 := a :: b :: 63 :: d :: rest) in *. set (f := s_wsep (s_norm l0)) in *.
  assert (Geq : forall z, wprefix_grammar (a :: b :: 63 :: d :: z) = verb_alt f (a :: b :: 63 :: d :: z) z).
  { intros z. rewrite grammar_eq. rewrite Eh. cbn [N.eqb Pos.eqb]. reflexivity. }
  unfold verb_alt in H.
  destruct (vunc_alt f rest) as [[k1 r1]|] eqn:Ev.
  - inversion H; subst k1 r1. clear H. unfold vunc_alt in Ev.
    destruct (starts_unc_lit rest) as [[|s t]|] eqn:Es; try discriminate. apply sul_some in Es. subst rest.
    destruct (f s) eqn:Hs; [|discriminate]. destruct (unc_parts f t) as [[[srv sh] r0]|] eqn:Eu; [|discriminate].
    inversion Ev; subst k r0. clear Ev. cbn [vcomplete] in Hc.
    destruct (unc_parts_bare f t srv sh Eu Hc) as (_ & _ & S).
    intros r' Hr'. cbn [fitsv] in Hr'. split; [|reflexivity]. unfold l0. cbn [app].
    rewrite (Geq (85 :: 78 :: 67 :: s :: t ++ r')). unfold verb_alt, vunc_alt. cbn [starts_unc_lit N.eqb Pos.eqb andb].
    rewrite Hs. rewrite (S r' Hr'). reflexivity.
  - destruct (disk_at rest) as [[dl r1]|] eqn:Ed.
    + inversion H; subst k r1. clear H. unfold disk_at in Ed. destruct rest as [|d0 [|c0 t]]; try discriminate.
      destruct (s_alpha d0) eqn:Hal; [|discriminate]. destruct (c0 =? 58) eqn:E58; [|discriminate].
      apply N.eqb_eq in E58. subst c0. cbn [andb] in Ed. inversion Ed; subst dl t.
      intros r' _. split; [|reflexivity]. unfold l0. cbn [app]. rewrite (Geq (d0 :: 58 :: r')). unfold verb_alt.
      rewrite (vunc_disk_none f d0 r'). unfold disk_at. rewrite Hal. cbn [N.eqb Pos.eqb andb]. reflexivity.
    + destruct (take_name f rest) as [x r1] eqn:Et. destruct (take_name_shape _ _ _ _ Et) as (El & Hx & Hr1).
      destruct x as [|x0 xt].
      * exfalso. cbn [app] in El. subst r1. destruct Hr1 as [-> | (s & t & -> & Hs)]; [apply unc_alt_kind in H; congruence|].
        rewrite Hs in H. inversion H.
      * inversion H; subst k r1. clear H. rewrite app_nil_r in El. subst rest. cbn [vcomplete] in Hc. destruct Hc as (_ & Hxn).
        intros r' Hr'. cbn [fitsv] in Hr'. split; [|reflexivity].
        unfold l0 at 1. cbn [app]. change (x0 :: xt ++ r') with ((x0 :: xt) ++ r'). rewrite (Geq ((x0 :: xt) ++ r')). unfold verb_alt.
        unfold f in *.
        rewrite (vunc_none_name (s_norm l0) (x0 :: xt) r' Hx Hxn (or_intror Hr')).
        rewrite (disk_none_name0 (s_norm l0) (x0 :: xt) r' Hx Hr' Ed).
        rewrite (take_name_repl (s_wsep (s_norm l0)) (x0 :: xt) r' Hx (or_intror Hr')). reflexivity.
Qed.

(* the decomposition of the bare prefix followed by anything that begins with a separator *)
Lemma wspec_bare_verbatim_ext a k r' : wprefix_grammar a = Some (k, []) -> k_verbatim k = true -> vcomplete k ->
  sep_headed (s_wsep (s_norm a)) r' ->
  wspec (a ++ r') = WPrefix a k :: map WC (spec_comps (s_wsep (s_norm a)) (s_norm a) r').
Proof.
  intros H Hk Hc Hr. destruct (grammar_bare_verbatim a k H Hk Hc) as (_ & S).
  assert (Hf : fitsv (s_wsep (s_norm a)) k r') by (destruct k; cbn [fitsv]; try exact I; exact Hr).
  destruct (S r' Hf) as (G & N). unfold wspec. rewrite G, N.
  replace (length (a ++ r') - length r')%nat with (length a) by (rewrite app_length; lia).
  rewrite firstn_app, Nat.sub_diag, firstn_all. cbn [firstn]. rewrite app_nil_r. reflexivity.
Qed.

(* joining a relative, prefix-free, non-empty b whose components are names only (no "..", which would have nothing
   to cancel, no root) onto the bare verbatim prefix: prefix, implied root, the names *)
Theorem wspec_join_bare_verbatim a k b : wprefix_grammar a = Some (k, []) -> k_verbatim k = true -> vcomplete k ->
  noprefix b = true -> b <> [] -> Forall (fun c => exists n, c = Normal n) (WCOMPS b) ->
  wspec (w_push a b) = wspec a ++ WC Root :: wspec b.
Proof.
  intros H Hk Hc Hb Hbne Hnames. set (nm := s_norm a) in *. set (f := s_wsep nm) in *.
  pose proof (wspec_bare a k H) as Wa. destruct (sp_plain b Hb) as (Bp & _ & _ & _ & _).
  assert (Hf92 : f 92 = true) by (unfold f, s_wsep; reflexivity).
  assert (Hfdot : f 46 = false) by (unfold f, s_wsep; destruct nm; reflexivity).
  assert (Hsub : forall x, f x = true -> wany x = true) by (intros x Hx; apply (wsep_any nm x Hx)).
  (* the fold only appends names *)
  assert (Hfold : fold_left vstep (wspec b) (wspec a) = WPrefix a k :: map WC (WCOMPS b)).
  { rewrite (wspec_plain b Hb), Wa. generalize (WPrefix a k). intros pc.
    assert (G : forall cs acc, Forall (fun c => exists n, c = Normal n) cs -> fold_left vstep (map WC cs) acc = acc ++ map WC cs).
    { induction cs as [|c cs IH]; intros acc Hn; cbn [map fold_left]; [symmetry; apply app_nil_r|].
      inversion Hn as [|? ? (n & ->) Hcs]; subst. rewrite (IH _ Hcs). unfold vstep. cbn [k_is_cur k_is_parent k_is_root].
      rewrite <- app_assoc. reflexivity. }
    rewrite (G _ [pc] Hnames). reflexivity. }
  assert (Hne : WCOMPS b <> []) by (intros X; apply gcomps_nil_inv in X; congruence).
  assert (Hatoms : Forall (atom_ok f nm) (WCOMPS b)).
  { pose proof (wcomps_b_comp b) as Hb0. apply Forall_forall. intros c Hin. rewrite Forall_forall in Hnames, Hb0.
    destruct (Hnames c Hin) as (n & ->). apply (gn_atom f nm Hsub n). apply (Hb0 _ Hin). }
  assert (Hnr : Forall not_root (WCOMPS b)) by (eapply Forall_impl; [|exact Hatoms]; intros c0 Hc0; apply (atom_not_root f nm c0 Hc0)).
  (* the bytes *)
  assert (J : w_push a b = a ++ 92 :: render (map cbytes (WCOMPS b))).
  { rewrite w_push_join_spec. unfold join_spec. destruct b as [|b0 bt] eqn:Eb; [congruence|]. rewrite <- Eb in *.
    rewrite Bp. unfold sp_verbatim, sp_prefix. rewrite Wa, Hk. rewrite <- Wa, Hfold.
    cbn [vrender andb app wc_bytes k_is_root negb].
    assert (Hn : match WPrefix a k with WC Root => false | WPrefix _ (Disk _) => false | _ => true end = true) by (destruct k; try discriminate; reflexivity).
    rewrite Hn. rewrite (vrender_tail (WCOMPS b) Hnr). destruct (WCOMPS b); [congruence | reflexivity]. }
  rewrite J. rewrite (wspec_bare_verbatim_ext a k _ H Hk Hc) by (exists 92, (render (map cbytes (WCOMPS b))); auto).
  fold nm. fold f. rewrite (spec_comps_render f nm Hf92 Hfdot (WCOMPS b) Hatoms).
  rewrite Wa, (wspec_plain b Hb). reflexivity.
Qed.

Theorem w_push_checked_contains_bare_verbatim a k p : wprefix_grammar a = Some (k, []) -> k_verbatim k = true -> vcomplete k ->
  p <> [] -> w_scan (wspec p) O = None -> Forall (fun c => exists n, c = Normal n) (WCOMPS p) ->
  w_push_checked a p = (w_push a p, None) /\ wspec (w_push a p) = wspec a ++ WC Root :: wspec p.
Proof.
  intros H Hk Hc Hp Hs Hnames. destruct (scan_none_simple p Hs) as (Hn & _). split.
  - unfold w_push_checked. rewrite w_components_wspec, Hs. reflexivity.
  - apply (wspec_join_bare_verbatim a k p H Hk Hc Hn Hp Hnames).
Qed.
