(* C16 for Windows sources with a UNC, device-namespace or drive prefix: "a Windows prefix is dropped, and a
   rooted or non-disk-prefixed Windows path becomes a rooted Unix path".  For a prefix followed by a rooted rest
   the Unix result has exactly the components of the rest; the rest after a UNC or device prefix is always
   rooted.  (A drive followed by a relative rest is the recorded finding D9.) *)
From Coq Require Import List NArith Bool Lia Arith.
Import ListNotations.
From TP Require Import Core CoreProofs CoreSched Path Unix Win Spec GenJoin UnixProofs C02Proofs C08Proofs C11Proofs WinProofs WinTrunc WinSimple C16Proofs
  C11WinProofs WinExtend C12Win C11WinPrefixed.
Open Scope N_scope.

Notation WU_STEP := (conv_step wcomp wc_bytes wc_is_root wc_is_parent wc_is_current u_push [47] [46] [46; 46]).

Lemma wu_step_root buf : WU_STEP buf (WC Root) = [47].
Proof. reflexivity. Qed.

Theorem w_to_u_prefixed l k r : wprefix_grammar l = Some (k, r) -> k_verbatim k = false ->
  g_rooted wany r = true -> ucomps (w_to_u l) = WCOMPS r.
Proof.
  intros Hg Hk Hr.
  assert (Hne : r <> []) by (intros ->; discriminate).
  destruct (prefixed_pack l k r Hg Hk Hne) as (p & El & Hp & Hf & S & S' & Hbare).
  rewrite w_to_u_fold. rewrite El, (S' r Hf).
  destruct (wcomps_shape r) as (h0 & t0 & E0 & Hh0 & Ht0 & Hg0).
  rewrite <- rooted_first in Hr.
  destruct (WCOMPS r) as [|c0 cs0] eqn:Ew; [discriminate|]. destruct c0; try discriminate.
  assert (Eh0 : h0 = [Root] /\ t0 = cs0).
  { destruct Hh0 as [-> | [-> | ->]]; cbn [app] in E0.
    - subst t0. inversion Ht0 as [|? ? (X & _) _]. congruence.
    - inversion E0. auto.
    - discriminate. }
  destruct Eh0 as (-> & ->). cbn [map fold_left]. rewrite wu_step_root.
  rewrite (wu_fold_tail cs0 [47] Ht0 Hg0). reflexivity.
Qed.
(* after a UNC or device prefix the rest always begins with a separator *)
Theorem w_to_u_nondisk l k r : wprefix_grammar l = Some (k, r) -> k_verbatim k = false -> is_disk k = false -> r <> [] ->
  ucomps (w_to_u l) = WCOMPS r /\ exists t, WCOMPS r = Root :: t.
Proof.
  intros Hg Hk Hd Hne. destruct (prefixed_pack l k r Hg Hk Hne) as (p & El & Hp & Hf & _).
  assert (Hr : g_rooted wany r = true).
  { destruct k; try discriminate; destruct Hf as (s9 & t9 & -> & Hs9); exact Hs9. }
  split; [apply (w_to_u_prefixed l k r Hg Hk Hr)|].
  rewrite <- rooted_first in Hr. destruct (WCOMPS r) as [|c0 cs0]; [discriminate|]. destruct c0; try discriminate. eauto.
Qed.
