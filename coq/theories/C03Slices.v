(* C03, second sentence, for the generic core parser (Unix, and the Windows body after the prefix):
   every normal component handed out is the sub-slice of the ORIGINAL input at the offset the iterator
   reports; under any schedule of front and back steps the windows of not yet consumed input are nested,
   each slice lies inside the window before its step and outside the window after it (before it for a
   front step, behind it for a back step) -- hence the slices never overlap, front slices ascend, back
   slices descend, and every front slice lies before every slice handed out later. *)
From Coq Require Import List NArith Bool Lia Arith.
Import ListNotations.
From TP Require Import Core CoreProofs.
Open Scope N_scope.

Section Slices.
Variable is_sep : byte -> bool.
Variable norm : bool.
Hypothesis Hd : is_sep 46 = false.

Notation span := (span_nsep is_sep).
Notation skipf := (skip_front is_sep norm).
Notation skipb := (skip_back is_sep norm).
Notation pfront := (parse_front is_sep norm).
Notation pback := (parse_back is_sep norm).
Notation boff := (back_off is_sep norm).

Lemma classify_normal at_beg seg n : classify norm at_beg seg = Normal n -> n = seg.
Proof.
  unfold classify. destruct (is_dotdot seg); [discriminate|]. destruct (is_dot seg).
  - destruct (at_beg || negb norm); [discriminate|]. intros H; inversion H; reflexivity.
  - intros H; inversion H; reflexivity.
Qed.

Lemma filename_normal at_beg l n rest : filename is_sep norm at_beg l = Some (Normal n, rest) -> l = n ++ rest.
Proof.
  unfold filename. destruct (span l) as [seg r] eqn:Hs. destruct seg as [|x seg']; [discriminate|].
  intros H. inversion H as [[Hc Hr]]. subst r. apply classify_normal in Hc. subst n.
  destruct (span_spec is_sep _ _ _ Hs) as (E & _). exact E.
Qed.

(* the shape of a front step: what is consumed is a head of the input, and a normal name is the head of that head *)
Lemma front_shape st l c l' : pfront st l = Some (c, l') ->
  exists u, l = u ++ l' /\ (forall n, c = Normal n -> exists u', u = n ++ u').
Proof.
  assert (Hfn : forall at_beg, forall c0 rest, filename is_sep norm at_beg l = Some (c0, rest) ->
            exists u, l = u ++ skipf rest /\ (forall n, c0 = Normal n -> exists u', u = n ++ u')).
  { intros at_beg c0 rest. unfold filename. destruct (span l) as [seg r] eqn:Hs. destruct seg as [|x seg'] eqn:Eseg; [discriminate|].
    rewrite <- Eseg in *. intros H. injection H as Hc Hr. subst r.
    destruct (span_spec is_sep _ _ _ Hs) as (E & _). destruct (skipf_suffix is_sep norm rest) as [j Hj].
    exists (seg ++ j). split; [rewrite <- app_assoc, <- Hj; exact E|].
    intros n Hn. subst c0. apply classify_normal in Hn. subst n. exists j. reflexivity. }
  destruct st; cbn [parse_front].
  - destruct l as [|b r]; [discriminate|]. destruct (is_sep b) eqn:Hb.
    + intros H. inversion H; subst c l'. destruct (skipf_suffix is_sep norm r) as [j Hj].
      exists (b :: j). split; [cbn [app]; f_equal; exact Hj | intros n Hn; discriminate].
    + destruct (filename is_sep norm true (b :: r)) as [[c0 rest]|] eqn:Ef; [|discriminate].
      intros H. inversion H; subst c0 l'. apply (Hfn true c rest Ef).
  - destruct (filename is_sep norm false l) as [[c0 rest]|] eqn:Ef; [|discriminate].
    intros H. inversion H; subst c0 l'. apply (Hfn false c rest Ef).
Qed.

(* the shape of a back step: what remains is a head of the input; a segment taken from the body sits at back_off *)
Lemma back_shape st l c l' : pback st l = Some (c, l') ->
  (exists k seg j, l = (l' ++ k) ++ seg ++ j /\ boff st l = length (l' ++ k) /\ c = classify norm false seg)
  \/ (l' = [] /\ forall n, c <> Normal n).
Proof.
  unfold parse_back, back_off.
  destruct (skipb_prefix is_sep norm l) as [j Hj].
  assert (Hmain : forall l1, skipb l = l1 -> l1 <> [] ->
            (let (before, seg) := rspan is_sep l1 in
             match seg with
             | [] => None
             | _ => Some (classify norm false seg,
                          match st with
                          | AtBeg => if root_ok is_sep before || cur_ok is_sep before
                                     then match skipb before with [] => firstn 1 before | nb => nb end
                                     else skipb before
                          | NotAtBeg => skipb before
                          end)
             end) = Some (c, l') ->
            exists k seg j0, l = (l' ++ k) ++ seg ++ j0 /\ length (fst (rspan is_sep l1)) = length (l' ++ k) /\ c = classify norm false seg).
  { intros l1 El1 Hne. destruct (rspan is_sep l1) as [before seg] eqn:Hr.
    destruct (rspan_spec is_sep Hd _ _ _ Hr) as (E1 & _).
    destruct seg as [|x seg'] eqn:Eseg; [discriminate|]. rewrite <- Eseg in *.
    intros H. injection H as Hc Hrest.
    assert (Hpre : exists k, before = l' ++ k).
    { destruct (skipb_prefix is_sep norm before) as [k0 Hk0].
      destruct st.
      - destruct (root_ok is_sep before || cur_ok is_sep before).
        + destruct (skipb before) as [|y t] eqn:Esb.
          * exists (skipn 1 before). rewrite <- Hrest. destruct before; reflexivity.
          * exists k0. rewrite <- Hrest. exact Hk0.
        + exists k0. rewrite <- Hrest. exact Hk0.
      - exists k0. rewrite <- Hrest. exact Hk0. }
    destruct Hpre as [k Hk]. exists k, seg, j. cbn [fst]. split; [|split; [rewrite Hk; reflexivity | symmetry; exact Hc]].
    rewrite Hj, El1, E1, Hk, <- !app_assoc. reflexivity. }
  destruct st.
  - destruct (skipb l) as [|z t] eqn:El1.
    + (* only the head is left: the component is Root or "." and nothing remains *)
      pose proof (front_spec is_sep norm Hd AtBeg l eq_refl) as Hf.
      destruct (pfront AtBeg l) as [[c0 l0]|]; [|discriminate].
      intros H. inversion H; subst c0 l'. right. split; [reflexivity|]. intros n Hn. subst c.
      destruct Hf as (Hc & _ & _). cbn [cspec] in Hc. rewrite (skipb_nil_body is_sep norm Hd l El1), app_nil_r in Hc.
      unfold lead_extra in Hc. destruct (root_ok is_sep l); [inversion Hc|].
      destruct (norm && cur_ok is_sep l); [inversion Hc | discriminate].
    + intros H. left. apply (Hmain (z :: t) eq_refl); [discriminate | exact H].
  - destruct (skipb l) as [|z t] eqn:El1.
    + cbn. discriminate.
    + intros H. left. apply (Hmain (z :: t) eq_refl); [discriminate | exact H].
Qed.

(* ---------- schedules with offsets ---------- *)
(* one entry per step: the direction, the slice reported for a normal name (offset, bytes), and the window
   (offset, length) of the input that is left after the step *)
Definition entry := (bool * option (nat * list byte) * (nat * nat))%type.
Fixpoint slices (s : pstate * list byte) (a : nat) (sched : list bool) : list entry :=
  match sched with
  | [] => []
  | d :: r =>
      match (if d then next_back is_sep norm s else next_front is_sep norm s) with
      | Some (c, s') =>
          let off := if d then (a + boff (fst s) (snd s))%nat else a in
          let a' := if d then a else (a + (length (snd s) - length (snd s')))%nat in
          (d, match c with Normal n => Some (off, n) | _ => None end, (a', length (snd s'))) :: slices s' a' r
      | None => (d, None, (a, length (snd s))) :: slices s a r
      end
  end.

Definition is_slice (p : list byte) (off : nat) (n : list byte) : Prop := firstn (length n) (skipn off p) = n.
(* what one entry has to satisfy relative to the window (a, len) before its step *)
Definition entry_ok (p : list byte) (w : nat * nat) (e : entry) : Prop :=
  let '(d, sl, (a', len')) := e in
  let (a, len) := w in
  (a <= a' /\ a' + len' <= a + len)%nat /\
  match sl with
  | Some (off, n) => is_slice p off n /\ (a <= off /\ off + length n <= a + len)%nat /\
                     (if d then (a' + len' <= off)%nat else (off + length n <= a')%nat)
  | None => True
  end.
Fixpoint entries_ok (p : list byte) (w : nat * nat) (es : list entry) : Prop :=
  match es with
  | [] => True
  | e :: r => entry_ok p w e /\ entries_ok p (snd e) r
  end.

Lemma is_slice_at pre n post : is_slice (pre ++ n ++ post) (length pre) n.
Proof.
  unfold is_slice. rewrite skipn_app, skipn_all, Nat.sub_diag. cbn [skipn app].
  rewrite firstn_app, firstn_all, Nat.sub_diag. cbn. apply app_nil_r.
Qed.

Theorem slices_ok sched : forall s a pre post,
  length pre = a -> entries_ok (pre ++ snd s ++ post) (a, length (snd s)) (slices s a sched).
Proof.
  induction sched as [|d r IH]; intros [st l] a pre post Ha; [exact I|].
  cbn [slices snd fst]. destruct d.
  - (* back step *)
    unfold next_back. cbn [fst snd].
    destruct (pback st l) as [[c l']|] eqn:Eb.
    + cbn [entries_ok snd fst].
      destruct (back_shape st l c l' Eb) as [(k & seg & j & El & Eoff & Ec) | (El' & Hnn)].
      * assert (Hlen : length l = (length l' + length k + length seg + length j)%nat)
          by (rewrite El at 1; rewrite !app_length; lia).
        split.
        -- cbn [entry_ok]. split; [lia|].
           destruct c as [| | |n]; try exact I.
           symmetry in Ec. apply classify_normal in Ec. subst seg. rewrite Eoff.
           split; [|split; [rewrite app_length; lia | rewrite app_length; lia]].
           replace (pre ++ l ++ post) with ((pre ++ l' ++ k) ++ n ++ (j ++ post))
             by (rewrite El; rewrite <- !app_assoc; reflexivity).
           replace (a + length (l' ++ k))%nat with (length (pre ++ l' ++ k)) by (rewrite !app_length; lia).
           apply is_slice_at.
        -- replace (pre ++ l ++ post) with (pre ++ l' ++ (k ++ seg ++ j ++ post))
             by (rewrite El; rewrite <- !app_assoc; reflexivity).
           apply (IH (st, l') a pre (k ++ seg ++ j ++ post) Ha).
      * subst l'. split.
        -- cbn [entry_ok length]. split; [lia|]. destruct c as [| | |n]; try exact I. exfalso. apply (Hnn n). reflexivity.
        -- apply (IH (st, []) a pre (l ++ post) Ha).
    + cbn [entries_ok snd fst]. split; [cbn [entry_ok]; split; [lia | exact I]|].
      apply (IH (st, l) a pre post Ha).
  - (* front step *)
    unfold next_front. cbn [fst snd].
    destruct (pfront st l) as [[c l']|] eqn:Ef.
    + cbn [entries_ok snd fst].
      destruct (front_shape st l c l' Ef) as (u & El & Hn).
      assert (Hlen : length l = (length u + length l')%nat) by (rewrite El at 1; apply app_length).
      replace (a + (length l - length l'))%nat with (a + length u)%nat by lia.
      split.
      * cbn [entry_ok]. split; [lia|].
        destruct c as [| | |n]; try exact I.
        destruct (Hn n eq_refl) as (u' & Eu).
        assert (Hlu : length u = (length n + length u')%nat) by (rewrite Eu; apply app_length).
        split; [|split; lia].
        replace (pre ++ l ++ post) with (pre ++ n ++ (u' ++ l' ++ post))
          by (rewrite El, Eu; rewrite <- !app_assoc; reflexivity).
        rewrite <- Ha. apply is_slice_at.
      * replace (pre ++ l ++ post) with ((pre ++ u) ++ l' ++ post)
          by (rewrite El; rewrite <- !app_assoc; reflexivity).
        apply (IH (NotAtBeg, l') (a + length u)%nat (pre ++ u) post). rewrite app_length. lia.
    + cbn [entries_ok snd fst]. split; [cbn [entry_ok]; split; [lia | exact I]|].
      apply (IH (st, l) a pre post Ha).
Qed.

(* ---------- what the nested windows give: order and disjointness ---------- *)
(* every later slice lies inside the window an entry leaves behind *)
Lemma entries_in_window p : forall es w, entries_ok p w es ->
  Forall (fun e : entry => match snd (fst e) with
                           | Some (off, n) => (fst w <= off /\ off + length n <= fst w + snd w)%nat
                           | None => True end) es.
Proof.
  induction es as [|[[d sl] [a' len']] r IH]; intros [a len] H; [constructor|].
  cbn [entries_ok snd] in H. destruct H as (He & Hr). cbn [entry_ok] in He. destruct He as (Hnest & Hsl).
  constructor.
  - cbn [fst snd]. destruct sl as [[off n]|]; [|exact I]. destruct Hsl as (_ & Hin & _). exact Hin.
  - specialize (IH (a', len') Hr). eapply Forall_impl; [|exact IH].
    intros [[d2 sl2] w2]. cbn [fst snd]. destruct sl2 as [[off2 n2]|]; [|auto]. lia.
Qed.
(* a slice handed out from the front ends before every slice handed out later starts; a slice handed out
   from the back starts after every later slice ends: no overlap, fronts ascending, backs descending *)
Theorem slices_ordered p : forall es w, entries_ok p w es ->
  forall i j ei ej, (i < j)%nat -> nth_error es i = Some ei -> nth_error es j = Some ej ->
  match snd (fst ei), snd (fst ej) with
  | Some (oi, ni), Some (oj, nj) =>
      if fst (fst ei) then (oj + length nj <= oi)%nat else (oi + length ni <= oj)%nat
  | _, _ => True
  end.
Proof.
  induction es as [|e r IH]; intros w H i j ei ej Hij Hi Hj; [destruct i; discriminate|].
  cbn [entries_ok] in H. destruct H as (He & Hr).
  destruct i as [|i'].
  - cbn [nth_error] in Hi. inversion Hi; subst ei. destruct j as [|j']; [lia|]. cbn [nth_error] in Hj.
    pose proof (entries_in_window p r (snd e) Hr) as Hw.
    rewrite Forall_forall in Hw. specialize (Hw ej (nth_error_In _ _ Hj)).
    destruct e as [[d sl] [a' len']]. destruct w as [a len]. cbn [entry_ok] in He. destruct He as (_ & Hsl).
    cbn [fst snd] in *. destruct sl as [[oi ni]|]; [|exact I]. destruct (snd (fst ej)) as [[oj nj]|]; [|exact I].
    destruct Hsl as (_ & _ & Hout). destruct d; lia.
  - destruct j as [|j']; [lia|]. cbn [nth_error] in Hi, Hj. apply (IH (snd e) Hr i' j' ei ej); [lia | exact Hi | exact Hj].
Qed.
End Slices.

(* ---------- the Unix instance, and the tie to what the model reports (Obs.obs_sched) ---------- *)
From TP Require Import Path Unix Val Obs UnixProofs.

Theorem u_slices_ok p sched : entries_ok p (0%nat, length p) (slices usep true (u_init p) 0 sched).
Proof.
  pose proof (slices_ok usep true usep_dot sched (u_init p) 0%nat [] [] eq_refl) as H.
  cbn [u_init snd app] in H. rewrite app_nil_r in H. exact H.
Qed.
Theorem u_slices_ordered p sched i j ei ej : (i < j)%nat ->
  nth_error (slices usep true (u_init p) 0 sched) i = Some ei ->
  nth_error (slices usep true (u_init p) 0 sched) j = Some ej ->
  match snd (fst ei), snd (fst ej) with
  | Some (oi, ni), Some (oj, nj) => if fst (fst ei) then (oj + length nj <= oi)%nat else (oi + length ni <= oj)%nat
  | _, _ => True
  end.
Proof. intros Hij Hi Hj. exact (slices_ordered p _ _ (u_slices_ok p sched) i j ei ej Hij Hi Hj). Qed.

(* the offsets the model prints (third field of every step of obs_sched) are the offsets of [slices] *)
Definition entry_off (e : entry) : val :=
  match snd (fst e) with Some (off, _) => VSome (vnat off) | None => VN end.
Definition step_off (v : val) : val :=
  match v with VC _ [_; _; o; _] => o | _ => VN end.
Lemma obs_sched_offsets sched : forall (s : ustate) a,
  map step_off (obs_sched UE false s a sched) = map entry_off (slices usep true s a sched).
Proof.
  induction sched as [|d r IH]; intros s a; [reflexivity|].
  destruct d; cbn [obs_sched slices].
  - change (nextb UE s) with (next_back usep true s).
    destruct (next_back usep true s) as [[c s']|]; cbn [map]; f_equal; try apply IH; try (destruct c; reflexivity); reflexivity.
  - change (nextf UE s) with (next_front usep true s).
    destruct (next_front usep true s) as [[c s']|]; cbn [map]; f_equal; try apply IH; try (destruct c; reflexivity); reflexivity.
Qed.

(* ---------- the Windows instance: the prefix is a slice too, the body is the generic core ---------- *)
From TP Require Import Win WinProofs.

Fixpoint wslices (s : wstate) (a : nat) (sched : list bool) : list entry :=
  match sched with
  | [] => []
  | d :: r =>
      match (if d then w_nextb s else w_nextf s) with
      | Some (c, s') =>
          let off := if d then (a + w_back_off s)%nat else a in
          let a' := if d then a else (a + (length (w_input s) - length (w_input s')))%nat in
          (d, match c with WPrefix raw _ => Some (off, raw) | WC (Normal n) => Some (off, n) | _ => None end,
           (a', length (w_input s'))) :: wslices s' a' r
      | None => (d, None, (a, length (w_input s))) :: wslices s a r
      end
  end.
(* the part of winv that matters here: an unconsumed prefix is the head of the input *)
Definition wpre (s : wstate) : Prop :=
  match w_prefix s with
  | Some (raw, _) => firstn (length raw) (w_input s) = raw /\ (length raw <= length (w_input s))%nat
  | None => True
  end.
Lemma wpre_init l : wpre (w_init l).
Proof.
  unfold wpre, w_init. cbn [w_prefix w_input]. unfold prefix_component.
  destruct (prefix l) as [[k r]|]; [|exact I].
  rewrite firstn_length, Nat.min_l by lia. split; [reflexivity | lia].
Qed.
Lemma firstn_app_exact {X} (a b c : list X) n : n = (length a + length b)%nat -> firstn n (a ++ b ++ c) = a ++ b.
Proof.
  intros ->. rewrite app_assoc. rewrite <- (app_length a b). rewrite firstn_app, firstn_all, Nat.sub_diag. cbn. apply app_nil_r.
Qed.

Theorem wslices_ok sched : forall s a pre post, wpre s -> length pre = a ->
  entries_ok (pre ++ w_input s ++ post) (a, length (w_input s)) (wslices s a sched).
Proof.
  induction sched as [|d r IH]; intros s a pre post Hw Ha; [exact I|].
  cbn [wslices]. destruct d.
  - (* back step *)
    unfold w_nextb, w_back_off.
    assert (Hin : w_input s = firstn (plen s) (w_input s) ++ skipn (plen s) (w_input s)) by (symmetry; apply firstn_skipn).
    assert (Hhd : length (firstn (plen s) (w_input s)) = plen s).
    { apply firstn_length_le. unfold plen, wpre in *. destruct (w_prefix s) as [[raw k]|]; [destruct Hw; assumption | lia]. }
    set (hd := firstn (plen s) (w_input s)) in *.
    destruct (skipn (plen s) (w_input s)) as [|r0 rt] eqn:Erest.
    + (* only the prefix is left *)
      destruct (w_prefix s) as [[raw k]|] eqn:Ep.
      * cbn [entries_ok snd fst w_input].
        assert (Hpl : plen s = length raw) by (unfold plen; rewrite Ep; reflexivity).
        assert (Hraw : w_input s = raw).
        { unfold wpre in Hw. rewrite Ep in Hw. destruct Hw as (Hf & _).
          rewrite <- (firstn_skipn (length raw) (w_input s)). rewrite Hf. rewrite <- Hpl, Erest. apply app_nil_r. }
        assert (Hsk : skipn (length raw) (w_input s) = []) by (rewrite <- Hpl; exact Erest).
        rewrite Hsk. split.
        -- cbn [entry_ok length]. split; [lia|]. rewrite Nat.add_0_r, Hraw.
           split; [rewrite <- Ha; apply is_slice_at|]. split; lia.
        -- rewrite Hraw. replace (pre ++ raw ++ post) with (pre ++ [] ++ (raw ++ post)) by reflexivity.
           apply (IH {| w_input := []; w_st := w_st s; w_prefix := None; w_norm := w_norm s |} a pre (raw ++ post)); [exact I | exact Ha].
      * cbn [entries_ok snd fst]. split; [cbn [entry_ok]; split; [lia | exact I]|]. apply (IH s a pre post Hw Ha).
    + destruct (parse_back (wsep (w_norm s)) (w_norm s) (w_st s) (r0 :: rt)) as [[c l']|] eqn:Eb.
      * cbn [entries_ok snd fst w_input].
        assert (Hwpre' : forall inp, inp = hd ++ l' ->
                  wpre {| w_input := inp; w_st := w_st s; w_prefix := w_prefix s; w_norm := w_norm s |}).
        { intros inp ->. unfold wpre in *. cbn [w_prefix w_input]. destruct (w_prefix s) as [[raw k]|] eqn:Ep; [|exact I].
          destruct Hw as (Hf & Hl).
          assert (Hpl : plen s = length raw) by (unfold plen; rewrite Ep; reflexivity).
          assert (Ehd : hd = raw) by (unfold hd; rewrite Hpl; exact Hf).
          rewrite Ehd. split; [rewrite firstn_app, firstn_all, Nat.sub_diag; cbn; apply app_nil_r | rewrite app_length; lia]. }
        destruct (back_shape (wsep (w_norm s)) (w_norm s) (wsep_dot (w_norm s)) (w_st s) (r0 :: rt) c l' Eb)
          as [(k & seg & j & El & Eoff & Ec) | (El' & Hnn)].
        -- assert (Hnew : firstn (length l' + plen s) (w_input s) = hd ++ l').
           { rewrite Hin at 1. rewrite El. rewrite <- !app_assoc. apply firstn_app_exact. lia. }
           rewrite Hnew.
           assert (Hlen : length (w_input s) = (plen s + (length l' + length k + length seg + length j))%nat).
           { rewrite Hin at 1. rewrite app_length, Hhd, El, !app_length. lia. }
           split.
           ++ cbn [entry_ok]. rewrite app_length, Hhd. split; [lia|].
              destruct c as [| | |n]; try exact I.
              symmetry in Ec. apply classify_normal in Ec. subst seg. rewrite Eoff.
              split; [|split; [rewrite app_length; lia | rewrite app_length; lia]].
              replace (pre ++ w_input s ++ post) with ((pre ++ hd ++ l' ++ k) ++ n ++ (j ++ post))
                by (rewrite Hin at 1; rewrite El; rewrite <- !app_assoc; reflexivity).
              replace (a + (plen s + length (l' ++ k)))%nat with (length (pre ++ hd ++ l' ++ k)) by (rewrite !app_length; lia).
              apply is_slice_at.
           ++ replace (pre ++ w_input s ++ post) with (pre ++ (hd ++ l') ++ (k ++ seg ++ j ++ post))
                by (rewrite Hin at 1; rewrite El; rewrite <- !app_assoc; reflexivity).
              apply (IH {| w_input := hd ++ l'; w_st := w_st s; w_prefix := w_prefix s; w_norm := w_norm s |} a pre
                        (k ++ seg ++ j ++ post)); [apply Hwpre'; reflexivity | exact Ha].
        -- subst l'. cbn [length Nat.add].
           assert (Hnew : firstn (plen s) (w_input s) = hd ++ []) by (rewrite app_nil_r; reflexivity).
           rewrite Hnew. split.
           ++ cbn [entry_ok]. rewrite app_nil_r, Hhd.
              assert (plen s <= length (w_input s))%nat by (rewrite Hin at 1; rewrite app_length, Hhd; lia).
              split; [lia|]. destruct c as [| | |n]; try exact I. exfalso. apply (Hnn n). reflexivity.
           ++ replace (pre ++ w_input s ++ post) with (pre ++ (hd ++ []) ++ ((r0 :: rt) ++ post))
                by (rewrite Hin at 1; rewrite app_nil_r, <- !app_assoc; reflexivity).
              apply (IH {| w_input := hd ++ []; w_st := w_st s; w_prefix := w_prefix s; w_norm := w_norm s |} a pre
                        ((r0 :: rt) ++ post)); [apply Hwpre'; reflexivity | exact Ha].
      * cbn [entries_ok snd fst]. split; [cbn [entry_ok]; split; [lia | exact I]|]. apply (IH s a pre post Hw Ha).
  - (* front step *)
    unfold w_nextf. destruct (w_prefix s) as [[raw k]|] eqn:Ep.
    + (* the prefix *)
      cbn [entries_ok snd fst w_input].
      unfold wpre in Hw. rewrite Ep in Hw. destruct Hw as (Hf & Hl).
      assert (Hin0 : w_input s = raw ++ skipn (length raw) (w_input s)) by (rewrite <- Hf at 1; symmetry; apply firstn_skipn).
      set (rest := skipn (length raw) (w_input s)) in *.
      assert (Hlen : length (w_input s) = (length raw + length rest)%nat) by (rewrite Hin0; apply app_length).
      replace (a + (length (w_input s) - length rest))%nat with (a + length raw)%nat by lia.
      split.
      * cbn [entry_ok]. split; [lia|]. split; [|split; lia].
        rewrite Hin0. rewrite <- app_assoc. rewrite <- Ha. apply is_slice_at.
      * rewrite Hin0. rewrite <- app_assoc. rewrite (app_assoc pre raw).
        apply (IH {| w_input := rest; w_st := w_st s; w_prefix := None; w_norm := w_norm s |}
                  (a + length raw)%nat (pre ++ raw) post); [exact I | rewrite app_length; lia].
    + destruct (parse_front (wsep (w_norm s)) (w_norm s) (w_st s) (w_input s)) as [[c l']|] eqn:Ef.
      * cbn [entries_ok snd fst w_input].
        destruct (front_shape (wsep (w_norm s)) (w_norm s) (w_st s) (w_input s) c l' Ef) as (u & El & Hn).
        assert (Hlen : length (w_input s) = (length u + length l')%nat) by (rewrite El at 1; apply app_length).
        replace (a + (length (w_input s) - length l'))%nat with (a + length u)%nat by lia.
        split.
        -- cbn [entry_ok]. split; [lia|].
           destruct c as [| | |n]; try exact I.
           destruct (Hn n eq_refl) as (u' & Eu).
           assert (Hlu : length u = (length n + length u')%nat) by (rewrite Eu; apply app_length).
           split; [|split; lia].
           replace (pre ++ w_input s ++ post) with (pre ++ n ++ (u' ++ l' ++ post))
             by (rewrite El, Eu; rewrite <- !app_assoc; reflexivity).
           rewrite <- Ha. apply is_slice_at.
        -- replace (pre ++ w_input s ++ post) with ((pre ++ u) ++ l' ++ post)
             by (rewrite El; rewrite <- !app_assoc; reflexivity).
           apply (IH {| w_input := l'; w_st := NotAtBeg; w_prefix := None; w_norm := w_norm s |} (a + length u)%nat (pre ++ u) post);
             [exact I | rewrite app_length; lia].
      * cbn [entries_ok snd fst]. split; [cbn [entry_ok]; split; [lia | exact I]|]. apply (IH s a pre post Hw Ha).
Qed.
Theorem w_slices_ok l sched : entries_ok l (0%nat, length l) (wslices (w_init l) 0 sched).
Proof.
  pose proof (wslices_ok sched (w_init l) 0%nat [] [] (wpre_init l) eq_refl) as H.
  cbn [w_init w_input app] in H. rewrite app_nil_r in H. exact H.
Qed.

Lemma obs_sched_offsets_w sched : forall (s : wstate) a,
  map step_off (obs_sched WE false s a sched) = map entry_off (wslices s a sched).
Proof.
  induction sched as [|d r IH]; intros s a; [reflexivity|].
  destruct d; cbn [obs_sched wslices].
  - change (nextb WE s) with (w_nextb s).
    destruct (w_nextb s) as [[c s']|]; cbn [map]; f_equal; try apply IH; try (destruct c as [raw k|[| | |n]]; reflexivity); reflexivity.
  - change (nextf WE s) with (w_nextf s).
    destruct (w_nextf s) as [[c s']|]; cbn [map]; f_equal; try apply IH; try (destruct c as [raw k|[| | |n]]; reflexivity); reflexivity.
Qed.
