(* C12 (Unix): replacing the file name by a single valid name. *)
From Coq Require Import List NArith Bool Lia Arith.
Import ListNotations.
From TP Require Import Core CoreProofs CoreSched Path Unix Spec Ops UnixProofs C04Proofs C11Proofs.
Open Scope N_scope.

(* a single name: parses to exactly [Normal n] *)
Lemma gname_single n : gname n -> ucomps n = [Normal n].
Proof. exact (ucomps_gname n). Qed.
(* no file name: the old path joined with n *)
Theorem u_set_file_name_none l n : u_file_name l = None -> u_set_file_name l n = u_push l n.
Proof. intros H. unfold u_set_file_name, set_file_name. fold u_file_name. rewrite H. reflexivity. Qed.
(* a file name: the components are the old ones with the last replaced by n *)
Theorem u_set_file_name_some l m n : u_file_name l = Some m -> gname n ->
  ucomps (u_set_file_name l n) = removelast (ucomps l) ++ [Normal n].
Proof.
  intros H G. unfold u_set_file_name, set_file_name. fold u_file_name u_pop. rewrite H.
  rewrite u_pop_spec. destruct (u_parent l) as [r|] eqn:Ep.
  - cbn [fst]. rewrite (u_push_gname r n G). destruct (u_parent_some l r Ep) as (_ & E & _). rewrite E. reflexivity.
  - exfalso. apply u_parent_none in Ep. rewrite u_file_name_spec in H. destruct Ep as [Ep | (cs0 & Ep)]; rewrite Ep in H.
    + discriminate.
    + rewrite rev_app_distr in H. discriminate.
Qed.
Corollary u_set_file_name_file_name l m n : u_file_name l = Some m -> gname n ->
  u_file_name (u_set_file_name l n) = Some n.
Proof. intros H G. rewrite u_file_name_spec, (u_set_file_name_some l m n H G), rev_app_distr. reflexivity. Qed.
Corollary u_set_file_name_parent l m n r r' : u_file_name l = Some m -> gname n ->
  u_parent l = Some r -> u_parent (u_set_file_name l n) = Some r' -> ucomps r' = ucomps r.
Proof.
  intros H G Hr Hr'. destruct (u_parent_some _ _ Hr) as (_ & E & _). destruct (u_parent_some _ _ Hr') as (_ & E' & _).
  rewrite E, E', (u_set_file_name_some l m n H G), removelast_last. reflexivity.
Qed.
(* the four documented cases of the stem / extension split *)
Theorem rsplit_cases n :
  rsplit_file_at_dot n =
  if beq_list n [46; 46] then (Some n, None)
  else match span_ndot (rev n) with
       | (_, []) => (None, Some n)                          (* no dot: the stem is the whole name *)
       | (_, [_]) => (Some n, None)                         (* the only dot is the first byte *)
       | (after_r, _ :: before_r) => (Some (rev before_r), Some (rev after_r))   (* split at the last dot *)
       end.
Proof.
  unfold rsplit_file_at_dot. destruct (beq_list n [46; 46]); [reflexivity|].
  destruct (span_ndot (rev n)) as [a r]. destruct r as [|d [|x t]]; reflexivity.
Qed.
