(* C02: the model's prefix parser (ordered alternatives over parser combinators) equals the
   declarative grammar of Spec.v, hence the decomposition is the specification wspec. *)
From Coq Require Import List NArith Bool Lia Arith PeanoNat.
Import ListNotations.
From TP Require Import Core CoreProofs CoreSched Deq Path Unix Win Spec UnixProofs WinProofs.
Open Scope N_scope.

Lemma s_wsep_eq norm b : s_wsep norm b = wsep norm b. Proof. reflexivity. Qed.
Lemma s_sep_any_eq b : s_sep_any b = wsep true b. Proof. reflexivity. Qed.
Lemma s_norm_eq l : s_norm l = negb (exact_verbatim l).
Proof.
  unfold s_norm, exact_verbatim. destruct l as [|a [|b [|c [|d t]]]]; cbn [starts_with_b]; try reflexivity;
    try (rewrite ?andb_false_r; reflexivity).
  destruct t; cbn [starts_with_b]; rewrite andb_true_r; rewrite !andb_assoc; reflexivity.
Qed.
Lemma p_sep_match norm l : p_sep norm l = match l with b :: t => if wsep norm b then Some t else None | [] => None end.
Proof. reflexivity. Qed.
Lemma span_nil_rest (f : byte -> bool) l r : span_nsep f l = ([], r) -> r = l.
Proof. intros H. apply span_app in H. cbn in H. congruence. Qed.
Lemma unc_parts_eq norm l : unc_parts (wsep norm) l = p_unc_tail norm l.
Proof.
  unfold unc_parts, p_unc_tail, p_normal, take_name.
  destruct (span_nsep (wsep norm) l) as [srv r1]. destruct srv as [|x t]; [reflexivity|].
  unfold p_sep. destruct r1 as [|b r1'].
  - cbn. reflexivity.
  - destruct (wsep norm b).
    + destruct (span_nsep (wsep norm) r1') as [sh r3] eqn:E. destruct sh; [|reflexivity].
      rewrite (span_nil_rest _ _ _ E). reflexivity.
    + destruct (span_nsep (wsep norm) (b :: r1')) as [sh r3] eqn:E. destruct sh; [|reflexivity].
      rewrite (span_nil_rest _ _ _ E). reflexivity.
Qed.
Lemma disk_at_eq l : disk_at l = p_disk l.
Proof.
  unfold disk_at, p_disk, p_byte, s_alpha, s_upper, is_ascii_alpha, to_ascii_upper.
  destruct l as [|d [|c t]]; try reflexivity.
  - destruct (_ || _); reflexivity.
  - destruct ((65 <=? d) && (d <=? 90) || (97 <=? d) && (d <=? 122)); [|reflexivity]. cbn [andb]. destruct (c =? 58); reflexivity.
Qed.
Lemma starts_unc_lit_eq l : starts_unc_lit l = p_unc_lit l.
Proof.
  unfold starts_unc_lit, p_unc_lit. destruct l as [|a [|b [|c t]]]; cbn [starts_with_b skipn]; try reflexivity;
    try (rewrite ?andb_false_r; reflexivity).
  destruct t; cbn [starts_with_b]; rewrite andb_true_r; rewrite andb_assoc; reflexivity.
Qed.

(* the alternatives, each characterised on the shape of the input *)
Lemma p_verbatim_shape l :
  p_verbatim l = match l with
                 | a :: b :: c :: d :: rest => if wsep true a && wsep true b && (c =? 63) && wsep true d then Some rest else None
                 | _ => None
                 end.
Proof.
  unfold p_verbatim, p_sep, p_byte. destruct l as [|a [|b [|c [|d rest]]]]; try reflexivity;
    repeat match goal with |- context [if ?x then _ else _] => destruct x; cbn [andb]; try reflexivity end.
Qed.


Definition hdr (c0 : byte) (a b c d : byte) : bool := wsep true a && wsep true b && (c =? c0) && wsep true d.

Lemma pvu_eq l :
  prefix_verbatim_unc l =
  match l with
  | a :: b :: c :: d :: rest =>
      if hdr 63 a b c d then
        match starts_unc_lit rest with
        | Some (s :: t) => if wsep (s_norm l) s then
                             match unc_parts (wsep (s_norm l)) t with
                             | Some (srv, sh, r) => Some (VerbatimUNC srv sh, r)
                             | None => None end
                           else None
        | _ => None
        end
      else None
  | _ => None
  end.
Proof.
  unfold prefix_verbatim_unc. rewrite p_verbatim_shape. rewrite <- s_norm_eq.
  destruct l as [|a [|b [|c [|d rest]]]]; try reflexivity. unfold hdr.
  destruct (wsep true a && wsep true b && (c =? 63) && wsep true d); [|reflexivity].
  rewrite <- starts_unc_lit_eq. destruct (starts_unc_lit rest) as [[|s t]|]; try reflexivity.
  unfold p_sep. destruct (wsep _ s); [|reflexivity]. rewrite unc_parts_eq. reflexivity.
Qed.
Lemma pvd_eq l :
  prefix_verbatim_disk l =
  match l with
  | a :: b :: c :: d :: rest =>
      if hdr 63 a b c d then match disk_at rest with Some (dl, r) => Some (VerbatimDisk dl, r) | None => None end else None
  | _ => None
  end.
Proof.
  unfold prefix_verbatim_disk. rewrite p_verbatim_shape.
  destruct l as [|a [|b [|c [|d rest]]]]; try reflexivity. unfold hdr.
  destruct (wsep true a && wsep true b && (c =? 63) && wsep true d); [|reflexivity].
  rewrite disk_at_eq. reflexivity.
Qed.
Lemma pv_eq l :
  prefix_verbatim l =
  match prefix_verbatim_disk l with
  | Some _ => None
  | None =>
      match prefix_verbatim_unc l with
      | Some _ => None
      | None =>
          match l with
          | a :: b :: c :: d :: rest =>
              if hdr 63 a b c d then
                let (x, r) := take_name (wsep (s_norm l)) rest in
                match x, r with
                | _ :: _, _ => Some (Verbatim x, r)
                | [], s :: _ => if wsep (s_norm l) s then Some (Verbatim [], rest) else None
                | [], [] => None
                end
              else None
          | _ => None
          end
      end
  end.
Proof.
  unfold prefix_verbatim. destruct (prefix_verbatim_disk l); [reflexivity|]. destruct (prefix_verbatim_unc l); [reflexivity|].
  rewrite p_verbatim_shape. rewrite <- s_norm_eq.
  destruct l as [|a [|b [|c [|d rest]]]]; try reflexivity. unfold hdr.
  destruct (wsep true a && wsep true b && (c =? 63) && wsep true d); [|reflexivity].
  unfold p_normal, take_name. destruct (span_nsep (wsep _) rest) as [x r] eqn:Es.
  destruct x as [|x0 xt]; [|reflexivity].
  rewrite (span_nil_rest _ _ _ Es). unfold p_sep. destruct rest as [|s0 rt]; [reflexivity|]. destruct (wsep _ s0); reflexivity.
Qed.
Lemma pdn_eq l :
  prefix_device_ns l =
  match l with
  | a :: b :: c :: d :: rest =>
      if hdr 46 a b c d then
        let (x, r) := take_name (wsep true) rest in
        match x with _ :: _ => Some (DeviceNS x, r) | [] => None end
      else None
  | _ => None
  end.
Proof.
  unfold prefix_device_ns, p_sep, p_byte, hdr. destruct l as [|a [|b [|c [|d rest]]]]; try reflexivity;
    try (destruct (wsep true a); [|reflexivity]); try (destruct (wsep true b); [|reflexivity]);
    try (destruct (c =? 46); [|reflexivity]); try reflexivity.
  cbn [andb]. destruct (wsep true d); [|reflexivity].
  unfold p_normal, take_name. destruct (span_nsep (wsep true) rest) as [x r]. destruct x; reflexivity.
Qed.
Lemma pu_eq l :
  prefix_unc l =
  match l with
  | a :: b :: t => if wsep true a && wsep true b then
                     match unc_parts (wsep true) t with Some (srv, sh, r) => Some (UNC srv sh, r) | None => None end
                   else None
  | _ => None
  end.
Proof.
  unfold prefix_unc, p_sep. destruct l as [|a [|b t]]; try reflexivity.
  - destruct (wsep true a); reflexivity.
  - destruct (wsep true a); [|reflexivity]. destruct (wsep true b); [|reflexivity]. cbn [andb]. rewrite unc_parts_eq. reflexivity.
Qed.
Lemma pd_eq l : prefix_disk l = match disk_at l with Some (dl, r) => Some (Disk dl, r) | None => None end.
Proof. unfold prefix_disk. rewrite disk_at_eq. reflexivity. Qed.
Lemma first_some_cons {A} (x : option A) xs : first_some (x :: xs) = match x with Some v => Some v | None => first_some xs end.
Proof. unfold first_some. cbn [fold_right]. destruct x; reflexivity. Qed.

Lemma disk_at_sep a t : wsep true a = true -> disk_at (a :: t) = None.
Proof.
  unfold wsep, disk_at, s_alpha. intros H. destruct t as [|c t']; [reflexivity|].
  apply orb_true_iff in H as [H|H]; [|cbn [andb] in H]; apply N.eqb_eq in H; subst a; reflexivity.
Qed.
Ltac fin := repeat (match goal with
                    | |- context [match ?x with _ => _ end] => destruct x eqn:?; try reflexivity; try congruence
                    end).

Theorem prefix_grammar l : wprefix_grammar l = prefix l.
Proof.
  unfold prefix, prefix_alternatives. cbn [map]. rewrite !first_some_cons. cbn [first_some fold_right].
  rewrite pv_eq, pvu_eq, pvd_eq, pdn_eq, pu_eq, pd_eq. unfold wprefix_grammar.
  change s_sep_any with (wsep true). change s_wsep with wsep.
  destruct l as [|a [|b [|c [|d rest]]]].
  - reflexivity.
  - reflexivity.
  - destruct (wsep true a && wsep true b); fin.
  - destruct (wsep true a && wsep true b); fin.
  - unfold hdr. set (norm := s_norm (a :: b :: c :: d :: rest)).
    destruct (wsep true a) eqn:Ha; cbn [andb]; [|fin].
    destruct (wsep true b) eqn:Hb; cbn [andb]; [|fin].
    rewrite (disk_at_sep a _ Ha).
    destruct (wsep true d) eqn:Hd; rewrite ?andb_true_r, ?andb_false_r.
    + destruct (c =? 63) eqn:H63.
      * assert (H46 : (c =? 46) = false) by (apply N.eqb_eq in H63; subst c; reflexivity). rewrite H46.
        destruct (starts_unc_lit rest) as [[|s t]|] eqn:Eu; fin.
      * destruct (c =? 46) eqn:H46; fin.
    + fin.
Qed.

(* ---- the decomposition is the specification ---- *)
Theorem w_components_wspec l : w_components l = wspec l.
Proof.
  rewrite w_components_spec. unfold wcs, wspec, wcore, wrest, plen, w_init, prefix_component.
  cbn [w_prefix w_input w_st w_norm]. rewrite prefix_grammar. rewrite <- s_norm_eq.
  destruct (prefix l) as [[k rest]|] eqn:E.
  - destruct (prefix_consumes _ _ _ E) as (a & Ha & Hl).
    assert (Hraw : firstn (length l - length rest) l = a).
    { rewrite Hl, app_length. replace (length a + length rest - length rest)%nat with (length a) by lia.
      rewrite firstn_app, firstn_all, Nat.sub_diag. cbn. apply app_nil_r. }
    rewrite Hraw. cbn [app]. f_equal. f_equal.
    assert (Hsk : skipn (length a) l = rest) by (rewrite Hl; rewrite skipn_app, skipn_all, Nat.sub_diag; reflexivity).
    rewrite Hsk. unfold cs. cbn [fst snd]. symmetry. apply (spec_comps_cspec (wsep (s_norm l)) (s_norm l) (wsep_dot _)).
  - cbn [app skipn]. f_equal. unfold cs. cbn [fst snd]. symmetry. apply (spec_comps_cspec (wsep (s_norm l)) (s_norm l) (wsep_dot _)).
Qed.

(* first and second front step against the specification list *)
Lemma w_first l :
  match w_nextf (w_init l) with
  | Some (c, s1) => wspec l = c :: wcs s1 /\ winv s1
  | None => wspec l = []
  end.
Proof.
  rewrite <- w_components_wspec, w_components_spec.
  pose proof (w_nextf_spec (w_init l) (winv_init l)) as F. destruct (w_nextf (w_init l)) as [[c s1]|]; exact F.
Qed.
Lemma w_second l c s1 : w_nextf (w_init l) = Some (c, s1) ->
  match w_nextf s1 with
  | Some (c2, s2) => wspec l = c :: c2 :: wcs s2
  | None => wspec l = [c]
  end.
Proof.
  intros E. pose proof (w_first l) as F. rewrite E in F. destruct F as (H1 & HI).
  pose proof (w_nextf_spec s1 HI) as F2. destruct (w_nextf s1) as [[c2 s2]|].
  - destruct F2 as (H2 & _). rewrite H1, H2. reflexivity.
  - rewrite H1, F2. reflexivity.
Qed.

(* ---- every prefix / root query agrees with the decomposition ---- *)
Theorem w_peek_front_spec l : w_peek_front l = hd_error (wspec l).
Proof.
  unfold w_peek_front. pose proof (w_first l) as F. destruct (w_nextf (w_init l)) as [[c s1]|].
  - destruct F as (-> & _). reflexivity.
  - rewrite F. reflexivity.
Qed.
Theorem w_prefix_of_spec l :
  w_prefix_of l = match wspec l with WPrefix raw k :: _ => Some (raw, k) | _ => None end.
Proof. unfold w_prefix_of. rewrite w_peek_front_spec. destruct (wspec l) as [|[raw k|c] t]; reflexivity. Qed.
Theorem w_prefix_kind_spec l :
  w_prefix_kind l = match wspec l with WPrefix _ k :: _ => Some k | _ => None end.
Proof. unfold w_prefix_kind. rewrite w_prefix_of_spec. destruct (wspec l) as [|[raw k|c] t]; reflexivity. Qed.
Theorem w_has_prefix_spec l :
  w_has_prefix l = match wspec l with WPrefix _ _ :: _ => true | _ => false end.
Proof. unfold w_has_prefix. rewrite w_prefix_of_spec. destruct (wspec l) as [|[raw k|c] t]; reflexivity. Qed.
Theorem w_is_absolute_spec l :
  w_is_absolute l = match wspec l with WPrefix _ _ :: WC Root :: _ => true | _ => false end.
Proof.
  unfold w_is_absolute. pose proof (w_first l) as F. destruct (w_nextf (w_init l)) as [[c s1]|] eqn:E.
  - pose proof (w_second l c s1 E) as F2. destruct c as [raw k|c].
    + destruct (w_nextf s1) as [[c2 s2]|]; rewrite F2; [destruct c2 as [r2 k2|[| | |n]]; reflexivity | reflexivity].
    + destruct F as (-> & _). reflexivity.
  - rewrite F. reflexivity.
Qed.
Theorem w_has_root_spec l :
  w_has_root l =
  match wspec l with
  | WC Root :: _ => true
  | WPrefix _ k :: rest =>
      match k with
      | Disk _ | VerbatimDisk _ => match rest with WC Root :: _ => true | _ => false end
      | _ => true
      end
  | _ => false
  end.
Proof.
  unfold w_has_root. pose proof (w_first l) as F. destruct (w_nextf (w_init l)) as [[c s1]|] eqn:E.
  - pose proof (w_second l c s1 E) as F2. destruct c as [raw k|c].
    + destruct (w_nextf s1) as [[c2 s2]|]; rewrite F2; destruct k; try reflexivity; destruct c2 as [r2 k2|[| | |n]]; reflexivity.
    + destruct F as (-> & _). destruct c; reflexivity.
  - rewrite F. reflexivity.
Qed.
Theorem w_has_physical_root_spec l :
  w_has_physical_root l =
  match wspec l with WC Root :: _ => true | WPrefix _ _ :: WC Root :: _ => true | _ => false end.
Proof.
  unfold w_has_physical_root. pose proof (w_first l) as F. destruct (w_nextf (w_init l)) as [[c s1]|] eqn:E.
  - pose proof (w_second l c s1 E) as F2. destruct c as [raw k|c].
    + destruct (w_nextf s1) as [[c2 s2]|]; rewrite F2; [destruct c2 as [r2 k2|[| | |n]]; reflexivity | reflexivity].
    + destruct F as (-> & _). destruct c; reflexivity.
  - rewrite F. reflexivity.
Qed.
Theorem w_has_implicit_root_spec l :
  w_has_implicit_root l = match wspec l with WPrefix _ (Disk _) :: _ => false | WPrefix _ _ :: _ => true | _ => false end.
Proof. unfold w_has_implicit_root. rewrite w_prefix_kind_spec. destruct (wspec l) as [|[raw k|c] t]; try reflexivity; destruct k; reflexivity. Qed.
Theorem w_has_any_verbatim_prefix_spec l :
  w_has_any_verbatim_prefix l =
  match wspec l with WPrefix _ (Verbatim _ | VerbatimUNC _ _ | VerbatimDisk _) :: _ => true | _ => false end.
Proof. unfold w_has_any_verbatim_prefix. rewrite w_prefix_kind_spec. destruct (wspec l) as [|[raw k|c] t]; try reflexivity; destruct k; reflexivity. Qed.
Theorem w_is_only_disk_spec l :
  w_is_only_disk l = match wspec l with [WPrefix _ (Disk _)] => true | _ => false end.
Proof.
  unfold w_is_only_disk, w_has_disk_prefix. rewrite w_prefix_kind_spec.
  pose proof (w_first l) as F. destruct (w_nextf (w_init l)) as [[c s1]|] eqn:E.
  - pose proof (w_second l c s1 E) as F2. destruct (w_nextf s1) as [[c2 s2]|]; rewrite F2.
    + destruct c as [raw k|c]; [destruct k|]; cbn; try reflexivity; try (rewrite ?andb_false_r; reflexivity).
    + destruct c as [raw k|c]; [destruct k|]; reflexivity.
  - rewrite F. reflexivity.
Qed.
Theorem w_try_from_spec l : w_try_from l = match wspec l with [c] => Some c | _ => None end.
Proof.
  unfold w_try_from. pose proof (w_first l) as F. destruct (w_nextf (w_init l)) as [[c s1]|] eqn:E.
  - pose proof (w_second l c s1 E) as F2. destruct (w_nextf s1) as [[c2 s2]|]; rewrite F2; reflexivity.
  - rewrite F. reflexivity.
Qed.

(* ---- drive letters are upper-case ASCII ---- *)
Lemma disk_at_upper l d r : disk_at l = Some (d, r) -> 65 <= d <= 90.
Proof.
  unfold disk_at, s_alpha, s_upper. destruct l as [|x [|c t]]; try discriminate.
  destruct (((65 <=? x) && (x <=? 90) || (97 <=? x) && (x <=? 122)) && (c =? 58)) eqn:H; [|discriminate].
  intros X; inversion X; subst. apply andb_true_iff in H as [H _].
  destruct ((97 <=? x) && (x <=? 122)) eqn:Hl.
  - apply andb_true_iff in Hl as [H1 H2]. apply N.leb_le in H1, H2. lia.
  - rewrite orb_false_r in H. apply andb_true_iff in H as [H1 H2]. apply N.leb_le in H1, H2. lia.
Qed.
Ltac inv_opt H :=
  repeat match type of H with
         | context [match ?x with _ => _ end] => destruct x eqn:?; try discriminate
         end; inversion H; subst; clear H.
Lemma pvu_kind l k r : prefix_verbatim_unc l = Some (k, r) -> exists a b, k = VerbatimUNC a b.
Proof. unfold prefix_verbatim_unc. intros H. inv_opt H. eauto. Qed.
Lemma pvd_kind l k r : prefix_verbatim_disk l = Some (k, r) -> exists d, k = VerbatimDisk d /\ 65 <= d <= 90.
Proof.
  unfold prefix_verbatim_disk. intros H. inv_opt H. eexists. split; [reflexivity|].
  match goal with E : p_disk _ = Some _ |- _ => rewrite <- disk_at_eq in E; apply (disk_at_upper _ _ _ E) end.
Qed.
Lemma pv_kind l k r : prefix_verbatim l = Some (k, r) -> exists a, k = Verbatim a.
Proof. unfold prefix_verbatim. intros H. inv_opt H; eauto. Qed.
Lemma pdn_kind l k r : prefix_device_ns l = Some (k, r) -> exists a, k = DeviceNS a.
Proof. unfold prefix_device_ns. intros H. inv_opt H. eauto. Qed.
Lemma pu_kind l k r : prefix_unc l = Some (k, r) -> exists a b, k = UNC a b.
Proof. unfold prefix_unc. intros H. inv_opt H. eauto. Qed.
Lemma pd_kind l k r : prefix_disk l = Some (k, r) -> exists d, k = Disk d /\ 65 <= d <= 90.
Proof.
  unfold prefix_disk. intros H. inv_opt H. eexists. split; [reflexivity|].
  match goal with E : p_disk _ = Some _ |- _ => rewrite <- disk_at_eq in E; apply (disk_at_upper _ _ _ E) end.
Qed.
(* a disk or verbatim-disk prefix carries an upper-case ASCII letter *)
Theorem drive_letter_upper l k r : wprefix_grammar l = Some (k, r) ->
  match k with Disk d | VerbatimDisk d => 65 <= d <= 90 | _ => True end.
Proof.
  rewrite prefix_grammar. unfold prefix, prefix_alternatives. cbn [map]. rewrite !first_some_cons. cbn [first_some fold_right].
  destruct (prefix_verbatim_unc l) as [[k1 r1]|] eqn:E1.
  { intros H; inversion H; subst. destruct (pvu_kind _ _ _ E1) as (a & b & ->). exact I. }
  destruct (prefix_verbatim_disk l) as [[k2 r2]|] eqn:E2.
  { intros H; inversion H; subst. destruct (pvd_kind _ _ _ E2) as (d & -> & Hd). exact Hd. }
  destruct (prefix_verbatim l) as [[k3 r3]|] eqn:E3.
  { intros H; inversion H; subst. destruct (pv_kind _ _ _ E3) as (a & ->). exact I. }
  destruct (prefix_device_ns l) as [[k4 r4]|] eqn:E4.
  { intros H; inversion H; subst. destruct (pdn_kind _ _ _ E4) as (a & ->). exact I. }
  destruct (prefix_unc l) as [[k5 r5]|] eqn:E5.
  { intros H; inversion H; subst. destruct (pu_kind _ _ _ E5) as (a & b & ->). exact I. }
  destruct (prefix_disk l) as [[k6 r6]|] eqn:E6; [|discriminate].
  intros H; inversion H; subst. destruct (pd_kind _ _ _ E6) as (d & -> & Hd). exact Hd.
Qed.

(* repeated and trailing separators never produce components: no component is an empty name *)
Lemma seg_comp_nonempty norm first g n : In (Normal n) (seg_comp norm first g) -> n <> [].
Proof.
  unfold seg_comp. destruct g as [|x t]; [intros []|].
  destruct (is_dotdot (x :: t)); [intros [H|[]]; discriminate|].
  destruct (is_dot (x :: t)); [destruct (first || negb norm); [intros [H|[]]; discriminate | intros []]|].
  intros [H|[]]. inversion H; subst. discriminate.
Qed.
Theorem spec_comps_no_empty_name is_sep norm (Hd : is_sep 46 = false) l n :
  In (Normal n) (spec_comps is_sep norm l) -> n <> [].
Proof.
  rewrite (spec_comps_cspec is_sep norm Hd). cbn [cspec]. intros H. apply in_app_or in H as [H|H].
  - unfold lead_extra in H. destruct (root_ok is_sep l); [destruct H as [H|[]]; discriminate|].
    destruct (norm && cur_ok is_sep l); [destruct H as [H|[]]; discriminate | destruct H].
  - unfold body in H. apply in_flat_map in H as (g & _ & Hg). apply (seg_comp_nonempty norm false g n Hg).
Qed.
Theorem wspec_no_empty_name l n : In (WC (Normal n)) (wspec l) -> n <> [].
Proof.
  unfold wspec. destruct (wprefix_grammar l) as [[k rest]|]; intros H.
  - destruct H as [H|H]; [discriminate|]. apply in_map_iff in H as (c & Hc & Hin). inversion Hc; subst.
    apply (spec_comps_no_empty_name (s_wsep (s_norm l)) (s_norm l) (wsep_dot _) rest n Hin).
  - apply in_map_iff in H as (c & Hc & Hin). inversion Hc; subst.
    apply (spec_comps_no_empty_name (s_wsep (s_norm l)) (s_norm l) (wsep_dot _) l n Hin).
Qed.
