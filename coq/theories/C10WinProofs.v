(* C10 (Windows, prefix-free paths): starts_with / ends_with / strip_prefix against the component lists.
   Without a prefix a Windows component is determined by its bytes, so the abstract iter_after theorem applies. *)
From Coq Require Import List NArith Bool Lia Arith.
Import ListNotations.
From TP Require Import Core CoreProofs CoreSched Path Unix Win Spec Ops UnixProofs WinProofs C02Proofs C10Proofs GenJoin WinSimple C16Proofs.
Open Scope N_scope.

Definition wgood (c : wcomp) : Prop :=
  match c with
  | WPrefix _ _ => False
  | WC (Normal n) => n <> [92] /\ n <> [46] /\ n <> [46; 46]
  | _ => True
  end.
Lemma wgood_bytes x y : wgood x -> wgood y -> (beq_list (wc_bytes x) (wc_bytes y) = true <-> x = y).
Proof.
  intros Gx Gy. rewrite beq_list_true_iff.
  destruct x as [rx kx|[| | |n]], y as [ry ky|[| | |m]]; cbn [wc_bytes wgood] in *; try contradiction; split; intros H;
    try reflexivity; try discriminate;
    try (exfalso; destruct Gy as (G1 & G2 & G3); congruence);
    try (exfalso; destruct Gx as (G1 & G2 & G3); congruence).
  - f_equal. f_equal. exact H.
  - injection H as H. exact H.
Qed.
Lemma gn_wgood n : gn wany n -> wgood (WC (Normal n)).
Proof.
  intros (Hn & Hne & Hd & Hdd). cbn. repeat split; intros E; subst; try discriminate.
Qed.
Lemma wcomps_wgood l : Forall wgood (map WC (WCOMPS l)).
Proof.
  destruct (wcomps_shape l) as (h & t & E & Hh & _ & Hg). rewrite E, map_app. apply Forall_app. split.
  - destruct Hh as [-> | [-> | ->]]; repeat constructor.
  - clear E. induction Hg as [|c t Hc _ IH]; [constructor|]. cbn [map]. constructor; [|exact IH].
    destruct c; cbn; try exact I. apply (gn_wgood n Hc).
Qed.

Definition WInv (s : wstate) : Prop := winv s /\ Forall wgood (wcs s).
Lemma W_Hf s : WInv s -> match w_nextf s with Some (c, s') => wcs s = c :: wcs s' /\ WInv s' | None => wcs s = [] end.
Proof.
  intros (HI & HG). pose proof (w_nextf_spec s HI) as F. destruct (w_nextf s) as [[c s']|]; [|exact F].
  destruct F as (E & HI'). split; [exact E|]. split; [exact HI'|]. rewrite E in HG. inversion HG; assumption.
Qed.
Lemma W_Hb s : WInv s -> match w_nextb s with Some (c, s') => wcs s = wcs s' ++ [c] /\ WInv s' | None => wcs s = [] end.
Proof.
  intros (HI & HG). pose proof (w_nextb_spec s HI) as B. destruct (w_nextb s) as [[c s']|]; [|exact B].
  destruct B as (E & HI'). split; [exact E|]. split; [exact HI'|]. rewrite E in HG. apply Forall_app in HG as [HG _]. exact HG.
Qed.
Lemma wcs_init l : wcs (w_init l) = wspec l.
Proof. rewrite <- w_components_spec. apply w_components_wspec. Qed.
Lemma WInv_init l : noprefix l = true -> WInv (w_init l).
Proof. intros H. split; [apply winv_init|]. rewrite wcs_init, (wspec_plain l H). apply wcomps_wgood. Qed.
Lemma wspec_len l : (length (wspec l) <= length l)%nat.
Proof. rewrite <- wcs_init. apply (wcs_length (w_init l) (winv_init l)). Qed.

Theorem w_starts_with_plain p q : noprefix p = true -> noprefix q = true ->
  (w_starts_with p q = true <-> exists t, wspec p = wspec q ++ t).
Proof.
  intros Hp Hq. unfold w_starts_with, starts_with, ia_fuel.
  pose proof (iter_after_front wstate wcomp wcs WInv w_nextf wc_bytes wgood W_Hf (fun s H => proj2 H) wgood_bytes
                (S (S (length q))) (w_init p) (w_init q) (WInv_init p Hp) (WInv_init q Hq)) as H.
  rewrite !wcs_init in H. pose proof (wspec_len q).
  destruct (iter_after wstate wcomp wc_bytes w_nextf (S (S (length q))) (w_init p) (w_init q)) as [s|].
  - destruct H as (_ & E); [lia|]. split; [intros _; eexists; exact E | reflexivity].
  - split; [discriminate|]. intros X. exfalso. apply H; [lia | exact X].
Qed.
Theorem w_ends_with_plain p q : noprefix p = true -> noprefix q = true ->
  (w_ends_with p q = true <-> exists t, wspec p = t ++ wspec q).
Proof.
  intros Hp Hq. unfold w_ends_with, ends_with, ia_fuel.
  pose proof (iter_after_back wstate wcomp wcs WInv w_nextb wc_bytes wgood W_Hb (fun s H => proj2 H) wgood_bytes
                (S (S (length q))) (w_init p) (w_init q) (WInv_init p Hp) (WInv_init q Hq)) as H.
  rewrite !wcs_init in H. pose proof (wspec_len q).
  destruct (iter_after wstate wcomp wc_bytes w_nextb (S (S (length q))) (w_init p) (w_init q)) as [s|].
  - destruct H as (_ & E); [lia|]. split; [intros _; eexists; exact E | reflexivity].
  - split; [discriminate|]. intros X. exfalso. apply H; [lia | exact X].
Qed.
(* strip_prefix succeeds exactly when starts_with holds *)
Theorem w_strip_iff_starts p q : noprefix p = true -> noprefix q = true ->
  ((exists r, w_strip_prefix p q = Some r) <-> w_starts_with p q = true).
Proof.
  intros Hp Hq. unfold w_strip_prefix, strip_prefix, w_starts_with, starts_with.
  destruct (iter_after wstate wcomp wc_bytes w_nextf (ia_fuel p q) (w_init p) (w_init q)); split; intros H; try reflexivity; try discriminate.
  - eexists; reflexivity.
  - destruct H as (r & X). discriminate.
Qed.
(* a joined with a relative, prefix-free b starts with a *)
Theorem w_join_starts_with_plain a b : noprefix a = true -> noprefix b = true -> g_rooted wany b = false ->
  w_starts_with (w_push a b) a = true.
Proof.
  intros Ha Hb Hr. destruct b as [|b0 bt] eqn:Eb.
  - cbn [w_push]. apply (w_starts_with_plain a a Ha Ha). exists []. rewrite app_nil_r. reflexivity.
  - rewrite <- Eb in *.
    assert (Hj : noprefix (w_push a b) = true).
    { rewrite (w_push_plain a b Ha Hb). apply noprefix_join; assumption. }
    apply (w_starts_with_plain _ a Hj Ha).
    rewrite (wspec_join_plain a b Ha Hb Hr ltac:(rewrite Eb; discriminate)).
    destruct a as [|a0 at_]; [exists (wspec b); reflexivity | eexists; reflexivity].
Qed.
