(* Predicates over the tables that tools/translate.py regenerates from /repo on every run (tie B).
   Committed here so that their meaning is stated once and proved; Generated.v only supplies the data. *)
From Coq Require Import List NArith Bool String.
Import ListNotations.
Open Scope string_scope.

Inductive pol := PNone | PPos | PNeg | PUnknown.
Definition gate := (string * N * string * string * pol)%type.
Definition is_no_std_attr (g : gate) : bool :=
  match g with (file, _, kind, expr, _) =>
    String.eqb file "src/lib.rs" && String.eqb kind "cfg_attr" && String.eqb expr "not(feature = ""std""), no_std" end.
Definition gate_ok (g : gate) : bool :=
  match g with (_, _, _, _, p) =>
    match p with PNone | PPos => true | PNeg => is_no_std_attr g | PUnknown => false end end.
(* what the boolean means: no gate the extractor could not classify, and the only gate that mentions the
   std feature negatively is the crate-level no_std attribute -- so no item has a body selected by the ABSENCE of std.
   This is a statement about the extracted table, not about the behaviour of the two builds. *)
Lemma gates_ok_meaning (gs : list gate) : forallb gate_ok gs = true ->
  forall g, In g gs -> snd g <> PUnknown /\ (snd g = PNeg -> is_no_std_attr g = true).
Proof.
  intros H g Hin. rewrite forallb_forall in H. specialize (H g Hin).
  destruct g as [[[[f l] k] e] p]. cbn [snd]. destruct p; cbn in H; split; try discriminate; try (intros X; discriminate X); intros _; exact H.
Qed.
