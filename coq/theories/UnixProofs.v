(* Unix instance lemmas: the model's component iterator against the spec ucomps. *)
From Coq Require Import List NArith Bool Lia.
Import ListNotations.
From TP Require Import Core CoreProofs CoreSched Path Unix Spec Ops.
Open Scope N_scope.

Lemma usep_dot : usep 46 = false. Proof. reflexivity. Qed.

Lemma beq_list_refl l : beq_list l l = true.
Proof. induction l as [|x l IH]; cbn; [reflexivity|]. rewrite N.eqb_refl, IH. reflexivity. Qed.
Lemma comp_eqb_refl c : comp_eqb c c = true.
Proof. destruct c; cbn; try reflexivity. apply beq_list_refl. Qed.
Lemma list_eqb_refl l : list_eqb l l = true.
Proof. induction l as [|x l IH]; cbn; [reflexivity|]. rewrite comp_eqb_refl, IH. reflexivity. Qed.
Lemma ocomp_eqb_refl c : ocomp_eqb c c = true.
Proof. destruct c; cbn; [apply comp_eqb_refl | reflexivity]. Qed.

Lemma beq_list_eq a : forall b, beq_list a b = true -> a = b.
Proof.
  induction a as [|x a IH]; intros [|y b] H; cbn in H; try discriminate; [reflexivity|].
  apply andb_true_iff in H as [H1 H2]. apply N.eqb_eq in H1. subst. f_equal. apply IH; assumption.
Qed.
Lemma comp_eqb_eq a b : comp_eqb a b = true -> a = b.
Proof. destruct a, b; cbn; intros H; try discriminate; try reflexivity. f_equal. apply beq_list_eq; assumption. Qed.
Lemma list_eqb_eq a : forall b, list_eqb a b = true -> a = b.
Proof.
  induction a as [|x a IH]; intros [|y b] H; cbn in H; try discriminate; [reflexivity|].
  apply andb_true_iff in H as [H1 H2]. apply comp_eqb_eq in H1. subst. f_equal. apply IH; assumption.
Qed.

Lemma all2_map_r {A B} (f : A -> B -> bool) (k : A -> B) l :
  (forall x, f x (k x) = true) -> all2 f l (map k l) = true.
Proof. intros H. induction l as [|x l IH]; cbn; [reflexivity|]. rewrite H, IH. reflexivity. Qed.
Lemma all2_refl {A} (f : A -> A -> bool) l : (forall x, f x x = true) -> all2 f l l = true.
Proof. intros H. induction l as [|x l IH]; cbn; [reflexivity|]. rewrite H, IH. reflexivity. Qed.

(* the spec, as the core's declarative component list *)
Lemma ucomps_cs p : ucomps p = cs usep true (AtBeg, p).
Proof. unfold ucomps, cs. cbn [fst snd]. apply (spec_comps_cspec usep true usep_dot). Qed.

Lemma ucomps_state s : inv usep true s = true -> ucomps (snd s) = cs usep true s.
Proof.
  intros H. rewrite ucomps_cs. unfold cs. cbn [fst snd]. destruct s as [st l]. cbn [fst snd].
  apply cspec_inv. exact H.
Qed.

(* components by the model's front iteration are the spec *)
Lemma u_components_spec p : u_components p = ucomps p.
Proof.
  unfold u_components, components, u_init, u_nextf.
  rewrite ucomps_cs. unfold cs. cbn [fst snd].
  change (front_all ustate comp (next_front usep true) (S (length p)) (AtBeg, p)) with (comps usep true (AtBeg, p)).
  apply (comps_spec usep true usep_dot).
Qed.

(* C01, interleaving part: components and re-parsed remainders under any schedule *)
Lemma u_sched_spec p sched :
  map (fun x => (fst x, ucomps (u_remaining (snd x)))) (sched_run u_nextf u_nextb (u_init p) sched)
  = deq_run (ucomps p) sched.
Proof.
  rewrite (ucomps_cs p). rewrite <- (sched_spec usep true usep_dot sched (AtBeg, p) eq_refl).
  pose proof (sched_inv usep true usep_dot sched (AtBeg, p) eq_refl) as HI.
  unfold u_nextf, u_nextb, u_init, ustate in *.
  remember (sched_run (next_front usep true) (next_back usep true) (AtBeg, p) sched) as L eqn:EL. clear EL.
  induction L as [|x l IH]; [reflexivity|].
  inversion HI as [|? ? Hx Hl]; subst. cbn [map]. rewrite (IH Hl). f_equal. f_equal.
  apply ucomps_state. exact Hx.
Qed.

Lemma u_has_root_spec p : u_has_root p = match ucomps p with Root :: _ => true | _ => false end.
Proof.
  unfold u_has_root, u_nextf, u_init. rewrite ucomps_cs.
  pose proof (next_front_spec usep true usep_dot (AtBeg, p) eq_refl) as F.
  destruct (next_front usep true (AtBeg, p)) as [[c s']|].
  - destruct F as (E & _). rewrite E. destruct c; reflexivity.
  - rewrite F. reflexivity.
Qed.

Lemma u_try_from_spec p : u_try_from p = match ucomps p with [c] => Some c | _ => None end.
Proof.
  unfold u_try_from, u_nextf, u_init. rewrite ucomps_cs.
  pose proof (next_front_spec usep true usep_dot (AtBeg, p) eq_refl) as F.
  destruct (next_front usep true (AtBeg, p)) as [[c s']|].
  - destruct F as (E & HI & _). rewrite E.
    pose proof (next_front_spec usep true usep_dot s' HI) as F2.
    destruct (next_front usep true s') as [[c2 s2]|].
    + destruct F2 as (E2 & _). rewrite E2. reflexivity.
    + rewrite F2. reflexivity.
  - rewrite F. reflexivity.
Qed.

Theorem c01_holds p sched : check_c01 p sched (model_c01 p sched) = true.
Proof.
  unfold check_c01, model_c01. cbn [c01_impl c01_std c01_has_root c01_is_abs c01_std_has_root c01_std_is_abs c01_try_from].
  unfold u_is_absolute. rewrite u_has_root_spec, u_try_from_spec.
  rewrite !Bool.eqb_reflx, ocomp_eqb_refl, !andb_true_r.
  apply andb_true_iff. split.
  - rewrite <- u_sched_spec.
    set (steps := sched_run u_nextf u_nextb (u_init p) sched).
    assert (E : map (fun x => (fst x, ucomps (u_remaining (snd x)))) steps
                = map (fun i : option comp * list byte => (fst i, ucomps (snd i)))
                      (map (fun x => (fst x, u_remaining (snd x))) steps)) by (rewrite map_map; reflexivity).
    rewrite E. apply all2_map_r. intros x. cbn [fst snd]. rewrite ocomp_eqb_refl, list_eqb_refl. reflexivity.
  - apply all2_refl. intros x. rewrite ocomp_eqb_refl, list_eqb_refl. reflexivity.
Qed.
