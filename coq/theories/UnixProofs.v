(* Unix instance lemmas: the model's component iterator against the spec ucomps. *)
From Coq Require Import List NArith Bool Lia Arith PeanoNat.
Import ListNotations.
From TP Require Import Core CoreProofs CoreSched Path Unix Spec Ops.
Open Scope N_scope.

Lemma usep_dot : usep 46 = false. Proof. reflexivity. Qed.

Lemma beq_list_refl l : beq_list l l = true.
Proof. induction l as [|x l IH]; cbn; [reflexivity|]. rewrite N.eqb_refl, IH. reflexivity. Qed.
Lemma comp_eqb_refl c : comp_eqb c c = true.
Proof. destruct c; cbn; try reflexivity. apply beq_list_refl. Qed.
Lemma list_eqb_refl l : list_eqb l l = true.
Proof. induction l as [|x l IH]; cbn; [reflexivity|]. rewrite comp_eqb_refl, IH. reflexivity. Qed.
Lemma ocomp_eqb_refl c : ocomp_eqb c c = true.
Proof. destruct c; cbn; [apply comp_eqb_refl | reflexivity]. Qed.

Lemma beq_list_eq a : forall b, beq_list a b = true -> a = b.
Proof.
  induction a as [|x a IH]; intros [|y b] H; cbn in H; try discriminate; [reflexivity|].
  apply andb_true_iff in H as [H1 H2]. apply N.eqb_eq in H1. subst. f_equal. apply IH; assumption.
Qed.
Lemma comp_eqb_eq a b : comp_eqb a b = true -> a = b.
Proof. destruct a, b; cbn; intros H; try discriminate; try reflexivity. f_equal. apply beq_list_eq; assumption. Qed.
Lemma list_eqb_eq a : forall b, list_eqb a b = true -> a = b.
Proof.
  induction a as [|x a IH]; intros [|y b] H; cbn in H; try discriminate; [reflexivity|].
  apply andb_true_iff in H as [H1 H2]. apply comp_eqb_eq in H1. subst. f_equal. apply IH; assumption.
Qed.

Lemma all2_map_r {A B} (f : A -> B -> bool) (k : A -> B) l :
  (forall x, f x (k x) = true) -> all2 f l (map k l) = true.
Proof. intros H. induction l as [|x l IH]; cbn; [reflexivity|]. rewrite H, IH. reflexivity. Qed.
Lemma all2_refl {A} (f : A -> A -> bool) l : (forall x, f x x = true) -> all2 f l l = true.
Proof. intros H. induction l as [|x l IH]; cbn; [reflexivity|]. rewrite H, IH. reflexivity. Qed.

(* the spec, as the core's declarative component list *)
Lemma ucomps_cs p : ucomps p = cs usep true (AtBeg, p).
Proof. unfold ucomps, cs. cbn [fst snd]. apply (spec_comps_cspec usep true usep_dot). Qed.

Lemma ucomps_state s : inv usep true s = true -> ucomps (snd s) = cs usep true s.
Proof.
  intros H. rewrite ucomps_cs. unfold cs. cbn [fst snd]. destruct s as [st l]. cbn [fst snd].
  apply cspec_inv. exact H.
Qed.

(* components by the model's front iteration are the spec *)
Lemma u_components_spec p : u_components p = ucomps p.
Proof.
  unfold u_components, components, u_init, u_nextf.
  rewrite ucomps_cs. unfold cs. cbn [fst snd].
  change (front_all ustate comp (next_front usep true) (S (length p)) (AtBeg, p)) with (comps usep true (AtBeg, p)).
  apply (comps_spec usep true usep_dot).
Qed.

(* C01, interleaving part: components and re-parsed remainders under any schedule *)
Lemma u_sched_spec p sched :
  map (fun x => (fst x, ucomps (u_remaining (snd x)))) (sched_run u_nextf u_nextb (u_init p) sched)
  = deq_run (ucomps p) sched.
Proof.
  rewrite (ucomps_cs p). rewrite <- (sched_spec usep true usep_dot sched (AtBeg, p) eq_refl).
  pose proof (sched_inv usep true usep_dot sched (AtBeg, p) eq_refl) as HI.
  unfold u_nextf, u_nextb, u_init, ustate in *.
  remember (sched_run (next_front usep true) (next_back usep true) (AtBeg, p) sched) as L eqn:EL. clear EL.
  induction L as [|x l IH]; [reflexivity|].
  inversion HI as [|? ? Hx Hl]; subst. cbn [map]. rewrite (IH Hl). f_equal. f_equal.
  apply ucomps_state. exact Hx.
Qed.

Lemma u_has_root_spec p : u_has_root p = match ucomps p with Root :: _ => true | _ => false end.
Proof.
  unfold u_has_root, u_nextf, u_init. rewrite ucomps_cs.
  pose proof (next_front_spec usep true usep_dot (AtBeg, p) eq_refl) as F.
  destruct (next_front usep true (AtBeg, p)) as [[c s']|].
  - destruct F as (E & _). rewrite E. destruct c; reflexivity.
  - rewrite F. reflexivity.
Qed.

Lemma u_try_from_spec p : u_try_from p = match ucomps p with [c] => Some c | _ => None end.
Proof.
  unfold u_try_from, u_nextf, u_init. rewrite ucomps_cs.
  pose proof (next_front_spec usep true usep_dot (AtBeg, p) eq_refl) as F.
  destruct (next_front usep true (AtBeg, p)) as [[c s']|].
  - destruct F as (E & HI & _). rewrite E.
    pose proof (next_front_spec usep true usep_dot s' HI) as F2.
    destruct (next_front usep true s') as [[c2 s2]|].
    + destruct F2 as (E2 & _). rewrite E2. reflexivity.
    + rewrite F2. reflexivity.
  - rewrite F. reflexivity.
Qed.

(* has_root / is_absolute asked of an iterator in any reachable state = the remainder is rooted *)
Lemma us_has_root_spec s : inv usep true s = true -> us_has_root s = root_first (ucomps (u_remaining s)).
Proof.
  intros H. unfold us_has_root, u_nextf, u_remaining. rewrite (ucomps_state s H).
  pose proof (next_front_spec usep true usep_dot s H) as F.
  destruct (next_front usep true s) as [[c s']|].
  - destruct F as (E & _). rewrite E. destruct c; reflexivity.
  - rewrite F. reflexivity.
Qed.
Lemma all2_map_map {A B C} (f : B -> C -> bool) (g : A -> B) (h : A -> C) l :
  Forall (fun x => f (g x) (h x) = true) l -> all2 f (map g l) (map h l) = true.
Proof. intros H. induction H as [|x l Hx _ IH]; cbn; [reflexivity|]. rewrite Hx, IH. reflexivity. Qed.

Theorem c01_holds p sched : check_c01 p sched (model_c01 p sched) = true.
Proof.
  unfold check_c01, model_c01. cbn [c01_impl c01_std c01_has_root c01_is_abs c01_std_has_root c01_std_is_abs c01_try_from c01_flags c01_std_flags].
  unfold u_is_absolute. rewrite u_has_root_spec, u_try_from_spec.
  rewrite !Bool.eqb_reflx, ocomp_eqb_refl, !andb_true_r.
  set (steps := sched_run u_nextf u_nextb (u_init p) sched).
  assert (E : deq_run (ucomps p) sched = map (fun x => (fst x, ucomps (u_remaining (snd x)))) steps)
    by (symmetry; apply u_sched_spec).
  assert (HI : Forall (fun x => inv usep true (snd x) = true) steps)
    by (apply (sched_inv usep true usep_dot sched (AtBeg, p) eq_refl)).
  rewrite E.
  repeat (apply andb_true_iff; split).
  - apply all2_map_map. apply Forall_forall. intros x _. cbn [fst snd]. rewrite ocomp_eqb_refl, list_eqb_refl. reflexivity.
  - apply all2_map_map. apply Forall_forall. intros x _. cbn [fst snd]. rewrite ocomp_eqb_refl, list_eqb_refl. reflexivity.
  - apply all2_map_map. eapply Forall_impl; [|exact HI]. intros x Hx. cbn [fst snd].
    rewrite (us_has_root_spec (snd x) Hx). rewrite !Bool.eqb_reflx. reflexivity.
  - rewrite map_map. apply all2_map_map. apply Forall_forall. intros x _. cbn [fst snd]. rewrite !Bool.eqb_reflx. reflexivity.
Qed.

(* ------------------------------------------------------------------ C03 (Unix) *)
Lemma u_front_all_collect fuel s : front_all ustate comp u_nextf fuel s = front_collect usep true fuel s.
Proof. revert s. induction fuel as [|f IH]; intros s; [reflexivity|]. cbn [front_all front_collect]. unfold u_nextf. destruct (next_front usep true s) as [[c s']|]; [rewrite IH|]; reflexivity. Qed.
Lemma u_back_all_collect fuel s : back_all ustate comp u_nextb fuel s = back_collect usep true fuel s.
Proof. revert s. induction fuel as [|f IH]; intros s; [reflexivity|]. cbn [back_all back_collect]. unfold u_nextb. destruct (next_back usep true s) as [[c s']|]; [rewrite IH|]; reflexivity. Qed.

Theorem u_back_is_rev_front p : u_components_rev p = rev (u_components p).
Proof.
  unfold u_components_rev, components_rev, u_components, components, u_init.
  rewrite u_front_all_collect, u_back_all_collect.
  apply (back_is_rev_front usep true usep_dot (AtBeg, p) eq_refl).
Qed.
Theorem u_components_fuel_stable p k :
  front_all ustate comp u_nextf (S (length p) + k) (u_init p) = u_components p.
Proof.
  unfold u_components, components, u_init. rewrite !u_front_all_collect.
  apply (front_collect_stable usep true usep_dot (AtBeg, p) k eq_refl).
Qed.
(* every state a schedule reaches: once no component is left, every further step from
   either end answers None and leaves the iterator where it is *)
Theorem u_exhausted_stays p sched :
  Forall (fun x => ucomps (u_remaining (snd x)) = [] ->
                   forall sched2, sched_run u_nextf u_nextb (snd x) sched2 = map (fun _ => (None, snd x)) sched2)
         (sched_run u_nextf u_nextb (u_init p) sched).
Proof.
  pose proof (sched_inv usep true usep_dot sched (AtBeg, p) eq_refl) as F.
  unfold u_nextf, u_nextb, u_init, ustate in *.
  eapply Forall_impl; [|exact F]. intros x HI E sched2.
  apply (exhausted_stays usep true usep_dot (snd x) HI).
  rewrite <- (ucomps_state (snd x) HI). exact E.
Qed.

(* ------------------------------------------------------------------ C09 (Unix) *)
Definition removable_c (c : comp) : bool := c_is_normal c || c_is_current c || c_is_parent c.
Lemma removable_not_root c : removable_c c = negb (c_is_root c).
Proof. destruct c; reflexivity. Qed.

Lemma u_nextb_init_spec p :
  match u_nextb (u_init p) with
  | Some (c, s') => ucomps p = ucomps (u_remaining s') ++ [c] /\ (exists j, p = u_remaining s' ++ j)
  | None => ucomps p = []
  end.
Proof.
  unfold u_nextb, u_init. rewrite ucomps_cs.
  pose proof (next_back_spec usep true usep_dot (AtBeg, p) eq_refl) as B.
  destruct (next_back usep true (AtBeg, p)) as [[c s']|]; [|exact B].
  destruct B as (E & HI & J). split; [|exact J]. rewrite E. f_equal. symmetry. apply ucomps_state. exact HI.
Qed.

Theorem u_parent_some p r : u_parent p = Some r ->
  (exists j, p = r ++ j) /\ ucomps r = removelast (ucomps p) /\
  (exists c, ucomps p = ucomps r ++ [c] /\ removable_c c = true).
Proof.
  unfold u_parent, parent. pose proof (u_nextb_init_spec p) as B.
  destruct (u_nextb (u_init p)) as [[c s']|]; [|discriminate].
  destruct B as (E & J). destruct (c_is_normal c || c_is_current c || c_is_parent c) eqn:Hc; [|discriminate].
  intros X. inversion X; subst r. split; [exact J|]. split.
  - rewrite E. rewrite removelast_last. reflexivity.
  - exists c. split; [exact E | exact Hc].
Qed.
Theorem u_parent_none p : u_parent p = None <-> (ucomps p = [] \/ exists cs, ucomps p = cs ++ [Root]).
Proof.
  unfold u_parent, parent. pose proof (u_nextb_init_spec p) as B.
  destruct (u_nextb (u_init p)) as [[c s']|].
  - destruct B as (E & J). destruct (c_is_normal c || c_is_current c || c_is_parent c) eqn:Hc.
    + split; [discriminate|]. intros [X | [cs X]].
      * rewrite X in E. destruct (ucomps (u_remaining s')); discriminate.
      * rewrite X in E. apply app_inj_tail in E as [_ <-]. discriminate.
    + split; [|reflexivity]. intros _. right. exists (ucomps (u_remaining s')). rewrite E. destruct c; try discriminate. reflexivity.
  - split; [intros _; left; exact B | reflexivity].
Qed.
Theorem u_pop_spec p :
  u_pop p = match u_parent p with Some r => (r, true) | None => (p, false) end.
Proof.
  unfold u_pop, pop. fold u_parent. destruct (u_parent p) as [r|] eqn:E; [|reflexivity].
  destruct (u_parent_some p r E) as ((j & ->) & _). rewrite firstn_app, firstn_all, PeanoNat.Nat.sub_diag. cbn. rewrite app_nil_r. reflexivity.
Qed.
Lemma u_parent_shorter p r : u_parent p = Some r -> (length r < length p)%nat.
Proof.
  intros E. destruct (u_parent_some p r E) as ((j & ->) & _ & (c & Hc & _)).
  rewrite app_length. destruct j as [|x j]; [|cbn; lia].
  exfalso. rewrite app_nil_r in Hc. apply (f_equal (@length comp)) in Hc. rewrite app_length in Hc. cbn in Hc. lia.
Qed.
Lemma u_ancestors_fuel_stable : forall n p a b, (length p <= n)%nat -> (length p < a)%nat -> (length p < b)%nat ->
  ancestors_fuel ustate comp u_init u_nextb u_remaining c_is_normal c_is_parent c_is_current a (Some p)
  = ancestors_fuel ustate comp u_init u_nextb u_remaining c_is_normal c_is_parent c_is_current b (Some p).
Proof.
  induction n as [|n IH]; intros p a b Hn Ha Hb.
  - destruct a; [lia|]. destruct b; [lia|]. cbn [ancestors_fuel]. f_equal. fold u_parent.
    destruct (u_parent p) as [r|] eqn:E; [|destruct a, b; reflexivity].
    pose proof (u_parent_shorter p r E). lia.
  - destruct a; [lia|]. destruct b; [lia|]. cbn [ancestors_fuel]. f_equal. fold u_parent.
    destruct (u_parent p) as [r|] eqn:E; [|destruct a, b; reflexivity].
    pose proof (u_parent_shorter p r E). apply IH; lia.
Qed.
Notation ANC := (ancestors_fuel ustate comp u_init u_nextb u_remaining c_is_normal c_is_parent c_is_current).
Lemma anc_step n p : ANC (S n) (Some p) = p :: ANC n (u_parent p).
Proof. reflexivity. Qed.
(* ancestors is the chain of repeated parents beginning with the path itself *)
Theorem u_ancestors_unfold p :
  u_ancestors p = p :: match u_parent p with Some r => u_ancestors r | None => [] end.
Proof.
  unfold u_ancestors, ancestors. rewrite anc_step. f_equal.
  destruct (u_parent p) as [r|] eqn:E; [|reflexivity].
  pose proof (u_parent_shorter p r E).
  apply (u_ancestors_fuel_stable (length r)); lia.
Qed.
Lemma anc_length n : forall o, (length (ANC n o) <= n)%nat.
Proof.
  induction n as [|n IH]; intros o; [cbn; lia|].
  destruct o as [q|]; [|cbn; lia]. rewrite anc_step. cbn [length]. specialize (IH (u_parent q)). lia.
Qed.
Theorem u_ancestors_finite p : (length (u_ancestors p) <= S (S (length p)))%nat.
Proof. unfold u_ancestors, ancestors. apply anc_length. Qed.

(* ------------------------------------------------------------------ C12 *)
Lemma span_ndot_spec l : forall a r, span_ndot l = (a, r) ->
  l = a ++ r /\ forallb (fun b => negb (b =? 46)) a = true /\ (r = [] \/ exists r', r = 46 :: r').
Proof.
  induction l as [|b l IH]; cbn; intros a r H.
  - inversion H; subst. auto.
  - destruct (b =? 46) eqn:Hb.
    + inversion H; subst. apply N.eqb_eq in Hb. subst. split; [reflexivity|]. split; [reflexivity|]. right. eauto.
    + destruct (span_ndot l) as [a' r'] eqn:Hs. inversion H; subst.
      destruct (IH a' r eq_refl) as (-> & Ha & Hr). split; [reflexivity|]. split; [|assumption]. cbn. rewrite Hb. assumption.
Qed.
(* stem, a dot and the extension reproduce the name when an extension exists; the stem is the whole name otherwise *)
Theorem rsplit_reproduces n :
  let (before, after) := rsplit_file_at_dot n in
  match opt_and before after with
  | Some e => exists st, opt_or before after = Some st /\ n = st ++ 46 :: e /\ st <> []
                         /\ forallb (fun b => negb (b =? 46)) e = true
  | None => opt_or before after = Some n
  end.
Proof.
  unfold rsplit_file_at_dot. destruct (beq_list n [46; 46]); [reflexivity|].
  destruct (span_ndot (rev n)) as [a r] eqn:Hs.
  destruct (span_ndot_spec _ _ _ Hs) as (Hn & Ha & Hr).
  destruct r as [|d before_r]; [reflexivity|].
  destruct Hr as [X | [r' X]]; [discriminate|]. inversion X; subst d r'.
  destruct before_r as [|x t]; [reflexivity|].
  cbn [opt_and opt_or]. exists (rev (x :: t)). split; [reflexivity|].
  apply (f_equal (@rev byte)) in Hn. rewrite rev_involutive in Hn. rewrite Hn.
  rewrite rev_app_distr. cbn [rev]. rewrite <- !app_assoc. cbn [app].
  split; [reflexivity|]. split.
  - intros E. apply (f_equal (@length byte)) in E. rewrite app_length in E. cbn in E. lia.
  - rewrite forallb_forall in *. intros y Hy. apply Ha. apply (proj2 (in_rev a y)). exact Hy.
Qed.
Theorem u_file_name_spec p :
  u_file_name p = match rev (ucomps p) with Normal n :: _ => Some n | _ => None end.
Proof.
  unfold u_file_name, file_name. pose proof (u_nextb_init_spec p) as B.
  destruct (u_nextb (u_init p)) as [[c s']|].
  - destruct B as (E & _). rewrite E. rewrite rev_app_distr. cbn. destruct c; reflexivity.
  - rewrite B. reflexivity.
Qed.
