(* C05 (Windows): the hasher feed of WindowsEncoding::hash, read off the specification
   components, and "equal paths feed identical data".  The separator scan is proved once for any
   separator test and normalisation flag (the Unix proof of C05Proofs.v is the instance usep/true). *)
From Coq Require Import List NArith Bool Lia Arith.
Import ListNotations.
From TP Require Import Core CoreProofs CoreSched Path Unix Win Spec UnixProofs WinProofs C02Proofs C05Proofs.
Open Scope N_scope.

Section HashGen.
Variable is_sep : byte -> bool.
Variable norm : bool.
Hypothesis Hdot : is_sep 46 = false.

Definition keep_g (g : list byte) : bool := match g with [] => false | _ => negb (norm && is_dot g) end.
Lemma gsegs_cons_sep b r : is_sep b = true -> segs is_sep (b :: r) = ([], fst (segs is_sep r) :: snd (segs is_sep r)).
Proof. intros H. cbn [segs]. destruct (segs is_sep r). rewrite H. reflexivity. Qed.
Lemma gsegs_cons_nsep b r : is_sep b = false -> segs is_sep (b :: r) = (b :: fst (segs is_sep r), snd (segs is_sep r)).
Proof. intros H. cbn [segs]. destruct (segs is_sep r). rewrite H. reflexivity. Qed.

Lemma ghash_go_spec : forall n l cur feed, (length l <= n)%nat ->
  hash_go is_sep norm l cur feed =
  rev feed ++ nel (rev cur ++ fst (segs is_sep l)) ++ filter keep_g (snd (segs is_sep l)).
Proof.
  induction n as [|n IH]; intros l cur feed Hn.
  - destruct l; [|cbn in Hn; lia]. cbn [hash_go segs fst snd filter]. rewrite rev_flush, !app_nil_r. reflexivity.
  - destruct l as [|b r]; [cbn [hash_go segs fst snd filter]; rewrite rev_flush, !app_nil_r; reflexivity|].
    cbn [length] in Hn. cbn [hash_go]. destruct (is_sep b) eqn:Hb.
    + rewrite (gsegs_cons_sep b r Hb). cbn [fst snd]. rewrite app_nil_r.
      assert (Hf : rev (flush cur feed) = rev feed ++ nel (rev cur)) by apply rev_flush.
      destruct r as [|d t].
      * cbn [segs fst snd filter keep_g]. rewrite Hf, app_nil_r. reflexivity.
      * destruct (norm && (d =? 46)) eqn:Hd.
        -- apply andb_true_iff in Hd as [Hnorm Hd]. apply N.eqb_eq in Hd. subst d. destruct t as [|c t'].
           ++ cbn [segs fst snd]. rewrite Hdot. cbn [fst snd filter keep_g is_dot beq_list]. rewrite N.eqb_refl, Hnorm. cbn.
              rewrite Hf, app_nil_r. reflexivity.
           ++ destruct (is_sep c) eqn:Hc.
              ** rewrite (IH (c :: t') [] (flush cur feed)) by (cbn [length] in *; lia).
                 rewrite (gsegs_cons_nsep 46 (c :: t') Hdot). rewrite (gsegs_cons_sep c t' Hc). cbn [fst snd rev app nel filter].
                 cbn [keep_g is_dot beq_list]. rewrite N.eqb_refl, Hnorm. cbn [andb negb]. rewrite Hf. rewrite <- app_assoc. reflexivity.
              ** rewrite (IH (46 :: c :: t') [] (flush cur feed)) by (cbn [length] in *; lia).
                 rewrite (gsegs_cons_nsep 46 (c :: t') Hdot). rewrite (gsegs_cons_nsep c t' Hc). cbn [fst snd rev app nel filter].
                 cbn [keep_g is_dot beq_list]. rewrite N.eqb_refl. cbn [andb negb]. rewrite !andb_false_r. cbn [negb].
                 rewrite Hf. rewrite <- !app_assoc. reflexivity.
        -- rewrite (IH (d :: t) [] (flush cur feed)) by (cbn [length] in *; lia). cbn [rev app]. rewrite Hf. rewrite <- app_assoc. f_equal. f_equal.
           destruct (is_sep d) eqn:Hsd.
           ++ rewrite (gsegs_cons_sep d t Hsd). cbn [fst snd nel filter keep_g]. reflexivity.
           ++ rewrite (gsegs_cons_nsep d t Hsd). cbn [fst snd nel filter keep_g].
              assert (Hk : (norm && is_dot (d :: fst (segs is_sep t))) = false).
              { apply andb_false_iff in Hd as [Hn0|Hd0]; [rewrite Hn0; reflexivity|].
                unfold is_dot. cbn [beq_list]. rewrite Hd0. cbn. apply andb_false_r. }
              rewrite Hk. reflexivity.
    + rewrite (IH r (b :: cur) feed) by lia. rewrite (gsegs_cons_nsep b r Hb). cbn [fst snd rev]. rewrite <- app_assoc. reflexivity.
Qed.

Notation SC := (CoreProofs.sc norm).
Lemma gsc_bytes g : map uc_bytes (SC false g) = if keep_g g then [g] else [].
Proof.
  unfold CoreProofs.sc, seg_comp, keep_g. destruct g as [|x t]; [reflexivity|].
  destruct (is_dotdot (x :: t)) eqn:Hdd.
  - apply is_dotdot_iff in Hdd. rewrite Hdd. cbn. rewrite andb_false_r. reflexivity.
  - destruct (is_dot (x :: t)) eqn:Hd; [|rewrite andb_false_r; reflexivity].
    cbn [orb]. destruct norm; cbn; [reflexivity|]. apply is_dot_iff in Hd. rewrite Hd. reflexivity.
Qed.
Lemma gsc_non_root f g : filter non_root (SC f g) = SC f g.
Proof.
  unfold CoreProofs.sc, seg_comp. destruct g as [|x t]; [reflexivity|]. destruct (is_dotdot (x :: t)); [reflexivity|].
  destruct (is_dot (x :: t)); [destruct (f || negb norm)|]; reflexivity.
Qed.
Lemma gbody_bytes gs : map uc_bytes (filter non_root (flat_map (SC false) gs)) = filter keep_g gs.
Proof.
  induction gs as [|g gs IH]; [reflexivity|]. cbn [flat_map filter]. rewrite filter_app, map_app, IH, gsc_non_root, gsc_bytes.
  destruct (keep_g g); reflexivity.
Qed.
Lemma gsegs_span l : span_nsep is_sep l = (fst (segs is_sep l), match snd (segs is_sep l) with [] => [] | _ => skipn (length (fst (segs is_sep l))) l end).
Proof.
  induction l as [|b r IH]; [reflexivity|]. cbn [span_nsep]. destruct (is_sep b) eqn:Hb.
  - rewrite (gsegs_cons_sep b r Hb). reflexivity.
  - rewrite (gsegs_cons_nsep b r Hb). rewrite IH. cbn [fst snd length skipn]. reflexivity.
Qed.
(* the chunks written to the hasher are the bytes of every non-root component, in order *)
Theorem ghash_chunks l :
  hash_go is_sep norm l [] [] = map uc_bytes (filter non_root (cspec is_sep norm AtBeg l)).
Proof.
  rewrite (ghash_go_spec (length l) l [] [] (le_n _)). cbn [rev app].
  cbn [cspec]. rewrite filter_app, map_app.
  unfold body, split. destruct (segs is_sep l) as [g gs] eqn:Es. cbn [fst snd flat_map]. rewrite filter_app, map_app.
  rewrite gbody_bytes. rewrite app_assoc. f_equal.
  rewrite gsc_non_root, gsc_bytes.
  destruct l as [|b r]; [cbn in Es; inversion Es; unfold lead_extra; cbn; rewrite andb_false_r; reflexivity|].
  unfold lead_extra. cbn [root_ok]. destruct (is_sep b) eqn:Hb.
  - rewrite (gsegs_cons_sep b r Hb) in Es. inversion Es; subst. reflexivity.
  - pose proof (gsegs_span (b :: r)) as Hsp. rewrite Es in Hsp. cbn [fst snd] in Hsp.
    pose proof (cur_ok_span is_sep Hdot (b :: r) _ _ Hsp) as Hc. rewrite Hc.
    rewrite (gsegs_cons_nsep b r Hb) in Es. inversion Es; subst g. unfold keep_g, nel.
    destruct (norm && is_dot (b :: fst (segs is_sep r))) eqn:Hd.
    + apply andb_true_iff in Hd as [_ Hd]. apply is_dot_iff in Hd. rewrite Hd. reflexivity.
    + reflexivity.
Qed.
End HashGen.

(* ---------------- Windows ---------------- *)
(* the components after the prefix, as the specification lists them *)
Definition wbody (l : list byte) : list comp :=
  flat_map (fun c => match c with WC x => [x] | WPrefix _ _ => [] end) (wspec l).
Definition wkind (l : list byte) : option wprefix := match wspec l with WPrefix _ k :: _ => Some k | _ => None end.

Lemma wspec_split l :
  wspec l = match wprefix_grammar l with
            | Some (k, rest) => WPrefix (firstn (length l - length rest) l) k :: map WC (spec_comps (s_wsep (s_norm l)) (s_norm l) rest)
            | None => map WC (spec_comps (s_wsep (s_norm l)) (s_norm l) l)
            end.
Proof. reflexivity. Qed.
Lemma flat_map_WC cs : flat_map (fun c => match c with WC x => [x] | WPrefix _ _ => [] end) (map WC cs) = cs.
Proof. induction cs as [|c cs IH]; [reflexivity|]. cbn. rewrite IH. reflexivity. Qed.

Lemma map_WC_head {X} (cs : list comp) (f : list byte -> wprefix -> X) (d : X) :
  match map WC cs with WPrefix raw k :: _ => f raw k | _ => d end = d.
Proof. destruct cs; reflexivity. Qed.
Theorem w_hash_feed l :
  w_hash l = (match wkind l with Some k => wprefix_hash k | None => [] end)
             ++ map HWrite (map uc_bytes (filter non_root (wbody l)))
             ++ [HUsize (total_len (map uc_bytes (filter non_root (wbody l))))].
Proof.
  unfold w_hash. rewrite w_prefix_of_spec. unfold wkind, wbody. rewrite wspec_split.
  assert (Hn : negb (exact_verbatim l) = s_norm l) by (symmetry; apply s_norm_eq).
  rewrite Hn.
  assert (Hs : forall b, wsep (s_norm l) b = s_wsep (s_norm l) b) by reflexivity.
  destruct (wprefix_grammar l) as [[k rest]|] eqn:Eg.
  - cbn [flat_map app]. rewrite flat_map_WC.
    assert (Hrest : skipn (length (firstn (length l - length rest) l)) l = rest).
    { rewrite prefix_grammar in Eg. destruct (prefix_consumes _ _ _ Eg) as (a & Ha & Hl).
      rewrite Hl at 1 2 3. rewrite app_length. replace (length a + length rest - length rest)%nat with (length a) by lia.
      rewrite firstn_app, firstn_all, Nat.sub_diag. cbn [firstn]. rewrite app_nil_r. rewrite skipn_app, skipn_all, Nat.sub_diag. reflexivity. }
    rewrite Hrest.
    rewrite (ghash_chunks (wsep (s_norm l)) (s_norm l) (wsep_dot _) rest).
    rewrite <- (spec_comps_cspec (wsep (s_norm l)) (s_norm l) (wsep_dot _) rest). reflexivity.
  - rewrite !map_WC_head. cbn [skipn app]. rewrite flat_map_WC.
    rewrite (ghash_chunks (wsep (s_norm l)) (s_norm l) (wsep_dot _) l).
    rewrite <- (spec_comps_cspec (wsep (s_norm l)) (s_norm l) (wsep_dot _) l). reflexivity.
Qed.

(* equality of Windows paths = same parsed prefix kind and same components after it *)
Lemma wprefix_eqb_eq a b : wprefix_eqb a b = true -> a = b.
Proof.
  destruct a, b; cbn; intros H; try discriminate;
    repeat match goal with
           | H : _ && _ = true |- _ => apply andb_true_iff in H as [? ?]
           | H : beq_list _ _ = true |- _ => apply beq_list_eq in H
           | H : (_ =? _) = true |- _ => apply N.eqb_eq in H
           end; subst; reflexivity.
Qed.
Lemma wlist_eqb_parts a : forall b, list_eqb_c wcomp wcomp_eqb a b = true ->
  (match a with WPrefix _ k :: _ => Some k | _ => None end) = (match b with WPrefix _ k :: _ => Some k | _ => None end)
  /\ flat_map (fun c => match c with WC x => [x] | WPrefix _ _ => [] end) a
     = flat_map (fun c => match c with WC x => [x] | WPrefix _ _ => [] end) b.
Proof.
  assert (Htail : forall a b, list_eqb_c wcomp wcomp_eqb a b = true ->
            flat_map (fun c => match c with WC x => [x] | WPrefix _ _ => [] end) a
            = flat_map (fun c => match c with WC x => [x] | WPrefix _ _ => [] end) b).
  { induction a0 as [|x a0 IH]; intros [|y b0] H; cbn in H; try discriminate; [reflexivity|].
    apply andb_true_iff in H as [Hxy Ht]. cbn [flat_map]. rewrite (IH _ Ht).
    destruct x as [rx kx|cx], y as [ry ky|cy]; cbn in Hxy; try discriminate; [reflexivity|].
    apply comp_eqb_eq in Hxy. subst. reflexivity. }
  intros b H. split; [|apply Htail; exact H].
  destruct a as [|x a'], b as [|y b']; cbn in H; try discriminate; [reflexivity|].
  apply andb_true_iff in H as [Hxy _].
  destruct x as [rx kx|cx], y as [ry ky|cy]; cbn in Hxy; try discriminate; [|reflexivity].
  apply wprefix_eqb_eq in Hxy. subst. reflexivity.
Qed.
Theorem w_eq_same_hash a b : w_path_eq a b = true -> w_hash a = w_hash b.
Proof.
  unfold w_path_eq, path_eq. fold (w_components a) (w_components b). rewrite !w_components_wspec.
  intros H. destruct (wlist_eqb_parts _ _ H) as [Hk Hb].
  rewrite !w_hash_feed. unfold wkind, wbody. rewrite Hk, Hb. reflexivity.
Qed.
(* equal exactly when the component sequences are equal (prefixes compared by their parsed kind) *)
Theorem w_eq_iff a b : w_path_eq a b = true <-> list_eqb_c wcomp wcomp_eqb (wspec a) (wspec b) = true.
Proof. unfold w_path_eq, path_eq. fold (w_components a) (w_components b). rewrite !w_components_wspec. reflexivity. Qed.
Theorem w_cmp_lexicographic a b : w_path_cmp a b = list_cmp_c wcomp wcomp_cmp (wspec a) (wspec b).
Proof. unfold w_path_cmp, path_cmp. fold (w_components a) (w_components b). rewrite !w_components_wspec. reflexivity. Qed.
