(* C13 for Windows at the level of components: after set_extension the path, read again from scratch, has the
   old components with the last one replaced by the new name -- for prefix-free paths and for paths with a
   UNC / device / drive prefix.  The core is generic in the separator test: replacing the last normal name of a
   path (and dropping what trailed it) by another single name replaces exactly the last component. *)
From Coq Require Import List NArith Bool Lia Arith.
Import ListNotations.
From TP Require Import Core CoreProofs CoreSched Path Unix Win Spec GenJoin UnixProofs C02Proofs C08Proofs WinProofs C03Slices C13Proofs WinTrunc WinSimple WinExtend C13Win.
Open Scope N_scope.

Section GEN.
Variable is_sep : byte -> bool.
Hypothesis Hdot : is_sep 46 = false.
Notation skipb := (skip_back is_sep true).
Definition g_trail_ok (j : list byte) : Prop := j = [] \/ exists s t, j = s :: t /\ is_sep s = true.
Definition g_lead_ok (before : list byte) : Prop := before = [] \/ exists b' s, before = b' ++ [s] /\ is_sep s = true.

Lemma g_span_nosep_app m t : nosep is_sep m = true -> g_trail_ok t -> span_nsep is_sep (m ++ t) = (m, t).
Proof.
  intros Hn Ht. induction m as [|b r IH]; cbn [app].
  - destruct Ht as [-> | (s & t' & -> & Hs)]; [reflexivity|]. cbn. rewrite Hs. reflexivity.
  - cbn in Hn. apply andb_true_iff in Hn as [Hb Hr]. apply negb_true_iff in Hb. cbn [span_nsep]. rewrite Hb.
    rewrite (IH Hr). reflexivity.
Qed.
Lemma g_lead_extra_nosep_name m t : m <> [] -> nosep is_sep m = true -> is_dot m = false -> g_trail_ok t ->
  lead_extra is_sep true (m ++ t) = [].
Proof.
  intros Hne Hn Hd Ht. unfold lead_extra.
  rewrite (cur_ok_span is_sep Hdot _ _ _ (g_span_nosep_app m t Hn Ht)). rewrite Hd. cbn [andb].
  destruct m as [|b r]; [congruence|]. cbn [app root_ok].
  cbn in Hn. apply andb_true_iff in Hn as [Hb _]. apply negb_true_iff in Hb. rewrite Hb. reflexivity.
Qed.
Lemma g_lead_extra_before before x y : g_lead_ok before ->
  (before = [] -> lead_extra is_sep true x = [] /\ lead_extra is_sep true y = []) ->
  lead_extra is_sep true (before ++ x) = lead_extra is_sep true (before ++ y).
Proof.
  intros [-> | (b' & s & -> & Hs)] H0.
  - cbn [app]. destruct (H0 eq_refl) as [-> ->]. reflexivity.
  - destruct b' as [|c0 [|c1 t]].
    + cbn [app]. rewrite !(lead_extra_sep is_sep true s _ Hs). reflexivity.
    + cbn [app]. apply lead_extra_cons2.
    + cbn [app]. apply lead_extra_cons2.
Qed.

(* the back parser hands out a normal name: where it sits *)
Lemma pback_normal_decomp l n l' : parse_back is_sep true AtBeg l = Some (Normal n, l') ->
  exists before j,
    l = before ++ n ++ j /\ g_lead_ok before /\ g_trail_ok j /\ back_off is_sep true AtBeg l = length before /\
    nosep is_sep n = true /\ n <> [] /\ is_dot n = false /\ is_dotdot n = false /\
    body is_sep true l = body is_sep true before ++ [Normal n].
Proof.
  unfold parse_back, back_off. destruct (skipb l) as [|z l1'] eqn:El1.
  - pose proof (front_spec is_sep true Hdot AtBeg l eq_refl) as Hf.
    destruct (parse_front is_sep true AtBeg l) as [[c l'']|]; [|discriminate].
    destruct Hf as (Hc & _ & _). cbn [cspec] in Hc. rewrite (skipb_nil_body is_sep true Hdot l El1), app_nil_r in Hc.
    unfold lead_extra in Hc. intros X; inversion X; subst c.
    destruct (root_ok is_sep l); [inversion Hc|]. destruct (true && cur_ok is_sep l); inversion Hc.
  - assert (Hne : skipb l <> []) by (rewrite El1; discriminate).
    destruct (back_decomp_j is_sep true Hdot l Hne) as (before & seg & j & Hr & Hl & Hseg & Hn & Hbef & Hsc & Hnd & Hbody & Hj).
    rewrite El1 in Hr. rewrite Hr. destruct seg as [|x seg'] eqn:Eseg; [congruence|]. rewrite <- Eseg in *.
    cbn [fst]. intros H. inversion H as [[Hcl Hrest]]. clear H Hrest.
    cbn [andb] in Hnd. unfold classify in Hcl. destruct (is_dotdot seg) eqn:Edd; [discriminate|]. rewrite Hnd in Hcl.
    inversion Hcl; subst n.
    exists before, j. repeat split; first [assumption | reflexivity].
Qed.

(* replacing that name (and whatever trailed it) by another single name replaces the last component *)
Lemma g_replace_last before n j m :
  g_lead_ok before -> g_trail_ok j -> nosep is_sep n = true -> n <> [] -> is_dot n = false ->
  body is_sep true (before ++ n ++ j) = body is_sep true before ++ [Normal n] -> gn is_sep m ->
  gcomps is_sep (before ++ m) = removelast (gcomps is_sep (before ++ n ++ j)) ++ [Normal m].
Proof.
  intros Hbef Hj Hn Hne Hd Hbody (Gn & Gne & Gd & Gdd). unfold gcomps.
  remember (before ++ n ++ j) as l eqn:Hl.
  rewrite Hbody. rewrite (body_before_seg is_sep true before m Gn Hbef).
  assert (Hsc : sc true false m = [Normal m]).
  { unfold sc, seg_comp. destruct m as [|x t] eqn:Em; [congruence|]. rewrite Gdd, Gd. reflexivity. }
  rewrite Hsc. rewrite !app_assoc. rewrite removelast_last. f_equal. f_equal.
  rewrite Hl. apply g_lead_extra_before; [exact Hbef|]. intros ->. split.
  - rewrite <- (app_nil_r m). apply g_lead_extra_nosep_name; try assumption. left. reflexivity.
  - apply g_lead_extra_nosep_name; assumption.
Qed.
End GEN.

(* ---------- Windows ---------- *)
(* a path seen as (raw prefix, rest) with the normalising separator test: the two non-verbatim shapes *)
Definition wview (l p r : list byte) : Prop :=
  l = p ++ r /\ plen (w_init l) = length p /\ exact_verbatim l = false.

Lemma wview_plain l : noprefix l = true -> wview l [] l.
Proof.
  intros H. destruct (noprefix_grammar l H) as (Eg & En). rewrite prefix_grammar in Eg. rewrite s_norm_eq in En.
  split; [reflexivity|]. split.
  - unfold plen, w_init, prefix_component. cbn [w_prefix]. rewrite Eg. reflexivity.
  - destruct (exact_verbatim l); [discriminate | reflexivity].
Qed.
Lemma wview_prefixed l k r : wprefix_grammar l = Some (k, r) -> k_verbatim k = false -> r <> [] ->
  exists p, wview l p r /\ p <> [] /\ fits k r /\ forall r', fits k r' -> wspec (p ++ r') = WPrefix p k :: map WC (WCOMPS r').
Proof.
  intros H Hk Hne. destruct (grammar_repl l k r H Hk Hne) as (p & El & Hp & Hf & S).
  destruct (wspec_prefixed l k r H Hk Hne) as (p' & El' & _ & _ & S').
  assert (p' = p).
  { rewrite El in El'. apply (f_equal (@rev byte)) in El'. rewrite !rev_app_distr in El'. apply app_inv_head in El'.
    rewrite <- (rev_involutive p), <- (rev_involutive p'), El'. reflexivity. }
  subst p'. exists p. split; [|split; [exact Hp | split; [exact Hf | exact S']]].
  split; [exact El|]. split.
  - unfold plen, w_init, prefix_component. cbn [w_prefix]. rewrite <- prefix_grammar, H.
    rewrite El. rewrite app_length. replace (length p + length r - length r)%nat with (length p) by lia.
    rewrite firstn_app, firstn_all, Nat.sub_diag. cbn [firstn]. rewrite app_nil_r. reflexivity.
  - destruct (S r Hf) as (_ & N). rewrite <- El in N. rewrite s_norm_eq in N. destruct (exact_verbatim l); [discriminate | reflexivity].
Qed.

Lemma w_file_name_view l p r n : wview l p r -> w_file_name l = Some n ->
  exists l', parse_back wany true AtBeg r = Some (Normal n, l') /\
             w_back_off (w_init l) = (length p + back_off wany true AtBeg r)%nat.
Proof.
  intros (El & Hpl & Hev). unfold w_file_name, file_name, w_nextb, w_back_off. rewrite Hpl.
  cbn [w_init w_input w_st w_norm]. rewrite Hev. cbn [negb].
  assert (Esk : skipn (length p) l = r) by (rewrite El, skipn_app, skipn_all, Nat.sub_diag; reflexivity).
  rewrite Esk. destruct r as [|r0 rt] eqn:Er.
  - destruct (w_prefix (w_init l)) as [[raw k]|]; cbn; discriminate.
  - rewrite <- Er. destruct (parse_back wany true AtBeg r) as [[c0 l']|]; [|discriminate].
    cbn [wc_is_normal wc_bytes]. destruct c0 as [| | |n0]; try discriminate. intros X; inversion X; subst n0.
    exists l'. split; reflexivity.
Qed.

(* the bytes, with the decomposition relative to the view *)
Lemma w_set_extension_view l p r n ext : wview l p r -> w_file_name l = Some n ->
  exists before j, r = before ++ n ++ j /\ g_lead_ok wany before /\ g_trail_ok wany j /\
    nosep wany n = true /\ n <> [] /\ is_dot n = false /\
    body wany true r = body wany true before ++ [Normal n] /\
    w_set_extension l ext = (p ++ before ++ new_name n ext, true).
Proof.
  intros V H. destruct (w_file_name_view l p r n V H) as (l' & Eb & Hoff).
  destruct (pback_normal_decomp wany wany_dot r n l' Eb) as (before & j & Hr & Hbef & Hj & Hbo & Hn & Hne & Hd & Hdd & Hbody).
  exists before, j. repeat split; try assumption.
  destruct V as (El & _ & _).
  assert (Hl : l = (p ++ before) ++ n ++ j) by (rewrite El, Hr, <- app_assoc; reflexivity).
  assert (Hoff' : w_back_off (w_init l) = length (p ++ before)) by (rewrite Hoff, Hbo, app_length; reflexivity).
  rewrite (app_assoc p before). set (pb := p ++ before) in *.
  unfold w_set_extension, set_extension. fold w_file_name w_file_stem. rewrite H, (w_file_stem_of l n H).
  unfold name_end. fold w_file_name. rewrite H, Hoff'.
  destruct (stem_prefix n) as (rest & Hsn & _).
  assert (Hlen : length n = (length (stem_of n) + length rest)%nat) by (rewrite Hsn at 1; apply app_length).
  replace (length pb + length n - (length n - length (stem_of n)))%nat with (length pb + length (stem_of n))%nat by lia.
  assert (Hf : firstn (length pb + length (stem_of n)) l = pb ++ stem_of n).
  { rewrite Hl. rewrite Hsn at 2. rewrite <- !app_assoc. rewrite firstn_app_2.
    f_equal. rewrite firstn_app, firstn_all, Nat.sub_diag. cbn. apply app_nil_r. }
  rewrite Hf. unfold new_name. destruct ext; [reflexivity|]. rewrite <- app_assoc. reflexivity.
Qed.

Lemma removelast_map {A B} (f : A -> B) (l : list A) : removelast (map f l) = map f (removelast l).
Proof. induction l as [|x [|y t] IH]; [reflexivity | reflexivity |]. cbn [map removelast] in *. rewrite IH. reflexivity. Qed.
Lemma removelast_cons_ne {A} (x : A) (l : list A) : l <> [] -> removelast (x :: l) = x :: removelast l.
Proof. destruct l; [congruence | reflexivity]. Qed.

Lemma disk_at_new_name n ext j : disk_at (n ++ j) = None -> disk_at (new_name n ext) = None.
Proof.
  intros H. destruct (stem_prefix n) as (rest & Hn & _). unfold new_name.
  destruct (stem_of n) as [|a [|b t]] eqn:Es.
  - destruct ext; reflexivity.
  - destruct ext; [reflexivity|]. cbn [app]. unfold disk_at. rewrite andb_false_r. reflexivity.
  - rewrite Hn in H. cbn [app] in H. destruct ext; cbn [app]; unfold disk_at in *; destruct (s_alpha a && (b =? 58)); try discriminate; reflexivity.
Qed.
Lemma noprefix_short l : (length l < 2)%nat -> noprefix l = true.
Proof. destruct l as [|a [|b t]]; cbn [length]; intros H; try lia; reflexivity. Qed.

Theorem w_set_extension_comps_plain l n ext : noprefix l = true -> w_file_name l = Some n ->
  gn wany (new_name n ext) ->
  wspec (fst (w_set_extension l ext)) = removelast (wspec l) ++ [WC (Normal (new_name n ext))].
Proof.
  intros Hp H G. destruct (w_set_extension_view l [] l n ext (wview_plain l Hp) H) as (before & j & Hl & Hbef & Hj & Hn & Hne & Hd & Hbody & E).
  rewrite E. cbn [fst app]. set (m := new_name n ext) in *.
  assert (Hp2 : noprefix (before ++ m) = true).
  { destruct before as [|b0 [|b1 bt]].
    - cbn [app]. unfold noprefix.
      assert (Hdm : disk_at m = None).
      { unfold m. apply (disk_at_new_name n ext j). cbn [app] in Hl. rewrite <- Hl. unfold noprefix in Hp.
        apply andb_true_iff in Hp as [_ Hd2]. destruct (disk_at l) as [[? ?]|]; [discriminate | reflexivity]. }
      rewrite Hdm. rewrite andb_true_r. destruct (gn_hd wany m G) as (x & t & Em & Hx). fold m. rewrite Em. destruct t as [|y t']; [reflexivity|].
      cbn [two_seps]. change (s_sep_any x) with (wany x). rewrite Hx. reflexivity.
    - destruct Hbef as [X | (b' & s & Eb & Hs)]; [discriminate|].
      assert (b' = [] /\ s = b0) as [-> ->] by (destruct b' as [|u [|v w]]; inversion Eb; auto).
      destruct (gn_hd wany m G) as (x & t & Em & Hx). rewrite Em. cbn [app]. unfold noprefix. cbn [two_seps].
      change (s_sep_any x) with (wany x). rewrite Hx, andb_false_r. cbn [negb andb]. unfold disk_at.
      destruct (s_alpha b0) eqn:Ea; [|reflexivity]. pose proof (alpha_not_sep b0 Ea) as X. change (s_sep_any b0) with (wany b0) in X. congruence.
    - rewrite <- Hp. rewrite Hl. cbn [app]. apply noprefix_hd2. }
  rewrite (wspec_plain _ Hp2), (wspec_plain l Hp). rewrite Hl at 1.
  rewrite (g_replace_last wany wany_dot before n j m Hbef Hj Hn Hne Hd). 
  - rewrite <- Hl. rewrite map_app, removelast_map. reflexivity.
  - rewrite <- Hl. exact Hbody.
  - exact G.
Qed.

Theorem w_set_extension_comps_prefixed l k r n ext : wprefix_grammar l = Some (k, r) -> k_verbatim k = false ->
  w_file_name l = Some n -> gn wany (new_name n ext) ->
  wspec (fst (w_set_extension l ext)) = removelast (wspec l) ++ [WC (Normal (new_name n ext))].
Proof.
  intros Hg Hk H G.
  assert (Hrne : r <> []).
  { intros ->. unfold w_file_name, file_name, w_nextb in H. cbn [w_init w_input] in H.
    assert (Esk : skipn (plen (w_init l)) l = []).
    { unfold plen, w_init, prefix_component. cbn [w_prefix]. rewrite <- prefix_grammar, Hg. cbn [length]. rewrite Nat.sub_0_r.
      rewrite firstn_all. apply skipn_all. }
    rewrite Esk in H. destruct (w_prefix (w_init l)) as [[raw k0]|]; cbn in H; discriminate. }
  destruct (wview_prefixed l k r Hg Hk Hrne) as (p & V & Hp & Hf & S).
  destruct (w_set_extension_view l p r n ext V H) as (before & j & Hr & Hbef & Hj & Hn & Hne & Hd & Hbody & E).
  rewrite E. cbn [fst]. set (m := new_name n ext) in *.
  assert (Hfit : fits k (before ++ m)).
  { destruct k; cbn [fits] in *; try exact I; destruct Hf as (s9 & t9 & Es9 & Hs9);
    (destruct before as [|b0 bt];
      [exfalso; cbn [app] in Hr; rewrite Hr in Es9; destruct n as [|n0 nt]; [congruence|]; cbn [app] in Es9; inversion Es9; subst;
       cbn [nosep forallb] in Hn; change (s_sep_any s9) with (wany s9) in Hs9; rewrite Hs9 in Hn; discriminate
      | exists b0, (bt ++ m); split; [reflexivity|]; rewrite Hr in Es9; cbn [app] in Es9; inversion Es9; subst; exact Hs9]). }
  rewrite (S _ Hfit). destruct V as (El & _ & _). rewrite El. rewrite (S r Hf).
  assert (Hc : WCOMPS r <> []) by (intros X; apply gcomps_nil_inv in X; congruence).
  rewrite (removelast_cons_ne _ _ (fun X => Hc (map_eq_nil _ _ X))). rewrite removelast_map. cbn [app]. f_equal.
  change [WC (Normal m)] with (map WC [Normal m]). rewrite <- map_app. f_equal.
  rewrite (g_replace_last wany wany_dot before n j m Hbef Hj Hn Hne Hd).
  - rewrite <- Hr. reflexivity.
  - rewrite <- Hr. exact Hbody.
  - exact G.
Qed.

(* the hypothesis gn (new_name ..) holds for every separator-free extension outside the class D13 *)
Lemma gn_new_name_gen (is_sep : byte -> bool) n ext : is_sep 46 = false -> nosep is_sep n = true -> n <> [] ->
  nosep is_sep ext = true -> ~ (ext = [] /\ (stem_of n = [46] \/ stem_of n = [46; 46])) -> gn is_sep (new_name n ext).
Proof.
  intros Hdot Hn Hne He Hk.
  destruct (stem_prefix n) as (rest & En & Hrest).
  assert (Hsn : nosep is_sep (stem_of n) = true).
  { rewrite En in Hn. unfold nosep in *. rewrite forallb_app in Hn. apply andb_true_iff in Hn as [Hs _]. exact Hs. }
  assert (Hsne : stem_of n <> []).
  { unfold stem_of. pose proof (rsplit_reproduces n) as R. destruct (rsplit_file_at_dot n) as [bf af].
    destruct (opt_and bf af) as [e|].
    - destruct R as (st & Ho & _ & Hst & _). rewrite Ho. exact Hst.
    - rewrite R. exact Hne. }
  unfold new_name, gn. destruct ext as [|e0 et].
  - repeat split; try assumption.
    + destruct (is_dot (stem_of n)) eqn:E; [|reflexivity]. apply is_dot_iff in E. exfalso. apply Hk. auto.
    + destruct (is_dotdot (stem_of n)) eqn:E; [|reflexivity]. apply is_dotdot_iff in E. exfalso. apply Hk. auto.
  - repeat split.
    + unfold nosep. rewrite forallb_app. cbn [forallb]. rewrite Hdot. cbn [negb andb].
      apply andb_true_iff. split; [exact Hsn | exact He].
    + destruct (stem_of n); discriminate.
    + destruct (is_dot (stem_of n ++ 46 :: e0 :: et)) eqn:E; [|reflexivity]. apply is_dot_iff in E.
      apply (f_equal (@length byte)) in E. rewrite app_length in E. cbn in E. lia.
    + destruct (is_dotdot (stem_of n ++ 46 :: e0 :: et)) eqn:E; [|reflexivity]. apply is_dotdot_iff in E.
      apply (f_equal (@length byte)) in E. rewrite app_length in E. cbn in E.
      destruct (stem_of n); [congruence | cbn in E; lia].
Qed.
Lemma w_new_name_ok l p r n ext : wview l p r -> w_file_name l = Some n -> nosep wany ext = true ->
  ~ (ext = [] /\ (stem_of n = [46] \/ stem_of n = [46; 46])) -> gn wany (new_name n ext).
Proof.
  intros V H He Hk. destruct (w_set_extension_view l p r n [] V H) as (before & j & _ & _ & _ & Hn & Hne & _).
  apply (gn_new_name_gen wany n ext wany_dot Hn Hne He Hk).
Qed.
