(* C12 for Windows: replacing the file name (pop, then the Windows push) read at the level of components.
   The parent is read again from scratch as the path without its last component (WinTrunc.w_parent_reparse),
   and pushing a single name onto it appends exactly that name, for every parent that is prefix-free and
   non-empty or carries a UNC / device / drive prefix followed by a non-empty rest (WinExtend.v). *)
From Coq Require Import List NArith Bool Lia Arith.
Import ListNotations.
From TP Require Import Core CoreProofs CoreSched Path Unix Win Spec GenJoin C02Proofs C08Proofs WinProofs WinTrunc WinSimple WinExtend.
Open Scope N_scope.

(* a base onto which a relative name is simply appended *)
Definition joinable (rr : list byte) : Prop :=
  (noprefix rr = true /\ rr <> []) \/
  exists k r, wprefix_grammar rr = Some (k, r) /\ k_verbatim k = false /\ r <> [].

Lemma gn_ne n : gn wany n -> n <> [].
Proof. intros (_ & H & _). exact H. Qed.
Lemma wspec_push_name rr n : joinable rr -> noprefix n = true -> gn wany n ->
  wspec (w_push rr n) = wspec rr ++ [WC (Normal n)].
Proof.
  intros J Hn G. pose proof (gn_not_rooted wany n G) as Hr. pose proof (gn_ne n G) as Hne.
  pose proof (body_gn wany n G) as Hb.
  destruct J as [(Hp & Hrr) | (k & r & Hg & Hk & Hrne)].
  - rewrite (wspec_join_plain rr n Hp Hn Hr Hne). destruct rr; [congruence|]. unfold gadded. rewrite Hb. reflexivity.
  - rewrite (wspec_join_prefixed rr k r n Hg Hk Hrne Hn Hr Hne). unfold gadded. rewrite Hb. reflexivity.
Qed.

Theorem w_set_file_name_none l n : w_file_name l = None -> w_set_file_name l n = w_push l n.
Proof. intros H. unfold w_set_file_name, set_file_name. fold w_file_name. rewrite H. reflexivity. Qed.

Theorem w_set_file_name_some l m n rr : w_file_name l = Some m -> w_parent l = Some rr -> joinable rr ->
  noprefix n = true -> gn wany n ->
  w_set_file_name l n = w_push rr n /\
  wspec (w_set_file_name l n) = removelast (wspec l) ++ [WC (Normal n)].
Proof.
  intros H Hp J Hn G. unfold w_set_file_name, set_file_name. fold w_file_name w_pop. rewrite H.
  rewrite w_pop_spec, Hp. cbn [fst]. split; [reflexivity|].
  rewrite (wspec_push_name rr n J Hn G). rewrite <- !w_components_wspec. rewrite (w_parent_reparse l rr Hp). reflexivity.
Qed.
Corollary w_set_file_name_last l m n rr : w_file_name l = Some m -> w_parent l = Some rr -> joinable rr ->
  noprefix n = true -> gn wany n ->
  last_w (wspec (w_set_file_name l n)) = Some (WC (Normal n)).
Proof.
  intros H Hp J Hn G. destruct (w_set_file_name_some l m n rr H Hp J Hn G) as (_ & E). rewrite E.
  unfold last_w. rewrite rev_app_distr. reflexivity.
Qed.

(* a parent that is a bare drive (C:name -> C:): the name is written right after it *)
Theorem w_set_file_name_bare_drive l m n rr d : w_file_name l = Some m -> w_parent l = Some rr ->
  rr = [d; 58] -> s_alpha d = true -> noprefix n = true -> gn wany n ->
  w_set_file_name l n = rr ++ n /\
  wspec (w_set_file_name l n) = removelast (wspec l) ++ [WC (Normal n)].
Proof.
  intros H Hp -> Hd Hn G. unfold w_set_file_name, set_file_name. fold w_file_name w_pop. rewrite H.
  rewrite w_pop_spec, Hp. cbn [fst].
  pose proof (gn_not_rooted wany n G) as Hr. pose proof (gn_ne n G) as Hne.
  pose proof (wspec_join_disk d [] n Hd Hn Hr Hne) as W. cbn [app] in W.
  assert (J : w_push [d; 58] n = [d; 58] ++ n).
  { rewrite w_push_join_spec, (join_spec_disk d [] n Hd Hn). unfold gjoin. destruct n as [|n0 nt] eqn:En; [congruence|]. rewrite <- En in *.
    rewrite Hr. reflexivity. }
  split; [exact J|]. rewrite W, (gcomps_gn wany wany_dot n G).
  rewrite <- !w_components_wspec. rewrite <- (w_parent_reparse l [d; 58] Hp). rewrite w_components_wspec, (wspec_disk d [] Hd). reflexivity.
Qed.
