(* Interleaving theorem for the generic core parser: any schedule of front/back steps
   yields what popping the declarative component list from the chosen ends yields, and
   after every step the remainder, re-parsed from scratch, is the un-consumed middle. *)
From Coq Require Import List NArith Bool Lia.
Import ListNotations.
From TP Require Import Core CoreProofs.
Open Scope N_scope.

Section S.
Variable is_sep : byte -> bool.
Variable norm : bool.
Hypothesis dot_not_sep : is_sep 46 = false.

Notation skipb := (skip_back is_sep norm).
Notation INV := (inv is_sep norm).
Notation CSPEC := (cspec is_sep norm).
Notation BODY := (body is_sep norm).
Notation LEAD := (lead_extra is_sep norm).

Definition cs (s : pstate * list byte) : list comp := CSPEC (fst s) (snd s).

Lemma lead_extra_inv l : INV (NotAtBeg, l) = true -> LEAD l = [].
Proof.
  unfold inv, lead_extra. cbn [fst snd]. intros H. apply andb_true_iff in H as [H1 H2].
  apply negb_true_iff in H1. apply negb_true_iff in H2. rewrite H1, H2. reflexivity.
Qed.

(* a reachable remainder re-parsed from the beginning gives the same components *)
Lemma cspec_inv st l : INV (st, l) = true -> CSPEC AtBeg l = CSPEC st l.
Proof.
  destruct st; [reflexivity|]. intros H. cbn [cspec]. rewrite (lead_extra_inv l H). reflexivity.
Qed.

Lemma inv_prefix_skipb x j : INV (NotAtBeg, skipb x ++ j) = true -> INV (NotAtBeg, skipb x) = true.
Proof.
  destruct (skipb_inv is_sep norm x) as [_ Hc].
  unfold inv. cbn [fst snd]. intros H. apply andb_true_iff in H as [H1 H2].
  destruct (skipb x) as [|b [|c t]] eqn:E.
  - cbn. rewrite andb_false_r. reflexivity.
  - cbn [app root_ok] in H1 |- *. rewrite H1. cbn [andb]. cbn [rev app] in Hc. rewrite Hc. reflexivity.
  - cbn [app root_ok cur_ok] in H1, H2 |- *. rewrite H1, H2. reflexivity.
Qed.

Lemma back_notbeg_inv l : INV (NotAtBeg, l) = true ->
  match parse_back is_sep norm NotAtBeg l with
  | Some (c, l') => INV (NotAtBeg, l') = true
  | None => True
  end.
Proof.
  intros Hinv. unfold parse_back.
  destruct (skipb_prefix is_sep norm l) as [j Hj].
  remember (skipb l) as l1 eqn:El1.
  destruct (rspan is_sep l1) as [before seg] eqn:Hr.
  destruct (rspan_spec is_sep dot_not_sep _ _ _ Hr) as (Hl1 & _).
  destruct seg as [|x seg']; [destruct l1; exact I|].
  assert (HI : INV (NotAtBeg, skipb before) = true).
  { destruct (skipb_prefix is_sep norm before) as [j2 Hj2].
    apply (inv_prefix_skipb before (j2 ++ (x :: seg') ++ j)).
    rewrite app_assoc. rewrite <- Hj2. rewrite app_assoc. rewrite <- Hl1. rewrite <- Hj. exact Hinv. }
  destruct l1; exact HI.
Qed.

Lemma next_front_spec s : INV s = true ->
  match next_front is_sep norm s with
  | Some (c, s') => cs s = c :: cs s' /\ INV s' = true /\ (length (snd s') < length (snd s))%nat
  | None => cs s = []
  end.
Proof.
  destruct s as [st l]. intros H. unfold next_front, cs. cbn [fst snd].
  pose proof (front_spec is_sep norm dot_not_sep st l H) as F.
  destruct (parse_front is_sep norm st l) as [[c l']|]; [|exact F].
  cbn [fst snd cspec]. exact F.
Qed.

Lemma next_back_spec s : INV s = true ->
  match next_back is_sep norm s with
  | Some (c, s') => cs s = cs s' ++ [c] /\ INV s' = true /\ (exists j, snd s = snd s' ++ j)
  | None => cs s = []
  end.
Proof.
  destruct s as [st l]. intros H. unfold next_back, cs. cbn [fst snd].
  destruct st.
  - pose proof (back_spec_atbeg is_sep norm dot_not_sep l) as B.
    destruct (parse_back is_sep norm AtBeg l) as [[c l']|]; [|exact B].
    cbn [fst snd]. destruct B as [B1 B2]. repeat split; assumption.
  - pose proof (back_spec_notbeg is_sep norm dot_not_sep l H) as B.
    pose proof (back_notbeg_inv l H) as I.
    destruct (parse_back is_sep norm NotAtBeg l) as [[c l']|]; [|exact B].
    cbn [fst snd cspec]. destruct B as [B1 B2]. repeat split; assumption.
Qed.

Lemma inv_init l : INV (AtBeg, l) = true.
Proof. reflexivity. Qed.

(* the interleaving theorem *)
Theorem sched_spec sched : forall s, INV s = true ->
  map (fun x => (fst x, cs (snd x))) (sched_run (next_front is_sep norm) (next_back is_sep norm) s sched)
  = deq_run (cs s) sched.
Proof.
  induction sched as [|d r IH]; intros s H; [reflexivity|].
  cbn [sched_run deq_run]. destruct d.
  - pose proof (next_back_spec s H) as B.
    destruct (next_back is_sep norm s) as [[c s']|].
    + destruct B as (E & HI & _). rewrite E. rewrite rev_app_distr. cbn [rev app map fst snd].
      rewrite rev_involutive. rewrite (IH s' HI). reflexivity.
    + cbn [map fst snd]. rewrite (IH s H). rewrite B. reflexivity.
  - pose proof (next_front_spec s H) as F.
    destruct (next_front is_sep norm s) as [[c s']|].
    + destruct F as (E & HI & _). rewrite E. cbn [map fst snd]. rewrite (IH s' HI). reflexivity.
    + cbn [map fst snd]. rewrite (IH s H). rewrite F. reflexivity.
Qed.

(* every state reached by a schedule satisfies the invariant *)
Lemma sched_inv sched : forall s, INV s = true ->
  Forall (fun x => INV (snd x) = true) (sched_run (next_front is_sep norm) (next_back is_sep norm) s sched).
Proof.
  induction sched as [|d r IH]; intros s H; [constructor|].
  cbn [sched_run]. destruct d.
  - pose proof (next_back_spec s H) as B. destruct (next_back is_sep norm s) as [[c s']|].
    + destruct B as (_ & HI & _). constructor; [exact HI | apply IH; exact HI].
    + constructor; [exact H | apply IH; exact H].
  - pose proof (next_front_spec s H) as F. destruct (next_front is_sep norm s) as [[c s']|].
    + destruct F as (_ & HI & _). constructor; [exact HI | apply IH; exact HI].
    + constructor; [exact H | apply IH; exact H].
Qed.

(* exhaustion: a step fails exactly when no component is left, at either end *)
Lemma front_none_iff s : INV s = true -> (next_front is_sep norm s = None <-> cs s = []).
Proof.
  intros H. pose proof (next_front_spec s H) as F. destruct (next_front is_sep norm s) as [[c s']|].
  - destruct F as (E & _). rewrite E. split; discriminate.
  - split; auto.
Qed.
Lemma back_none_iff s : INV s = true -> (next_back is_sep norm s = None <-> cs s = []).
Proof.
  intros H. pose proof (next_back_spec s H) as B. destruct (next_back is_sep norm s) as [[c s']|].
  - destruct B as (E & _). rewrite E. split; [discriminate|]. intros X. destruct (cs s'); discriminate.
  - split; auto.
Qed.

(* ---- the accumulator-style spec of Core.v equals lead_extra ++ body ---- *)
Lemma split_sep_segs l : forall acc,
  split_sep is_sep l acc = (let (g, gs) := segs is_sep l in (rev acc ++ g) :: gs).
Proof.
  induction l as [|b r IH]; intros acc; cbn [split_sep segs].
  - rewrite app_nil_r. reflexivity.
  - destruct (is_sep b) eqn:Hb.
    + rewrite IH. destruct (segs is_sep r) as [g gs]. rewrite app_nil_r. reflexivity.
    + rewrite IH. destruct (segs is_sep r) as [g gs]. cbn [rev]. rewrite <- app_assoc. reflexivity.
Qed.
Lemma split_sep_split l : split_sep is_sep l [] = split is_sep l.
Proof. rewrite split_sep_segs. unfold split. destruct (segs is_sep l). reflexivity. Qed.

Theorem spec_comps_cspec l : spec_comps is_sep norm l = CSPEC AtBeg l.
Proof.
  unfold spec_comps. cbn [cspec]. destruct l as [|b r]; [cbn; destruct norm; reflexivity|].
  destruct (is_sep b) eqn:Hb.
  - rewrite split_sep_split. rewrite (lead_extra_sep is_sep norm b r Hb). rewrite (body_cons_sep is_sep norm b r Hb). reflexivity.
  - rewrite split_sep_split.
    destruct (span_nsep is_sep (b :: r)) as [n rest] eqn:Hs.
    pose proof (cur_ok_span is_sep dot_not_sep (b :: r) n rest Hs) as Hc.
    unfold lead_extra. cbn [root_ok]. rewrite Hb.
    unfold body. unfold split in *. destruct (segs is_sep (b :: r)) as [g gs] eqn:Hg.
    cbn [flat_map].
    assert (Hgn : g = n).
    { clear Hc. revert g gs n rest Hg Hs. generalize (b :: r) as l. induction l as [|x l IH]; intros g gs n rest Hg Hs.
      - cbn in *. inversion Hg; inversion Hs; subst; reflexivity.
      - cbn [segs span_nsep] in *. destruct (is_sep x).
        + destruct (segs is_sep l). inversion Hg; inversion Hs; subst; reflexivity.
        + destruct (segs is_sep l) as [g' gs'] eqn:E1. destruct (span_nsep is_sep l) as [n' r'] eqn:E2.
          inversion Hg; inversion Hs; subst. f_equal. eapply IH; reflexivity. }
    subst g. rewrite Hc. unfold sc, seg_comp.
    destruct n as [|x t]; [destruct norm; reflexivity|].
    destruct (is_dotdot (x :: t)) eqn:Hdd.
    + assert (Hd : is_dot (x :: t) = false).
      { apply (is_dotdot_iff) in Hdd. rewrite Hdd. reflexivity. }
      rewrite Hd. rewrite andb_false_r. reflexivity.
    + destruct (is_dot (x :: t)); destruct norm; reflexivity.
Qed.

Corollary comps_spec_comps l : comps is_sep norm (AtBeg, l) = spec_comps is_sep norm l.
Proof. rewrite spec_comps_cspec. apply comps_spec. exact dot_not_sep. Qed.


(* ---- sizes, fuel, back = reverse of front ---- *)
Lemma cs_length_le : forall n s, INV s = true -> (length (snd s) <= n)%nat -> (length (cs s) <= length (snd s))%nat.
Proof.
  induction n as [|n IH]; intros s H Hn.
  - pose proof (next_front_spec s H) as F. destruct (next_front is_sep norm s) as [[c s']|].
    + destruct F as (_ & _ & Hl). lia.
    + rewrite F. cbn. lia.
  - pose proof (next_front_spec s H) as F. destruct (next_front is_sep norm s) as [[c s']|].
    + destruct F as (E & HI & Hl). rewrite E. cbn [length].
      assert (length (cs s') <= length (snd s'))%nat by (apply IH; [exact HI | lia]). lia.
    + rewrite F. cbn. lia.
Qed.
Lemma cs_length s : INV s = true -> (length (cs s) <= length (snd s))%nat.
Proof. intros H. apply (cs_length_le (length (snd s)) s H). lia. Qed.

(* collecting from the back with enough fuel yields the components in reverse *)
Fixpoint back_collect (fuel : nat) (s : pstate * list byte) : list comp :=
  match fuel with
  | O => []
  | S f => match next_back is_sep norm s with Some (c, s') => c :: back_collect f s' | None => [] end
  end.
Lemma back_collect_spec : forall fuel s, INV s = true -> (length (cs s) < fuel)%nat -> back_collect fuel s = rev (cs s).
Proof.
  induction fuel as [|f IH]; intros s H Hf; [lia|].
  cbn [back_collect]. pose proof (next_back_spec s H) as B.
  destruct (next_back is_sep norm s) as [[c s']|].
  - destruct B as (E & HI & _). rewrite E. rewrite rev_app_distr. cbn [rev app]. f_equal.
    apply IH; [exact HI|]. rewrite E in Hf. rewrite app_length in Hf. cbn in Hf. lia.
  - rewrite B. reflexivity.
Qed.
Fixpoint front_collect (fuel : nat) (s : pstate * list byte) : list comp :=
  match fuel with
  | O => []
  | S f => match next_front is_sep norm s with Some (c, s') => c :: front_collect f s' | None => [] end
  end.
Lemma front_collect_spec : forall fuel s, INV s = true -> (length (cs s) < fuel)%nat -> front_collect fuel s = cs s.
Proof.
  induction fuel as [|f IH]; intros s H Hf; [lia|].
  cbn [front_collect]. pose proof (next_front_spec s H) as F.
  destruct (next_front is_sep norm s) as [[c s']|].
  - destruct F as (E & HI & _). rewrite E. f_equal. apply IH; [exact HI|]. rewrite E in Hf. cbn in Hf. lia.
  - rewrite F. reflexivity.
Qed.
(* any fuel beyond the length of the input gives the same answer: the loop stopped by itself *)
Corollary front_collect_stable s k : INV s = true ->
  front_collect (S (length (snd s)) + k) s = front_collect (S (length (snd s))) s.
Proof.
  intros H. pose proof (cs_length s H). rewrite !front_collect_spec; try assumption; try reflexivity; lia.
Qed.
Corollary back_collect_stable s k : INV s = true ->
  back_collect (S (length (snd s)) + k) s = back_collect (S (length (snd s))) s.
Proof.
  intros H. pose proof (cs_length s H). rewrite !back_collect_spec; try assumption; try reflexivity; lia.
Qed.
Corollary back_is_rev_front s : INV s = true ->
  back_collect (S (length (snd s))) s = rev (front_collect (S (length (snd s))) s).
Proof.
  intros H. pose proof (cs_length s H). rewrite back_collect_spec, front_collect_spec; try assumption; try reflexivity; lia.
Qed.

(* exhausted iterators stay exhausted and do not move *)
Lemma exhausted_stays s : INV s = true -> cs s = [] ->
  forall sched, sched_run (next_front is_sep norm) (next_back is_sep norm) s sched = map (fun _ => (None, s)) sched.
Proof.
  intros H E sched. induction sched as [|d r IH]; [reflexivity|].
  cbn [sched_run map]. destruct d.
  - rewrite (proj2 (back_none_iff s H) E). rewrite IH. reflexivity.
  - rewrite (proj2 (front_none_iff s H) E). rewrite IH. reflexivity.
Qed.

(* ---- conservation at the level of the declarative split ---- *)
(* the input is its segments interleaved with single separator bytes *)
Fixpoint weave (gs : list (list byte)) (seps : list byte) : list byte :=
  match gs, seps with
  | g :: gs', s :: seps' => g ++ s :: weave gs' seps'
  | g :: _, [] => g
  | [], _ => []
  end.
Lemma split_weave (l : list byte) : exists seps : list byte,
  (Forall (fun b => is_sep b = true) seps) /\
  (S (length seps) = length (split is_sep l))%nat /\ (l = weave (split is_sep l) seps) /\
  (Forall (fun g => nosep is_sep g = true) (split is_sep l)).
Proof.
  induction l as [|b r IH].
  - exists []. cbn. repeat split; constructor; [reflexivity | constructor].
  - destruct IH as (seps & Hs & Hl & Hw & Hn).
    destruct (is_sep b) eqn:Hb.
    + exists (b :: seps). rewrite (split_cons_sep is_sep b r Hb). cbn [length weave app].
      repeat split; [constructor; assumption | lia | f_equal; assumption | constructor; [reflexivity | assumption]].
    + rewrite (split_cons_nsep is_sep b r Hb).
      destruct (split is_sep r) as [|g gs] eqn:Eg; [exfalso; eapply split_nonnil; eauto|].
      exists seps. cbn [length] in *. repeat split; [assumption | lia | |].
      * destruct seps as [|s seps']; cbn [weave] in *; rewrite Hw; reflexivity.
      * inversion Hn; subst. constructor; [|assumption]. cbn. rewrite Hb. cbn. assumption.
Qed.

End S.
