(* C10 for EVERY Windows path, one direction: whenever q's components are a leading run of p's components
   (the same components, prefixes spelled the same way), p.starts_with(q) holds and strip_prefix succeeds; the
   mirror image for ends_with.  (The converse fails -- a name can have the bytes of a prefix -- and equal
   prefixes spelled differently are not recognised: the recorded finding D7.)  With WinExtend.v: a base with a
   UNC / device / drive prefix and a non-empty rest, joined with a relative prefix-free b, starts with the base. *)
From Coq Require Import List NArith Bool Lia Arith.
Import ListNotations.
From TP Require Import Core CoreProofs CoreSched Path Unix Win Spec Ops UnixProofs WinProofs C02Proofs C08Proofs C10Proofs GenJoin WinSimple C16Proofs C10WinProofs WinExtend.
Open Scope N_scope.

Section IA.
Variables (st A : Type) (cs : st -> list A) (Inv : st -> Prop) (nx : st -> option (A * st)) (c_bytes : A -> list byte).
Hypothesis Hf : forall s, Inv s -> match nx s with Some (c, s') => cs s = c :: cs s' /\ Inv s' | None => cs s = [] end.

Lemma iter_after_complete : forall fuel it pre, Inv it -> Inv pre -> (length (cs pre) < fuel)%nat ->
  (exists t, cs it = cs pre ++ t) ->
  exists s, iter_after st A c_bytes nx fuel it pre = Some s /\ Inv s /\ cs it = cs pre ++ cs s.
Proof.
  induction fuel as [|f IH]; intros it pre Hi Hp Hlen (t & Ht); [lia|]. cbn [iter_after].
  pose proof (Hf it Hi) as Fi. pose proof (Hf pre Hp) as Fp.
  destruct (nx pre) as [[y pre']|].
  - destruct Fp as (Ep & Hp'). rewrite Ep in Ht. cbn [app] in Ht.
    destruct (nx it) as [[x it']|]; [|rewrite Fi in Ht; discriminate].
    destruct Fi as (Ei & Hi'). rewrite Ei in Ht. inversion Ht; subst x.
    rewrite beq_list_refl.
    destruct (IH it' pre' Hi' Hp') as (s & E & Hs & Ec); [rewrite Ep in Hlen; cbn [length] in Hlen; lia | eauto |].
    exists s. split; [exact E|]. split; [exact Hs|]. rewrite Ei, Ep, Ec. reflexivity.
  - rewrite Fp. destruct (nx it) as [[x it']|]; exists it; (split; [reflexivity|]; split; [exact Hi | reflexivity]).
Qed.
End IA.

Lemma w_nextb_rev_spec s : winv s ->
  match w_nextb s with Some (c, s') => rev (wcs s) = c :: rev (wcs s') /\ winv s' | None => rev (wcs s) = [] end.
Proof.
  intros H. pose proof (w_nextb_spec s H) as B. destruct (w_nextb s) as [[c s']|].
  - destruct B as (E & H'). split; [|exact H']. rewrite E, rev_app_distr. reflexivity.
  - rewrite B. reflexivity.
Qed.

Theorem w_starts_with_complete p q : (exists t, wspec p = wspec q ++ t) -> w_starts_with p q = true.
Proof.
  intros H. unfold w_starts_with, starts_with, ia_fuel.
  destruct (iter_after_complete wstate wcomp wcs winv w_nextf wc_bytes w_nextf_spec (S (S (length q))) (w_init p) (w_init q)
              (winv_init p) (winv_init q)) as (s & E & _).
  - rewrite wcs_init. pose proof (wspec_len q). lia.
  - rewrite !wcs_init. exact H.
  - rewrite E. reflexivity.
Qed.
Theorem w_strip_prefix_complete p q : (exists t, wspec p = wspec q ++ t) ->
  exists s, w_strip_prefix p q = Some (w_remaining s) /\ winv s /\ wspec p = wspec q ++ wcs s.
Proof.
  intros H. unfold w_strip_prefix, strip_prefix, ia_fuel.
  destruct (iter_after_complete wstate wcomp wcs winv w_nextf wc_bytes w_nextf_spec (S (S (length q))) (w_init p) (w_init q)
              (winv_init p) (winv_init q)) as (s & E & Hs & Ec).
  - rewrite wcs_init. pose proof (wspec_len q). lia.
  - rewrite !wcs_init. exact H.
  - exists s. rewrite E. rewrite !wcs_init in Ec. auto.
Qed.
Theorem w_ends_with_complete p q : (exists t, wspec p = t ++ wspec q) -> w_ends_with p q = true.
Proof.
  intros (t & H). unfold w_ends_with, ends_with, ia_fuel.
  destruct (iter_after_complete wstate wcomp (fun s => rev (wcs s)) winv w_nextb wc_bytes w_nextb_rev_spec (S (S (length q))) (w_init p) (w_init q)
              (winv_init p) (winv_init q)) as (s & E & _).
  - rewrite rev_length, wcs_init. pose proof (wspec_len q). lia.
  - rewrite !wcs_init. exists (rev t). rewrite H, rev_app_distr. reflexivity.
  - rewrite E. reflexivity.
Qed.
(* in particular a path starts with and ends with itself, whatever its prefix *)
Corollary w_starts_with_refl p : w_starts_with p p = true /\ w_ends_with p p = true.
Proof.
  split; [apply w_starts_with_complete; exists []; symmetry; apply app_nil_r | apply w_ends_with_complete; exists []; reflexivity].
Qed.

(* joining onto a base with a UNC / device / drive prefix and a non-empty rest *)
Theorem w_join_starts_with_prefixed a k r b : wprefix_grammar a = Some (k, r) -> k_verbatim k = false -> r <> [] ->
  noprefix b = true -> g_rooted wany b = false -> w_starts_with (w_push a b) a = true.
Proof.
  intros Hg Hk Hne Hb Hr. destruct b as [|b0 bt] eqn:Eb.
  - rewrite w_push_join_spec. cbn [join_spec]. apply w_starts_with_refl.
  - rewrite <- Eb in *. apply w_starts_with_complete. exists (map WC (gadded wany b)).
    apply (wspec_join_prefixed a k r b Hg Hk Hne Hb Hr). rewrite Eb. discriminate.
Qed.
Theorem w_join_strip_prefixed a k r b : wprefix_grammar a = Some (k, r) -> k_verbatim k = false -> r <> [] ->
  noprefix b = true -> g_rooted wany b = false -> b <> [] ->
  exists s, w_strip_prefix (w_push a b) a = Some (w_remaining s) /\ winv s /\ wcs s = map WC (gadded wany b).
Proof.
  intros Hg Hk Hne Hb Hr Hbne.
  pose proof (wspec_join_prefixed a k r b Hg Hk Hne Hb Hr Hbne) as W.
  destruct (w_strip_prefix_complete (w_push a b) a (ex_intro _ _ W)) as (s & E & Hs & Ec).
  exists s. split; [exact E|]. split; [exact Hs|]. rewrite W in Ec. apply app_inv_head in Ec. symmetry. exact Ec.
Qed.

(* ---------- the exact characterisation, for every pair: the relation is decided on the byte spellings ---------- *)
Section IAB.
Variables (st A : Type) (cs : st -> list A) (Inv : st -> Prop) (nx : st -> option (A * st)) (c_bytes : A -> list byte).
Hypothesis Hf : forall s, Inv s -> match nx s with Some (c, s') => cs s = c :: cs s' /\ Inv s' | None => cs s = [] end.

Lemma iter_after_bytes : forall fuel it pre, Inv it -> Inv pre -> (length (cs pre) < fuel)%nat ->
  (iter_after st A c_bytes nx fuel it pre <> None <->
   exists c1 t, cs it = c1 ++ t /\ map c_bytes c1 = map c_bytes (cs pre)).
Proof.
  induction fuel as [|f IH]; intros it pre Hi Hp Hlen; [lia|]. cbn [iter_after].
  pose proof (Hf it Hi) as Fi. pose proof (Hf pre Hp) as Fp.
  destruct (nx pre) as [[y pre']|].
  - destruct Fp as (Ep & Hp'). rewrite Ep.
    destruct (nx it) as [[x it']|].
    + destruct Fi as (Ei & Hi'). rewrite Ei.
      assert (Hlen' : (length (cs pre') < f)%nat) by (rewrite Ep in Hlen; cbn [length] in Hlen; lia).
      destruct (beq_list (c_bytes x) (c_bytes y)) eqn:Eb.
      * apply beq_list_true_iff in Eb. rewrite (IH it' pre' Hi' Hp' Hlen'). split.
        -- intros (c1 & t & E1 & E2). exists (x :: c1), t. split; [rewrite E1; reflexivity|]. cbn [map]. rewrite Eb, E2. reflexivity.
        -- intros (c1 & t & E1 & E2). destruct c1 as [|x0 c1']; [discriminate|]. cbn [map app] in *.
           inversion E1; subst x0. inversion E2. exists c1', t. auto.
      * split; [congruence|]. intros (c1 & t & E1 & E2). destruct c1 as [|x0 c1']; [discriminate|]. cbn [map app] in *.
        inversion E1; subst x0. inversion E2 as [[E3 E4]]. rewrite E3 in Eb.
        assert (X : beq_list (c_bytes y) (c_bytes y) = true) by (apply beq_list_true_iff; reflexivity). congruence.
    + rewrite Fi. split; [congruence|]. intros (c1 & t & E1 & E2). symmetry in E1. apply app_eq_nil in E1 as [-> _]. discriminate.
  - rewrite Fp. split.
    + intros _. exists [], (cs it). split; reflexivity.
    + intros _. destruct (nx it) as [[x it']|]; discriminate.
Qed.
End IAB.

Theorem w_starts_with_bytes_iff p q :
  w_starts_with p q = true <-> exists c1 t, wspec p = c1 ++ t /\ map wc_bytes c1 = map wc_bytes (wspec q).
Proof.
  unfold w_starts_with, starts_with, ia_fuel.
  pose proof (iter_after_bytes wstate wcomp wcs winv w_nextf wc_bytes w_nextf_spec (S (S (length q))) (w_init p) (w_init q)
                (winv_init p) (winv_init q)) as H.
  rewrite !wcs_init in H. pose proof (wspec_len q) as L. specialize (H ltac:(lia)).
  destruct (iter_after wstate wcomp wc_bytes w_nextf (S (S (length q))) (w_init p) (w_init q)) as [s|].
  - split; [intros _; apply H; discriminate | reflexivity].
  - split; [discriminate|]. intros X. apply H in X. congruence.
Qed.
Theorem w_ends_with_bytes_iff p q :
  w_ends_with p q = true <-> exists t c1, wspec p = t ++ c1 /\ map wc_bytes c1 = map wc_bytes (wspec q).
Proof.
  unfold w_ends_with, ends_with, ia_fuel.
  pose proof (iter_after_bytes wstate wcomp (fun s => rev (wcs s)) winv w_nextb wc_bytes w_nextb_rev_spec (S (S (length q))) (w_init p) (w_init q)
                (winv_init p) (winv_init q)) as H.
  cbv beta in H. rewrite !wcs_init in H. pose proof (wspec_len q) as L. rewrite rev_length in H. specialize (H ltac:(lia)).
  assert (R : (exists c1 t, rev (wspec p) = c1 ++ t /\ map wc_bytes c1 = map wc_bytes (rev (wspec q))) <->
              (exists t c1, wspec p = t ++ c1 /\ map wc_bytes c1 = map wc_bytes (wspec q))).
  { split.
    - intros (c1 & t & E1 & E2). exists (rev t), (rev c1). split.
      + rewrite <- (rev_involutive (wspec p)), E1, rev_app_distr. reflexivity.
      + rewrite map_rev, E2, map_rev, rev_involutive. reflexivity.
    - intros (t & c1 & E1 & E2). exists (rev c1), (rev t). split.
      + rewrite E1, rev_app_distr. reflexivity.
      + rewrite !map_rev, E2. reflexivity. }
  rewrite <- R.
  destruct (iter_after wstate wcomp wc_bytes w_nextb (S (S (length q))) (w_init p) (w_init q)) as [s|].
  - split; [intros _; apply H; discriminate | reflexivity].
  - split; [discriminate|]. intros X. apply H in X. congruence.
Qed.
Theorem w_strip_iff_starts_all p q : (exists r, w_strip_prefix p q = Some r) <-> w_starts_with p q = true.
Proof.
  unfold w_strip_prefix, strip_prefix, w_starts_with, starts_with.
  destruct (iter_after wstate wcomp wc_bytes w_nextf (ia_fuel p q) (w_init p) (w_init q)) as [s|].
  - split; [reflexivity | intros _; eauto].
  - split; [intros (r & X); discriminate | discriminate].
Qed.
