(* C10: starts_with / ends_with / strip_prefix (helpers::iter_after) against the component lists.
   First for an abstract double-ended iterator whose components are determined by their bytes,
   then instantiated at Unix. *)
From Coq Require Import List NArith Bool Lia Arith.
Import ListNotations.
From TP Require Import Core CoreProofs CoreSched Path Unix Spec Ops UnixProofs C04Proofs C05Proofs.
Open Scope N_scope.

Section IterAfter.
Variables st A : Type.
Variable cs : st -> list A.
Variable Inv : st -> Prop.
Variables nf nb : st -> option (A * st).
Variable c_bytes : A -> list byte.
Variable good : A -> Prop.
Hypothesis Hf : forall s, Inv s ->
  match nf s with Some (c, s') => cs s = c :: cs s' /\ Inv s' | None => cs s = [] end.
Hypothesis Hb : forall s, Inv s ->
  match nb s with Some (c, s') => cs s = cs s' ++ [c] /\ Inv s' | None => cs s = [] end.
Hypothesis Hgood : forall s, Inv s -> Forall good (cs s).
Hypothesis Hbytes : forall x y, good x -> good y -> (beq_list (c_bytes x) (c_bytes y) = true <-> x = y).

Notation IA := (iter_after st A c_bytes).

Lemma good_hd s c t : Inv s -> cs s = c :: t -> good c.
Proof. intros H E. pose proof (Hgood s H) as G. rewrite E in G. inversion G; assumption. Qed.
Lemma good_last s c t : Inv s -> cs s = t ++ [c] -> good c.
Proof. intros H E. pose proof (Hgood s H) as G. rewrite E in G. apply Forall_app in G as [_ G]. inversion G; assumption. Qed.

Lemma iter_after_front : forall fuel it pre, Inv it -> Inv pre -> (length (cs pre) < fuel)%nat ->
  match IA nf fuel it pre with
  | Some s => Inv s /\ cs it = cs pre ++ cs s
  | None => ~ exists t, cs it = cs pre ++ t
  end.
Proof.
  induction fuel as [|f IH]; intros it pre Hi Hp Hl; [lia|].
  cbn [iter_after]. pose proof (Hf it Hi) as Fi. pose proof (Hf pre Hp) as Fp.
  destruct (nf it) as [[x it']|]; destruct (nf pre) as [[y pre']|].
  - destruct Fi as (Ei & Hi'). destruct Fp as (Ep & Hp').
    pose proof (good_hd it x _ Hi Ei) as Gx. pose proof (good_hd pre y _ Hp Ep) as Gy.
    destruct (beq_list (c_bytes x) (c_bytes y)) eqn:Eb.
    + apply (Hbytes x y Gx Gy) in Eb. subst y.
      assert (Hl' : (length (cs pre') < f)%nat) by (rewrite Ep in Hl; cbn in Hl; lia).
      specialize (IH it' pre' Hi' Hp' Hl'). destruct (IA nf f it' pre') as [s|].
      * destruct IH as (Hs & E). split; [exact Hs|]. rewrite Ei, Ep, E. reflexivity.
      * intros (t & Et). apply IH. exists t. rewrite Ei, Ep in Et. cbn in Et. inversion Et. reflexivity.
    + intros (t & Et). rewrite Ei, Ep in Et. cbn in Et. injection Et as Exy _.
      assert (beq_list (c_bytes x) (c_bytes y) = true) by (apply (Hbytes x y Gx Gy); exact Exy). congruence.
  - destruct Fi as (Ei & Hi'). split; [exact Hi|]. rewrite Fp. reflexivity.
  - destruct Fp as (Ep & _). intros (t & Et). rewrite Fi, Ep in Et. discriminate.
  - split; [exact Hi|]. rewrite Fp. reflexivity.
Qed.

Lemma iter_after_back : forall fuel it pre, Inv it -> Inv pre -> (length (cs pre) < fuel)%nat ->
  match IA nb fuel it pre with
  | Some s => Inv s /\ cs it = cs s ++ cs pre
  | None => ~ exists t, cs it = t ++ cs pre
  end.
Proof.
  induction fuel as [|f IH]; intros it pre Hi Hp Hl; [lia|].
  cbn [iter_after]. pose proof (Hb it Hi) as Fi. pose proof (Hb pre Hp) as Fp.
  destruct (nb it) as [[x it']|]; destruct (nb pre) as [[y pre']|].
  - destruct Fi as (Ei & Hi'). destruct Fp as (Ep & Hp').
    pose proof (good_last it x _ Hi Ei) as Gx. pose proof (good_last pre y _ Hp Ep) as Gy.
    destruct (beq_list (c_bytes x) (c_bytes y)) eqn:Eb.
    + apply (Hbytes x y Gx Gy) in Eb. subst y.
      assert (Hl' : (length (cs pre') < f)%nat) by (rewrite Ep, app_length in Hl; cbn in Hl; lia).
      specialize (IH it' pre' Hi' Hp' Hl'). destruct (IA nb f it' pre') as [s|].
      * destruct IH as (Hs & E). split; [exact Hs|]. rewrite Ei, Ep, E. rewrite app_assoc. reflexivity.
      * intros (t & Et). apply IH. exists t. rewrite Ei, Ep in Et. rewrite app_assoc in Et.
        apply app_inj_tail in Et as [Et _]. exact Et.
    + intros (t & Et). rewrite Ei, Ep in Et. rewrite app_assoc in Et. apply app_inj_tail in Et as [_ Exy].
      assert (beq_list (c_bytes x) (c_bytes y) = true) by (apply (Hbytes x y Gx Gy); exact Exy). congruence.
  - destruct Fi as (Ei & Hi'). split; [exact Hi|]. rewrite Fp. rewrite app_nil_r. reflexivity.
  - destruct Fp as (Ep & _). intros (t & Et). rewrite Fi, Ep in Et. apply (f_equal (@length A)) in Et. rewrite !app_length in Et. cbn in Et. lia.
  - split; [exact Hi|]. rewrite Fp. rewrite app_nil_r. reflexivity.
Qed.
End IterAfter.

(* ---------------- Unix instance ---------------- *)
Definition ugood (c : comp) : Prop :=
  match c with Normal n => n <> [47] /\ n <> [46] /\ n <> [46; 46] | _ => True end.
Lemma beq_list_true_iff a b : beq_list a b = true <-> a = b.
Proof. split; [apply beq_list_eq | intros ->; apply beq_list_refl]. Qed.
Lemma ugood_bytes x y : ugood x -> ugood y -> (beq_list (uc_bytes x) (uc_bytes y) = true <-> x = y).
Proof.
  intros Gx Gy. rewrite beq_list_true_iff.
  destruct x as [| | |n], y as [| | |m]; cbn [uc_bytes ugood] in *; split; intros H;
    try reflexivity; try discriminate;
    try (exfalso; destruct Gy as (G1 & G2 & G3); congruence);
    try (exfalso; destruct Gx as (G1 & G2 & G3); congruence).
  - f_equal. exact H.
  - injection H as H. exact H.
Qed.
Lemma sc_good ab g : nosep usep g = true -> Forall ugood (sc true ab g).
Proof.
  intros Hn. unfold sc, seg_comp. destruct g as [|x t]; [constructor|].
  destruct (is_dotdot (x :: t)) eqn:Edd; [repeat constructor|].
  destruct (is_dot (x :: t)) eqn:Ed.
  - destruct (ab || negb true); repeat constructor.
  - constructor; [|constructor]. cbn. repeat split; intros E; rewrite E in *; cbn in *; try discriminate.
Qed.
Lemma body_good l : Forall ugood (body usep true l).
Proof.
  unfold body. destruct (split_weave usep l) as (seps & _ & _ & _ & Hn).
  induction Hn as [|g gs Hg _ IH]; [constructor|]. cbn [flat_map]. apply Forall_app. split; [apply sc_good; exact Hg | exact IH].
Qed.
Lemma cs_good s : Forall ugood (cs usep true s).
Proof.
  unfold cs, cspec. destruct (fst s).
  - apply Forall_app. split; [|apply body_good]. unfold lead_extra.
    destruct (root_ok usep (snd s)); [repeat constructor|]. destruct (true && cur_ok usep (snd s)); repeat constructor.
  - apply body_good.
Qed.

Definition UINV (s : ustate) : Prop := inv usep true s = true.
Lemma u_Hf s : UINV s -> match u_nextf s with Some (c, s') => cs usep true s = c :: cs usep true s' /\ UINV s' | None => cs usep true s = [] end.
Proof.
  intros H. pose proof (next_front_spec usep true usep_dot s H) as F. unfold u_nextf.
  destruct (next_front usep true s) as [[c s']|]; [|exact F]. destruct F as (E & HI & _). split; assumption.
Qed.
Lemma u_Hb s : UINV s -> match u_nextb s with Some (c, s') => cs usep true s = cs usep true s' ++ [c] /\ UINV s' | None => cs usep true s = [] end.
Proof.
  intros H. pose proof (next_back_spec usep true usep_dot s H) as B. unfold u_nextb.
  destruct (next_back usep true s) as [[c s']|]; [|exact B]. destruct B as (E & HI & _). split; assumption.
Qed.

Lemma ucomps_len p : (length (ucomps p) <= length p)%nat.
Proof. rewrite ucomps_cs. apply (cs_length usep true usep_dot (AtBeg, p) eq_refl). Qed.

(* starts_with: q's components are a leading run of p's *)
Theorem u_starts_with_iff p q : u_starts_with p q = true <-> exists t, ucomps p = ucomps q ++ t.
Proof.
  unfold u_starts_with, starts_with, ia_fuel.
  pose proof (iter_after_front ustate comp (cs usep true) UINV u_nextf uc_bytes ugood u_Hf (fun s _ => cs_good s) ugood_bytes
                (S (S (length q))) (u_init p) (u_init q) eq_refl eq_refl) as H.
  rewrite <- !ucomps_cs in H. pose proof (ucomps_len q).
  destruct (iter_after ustate comp uc_bytes u_nextf (S (S (length q))) (u_init p) (u_init q)) as [s|].
  - destruct H as (_ & E); [lia|]. split; [intros _; eexists; exact E | reflexivity].
  - split; [discriminate|]. intros X. exfalso. apply H; [lia | exact X].
Qed.
(* strip_prefix succeeds exactly when starts_with holds; the remainder's components are what follows *)
Theorem u_strip_prefix_spec p q :
  match u_strip_prefix p q with
  | Some r => ucomps p = ucomps q ++ ucomps r
  | None => ~ exists t, ucomps p = ucomps q ++ t
  end.
Proof.
  unfold u_strip_prefix, strip_prefix, ia_fuel.
  pose proof (iter_after_front ustate comp (cs usep true) UINV u_nextf uc_bytes ugood u_Hf (fun s _ => cs_good s) ugood_bytes
                (S (S (length q))) (u_init p) (u_init q) eq_refl eq_refl) as H.
  rewrite <- !ucomps_cs in H. pose proof (ucomps_len q).
  destruct (iter_after ustate comp uc_bytes u_nextf (S (S (length q))) (u_init p) (u_init q)) as [s|].
  - destruct H as (Hs & E); [lia|]. rewrite E. f_equal. symmetry. apply ucomps_state. exact Hs.
  - apply H. lia.
Qed.
Corollary u_strip_iff_starts p q : (exists r, u_strip_prefix p q = Some r) <-> u_starts_with p q = true.
Proof.
  rewrite u_starts_with_iff. pose proof (u_strip_prefix_spec p q) as H.
  destruct (u_strip_prefix p q) as [r|]; split.
  - intros _. eexists; exact H.
  - intros _. eexists; reflexivity.
  - intros (r & X); discriminate.
  - intros X. exfalso. apply H. exact X.
Qed.
(* ends_with: the mirror image on trailing runs *)
Theorem u_ends_with_iff p q : u_ends_with p q = true <-> exists t, ucomps p = t ++ ucomps q.
Proof.
  unfold u_ends_with, ends_with, ia_fuel.
  pose proof (iter_after_back ustate comp (cs usep true) UINV u_nextb uc_bytes ugood u_Hb (fun s _ => cs_good s) ugood_bytes
                (S (S (length q))) (u_init p) (u_init q) eq_refl eq_refl) as H.
  rewrite <- !ucomps_cs in H. pose proof (ucomps_len q).
  destruct (iter_after ustate comp uc_bytes u_nextb (S (S (length q))) (u_init p) (u_init q)) as [s|].
  - destruct H as (_ & E); [lia|]. split; [intros _; eexists; exact E | reflexivity].
  - split; [discriminate|]. intros X. exfalso. apply H; [lia | exact X].
Qed.
(* in particular whenever p equals q *)
Corollary u_eq_starts_with p q : u_path_eq p q = true -> u_starts_with p q = true /\ u_ends_with p q = true.
Proof.
  intros E. apply u_eq_iff in E. split.
  - apply u_starts_with_iff. exists []. rewrite app_nil_r. exact E.
  - apply u_ends_with_iff. exists []. exact E.
Qed.
(* q joined with the remainder equals p *)
Lemma added_idem_comps r : no_root_p r -> ucomps r <> [] -> hd Root (ucomps r) <> Cur -> added r = ucomps r.
Proof. intros Hr _ Hc. rewrite (added_spec r Hr). destruct (ucomps r) as [|[| | |n] t]; try reflexivity. cbn in Hc. congruence. Qed.

(* a joined with a relative b starts with a, and stripping a yields what b adds: b's components,
   minus a leading "." when that "." no longer starts the path (i.e. unless a is empty) *)
Theorem u_join_starts_with a b : no_root_p b -> u_starts_with (u_push a b) a = true.
Proof.
  intros Hr. apply u_starts_with_iff.
  destruct b as [|b0 bt] eqn:Eb; [exists []; cbn; rewrite app_nil_r; reflexivity|]. rewrite <- Eb in *.
  destruct a as [|a0 at_] eqn:Ea.
  - exists (ucomps (u_push [] b)). reflexivity.
  - rewrite <- Ea. exists (added b). apply u_push_comps; [exact Hr | rewrite Eb; discriminate | rewrite Ea; discriminate].
Qed.
Theorem u_join_strip a b r : no_root_p b -> b <> [] -> a <> [] ->
  u_strip_prefix (u_push a b) a = Some r -> ucomps r = added b.
Proof.
  intros Hr Hb Ha E. pose proof (u_strip_prefix_spec (u_push a b) a) as H. rewrite E in H.
  rewrite (u_push_comps a b Hr Hb Ha) in H. apply app_inv_head in H. symmetry. exact H.
Qed.
(* q joined with the remainder r of p after q is a path equal to p (component-wise), whenever the
   remainder does not start with "." (its "." would no longer start the path) *)
Theorem u_strip_then_join p q r : u_strip_prefix p q = Some r -> q <> [] -> r <> [] -> no_root_p r ->
  ucomps (u_push q r) = ucomps q ++ added r /\ ucomps p = ucomps q ++ ucomps r.
Proof.
  intros E Hq Hr Hn. pose proof (u_strip_prefix_spec p q) as H. rewrite E in H. split; [|exact H].
  apply u_push_comps; assumption.
Qed.
