(* C14, "every string slice they hand out ... is valid UTF-8 cut on character boundaries", for the
   iterators: if the input window is valid UTF-8 and every separator is an ASCII byte, then under any
   schedule of front and back steps of the generic core parser every later window (the remainders: what
   as_path / as_str show, hence parent and the remainder of strip_prefix) and every normal name handed out
   is valid UTF-8.  All cuts the parser makes are next to a separator or a "." -- ASCII bytes -- and UTF-8
   sequences never contain an ASCII byte in the middle. *)
From Coq Require Import List NArith Bool Lia Arith.
Import ListNotations.
From TP Require Import Core CoreProofs Utf8 Utf8Proofs C03Slices.
Open Scope N_scope.

(* cuts at the ends *)
Lemma Valid_cut_ascii_head x r : x < 128 -> Valid (x :: r) -> Valid [x] /\ Valid r.
Proof.
  intros Hx Hv. assert (Hk : (0 < length (x :: r))%nat) by (cbn; lia).
  exact (Valid_cut_after_ascii (x :: r) Hv 0 Hk Hx).
Qed.
Lemma Valid_split_before_ascii a s b : Valid (a ++ s :: b) -> s < 128 -> Valid a /\ Valid (s :: b).
Proof.
  intros Hv Hs.
  assert (Hk : (length a < length (a ++ s :: b))%nat) by (rewrite app_length; cbn; lia).
  assert (Hn : nth (length a) (a ++ s :: b) 0 = s) by (rewrite app_nth2 by (apply le_n); rewrite Nat.sub_diag; reflexivity).
  destruct (Valid_cut_before_ascii _ Hv (length a) Hk ltac:(rewrite Hn; exact Hs)) as [H1 H2].
  rewrite firstn_app, firstn_all, Nat.sub_diag in H1. cbn in H1. rewrite app_nil_r in H1.
  rewrite skipn_app, skipn_all, Nat.sub_diag in H2. cbn in H2. split; assumption.
Qed.
Lemma Valid_split_after_ascii a s b : Valid (a ++ s :: b) -> s < 128 -> Valid (a ++ [s]) /\ Valid b.
Proof.
  intros Hv Hs.
  assert (Hk : (length a < length (a ++ s :: b))%nat) by (rewrite app_length; cbn; lia).
  assert (Hn : nth (length a) (a ++ s :: b) 0 = s) by (rewrite app_nth2 by (apply le_n); rewrite Nat.sub_diag; reflexivity).
  destruct (Valid_cut_after_ascii _ Hv (length a) Hk ltac:(rewrite Hn; exact Hs)) as [H1 H2].
  replace (S (length a)) with (length (a ++ [s])) in H1, H2 by (rewrite app_length; cbn; lia).
  replace (a ++ s :: b) with ((a ++ [s]) ++ b) in H1, H2 by (rewrite <- app_assoc; reflexivity).
  rewrite firstn_app, firstn_all, Nat.sub_diag in H1. cbn in H1. rewrite app_nil_r in H1.
  rewrite skipn_app, skipn_all, Nat.sub_diag in H2. cbn in H2. split; assumption.
Qed.

Section V.
Variable is_sep : byte -> bool.
Variable norm : bool.
Hypothesis Hd : is_sep 46 = false.
Hypothesis Hascii : forall s, is_sep s = true -> s < 128.

Notation span := (span_nsep is_sep).
Notation skipf := (skip_front is_sep norm).
Notation skipb := (skip_back is_sep norm).

Lemma skipf_Valid : forall l, Valid l -> Valid (skipf l).
Proof.
  induction l as [|b r IH]; intros Hv; [exact Hv|].
  cbn [skip_front]. destruct (is_sep b) eqn:Hb.
  - apply IH. apply (Valid_cut_ascii_head b r (Hascii b Hb) Hv).
  - destruct (norm && (b =? 46)) eqn:Hdot; [|exact Hv].
    apply andb_true_iff in Hdot as [_ Hb46]. apply N.eqb_eq in Hb46. subst b.
    destruct r as [|c r']; [constructor|].
    destruct (is_sep c) eqn:Hc; [|exact Hv].
    apply IH. apply (Valid_cut_ascii_head 46 (c :: r') ltac:(reflexivity) Hv).
Qed.
Lemma skipb_Valid l : Valid l -> Valid (skipb l).
Proof.
  intros Hv. destruct (skipb_removed is_sep norm l) as (j & Hj & [E | [-> | (s & t & -> & Hs)]]).
  - rewrite E. constructor.
  - rewrite app_nil_r in Hj. rewrite <- Hj. exact Hv.
  - rewrite Hj in Hv. apply (Valid_split_before_ascii _ s t Hv (Hascii s Hs)).
Qed.
Lemma span_Valid l n r : span l = (n, r) -> Valid l -> Valid n /\ Valid r.
Proof.
  intros Hs Hv. destruct (span_spec is_sep _ _ _ Hs) as (E & _ & [-> | (s & r' & -> & Hsep)]).
  - rewrite app_nil_r in E. subst n. split; [exact Hv | constructor].
  - rewrite E in Hv. apply (Valid_split_before_ascii n s r' Hv (Hascii s Hsep)).
Qed.

(* one front step *)
Lemma front_Valid st l c l' : parse_front is_sep norm st l = Some (c, l') -> Valid l ->
  Valid l' /\ (forall n, c = Normal n -> Valid n).
Proof.
  assert (Hfn : forall at_beg c0 rest, filename is_sep norm at_beg l = Some (c0, rest) -> Valid l ->
            Valid (skipf rest) /\ (forall n, c0 = Normal n -> Valid n)).
  { intros at_beg c0 rest. unfold filename. destruct (span l) as [seg r] eqn:Hs. destruct seg as [|x seg'] eqn:Eseg; [discriminate|].
    rewrite <- Eseg in *. intros H Hv. injection H as Hc Hr. subst r.
    destruct (span_Valid _ _ _ Hs Hv) as (Hvn & Hvr). split; [apply skipf_Valid; exact Hvr|].
    intros n Hn. subst c0. apply (classify_normal norm) in Hn. subst n. exact Hvn. }
  destruct st; cbn [parse_front].
  - destruct l as [|b r]; [discriminate|]. destruct (is_sep b) eqn:Hb.
    + intros H Hv. inversion H; subst c l'. split; [|intros n Hn; discriminate].
      apply skipf_Valid. apply (Valid_cut_ascii_head b r (Hascii b Hb) Hv).
    + destruct (filename is_sep norm true (b :: r)) as [[c0 rest]|] eqn:Ef; [|discriminate].
      intros H Hv. inversion H; subst c0 l'. apply (Hfn true c rest Ef Hv).
  - destruct (filename is_sep norm false l) as [[c0 rest]|] eqn:Ef; [|discriminate].
    intros H Hv. inversion H; subst c0 l'. apply (Hfn false c rest Ef Hv).
Qed.

Lemma firstn1_Valid l : Valid l -> (match l with x :: _ => x < 128 | [] => True end) -> Valid (firstn 1 l).
Proof.
  destruct l as [|x r]; [intros; constructor|]. intros Hv Hx. cbn [firstn].
  apply (Valid_cut_ascii_head x r Hx Hv).
Qed.
(* one back step *)
Lemma back_Valid st l c l' : parse_back is_sep norm st l = Some (c, l') -> Valid l ->
  Valid l' /\ (forall n, c = Normal n -> Valid n).
Proof.
  unfold parse_back. intros H Hv. pose proof (skipb_Valid l Hv) as Hv1.
  assert (Hmain : forall l1, Valid l1 ->
            (let (before, seg) := rspan is_sep l1 in
             match seg with
             | [] => None
             | _ => Some (classify norm false seg,
                          match st with
                          | AtBeg => if root_ok is_sep before || cur_ok is_sep before
                                     then match skipb before with [] => firstn 1 before | nb => nb end
                                     else skipb before
                          | NotAtBeg => skipb before
                          end)
             end) = Some (c, l') -> Valid l' /\ (forall n, c = Normal n -> Valid n)).
  { intros l1 Hl1. destruct (rspan is_sep l1) as [before seg] eqn:Hr.
    destruct (rspan_spec is_sep Hd _ _ _ Hr) as (E1 & _ & Hbef & _).
    destruct seg as [|x seg'] eqn:Eseg; [discriminate|]. rewrite <- Eseg in *.
    intros H0. injection H0 as Hc Hrest.
    assert (Hvs : Valid before /\ Valid seg).
    { destruct Hbef as [-> | (b' & s & -> & Hs)].
      - cbn [app] in E1. subst l1. split; [constructor | exact Hl1].
      - rewrite E1, <- app_assoc in Hl1. cbn [app] in Hl1.
        apply (Valid_split_after_ascii b' s seg Hl1 (Hascii s Hs)). }
    destruct Hvs as (Hvb & Hvseg).
    split.
    - pose proof (skipb_Valid before Hvb) as Hsb.
      assert (Hf1 : root_ok is_sep before || cur_ok is_sep before = true -> Valid (firstn 1 before)).
      { intros Hrc. apply firstn1_Valid; [exact Hvb|]. destruct before as [|y t]; [exact I|].
        apply orb_true_iff in Hrc as [Hr0 | Hc0].
        - cbn [root_ok] in Hr0. apply Hascii. exact Hr0.
        - destruct t as [|z t']; cbn [cur_ok] in Hc0.
          + apply N.eqb_eq in Hc0. subst y. reflexivity.
          + apply andb_true_iff in Hc0 as [Hc0 _]. apply N.eqb_eq in Hc0. subst y. reflexivity. }
      rewrite <- Hrest. destruct st; [|exact Hsb].
      destruct (root_ok is_sep before || cur_ok is_sep before) eqn:Erc; [|exact Hsb].
      destruct (skipb before) as [|y t] eqn:Esb; [apply Hf1; reflexivity | exact Hsb].
    - intros n Hn. subst c. apply (classify_normal norm) in Hn. subst n. exact Hvseg. }
  destruct st.
  - destruct (skipb l) as [|z t] eqn:El1.
    + destruct (parse_front is_sep norm AtBeg l) as [[c0 l0]|] eqn:Ef; [|discriminate].
      inversion H; subst c0 l'. split; [constructor|].
      intros n Hn. subst c. exfalso.
      pose proof (front_spec is_sep norm Hd AtBeg l eq_refl) as Hf. rewrite Ef in Hf.
      destruct Hf as (Hc & _ & _). cbn [cspec] in Hc. rewrite (skipb_nil_body is_sep norm Hd l El1), app_nil_r in Hc.
      unfold lead_extra in Hc. destruct (root_ok is_sep l); [inversion Hc|].
      destruct (norm && cur_ok is_sep l); [inversion Hc | discriminate].
    + apply (Hmain (z :: t) Hv1 H).
  - destruct (skipb l) as [|z t] eqn:El1.
    + cbn in H. discriminate.
    + apply (Hmain (z :: t) Hv1 H).
Qed.

(* every schedule: the windows stay valid and the names handed out are valid *)
Theorem sched_Valid sched : forall s, Valid (snd s) ->
  Forall (fun x : option comp * (pstate * list byte) =>
            Valid (snd (snd x)) /\ (forall n, fst x = Some (Normal n) -> Valid n))
         (sched_run (next_front is_sep norm) (next_back is_sep norm) s sched).
Proof.
  induction sched as [|d r IH]; intros [st l] Hv; [constructor|].
  cbn [sched_run snd]. destruct d.
  - unfold next_back. cbn [fst snd].
    destruct (parse_back is_sep norm st l) as [[c l']|] eqn:Eb.
    + destruct (back_Valid st l c l' Eb Hv) as (Hl' & Hn).
      constructor; [cbn [fst snd]; split; [exact Hl' | intros n E; inversion E; subst c; apply (Hn n eq_refl)]|].
      apply (IH (st, l') Hl').
    + constructor; [cbn [fst snd]; split; [exact Hv | intros n E; discriminate]|]. apply (IH (st, l) Hv).
  - unfold next_front. cbn [fst snd].
    destruct (parse_front is_sep norm st l) as [[c l']|] eqn:Ef.
    + destruct (front_Valid st l c l' Ef Hv) as (Hl' & Hn).
      constructor; [cbn [fst snd]; split; [exact Hl' | intros n E; inversion E; subst c; apply (Hn n eq_refl)]|].
      apply (IH (NotAtBeg, l') Hl').
    + constructor; [cbn [fst snd]; split; [exact Hv | intros n E; discriminate]|]. apply (IH (st, l) Hv).
Qed.
End V.

(* ---------- the Unix instance ---------- *)
From TP Require Import Path Unix UnixProofs C13Proofs.

Theorem u_sched_Valid p sched : Valid p ->
  Forall (fun x : option comp * ustate =>
            Valid (u_remaining (snd x)) /\ (forall n, fst x = Some (Normal n) -> Valid n))
         (sched_run u_nextf u_nextb (u_init p) sched).
Proof. intros Hv. exact (sched_Valid usep true usep_dot usep_ascii sched (u_init p) Hv). Qed.

(* parent (the remainder after one back step) *)
Theorem u_parent_Valid l r : Valid l -> u_parent l = Some r -> Valid r.
Proof.
  intros Hv. unfold u_parent, parent, u_nextb, u_init, next_back, u_remaining. cbn [fst snd].
  destruct (parse_back usep true AtBeg l) as [[c l']|] eqn:Eb; [|discriminate].
  destruct (c_is_normal c || c_is_current c || c_is_parent c); [|discriminate].
  intros H. inversion H; subst r. cbn [snd].
  exact (proj1 (back_Valid usep true usep_dot usep_ascii AtBeg l c l' Eb Hv)).
Qed.
(* the remainder of strip_prefix (a window reached by front steps only) *)
Lemma u_iter_after_Valid : forall fuel (it pre s : ustate), Valid (snd it) ->
  iter_after ustate comp uc_bytes u_nextf fuel it pre = Some s -> Valid (snd s).
Proof.
  induction fuel as [|f IH]; intros [st l] pre s Hv; [discriminate|].
  cbn [iter_after]. unfold u_nextf at 1, next_front at 1. cbn [fst snd].
  destruct (parse_front usep true st l) as [[x l']|] eqn:Ef.
  - destruct (u_nextf pre) as [[y pre']|].
    + destruct (beq_list (uc_bytes x) (uc_bytes y)); [|discriminate].
      apply IH. cbn [snd]. exact (proj1 (front_Valid usep true usep_ascii st l x l' Ef Hv)).
    + intros H. inversion H; subst s. exact Hv.
  - destruct (u_nextf pre) as [[y pre']|]; [discriminate|]. intros H. inversion H; subst s. exact Hv.
Qed.
Theorem u_strip_prefix_Valid l base r : Valid l -> u_strip_prefix l base = Some r -> Valid r.
Proof.
  intros Hv. unfold u_strip_prefix, strip_prefix.
  destruct (iter_after ustate comp uc_bytes u_nextf (ia_fuel l base) (u_init l) (u_init base)) as [s|] eqn:E; [|discriminate].
  intros H. inversion H; subst r. apply (u_iter_after_Valid _ (u_init l) (u_init base) s Hv E).
Qed.

(* ---------- the Windows body (what follows the prefix): the same core with \ and / as separators ---------- *)
From TP Require Import Win WinProofs.
Lemma wsep_ascii norm s : wsep norm s = true -> s < 128.
Proof.
  unfold wsep. intros H. apply orb_true_iff in H as [H | H].
  - apply N.eqb_eq in H. subst. reflexivity.
  - apply andb_true_iff in H as [_ H]. apply N.eqb_eq in H. subst. reflexivity.
Qed.
Theorem w_body_sched_Valid norm sched s : Valid (snd s) ->
  Forall (fun x : option comp * (pstate * list byte) =>
            Valid (snd (snd x)) /\ (forall n, fst x = Some (Normal n) -> Valid n))
         (sched_run (next_front (wsep norm) norm) (next_back (wsep norm) norm) s sched).
Proof. intros Hv. exact (sched_Valid (wsep norm) norm (wsep_dot norm) (wsep_ascii norm) sched s Hv). Qed.
