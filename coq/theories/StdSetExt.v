(* C13, last sentence: "for Unix paths the resulting bytes equal those produced by
   std::path::PathBuf::set_extension".  The transcription of std (StdUnix.s_set_extension) truncates the
   buffer where its back iterator stops trimming; the model truncates at back_off + length of the file
   name.  Both are the length of skip_back of the buffer, so the two functions coincide on every input. *)
From Coq Require Import List NArith Bool Lia Arith.
Import ListNotations.
From TP Require Import Core CoreProofs CoreSched Deq Path Unix StdUnix Spec Ops UnixProofs StdProofs StdParentBytes C13Proofs.
Open Scope N_scope.

(* where the model's file name ends *)
Lemma u_file_name_skipb l n : u_file_name l = Some n ->
  skipb l <> [] /\ length (skipb l) = (u_back_off (u_init l) + length n)%nat.
Proof.
  unfold u_file_name, file_name, u_nextb, next_back, u_init, u_back_off, back_off. cbn [fst snd].
  unfold parse_back. destruct (skipb l) as [|z l1'] eqn:El1.
  - pose proof (front_spec usep true usep_dot AtBeg l eq_refl) as Hf.
    destruct (parse_front usep true AtBeg l) as [[c l']|]; [|discriminate].
    destruct Hf as (Hc & _ & _). cbn [cspec] in Hc. rewrite (skipb_nil_body usep true usep_dot l El1), app_nil_r in Hc.
    unfold lead_extra in Hc. destruct (root_ok usep l); [inversion Hc; subst; discriminate|].
    destruct (true && cur_ok usep l); [inversion Hc; subst; discriminate | discriminate].
  - assert (Hne : skipb l <> []) by (rewrite El1; discriminate).
    destruct (back_decomp_j usep true usep_dot l Hne) as (before & seg & j & Hr & Hl & Hseg & Hn & Hbef & Hsc & Hnd & Hbody & Hj).
    rewrite El1 in Hr. rewrite Hr. destruct seg as [|x seg'] eqn:Eseg; [congruence|]. rewrite <- Eseg in *.
    cbn [fst]. intros H.
    assert (Hcl : classify true false seg = Normal n).
    { destruct (classify true false seg) eqn:Ec; cbn in H; try discriminate. inversion H; subst. reflexivity. }
    cbn [andb] in Hnd. unfold classify in Hcl. destruct (is_dotdot seg) eqn:Edd; [discriminate|]. rewrite Hnd in Hcl.
    inversion Hcl; subst n.
    split; [discriminate|].
    destruct (rspan_spec usep usep_dot _ _ _ Hr) as (E & _). rewrite E, app_length. reflexivity.
Qed.

(* where std's trimming loop stops: the loop of s_set_extension, named *)
Fixpoint find_end (fuel : nat) (c : scomps) : nat :=
  match fuel with
  | O => length (s_path c)
  | S f => if Nat.ltb (s_len_before_body c) (length (s_path c)) then
             let (size, cm) := s_next_comp_back c in
             match cm with
             | Some _ => length (s_path c)
             | None => find_end f (s_with_path c (drop_last size (s_path c)))
             end
           else length (s_path c)
  end.
Lemma s_set_extension_unfold buf ext :
  s_set_extension buf ext =
  match s_file_name buf, s_file_stem buf with
  | Some n, Some stem =>
      let stem_end := (find_end (S (length buf)) (s_init buf) - (length n - length stem))%nat in
      let b1 := firstn stem_end buf in
      (match ext with [] => b1 | _ => b1 ++ 46 :: ext end, true)
  | _, _ => (buf, false)
  end.
Proof. reflexivity. Qed.

Lemma find_end_skipb : forall fuel c, s_front c = SStartDir -> s_back c = SBody -> s_root c = root_ok usep (s_path c) ->
  (length (s_path c) < fuel)%nat -> skipb (s_path c) <> [] -> find_end fuel c = length (skipb (s_path c)).
Proof.
  induction fuel as [|f IH]; intros c Hf Hb Hr Hl Hne; [lia|].
  cbn [find_end]. rewrite (lbb_leadb c Hf), (leadb_lead c Hr).
  destruct (Nat.ltb (length (LEAD (s_path c))) (length (s_path c))) eqn:Elt.
  - apply Nat.ltb_lt in Elt. unfold s_next_comp_back. rewrite (lbb_leadb c Hf), (leadb_lead c Hr), ssep_usep.
    destruct (span_nsep usep (rev (skipn (length (LEAD (s_path c))) (s_path c)))) as [seg_r rest_r] eqn:Hs.
    destruct (back_seg (s_path c) seg_r rest_r Elt Hs) as (Hlen & Hlead & Hnone & Hsome).
    destruct (s_single (rev seg_r)) as [x|] eqn:Ex.
    + destruct (Hsome x eq_refl) as (_ & E & _). rewrite E. reflexivity.
    + destruct (Hnone eq_refl) as (_ & E). rewrite <- E.
      set (p' := drop_last (length seg_r + match rest_r with [] => 0 | _ => 1 end) (s_path c)) in *.
      apply (IH (s_with_path c p')); cbn [s_with_path s_front s_back s_root s_path]; try assumption.
      * rewrite Hr, !root_ok_lead, Hlead. reflexivity.
      * lia.
      * rewrite E. exact Hne.
  - apply Nat.ltb_ge in Elt. destruct (tkl_lead_only (s_path c) Elt) as (_ & E). congruence.
Qed.

(* the two set_extension functions are the same function *)
Theorem set_extension_bytes buf ext : s_set_extension buf ext = u_set_extension buf ext.
Proof.
  rewrite s_set_extension_unfold. unfold u_set_extension, set_extension. fold u_file_name u_file_stem.
  rewrite s_file_name_spec, s_file_stem_spec.
  destruct (u_file_name buf) as [n|] eqn:En; [|reflexivity].
  destruct (u_file_stem buf) as [stem|]; [|reflexivity].
  unfold name_end. fold u_file_name. rewrite En.
  destruct (u_file_name_skipb buf n En) as (Hne & Hlen).
  assert (Hr0 : s_root (s_init buf) = root_ok usep (s_path (s_init buf))) by (cbn; destruct buf; reflexivity).
  rewrite (find_end_skipb (S (length buf)) (s_init buf) eq_refl eq_refl Hr0); [|cbn [s_init s_path]; lia | exact Hne].
  cbn [s_init s_path]. rewrite Hlen. reflexivity.
Qed.
