(* Joining in the prefix-free fragment, for ANY separator test: what the components of
   "base, optional separator, p" are.  Unix is the instance (usep, '/'); the non-verbatim Windows
   paths without UNC / verbatim / device prefix are the instance (either slash, '\'), after an
   optional drive prefix has been split off (WinSimple.v). *)
From Coq Require Import List NArith Bool Lia Arith.
Import ListNotations.
From TP Require Import Core CoreProofs CoreSched Path.
Open Scope N_scope.

Section G.
Variable is_sep : byte -> bool.
Variable psep : byte.
Hypothesis Hdot : is_sep 46 = false.
Hypothesis Hpsep : is_sep psep = true.

Notation BODY := (body is_sep true).
Notation LEAD := (lead_extra is_sep true).
Definition gcomps (l : list byte) : list comp := LEAD l ++ BODY l.
Lemma gcomps_spec l : gcomps l = spec_comps is_sep true l.
Proof. unfold gcomps. symmetry. apply (spec_comps_cspec is_sep true Hdot). Qed.

Definition g_rooted (p : list byte) : bool := root_ok is_sep p.
Definition g_ends_sep (l : list byte) : bool := match rev l with b :: _ => is_sep b | [] => false end.
(* the rule: p itself when rooted or the base is empty; otherwise exactly one separator between the two
   unless the base already ends in one *)
Definition gjoin (a p : list byte) : list byte :=
  match p with
  | [] => a
  | _ => if g_rooted p then p
         else match a with
              | [] => p
              | _ => if g_ends_sep a then a ++ p else a ++ psep :: p
              end
  end.

Lemma lead_app_keep (base rest : list byte) :
  base <> [] -> (match base with [_] => match rest with b :: _ => is_sep b = true | [] => True end | _ => True end) ->
  LEAD (base ++ rest) = LEAD base.
Proof.
  intros Hb Hs. destruct base as [|x [|y t]]; [congruence| |].
  - cbn [app]. unfold lead_extra. cbn [root_ok cur_ok]. destruct rest as [|b r]; [reflexivity|]. rewrite Hs. rewrite andb_true_r. reflexivity.
  - cbn [app]. apply lead_extra_cons2.
Qed.
(* what a relative p contributes: its components minus a leading "." *)
Definition gadded (p : list byte) : list comp := BODY p.
Lemma body_no_root_cur_g l : Forall (fun c => c <> Root /\ c <> Cur) (BODY l).
Proof.
  unfold body. apply Forall_forall. intros c Hin. apply in_flat_map in Hin as (g & _ & Hg).
  unfold sc, seg_comp in Hg. destruct g as [|y g']; [destruct Hg|].
  destruct (is_dotdot (y :: g')); [destruct Hg as [<-|[]]; split; discriminate|].
  destruct (is_dot (y :: g')); cbn in Hg; [destruct Hg | destruct Hg as [<-|[]]; split; discriminate].
Qed.
Lemma gadded_spec p : g_rooted p = false -> gadded p = match gcomps p with Cur :: t => t | l => l end.
Proof.
  intros Hr. unfold gadded, gcomps, lead_extra. unfold g_rooted in Hr. rewrite Hr.
  destruct (true && cur_ok is_sep p); cbn [app]; [reflexivity|].
  destruct (BODY p) as [|c0 t0] eqn:Eb; [reflexivity|]. destruct c0; try reflexivity.
  exfalso. pose proof (body_no_root_cur_g p) as H. rewrite Eb in H. inversion H as [|? ? [_ H1] _]. congruence.
Qed.

Lemma ends_sep_snoc l : g_ends_sep l = true -> exists l0 s, l = l0 ++ [s] /\ is_sep s = true.
Proof.
  unfold g_ends_sep. destruct (rev l) as [|b t] eqn:E; [discriminate|]. intros H. exists (rev t), b. split; [|exact H].
  apply (f_equal (@rev byte)) in E. rewrite rev_involutive in E. exact E.
Qed.
Theorem gjoin_comps base p : g_rooted p = false -> p <> [] -> base <> [] ->
  gcomps (gjoin base p) = gcomps base ++ gadded p.
Proof.
  intros Hr Hp Hb. unfold gjoin. destruct p as [|p0 pt] eqn:Ep; [congruence|]. rewrite <- Ep in *. rewrite Hr.
  destruct base as [|x0 t0] eqn:Eb0; [congruence|]. rewrite <- Eb0 in *.
  unfold gcomps, gadded.
  destruct (g_ends_sep base) eqn:Ee.
  - destruct (ends_sep_snoc base Ee) as (b0 & s & Hb0 & Hs). rewrite Hb0. rewrite <- app_assoc. cbn [app].
    rewrite (body_app_sep is_sep true b0 p s Hs). rewrite (body_snoc_sep is_sep true b0 s Hs).
    rewrite app_assoc. f_equal. f_equal.
    destruct b0 as [|y b0'].
    { cbn [app]. rewrite (lead_extra_sep is_sep true s p Hs). rewrite (lead_extra_sep is_sep true s [] Hs). reflexivity. }
    change ((y :: b0') ++ s :: p) with ((y :: b0') ++ [s] ++ p). rewrite app_assoc.
    apply lead_app_keep; [destruct b0'; discriminate|]. destruct b0'; exact I.
  - rewrite (body_app_sep is_sep true base p psep Hpsep). rewrite app_assoc. f_equal. f_equal.
    apply lead_app_keep; [rewrite Eb0; discriminate|]. destruct base as [|y [|z t]]; try exact I. exact Hpsep.
Qed.
(* the four cases together *)
Theorem gjoin_comps_all base p :
  gcomps (gjoin base p) =
  match p with
  | [] => gcomps base
  | _ => if g_rooted p then gcomps p
         else match base with [] => gcomps p | _ => gcomps base ++ gadded p end
  end.
Proof.
  destruct p as [|p0 pt] eqn:Ep; [reflexivity|]. rewrite <- Ep.
  destruct (g_rooted p) eqn:Hr.
  - unfold gjoin. rewrite Ep. rewrite <- Ep. rewrite Hr. reflexivity.
  - destruct base as [|b0 bt] eqn:Eb.
    + unfold gjoin. rewrite Ep. rewrite <- Ep. rewrite Hr. reflexivity.
    + rewrite <- Eb. apply gjoin_comps; [exact Hr | rewrite Ep; discriminate | rewrite Eb; discriminate].
Qed.

(* names that occur as Normal components *)
Definition gn (n : list byte) : Prop :=
  nosep is_sep n = true /\ n <> [] /\ is_dot n = false /\ is_dotdot n = false.
Lemma gn_hd n : gn n -> exists b r, n = b :: r /\ is_sep b = false.
Proof.
  intros (Hn & Hne & _). destruct n as [|b r]; [congruence|]. exists b, r. split; [reflexivity|].
  cbn in Hn. apply andb_true_iff in Hn as [Hb _]. apply negb_true_iff in Hb. exact Hb.
Qed.
Lemma body_gn n : gn n -> BODY n = [Normal n].
Proof.
  intros (Hn & Hne & Hd & Hdd). rewrite (body_nosep is_sep true n Hn). unfold sc, seg_comp.
  destruct n as [|x t]; [congruence|]. rewrite Hdd, Hd. reflexivity.
Qed.
Lemma span_nosep_whole n : nosep is_sep n = true -> span_nsep is_sep n = (n, []).
Proof.
  induction n as [|b r IH]; intros H; [reflexivity|]. cbn in H. apply andb_true_iff in H as [Hb Hr]. apply negb_true_iff in Hb.
  cbn [span_nsep]. rewrite Hb, (IH Hr). reflexivity.
Qed.
Lemma gcomps_gn n : gn n -> gcomps n = [Normal n].
Proof.
  intros G. unfold gcomps. rewrite (body_gn n G).
  destruct (gn_hd n G) as (b & r & E & Hb). destruct G as (Hn & Hne & Hd & Hdd).
  unfold lead_extra. rewrite (cur_ok_span is_sep Hdot n n [] (span_nosep_whole n Hn)). rewrite Hd.
  rewrite E. cbn [root_ok]. rewrite Hb. reflexivity.
Qed.
Lemma gn_not_rooted n : gn n -> g_rooted n = false.
Proof. intros G. destruct (gn_hd n G) as (b & r & -> & Hb). exact Hb. Qed.
Lemma gjoin_gn buf n : gn n -> gcomps (gjoin buf n) = gcomps buf ++ [Normal n].
Proof.
  intros G. rewrite gjoin_comps_all. destruct n as [|n0 nt] eqn:En; [destruct G as (_ & H & _); congruence|]. rewrite <- En in *.
  rewrite (gn_not_rooted n G). destruct buf as [|b0 bt]; [rewrite (gcomps_gn n G); reflexivity|].
  unfold gadded. rewrite (body_gn n G). reflexivity.
Qed.
End G.
