(* C16: encoding conversion.  Unix -> Windows for Unix paths whose names are valid Windows file names,
   Windows -> Unix for prefix-free Windows paths, the round trip, the checked form. *)
From Coq Require Import List NArith Bool Lia Arith.
Import ListNotations.
From TP Require Import Core CoreProofs CoreSched Path Unix Win Spec Ops UnixProofs C02Proofs C04Proofs C08Proofs C11Proofs GenJoin WinSimple.
Open Scope N_scope.

(* converting a path to its own encoding returns the same bytes (both directions share Path::with_encoding) *)
Theorem same_encoding_identity l :
  with_encoding ustate comp u_init u_nextf uc_bytes c_is_root c_is_parent c_is_current u_push [47] [46] [46;46] true l = l
  /\ with_encoding wstate wcomp w_init w_nextf wc_bytes wc_is_root wc_is_parent wc_is_current w_push [92] [46] [46;46] true l = l.
Proof. split; reflexivity. Qed.

(* ---------------- Unix -> Windows ---------------- *)
Notation UW_STEP := (conv_step comp uc_bytes c_is_root c_is_parent c_is_current w_push [92] [46] [46; 46]).
Lemma u_to_w_fold l : u_to_w l = fold_left UW_STEP (ucomps l) [].
Proof.
  unfold u_to_w, with_encoding.
  change (front_all ustate comp u_nextf (S (length l)) (u_init l)) with (u_components l).
  rewrite u_components_spec. reflexivity.
Qed.

(* a name that is a file name in both encodings: no separator of either kind, no ':' (hence no drive look-alike) *)
Definition both_name (n : list byte) : Prop :=
  gn wany n /\ name_valid w_forbidden n = true.
Definition both_comp (c : comp) : Prop := match c with Normal n => both_name n | _ => True end.

Lemma valid_no_colon n : name_valid w_forbidden n = true -> forall b, In b n -> b <> 58.
Proof.
  unfold name_valid. rewrite forallb_forall. intros H b Hb E. subst. specialize (H 58 Hb). cbn in H. discriminate.
Qed.
Lemma both_name_noprefix n : both_name n -> noprefix n = true.
Proof.
  intros (G & V). destruct (gn_hd wany n G) as (b & r & -> & Hb).
  unfold noprefix. assert (H2 : two_seps (b :: r) = false).
  { destruct r as [|c t]; [reflexivity|]. cbn [two_seps]. change (s_sep_any b) with (wany b). rewrite Hb. reflexivity. }
  rewrite H2. cbn [negb andb]. unfold disk_at. destruct r as [|c t]; [reflexivity|].
  destruct (c =? 58) eqn:Ec; [|rewrite andb_false_r; reflexivity].
  exfalso. apply N.eqb_eq in Ec. apply (valid_no_colon _ V c); [right; left; reflexivity | exact Ec].
Qed.
Lemma noprefix_single b : noprefix [b] = true.
Proof. reflexivity. Qed.
Lemma noprefix_dotdot : noprefix [46; 46] = true.
Proof. reflexivity. Qed.

(* pushing onto a prefix-free buffer: the rule table is the generic join, and the result stays prefix-free *)
Lemma w_push_plain buf p : noprefix buf = true -> noprefix p = true -> w_push buf p = WJOIN buf p.
Proof. intros Hb Hp. rewrite w_push_join_spec. apply join_spec_plain; assumption. Qed.

Definition uw_ok (buf : list byte) (acc : list comp) : Prop := noprefix buf = true /\ WCOMPS buf = acc.

Lemma uw_step_tail buf acc c : uw_ok buf acc -> c <> Root -> c <> Cur -> both_comp c ->
  uw_ok (UW_STEP buf c) (acc ++ [c]).
Proof.
  intros (Hn & Hc) Hr Hcu Hb. destruct c as [| | |n]; try congruence; unfold conv_step; cbn [c_is_root c_is_current c_is_parent uc_bytes].
  - (* Parent *)
    rewrite (w_push_plain buf [46;46] Hn noprefix_dotdot). split.
    + apply noprefix_join; [exact Hn | reflexivity | reflexivity].
    + rewrite (gjoin_comps_all wany 92 wany_92). cbn [g_rooted root_ok]. change (wany 46) with false. cbn iota.
      destruct buf as [|b0 bt]; [rewrite <- Hc; reflexivity|]. rewrite Hc. reflexivity.
  - (* Normal *)
    cbn in Hb. destruct Hb as (G & V). pose proof (both_name_noprefix n (conj G V)) as Hpn.
    rewrite (w_push_plain buf n Hn Hpn). split.
    + apply noprefix_join; [exact Hn | exact Hpn | apply (gn_not_rooted wany n G)].
    + rewrite (gjoin_gn wany 92 wany_dot wany_92 buf n G). rewrite Hc. reflexivity.
Qed.
Lemma uw_fold_tail cs : forall buf acc, uw_ok buf acc -> Forall (fun c => c <> Root /\ c <> Cur) cs -> Forall both_comp cs ->
  uw_ok (fold_left UW_STEP cs buf) (acc ++ cs).
Proof.
  induction cs as [|c cs IH]; intros buf acc H Hnr Hb; cbn [fold_left]; [rewrite app_nil_r; exact H|].
  inversion Hnr as [|? ? (H1 & H2) Hnr']; subst. inversion Hb as [|? ? Hb1 Hb']; subst.
  replace (acc ++ c :: cs) with ((acc ++ [c]) ++ cs) by (rewrite <- app_assoc; reflexivity).
  apply IH; [apply uw_step_tail; assumption | assumption | assumption].
Qed.
(* a Unix path whose names are file names in both encodings converts to a Windows path with the same
   sequence of component kinds and names *)
Theorem u_to_w_comps l : Forall both_comp (ucomps l) -> wspec (u_to_w l) = map WC (ucomps l).
Proof.
  intros Hb. rewrite u_to_w_fold. destruct (ucomps_shape l) as (h & t & E & Hh & Ht). rewrite E in *.
  apply Forall_app in Hb as [_ Hbt].
  assert (Hstart : uw_ok (fold_left UW_STEP h []) h).
  { destruct Hh as [-> | [-> | ->]]; cbn [fold_left]; unfold conv_step; cbn [c_is_root c_is_current c_is_parent];
      (split; [reflexivity | reflexivity]). }
  rewrite fold_left_app. destruct (uw_fold_tail t _ h Hstart Ht Hbt) as (Hn & Hc).
  rewrite (wspec_plain _ Hn), Hc. reflexivity.
Qed.

(* ---------------- Windows -> Unix (prefix-free source) ---------------- *)
Notation WU_STEP := (conv_step wcomp wc_bytes wc_is_root wc_is_parent wc_is_current u_push [47] [46] [46; 46]).
Lemma w_to_u_fold l : w_to_u l = fold_left WU_STEP (wspec l) [].
Proof.
  unfold w_to_u, with_encoding.
  change (front_all wstate wcomp w_nextf (S (length l)) (w_init l)) with (w_components l).
  rewrite w_components_wspec. reflexivity.
Qed.
(* a Windows name never holds a '/' , so it is a Unix name as it stands *)
Lemma gn_wany_usep n : gn wany n -> gname n.
Proof.
  intros (Hn & Hne & Hd & Hdd). repeat split; try assumption.
  unfold nosep in *. rewrite forallb_forall in *. intros b Hb. specialize (Hn b Hb).
  apply negb_true_iff in Hn. apply negb_true_iff. unfold wsep in Hn. unfold usep.
  destruct (b =? 47); [rewrite orb_true_r in Hn; discriminate | reflexivity].
Qed.
Definition gn_comp (c : comp) : Prop := match c with Normal n => gn wany n | _ => True end.
Lemma wu_step_tail buf c : c <> Root -> c <> Cur -> gn_comp c -> ucomps (WU_STEP buf (WC c)) = ucomps buf ++ [c].
Proof.
  intros Hr Hcu G. destruct c as [| | |n]; try congruence; unfold conv_step; cbn [wc_is_root wc_is_current wc_is_parent wc_bytes].
  - (* Parent: ".." is pushed like a name *)
    destruct buf as [|b0 bt] eqn:Eb.
    + reflexivity.
    + rewrite <- Eb. rewrite (u_push_comps buf [46;46]); [reflexivity | reflexivity | discriminate | rewrite Eb; discriminate].
  - apply u_push_gname. apply gn_wany_usep. exact G.
Qed.
Lemma wu_fold_tail cs : forall buf, Forall (fun c => c <> Root /\ c <> Cur) cs -> Forall gn_comp cs ->
  ucomps (fold_left WU_STEP (map WC cs) buf) = ucomps buf ++ cs.
Proof.
  induction cs as [|c cs IH]; intros buf Hnr Hg; cbn [fold_left map]; [rewrite app_nil_r; reflexivity|].
  inversion Hnr as [|? ? (H1 & H2) Hnr']; subst. inversion Hg as [|? ? Hg1 Hg']; subst.
  rewrite (IH _ Hnr' Hg'). rewrite (wu_step_tail buf c H1 H2 Hg1). rewrite <- app_assoc. reflexivity.
Qed.
(* shape and names of the generic component list *)
Lemma wcomps_shape l : exists h t, WCOMPS l = h ++ t /\ (h = [] \/ h = [Root] \/ h = [Cur]) /\
  Forall (fun c => c <> Root /\ c <> Cur) t /\ Forall gn_comp t.
Proof.
  exists (lead_extra wany true l), (body wany true l). split; [reflexivity|]. split.
  - unfold lead_extra. destruct (root_ok wany l); [auto|]. destruct (true && cur_ok wany l); auto.
  - split; [apply body_no_root_cur_g|].
    unfold body. destruct (split_weave wany l) as (seps & _ & _ & _ & Hn).
    induction Hn as [|g gs Hg _ IH]; [constructor|]. cbn [flat_map]. apply Forall_app. split; [|exact IH].
    unfold sc, seg_comp. destruct g as [|x t]; [constructor|].
    destruct (is_dotdot (x :: t)) eqn:Edd; [repeat constructor|].
    destruct (is_dot (x :: t)) eqn:Ed; [cbn; constructor|].
    constructor; [|constructor]. cbn. repeat split; try assumption. discriminate.
Qed.
Theorem w_to_u_comps l : noprefix l = true -> ucomps (w_to_u l) = WCOMPS l.
Proof.
  intros Hn. rewrite w_to_u_fold, (wspec_plain l Hn).
  destruct (wcomps_shape l) as (h & t & E & Hh & Ht & Hg). rewrite E, map_app, fold_left_app.
  rewrite (wu_fold_tail t _ Ht Hg). f_equal.
  destruct Hh as [-> | [-> | ->]]; reflexivity.
Qed.
(* so a prefix-free path whose names are file names in both encodings survives the round trip as an equal path *)
Theorem u_w_u_roundtrip l : Forall both_comp (ucomps l) -> ucomps (w_to_u (u_to_w l)) = ucomps l.
Proof.
  intros Hb. rewrite u_to_w_fold. destruct (ucomps_shape l) as (h & t & E & Hh & Ht). rewrite E in *.
  pose proof Hb as Hb0. apply Forall_app in Hb as [_ Hbt].
  assert (Hstart : uw_ok (fold_left UW_STEP h []) h).
  { destruct Hh as [-> | [-> | ->]]; cbn [fold_left]; unfold conv_step; cbn [c_is_root c_is_current c_is_parent];
      (split; [reflexivity | reflexivity]). }
  rewrite fold_left_app. destruct (uw_fold_tail t _ h Hstart Ht Hbt) as (Hn & Hc).
  rewrite (w_to_u_comps _ Hn). exact Hc.
Qed.

(* ---------------- checked conversion, Unix -> Windows ---------------- *)
Notation UW_CHK := (conv_checked comp uc_bytes c_is_root c_is_parent c_is_current w_push w_push_checked [92] [46] [46; 46]).
Lemma u_to_w_checked_fold l : u_to_w_checked l = UW_CHK (ucomps l) [].
Proof.
  unfold u_to_w_checked, with_encoding_checked.
  change (front_all ustate comp u_nextf (S (length l)) (u_init l)) with (u_components l).
  rewrite u_components_spec. reflexivity.
Qed.
Lemma wspec_both_name n : both_name n -> wspec n = [WC (Normal n)].
Proof. intros B. rewrite (wspec_plain n (both_name_noprefix n B)). destruct B as (G & _). rewrite (gcomps_gn wany wany_dot n G). reflexivity. Qed.
Lemma w_push_checked_name buf n : both_name n -> w_push_checked buf n = (w_push buf n, None).
Proof.
  intros B. unfold w_push_checked. rewrite w_components_wspec, (wspec_both_name n B). destruct B as (_ & V).
  cbn [w_scan]. rewrite V. reflexivity.
Qed.
(* it succeeds with exactly the unchecked result when every name is a file name in both encodings *)
Lemma uw_chk_ok cs : forall buf, Forall both_comp cs -> UW_CHK cs buf = (Some (fold_left UW_STEP cs buf), None).
Proof.
  induction cs as [|c cs IH]; intros buf H; cbn [conv_checked fold_left]; [reflexivity|].
  inversion H as [|? ? Hc Hcs]; subst. unfold conv_step at 2.
  destruct c as [| | |n]; cbn [c_is_root c_is_current c_is_parent uc_bytes]; try (apply IH; exact Hcs).
  rewrite (w_push_checked_name buf n Hc). apply IH. exact Hcs.
Qed.
Theorem u_to_w_checked_ok l : Forall both_comp (ucomps l) -> u_to_w_checked l = (Some (u_to_w l), None).
Proof. intros H. rewrite u_to_w_checked_fold, u_to_w_fold. apply uw_chk_ok. exact H. Qed.
(* ... and that result is valid in the target encoding *)
Theorem u_to_w_valid l : Forall both_comp (ucomps l) -> forallb (comp_ok forbidden_windows) (wspec (u_to_w l)) = true.
Proof.
  intros H. rewrite (u_to_w_comps l H). rewrite forallb_forall. intros c Hc. apply in_map_iff in Hc as (c0 & <- & Hin).
  rewrite Forall_forall in H. specialize (H c0 Hin). destruct c0; try reflexivity. destruct H as (_ & V). exact V.
Qed.
(* it fails whenever a source name holds a byte Windows forbids in file names (for names without '\',
   which the target would re-split: known finding D12) *)
Lemma w_scan_bad_name n : gname n -> nosep wany n = true -> name_valid w_forbidden n = false -> w_scan (wspec n) O <> None.
Proof.
  intros (Hn & Hne & Hd & Hdd) Hw V Hs. destruct (scan_none_simple n Hs) as (Hp & Hr).
  assert (G : gn wany n) by (repeat split; assumption).
  rewrite (wspec_plain n Hp), (gcomps_gn wany wany_dot n G) in Hs. cbn in Hs. rewrite V in Hs. discriminate.
Qed.
Definition bad_name (c : comp) : Prop :=
  match c with Normal n => gname n /\ nosep wany n = true /\ name_valid w_forbidden n = false | _ => False end.
Lemma uw_chk_fails cs : forall buf, Exists bad_name cs -> exists e, UW_CHK cs buf = (None, Some e).
Proof.
  induction cs as [|c cs IH]; intros buf H; [inversion H|].
  cbn [conv_checked]. destruct c as [| | |n]; cbn [c_is_root c_is_current c_is_parent uc_bytes];
    try (apply IH; inversion H as [? ? Hh|? ? Ht]; subst; [destruct Hh | exact Ht]).
  unfold w_push_checked. rewrite w_components_wspec.
  destruct (w_scan (wspec n) 0) as [e|] eqn:Es; [exists e; reflexivity|].
  inversion H as [? ? Hh|? ? Ht]; subst.
  - destruct Hh as (G & Hw & V). exfalso. apply (w_scan_bad_name n G Hw V Es).
  - apply IH. exact Ht.
Qed.
Theorem u_to_w_checked_fails l : Exists bad_name (ucomps l) -> exists e, u_to_w_checked l = (None, Some e).
Proof. intros H. rewrite u_to_w_checked_fold. apply uw_chk_fails. exact H. Qed.
