(* C11 (Unix): normalize = the lexical fold, for all byte strings. *)
From Coq Require Import List NArith Bool Lia Arith.
Import ListNotations.
From TP Require Import Core CoreProofs CoreSched Path Unix Win Spec Ops UnixProofs C04Proofs.
Open Scope N_scope.

(* names that occur as Normal components of a Unix path *)
Definition gname (n : list byte) : Prop :=
  nosep usep n = true /\ n <> [] /\ is_dot n = false /\ is_dotdot n = false.
Definition gcomp (c : comp) : Prop := match c with Normal n => gname n | _ => True end.

Lemma sc_gcomp ab g : nosep usep g = true -> Forall gcomp (sc true ab g).
Proof.
  intros Hn. unfold sc, seg_comp. destruct g as [|x t]; [constructor|].
  destruct (is_dotdot (x :: t)) eqn:Edd; [repeat constructor|].
  destruct (is_dot (x :: t)) eqn:Ed.
  - destruct (ab || negb true); repeat constructor.
  - constructor; [|constructor]. cbn. repeat split; try assumption. discriminate.
Qed.
Lemma body_gcomp l : Forall gcomp (body usep true l).
Proof.
  unfold body. destruct (split_weave usep l) as (seps & _ & _ & _ & Hn).
  induction Hn as [|g gs Hg _ IH]; [constructor|]. cbn [flat_map]. apply Forall_app. split; [apply sc_gcomp; exact Hg | exact IH].
Qed.
Lemma ucomps_gcomp l : Forall gcomp (ucomps l).
Proof.
  rewrite ucomps_cs. unfold cs, cspec. cbn [fst snd]. apply Forall_app. split; [|apply body_gcomp].
  unfold lead_extra. destruct (root_ok usep l); [repeat constructor|]. destruct (true && cur_ok usep l); repeat constructor.
Qed.
(* the root can only be the first component; "." only the first; the body holds neither *)
Lemma body_no_root_cur l : Forall (fun c => c <> Root /\ c <> Cur) (body usep true l).
Proof.
  unfold body. apply Forall_forall. intros c Hin. apply in_flat_map in Hin as (g & _ & Hg).
  unfold sc, seg_comp in Hg. destruct g as [|y g']; [destruct Hg|].
  destruct (is_dotdot (y :: g')); [destruct Hg as [<-|[]]; split; discriminate|].
  destruct (is_dot (y :: g')); cbn in Hg; [destruct Hg | destruct Hg as [<-|[]]; split; discriminate].
Qed.
Lemma ucomps_shape l : exists h t, ucomps l = h ++ t /\ (h = [] \/ h = [Root] \/ h = [Cur]) /\ Forall (fun c => c <> Root /\ c <> Cur) t.
Proof.
  rewrite ucomps_cs. unfold cs, cspec. cbn [fst snd]. exists (lead_extra usep true l), (body usep true l).
  split; [reflexivity|]. split; [|apply body_no_root_cur].
  unfold lead_extra. destruct (root_ok usep l); [auto|]. destruct (true && cur_ok usep l); auto.
Qed.

(* ---- ucomps of a single good name, and of a push of it ---- *)
Lemma gname_hd n : gname n -> exists b r, n = b :: r /\ usep b = false.
Proof.
  intros (Hn & Hne & _). destruct n as [|b r]; [congruence|]. exists b, r. split; [reflexivity|].
  cbn in Hn. apply andb_true_iff in Hn as [Hb _]. apply negb_true_iff in Hb. exact Hb.
Qed.
Lemma body_gname n : gname n -> body usep true n = [Normal n].
Proof.
  intros (Hn & Hne & Hd & Hdd). rewrite (body_nosep usep true n Hn). unfold sc, seg_comp.
  destruct n as [|x t]; [congruence|]. rewrite Hdd, Hd. reflexivity.
Qed.
Lemma gname_no_root n : gname n -> no_root_p n.
Proof. intros G. destruct (gname_hd n G) as (b & r & -> & Hb). exact Hb. Qed.
Lemma ucomps_gname n : gname n -> ucomps n = [Normal n].
Proof.
  intros G. rewrite ucomps_cs. unfold cs, cspec. cbn [fst snd]. rewrite (body_gname n G).
  destruct (gname_hd n G) as (b & r & E & Hb). destruct G as (Hn & Hne & Hd & Hdd).
  unfold lead_extra. rewrite E. cbn [root_ok]. rewrite Hb.
  assert (Hc : cur_ok usep (b :: r) = false).
  { destruct (span_nsep usep (b :: r)) as [n' rest] eqn:Hs.
    rewrite (cur_ok_span usep usep_dot _ _ _ Hs).
    assert (n' = b :: r).
    { destruct (span_spec usep _ _ _ Hs) as (Hl & Hn' & Hr). rewrite <- E in *.
      destruct Hr as [-> | (s & r' & -> & Hs')]; [rewrite app_nil_r in Hl; congruence|].
      exfalso. rewrite Hl in Hn. unfold nosep in Hn. rewrite forallb_app in Hn. apply andb_true_iff in Hn as [_ Hn].
      cbn in Hn. rewrite Hs' in Hn. discriminate. }
    subst n'. rewrite <- E. exact Hd. }
  rewrite Hc. reflexivity.
Qed.
Lemma u_push_gname buf n : gname n -> ucomps (u_push buf n) = ucomps buf ++ [Normal n].
Proof.
  intros G. destruct buf as [|b0 bt] eqn:Eb.
  - destruct (gname_hd n G) as (b & r & E & Hb). unfold u_push. rewrite E.
    assert (Ha : u_is_absolute (b :: r) = false).
    { unfold u_is_absolute. rewrite u_has_root_spec. rewrite <- E. rewrite (ucomps_gname n G). reflexivity. }
    rewrite Ha. rewrite <- E. rewrite (ucomps_gname n G). reflexivity.
  - rewrite <- Eb. rewrite (u_push_comps buf n (gname_no_root n G)).
    + unfold added. rewrite (body_gname n G). reflexivity.
    + destruct G as (_ & Hne & _). exact Hne.
    + rewrite Eb. discriminate.
Qed.

(* ---- the fold of the model is the specification's fold ---- *)
Lemma norm_fold_nfold cs : forall acc,
  map WC (norm_fold comp c_is_normal c_is_parent c_is_current cs acc) = nfold (map WC cs) (map WC acc).
Proof.
  induction cs as [|c cs IH]; intros acc; cbn [norm_fold nfold map].
  - rewrite map_rev. reflexivity.
  - destruct c; cbn [c_is_current c_is_parent negb andb k_is_cur k_is_parent]; try (rewrite IH; reflexivity).
    destruct acc as [|x acc']; cbn [map]; [apply IH|]. destruct x; cbn [c_is_normal k_is_normal]; apply IH.
Qed.

(* what the fold leaves: an optional leading root, then good names only *)
Definition is_name (c : comp) : Prop := match c with Normal n => gname n | _ => False end.
Notation NF := (norm_fold comp c_is_normal c_is_parent c_is_current).
Lemma norm_fold_names cs : forall acc, Forall gcomp cs -> Forall (fun c => c <> Root /\ c <> Cur) cs ->
  (exists h ns, rev acc = h ++ ns /\ (h = [] \/ h = [Root]) /\ Forall is_name ns) ->
  exists h ns, NF cs acc = h ++ ns /\ (h = [] \/ h = [Root]) /\ Forall is_name ns.
Proof.
  induction cs as [|c cs IH]; intros acc Hg Hnr Hacc; cbn [norm_fold]; [exact Hacc|].
  inversion Hg as [|? ? Gc Gcs]; subst. inversion Hnr as [|? ? Nc Ncs]; subst.
  destruct c as [| | |n]; cbn [c_is_current c_is_parent negb andb].
  - destruct Nc; congruence.
  - destruct Nc; congruence.
  - (* Parent *)
    destruct acc as [|x acc']; [apply IH; assumption|].
    destruct (c_is_normal x) eqn:Hx; [|apply IH; assumption].
    apply IH; try assumption. destruct Hacc as (h & ns & E & Hh & Hns). cbn [rev] in E.
    destruct x as [| | |m]; try discriminate.
    destruct (rev ns) as [|y rns] eqn:Er.
    + assert (ns = []) by (destruct ns; [reflexivity|]; cbn in Er; destruct (rev ns); discriminate). subst ns.
      rewrite app_nil_r in E. destruct Hh as [-> | ->].
      * destruct (rev acc'); discriminate.
      * exfalso. assert (X : rev (rev acc' ++ [Normal m]) = rev [Root]) by (rewrite E; reflexivity).
        rewrite rev_app_distr in X. cbn in X. discriminate.
    + assert (Ens : ns = rev rns ++ [y]) by (rewrite <- (rev_involutive ns), Er; reflexivity).
      rewrite Ens in E. rewrite app_assoc in E. apply app_inj_tail in E as [E _].
      exists h, (rev rns). split; [exact E|]. split; [exact Hh|].
      rewrite Ens in Hns. apply Forall_app in Hns as [Hns _]. exact Hns.
  - (* Normal *)
    apply IH; try assumption. destruct Hacc as (h & ns & E & Hh & Hns).
    exists h, (ns ++ [Normal n]). cbn [rev]. rewrite E. rewrite app_assoc. split; [reflexivity|]. split; [exact Hh|].
    apply Forall_app. split; [exact Hns|]. constructor; [exact Gc | constructor].
Qed.
Lemma norm_fold_shape l : exists h ns, NF (ucomps l) [] = h ++ ns /\ (h = [] \/ h = [Root]) /\ Forall is_name ns
                                       /\ (h = [Root] <-> exists t, ucomps l = Root :: t).
Proof.
  destruct (ucomps_shape l) as (h0 & t & E & Hh0 & Ht). pose proof (ucomps_gcomp l) as G. rewrite E in *.
  apply Forall_app in G as [_ Gt].
  destruct Hh0 as [-> | [-> | ->]]; cbn [app norm_fold c_is_current c_is_parent negb andb].
  - destruct (norm_fold_names t [] Gt Ht) as (h & ns & E1 & Hh & Hns).
    { exists [], []. repeat split; auto. }
    (* no root in t: h must be [] *)
    assert (h = []).
    { destruct Hh as [-> | ->]; [reflexivity|]. exfalso.
      assert (Hin : In Root (NF t [])) by (rewrite E1; left; reflexivity).
      assert (Hsub : forall cs acc, (forall c, In c (NF cs acc) -> In c cs \/ In c acc)).
      { clear. induction cs as [|c cs IH]; intros acc x Hx; cbn [norm_fold] in Hx.
        - right. apply in_rev. exact Hx.
        - destruct (negb (c_is_current c) && negb (c_is_parent c)).
          + apply IH in Hx as [Hx|Hx]; [left; right; exact Hx|]. destruct Hx as [<-|Hx]; [left; left; reflexivity | right; exact Hx].
          + destruct (c_is_parent c).
            * destruct acc as [|y acc']; [apply IH in Hx as [Hx|Hx]; [left; right; exact Hx | right; exact Hx]|].
              destruct (c_is_normal y); apply IH in Hx as [Hx|Hx]; try (left; right; exact Hx); right; [right; exact Hx | exact Hx].
            * apply IH in Hx as [Hx|Hx]; [left; right; exact Hx | right; exact Hx]. }
      apply Hsub in Hin as [Hin|[]]. rewrite Forall_forall in Ht. destruct (Ht _ Hin). congruence. }
    subst h. exists [], ns. repeat split; auto; try (intros X; discriminate).
    intros (t' & X). exfalso. destruct t as [|c t0]; [discriminate|]. inversion X; subst. inversion Ht; subst. tauto.
  - destruct (norm_fold_names t [Root] Gt Ht) as (h & ns & E1 & Hh & Hns).
    { exists [Root], []. repeat split; auto. }
    assert (Hhd : exists r, NF t [Root] = Root :: r).
    { clear -Ht. assert (forall cs acc, (exists a, rev acc = Root :: a) -> Forall (fun c => c <> Root /\ c <> Cur) cs -> exists r, NF cs acc = Root :: r).
      { induction cs as [|c cs IH]; intros acc (a & Ea) Hc; cbn [norm_fold]; [eauto|].
        inversion Hc; subst. destruct c as [| | |n]; cbn [c_is_current c_is_parent negb andb]; try tauto.
        - destruct acc as [|x acc']; [apply IH; eauto|]. destruct (c_is_normal x) eqn:Hx; [|apply IH; eauto].
          apply IH; [|assumption]. cbn [rev] in Ea. destruct x; try discriminate.
          destruct (rev acc') as [|y ra]; [discriminate|]. inversion Ea; subst. eauto.
        - apply IH; [|assumption]. cbn [rev]. rewrite Ea. cbn. eauto. }
      apply H; [exists []; reflexivity | exact Ht]. }
    destruct Hhd as (r & Er). assert (h = [Root]).
    { destruct Hh as [-> | ->]; [|reflexivity]. exfalso. cbn in E1. rewrite Er in E1. destruct ns; [discriminate|].
      inversion E1; subst. inversion Hns; subst. cbn in *. assumption. }
    subst h. exists [Root], ns. repeat split; auto. intros _. eauto.
  - (* leading "." is dropped *)
    destruct (norm_fold_names t [] Gt Ht) as (h & ns & E1 & Hh & Hns).
    { exists [], []. repeat split; auto. }
    assert (h = []).
    { destruct Hh as [-> | ->]; [reflexivity|]. exfalso.
      assert (Hin : In Root (NF t [])) by (rewrite E1; left; reflexivity).
      assert (Hsub : forall cs acc, (forall c, In c (NF cs acc) -> In c cs \/ In c acc)).
      { clear. induction cs as [|c cs IH]; intros acc x Hx; cbn [norm_fold] in Hx.
        - right. apply in_rev. exact Hx.
        - destruct (negb (c_is_current c) && negb (c_is_parent c)).
          + apply IH in Hx as [Hx|Hx]; [left; right; exact Hx|]. destruct Hx as [<-|Hx]; [left; left; reflexivity | right; exact Hx].
          + destruct (c_is_parent c).
            * destruct acc as [|y acc']; [apply IH in Hx as [Hx|Hx]; [left; right; exact Hx | right; exact Hx]|].
              destruct (c_is_normal y); apply IH in Hx as [Hx|Hx]; try (left; right; exact Hx); right; [right; exact Hx | exact Hx].
            * apply IH in Hx as [Hx|Hx]; [left; right; exact Hx | right; exact Hx]. }
      apply Hsub in Hin as [Hin|[]]. rewrite Forall_forall in Ht. destruct (Ht _ Hin). congruence. }
    subst h. exists [], ns. repeat split; auto; try (intros X; discriminate). intros (t' & X). discriminate.
Qed.

(* ---- re-pushing the folded components ---- *)
Notation PUSHC := (fun (buf : list byte) (c : comp) => u_push buf (uc_bytes c)).
Lemma fold_push_names ns : forall buf, Forall is_name ns -> ucomps (fold_left PUSHC ns buf) = ucomps buf ++ ns.
Proof.
  induction ns as [|c ns IH]; intros buf H; cbn [fold_left]; [rewrite app_nil_r; reflexivity|].
  inversion H as [|? ? Hc Hns]; subst. destruct c as [| | |n]; cbn in Hc; try contradiction.
  rewrite (IH _ Hns). cbn [uc_bytes]. rewrite (u_push_gname buf n Hc). rewrite <- app_assoc. reflexivity.
Qed.
Lemma fold_push_shape h ns : (h = [] \/ h = [Root]) -> Forall is_name ns ->
  ucomps (fold_left PUSHC (h ++ ns) []) = h ++ ns.
Proof.
  intros [-> | ->] Hns; cbn [app fold_left].
  - rewrite (fold_push_names ns [] Hns). reflexivity.
  - cbn [uc_bytes]. change (u_push [] [47]) with [47]. rewrite (fold_push_names ns [47] Hns). reflexivity.
Qed.

Theorem u_normalize_comps l : ucomps (u_normalize l) = NF (ucomps l) [].
Proof.
  unfold u_normalize, normalize. fold (u_components l). rewrite u_components_spec.
  destruct (norm_fold_shape l) as (h & ns & E & Hh & Hns & _). rewrite E. apply fold_push_shape; assumption.
Qed.
(* the statement of the property: the normalised path reads as the lexical fold of the input *)
Theorem u_normalize_nfold l : uspec (u_normalize l) = nfold (uspec l) [].
Proof. unfold uspec. rewrite u_normalize_comps. apply (norm_fold_nfold (ucomps l) []). Qed.

(* a list without "." and ".." is a fixed point of the fold *)
Lemma NF_fixed cs : forall acc, Forall (fun c => c_is_current c = false /\ c_is_parent c = false) cs -> NF cs acc = rev acc ++ cs.
Proof.
  induction cs as [|c cs IH]; intros acc H; cbn [norm_fold]; [rewrite app_nil_r; reflexivity|].
  inversion H as [|? ? (H1 & H2) Hcs]; subst. rewrite H1, H2. cbn [negb andb]. rewrite IH by assumption.
  cbn [rev]. rewrite <- app_assoc. reflexivity.
Qed.
Lemma shape_clean h ns : (h = [] \/ h = [Root]) -> Forall is_name ns ->
  Forall (fun c => c_is_current c = false /\ c_is_parent c = false) (h ++ ns).
Proof.
  intros Hh Hns. apply Forall_app. split.
  - destruct Hh as [-> | ->]; repeat constructor.
  - eapply Forall_impl; [|exact Hns]. intros c Hc. destruct c; cbn in Hc; try contradiction. split; reflexivity.
Qed.
(* it contains no "." or ".." *)
Theorem u_normalize_clean l : Forall (fun c => c_is_current c = false /\ c_is_parent c = false) (ucomps (u_normalize l)).
Proof.
  rewrite u_normalize_comps. destruct (norm_fold_shape l) as (h & ns & E & Hh & Hns & _). rewrite E. apply shape_clean; assumption.
Qed.
(* normalising again returns the same bytes *)
Theorem u_normalize_idem l : u_normalize (u_normalize l) = u_normalize l.
Proof.
  unfold u_normalize at 1. unfold normalize. fold (u_components (u_normalize l)). rewrite u_components_spec.
  rewrite u_normalize_comps. rewrite (NF_fixed _ []).
  - cbn [rev app]. unfold u_normalize, normalize. fold (u_components l). rewrite u_components_spec. reflexivity.
  - rewrite <- u_normalize_comps. apply u_normalize_clean.
Qed.
(* same root / absoluteness *)
Theorem u_normalize_root l : u_has_root (u_normalize l) = u_has_root l.
Proof.
  rewrite !u_has_root_spec. rewrite u_normalize_comps.
  destruct (norm_fold_shape l) as (h & ns & E & Hh & Hns & Hroot). rewrite E.
  destruct Hh as [-> | ->].
  - destruct (ucomps l) as [|[| | |n] t] eqn:El; try (destruct ns as [|[| | |m] ns']; try reflexivity; inversion Hns; subst; cbn in *; contradiction).
    exfalso. assert (X : [] = [Root]) by (apply Hroot; eauto). discriminate.
  - destruct (proj1 Hroot eq_refl) as (t & ->). reflexivity.
Qed.
(* never above the root: ".." directly after the root vanishes *)
Example u_normalize_examples :
  u_normalize [47;46;46;47;97;47;46;47;46;46;47;46;46;47;98] = [47;98]         (* /../a/./../../b -> /b *)
  /\ u_normalize [46;46;47;97] = [97]                                           (* ../a -> a *)
  /\ u_normalize [97;47;47;98;47] = [97;47;98].
Proof. vm_compute. repeat split. Qed.
