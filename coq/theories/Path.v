(* Model of the encoding-generic operations of
     src/common/non_utf8/path.rs, pathbuf.rs, iter.rs
   (and, identically, of their UTF-8 twins in src/common/utf8/, which repeat the same
   bodies over str).  Every definition names the Rust function it transcribes.
   The encoding is a Section context: the component iterator (init / nextf / nextb /
   remaining), the component observers, and the encoding's push / push_checked. *)
From Coq Require Import List NArith Bool Lia.
Import ListNotations.
From TP Require Import Core.
Open Scope N_scope.

Inductive cerr := EPrefix | ERoot | ETraversal | EInvalid.
Definition cerr_eqb (a b : cerr) : bool :=
  match a, b with
  | EPrefix, EPrefix | ERoot, ERoot | ETraversal, ETraversal | EInvalid, EInvalid => true
  | _, _ => false
  end.

(* ---- byte-slice primitives of core used by the code ---- *)
Definition last_byte (l : list byte) : option byte :=
  match rev l with b :: _ => Some b | [] => None end.
Fixpoint starts_with_b (l p : list byte) : bool :=
  match p, l with
  | [], _ => true
  | y :: p', x :: l' => (x =? y) && starts_with_b l' p'
  | _ :: _, [] => false
  end.
Fixpoint mem_b (b : byte) (l : list byte) : bool :=
  match l with [] => false | x :: r => (x =? b) || mem_b b r end.
Fixpoint cmp_bytes (a b : list byte) : comparison :=
  match a, b with
  | [], [] => Eq
  | [], _ :: _ => Lt
  | _ :: _, [] => Gt
  | x :: a', y :: b' => match x ?= y with Eq => cmp_bytes a' b' | c => c end
  end.

(* helpers::rsplit_file_at_dot: (before, after) *)
(* span of the reversed name up to the last '.' *)
Fixpoint span_ndot (l : list byte) : list byte * list byte :=
  match l with
  | [] => ([], [])
  | b :: r => if b =? 46 then ([], l) else let (n, rest) := span_ndot r in (b :: n, rest)
  end.
Definition rsplit_file_at_dot (file : list byte) : option (list byte) * option (list byte) :=
  if beq_list file [46; 46] then (Some file, None)
  else
    let (after_r, rest_r) := span_ndot (rev file) in
    match rest_r with
    | [] => (None, Some file)                       (* no dot: rsplitn yields one piece: after = file, before = None *)
    | _ :: before_r =>
        match before_r with
        | [] => (Some file, None)                   (* before == Some(b"") *)
        | _ => (Some (rev before_r), Some (rev after_r))
        end
    end.

Section PathOps.
Variables st cmp : Type.
Variable init : list byte -> st.
Variable nextf nextb : st -> option (cmp * st).
Variable remaining : st -> list byte.
Variable c_bytes : cmp -> list byte.
Variables c_is_root c_is_normal c_is_parent c_is_current c_is_valid : cmp -> bool.
Variable c_eqb : cmp -> cmp -> bool.
Variable c_cmp : cmp -> cmp -> comparison.
Variable push : list byte -> list byte -> list byte.
Variable push_checked : list byte -> list byte -> list byte * option cerr.

(* Iterator::collect of components(), by fuel; S (length input) always suffices *)
Fixpoint front_all (fuel : nat) (s : st) : list cmp :=
  match fuel with
  | O => []
  | S f => match nextf s with Some (c, s') => c :: front_all f s' | None => [] end
  end.
Fixpoint back_all (fuel : nat) (s : st) : list cmp :=
  match fuel with
  | O => []
  | S f => match nextb s with Some (c, s') => c :: back_all f s' | None => [] end
  end.
Definition components (l : list byte) : list cmp := front_all (S (length l)) (init l).
Definition components_rev (l : list byte) : list cmp := back_all (S (length l)) (init l).

(* Path::parent (after the D6 repair) *)
Definition parent (l : list byte) : option (list byte) :=
  match nextb (init l) with
  | Some (c, s') =>
      if c_is_normal c || c_is_current c || c_is_parent c then Some (remaining s') else None
  | None => None
  end.

(* Ancestors::next iterated *)
Fixpoint ancestors_fuel (fuel : nat) (cur : option (list byte)) : list (list byte) :=
  match fuel with
  | O => []
  | S f => match cur with
           | Some p => p :: ancestors_fuel f (parent p)
           | None => []
           end
  end.
Definition ancestors (l : list byte) : list (list byte) := ancestors_fuel (S (S (length l))) (Some l).

(* Path::file_name *)
Definition file_name (l : list byte) : option (list byte) :=
  match nextb (init l) with
  | Some (c, _) => if c_is_normal c then Some (c_bytes c) else None
  | None => None
  end.

Definition opt_or {A} (a b : option A) : option A := match a with Some _ => a | None => b end.
Definition opt_and {A B} (a : option A) (b : option B) : option B := match a with Some _ => b | None => None end.

(* Path::file_stem / Path::extension *)
Definition file_stem (l : list byte) : option (list byte) :=
  match file_name l with
  | Some n => let (before, after) := rsplit_file_at_dot n in opt_or before after
  | None => None
  end.
Definition extension (l : list byte) : option (list byte) :=
  match file_name l with
  | Some n => let (before, after) := rsplit_file_at_dot n in opt_and before after
  | None => None
  end.

(* helpers::iter_after, forward (nextf) and on .rev() iterators (nextb) *)
Fixpoint iter_after (next : st -> option (cmp * st)) (fuel : nat) (it pre : st) : option st :=
  match fuel with
  | O => None
  | S f =>
      match next it, next pre with
      | Some (x, it'), Some (y, pre') =>
          if beq_list (c_bytes x) (c_bytes y) then iter_after next f it' pre' else None
      | Some _, None => Some it
      | None, None => Some it
      | None, Some _ => None
      end
  end.
Definition ia_fuel (l base : list byte) : nat := S (S (length base)).

Definition strip_prefix (l base : list byte) : option (list byte) :=
  match iter_after nextf (ia_fuel l base) (init l) (init base) with
  | Some s => Some (remaining s)
  | None => None
  end.
Definition starts_with (l base : list byte) : bool :=
  match iter_after nextf (ia_fuel l base) (init l) (init base) with Some _ => true | None => false end.
Definition ends_with (l child : list byte) : bool :=
  match iter_after nextb (ia_fuel l child) (init l) (init child) with Some _ => true | None => false end.

(* Path::is_valid *)
Definition is_valid (l : list byte) : bool := forallb c_is_valid (components l).

(* Path::normalize *)
Fixpoint norm_fold (cs acc_rev : list cmp) : list cmp :=
  match cs with
  | [] => rev acc_rev
  | c :: r =>
      if negb (c_is_current c) && negb (c_is_parent c) then norm_fold r (c :: acc_rev)
      else if c_is_parent c then
        match acc_rev with
        | last :: acc' => if c_is_normal last then norm_fold r acc' else norm_fold r acc_rev
        | [] => norm_fold r acc_rev
        end
      else norm_fold r acc_rev
  end.
Definition normalize (l : list byte) : list byte :=
  fold_left (fun buf c => push buf (c_bytes c)) (norm_fold (components l) []) [].

(* Path::join / join_checked *)
Definition join (a b : list byte) : list byte := push a b.
Definition join_checked (a b : list byte) : option (list byte) * option cerr :=
  let (r, e) := push_checked a b in
  match e with Some _ => (None, e) | None => (Some r, None) end.

(* PathBuf::pop *)
Definition pop (l : list byte) : list byte * bool :=
  match parent l with
  | Some p => (firstn (length p) l, true)
  | None => (l, false)
  end.

(* PathBuf::_set_file_name / Path::_with_file_name *)
Definition set_file_name (l name : list byte) : list byte :=
  let l1 := match file_name l with Some _ => fst (pop l) | None => l end in
  push l1 name.

(* PathBuf::_set_extension (after the D5 repair): truncate to the end of the file stem.
   The stem is a sub-slice of the buffer; its end offset is recomputed here from the
   parser: the file name is the last component, ending where the back parser's trimmed
   input ends.  [name_end l] = offset one past the file name in l. *)
Variable back_off : st -> nat.   (* start offset of the component nextb returns *)
Definition name_end (l : list byte) : nat :=
  match file_name l with Some n => (back_off (init l) + length n)%nat | None => O end.
Definition set_extension (l ext : list byte) : list byte * bool :=
  match file_name l with
  | None => (l, false)
  | Some n =>
      match file_stem l with
      | None => (l, false)
      | Some stem =>
          (* the stem is either the whole name or its leading slice *)
          let stem_end := (name_end l - (length n - length stem))%nat in
          let l1 := firstn stem_end l in
          (match ext with [] => l1 | _ => l1 ++ 46 :: ext end, true)
      end
  end.

(* PartialEq / Ord for Path: Iterator::eq / Iterator::cmp over fresh components *)
Fixpoint list_eqb_c (a b : list cmp) : bool :=
  match a, b with
  | [], [] => true
  | x :: a', y :: b' => c_eqb x y && list_eqb_c a' b'
  | _, _ => false
  end.
Fixpoint list_cmp_c (a b : list cmp) : comparison :=
  match a, b with
  | [], [] => Eq
  | [], _ :: _ => Lt
  | _ :: _, [] => Gt
  | x :: a', y :: b' => match c_cmp x y with Eq => list_cmp_c a' b' | c => c end
  end.
Definition path_eq (a b : list byte) : bool := list_eqb_c (components a) (components b).
Definition path_cmp (a b : list byte) : comparison := list_cmp_c (components a) (components b).

(* PathBuf::extend / FromIterator *)
Definition extend (l : list byte) (ps : list (list byte)) : list byte := fold_left push ps l.
Definition from_iter (ps : list (list byte)) : list byte := extend [] ps.

End PathOps.

(* Path::with_encoding / with_encoding_checked: source iterator, target push *)
Section Conv.
Variables st cmp : Type.
Variable init : list byte -> st.
Variable nextf : st -> option (cmp * st).
Variable c_bytes : cmp -> list byte.
Variables c_is_root c_is_parent c_is_current : cmp -> bool.
Variable t_push : list byte -> list byte -> list byte.
Variable t_push_checked : list byte -> list byte -> list byte * option cerr.
Variables t_root t_cur t_par : list byte.

Definition conv_step (buf : list byte) (c : cmp) : list byte :=
  if c_is_root c then t_push buf t_root
  else if c_is_current c then t_push buf t_cur
  else if c_is_parent c then t_push buf t_par
  else t_push buf (c_bytes c).
Definition with_encoding (same_label : bool) (l : list byte) : list byte :=
  if same_label then l
  else fold_left conv_step (front_all st cmp nextf (S (length l)) (init l)) [].

Fixpoint conv_checked (cs : list cmp) (buf : list byte) : option (list byte) * option cerr :=
  match cs with
  | [] => (Some buf, None)
  | c :: r =>
      if c_is_root c then conv_checked r (t_push buf t_root)
      else if c_is_current c then conv_checked r (t_push buf t_cur)
      else if c_is_parent c then conv_checked r (t_push buf t_par)
      else match t_push_checked buf (c_bytes c) with
           | (_, Some e) => (None, Some e)
           | (buf', None) => conv_checked r buf'
           end
  end.
Definition with_encoding_checked (l : list byte) : option (list byte) * option cerr :=
  conv_checked (front_all st cmp nextf (S (length l)) (init l)) [].
End Conv.
