(* Joining onto a base with a VERBATIM prefix (\\?\name, \\?\UNC\server\share, \\?\X:) followed by a root: the
   join folds b's components into a's ("." dropped, ".." cancelling a preceding name and never the root or the
   prefix, a root keeping only the prefix) and writes the result with single '\'; read again from scratch the
   result has exactly the folded components.  The one verbatim kind left out is the prefix NAMED exactly "UNC"
   (finding D17: WinExtend.grammar_repl_verbatim carries that exception). *)
From Coq Require Import List NArith Bool Lia Arith.
Import ListNotations.
From TP Require Import Core CoreProofs CoreSched Path Unix Win Spec GenJoin C02Proofs C08Proofs WinProofs WinTrunc WinSimple C16Proofs WinExtend.
Open Scope N_scope.

Section R.
Variable f : byte -> bool.
Variable norm : bool.
Hypothesis Hf92 : f 92 = true.
Hypothesis Hfdot : f 46 = false.
Notation NS := (fun n : list byte => forallb (fun b => negb (f b)) n).

(* ---- split_sep on names joined by '\' ---- *)
Lemma split_sep_nosep n : forall rest acc, NS n = true -> split_sep f (n ++ rest) acc = split_sep f rest (rev n ++ acc).
Proof.
  induction n as [|b n IH]; intros rest acc H; [reflexivity|].
  cbn [forallb] in H. apply andb_true_iff in H as [Hb Hn]. apply negb_true_iff in Hb.
  cbn [app split_sep]. rewrite Hb. rewrite (IH rest (b :: acc) Hn). cbn [rev]. rewrite <- app_assoc. reflexivity.
Qed.
Fixpoint render (ns : list (list byte)) : list byte :=
  match ns with [] => [] | [n] => n | n :: t => n ++ 92 :: render t end.
Lemma split_render ns : ns <> [] -> Forall (fun n => NS n = true) ns -> split_sep f (render ns) [] = ns.
Proof.
  induction ns as [|n t IH]; intros Hne H; [congruence|]. inversion H as [|? ? Hn Ht]; subst.
  destruct t as [|m t'].
  - cbn [render]. rewrite <- (app_nil_r n) at 1. rewrite (split_sep_nosep n [] [] Hn). cbn [split_sep]. rewrite app_nil_r, rev_involutive. reflexivity.
  - change (render (n :: m :: t')) with (n ++ 92 :: render (m :: t')). rewrite (split_sep_nosep n _ [] Hn). cbn [split_sep]. rewrite Hf92.
    rewrite app_nil_r, rev_involutive. f_equal. apply IH; [discriminate | exact Ht].
Qed.

(* ---- what a body component must look like to survive being written and read again ---- *)
Definition atom_ok (c : comp) : Prop :=
  match c with
  | Normal n => NS n = true /\ n <> [] /\ is_dot n = false /\ is_dotdot n = false
  | Parent => True
  | Cur => norm = false
  | Root => False
  end.
Definition cbytes (c : comp) : list byte := wc_bytes (WC c).
Lemma atom_bytes c : atom_ok c -> NS (cbytes c) = true /\ seg_comp norm false (cbytes c) = [c].
Proof.
  destruct c as [| | |n]; cbn [atom_ok cbytes wc_bytes].
  - contradiction.
  - intros ->. split; [cbn; rewrite Hfdot; reflexivity|]. reflexivity.
  - intros _. split; [cbn; rewrite Hfdot; reflexivity|]. reflexivity.
  - intros (Hn & Hne & Hd & Hdd). split; [exact Hn|]. unfold seg_comp. destruct n; [congruence|]. rewrite Hdd, Hd. reflexivity.
Qed.
Lemma flat_atoms items : Forall atom_ok items -> flat_map (seg_comp norm false) (map cbytes items) = items.
Proof.
  induction 1 as [|c t Hc _ IH]; [reflexivity|]. cbn [map flat_map]. rewrite (proj2 (atom_bytes c Hc)), IH. reflexivity.
Qed.
Theorem spec_comps_render items : Forall atom_ok items ->
  spec_comps f norm (92 :: render (map cbytes items)) = Root :: items.
Proof.
  intros H. cbn [spec_comps]. rewrite Hf92. f_equal. destruct items as [|c t].
  - reflexivity.
  - rewrite split_render; [apply (flat_atoms _ H) | discriminate |].
    apply Forall_forall. intros n Hin. apply in_map_iff in Hin as (c0 & <- & Hin). rewrite Forall_forall in H.
    apply (proj1 (atom_bytes c0 (H c0 Hin))).
Qed.

(* every component the specification reads after a leading separator is such an atom *)
Lemma split_segments_nosep : forall l acc, NS (rev acc) = true -> Forall (fun g => NS g = true) (split_sep f l acc).
Proof.
  induction l as [|b r IH]; intros acc Ha; cbn [split_sep].
  - constructor; [exact Ha | constructor].
  - destruct (f b) eqn:Hb.
    + constructor; [exact Ha|]. apply IH. reflexivity.
    + apply IH. cbn [rev]. rewrite forallb_app. rewrite Ha. cbn. rewrite Hb. reflexivity.
Qed.
Lemma spec_comps_atoms s r0 : f s = true -> exists items, spec_comps f norm (s :: r0) = Root :: items /\ Forall atom_ok items.
Proof.
  intros Hs. cbn [spec_comps]. rewrite Hs. eexists. split; [reflexivity|].
  pose proof (split_segments_nosep r0 [] eq_refl) as H. induction H as [|g gs Hg _ IH]; [constructor|].
  cbn [flat_map]. apply Forall_app. split; [|exact IH].
  unfold seg_comp. destruct g as [|x t]; [constructor|].
  destruct (is_dotdot (x :: t)) eqn:Edd; [repeat constructor|].
  destruct (is_dot (x :: t)) eqn:Ed.
  - cbn [orb]. destruct norm eqn:En; cbn [negb]; [constructor|]. constructor; [cbn; exact En | constructor].
  - constructor; [|constructor]. cbn. repeat split; try assumption. discriminate.
Qed.
End R.

(* ---- the writer on such a list ---- *)
Definition not_root (c : comp) : Prop := c <> Root.
Lemma vrender_tail items : Forall not_root items ->
  vrender (map WC items) true = match items with [] => [] | _ => 92 :: render (map cbytes items) end.
Proof.
  induction 1 as [|c t Hc Ht IH]; [reflexivity|]. cbn [map vrender].
  assert (Hr : k_is_root (WC c) = false) by (destruct c; try reflexivity; exfalso; apply Hc; reflexivity).
  rewrite Hr. cbn [andb negb app].
  assert (Hn : match WC c with WC Root => false | WPrefix _ (Disk _) => false | _ => true end = true)
    by (destruct c; try reflexivity; exfalso; apply Hc; reflexivity).
  rewrite Hn, IH. f_equal. destruct t as [|m t']; [cbn [map render]; unfold cbytes; apply app_nil_r|]. reflexivity.
Qed.
Lemma vrender_head items : Forall not_root items -> vrender (map WC items) false = render (map cbytes items).
Proof.
  intros H. destruct items as [|c t]; [reflexivity|]. inversion H as [|? ? Hc Ht]; subst. cbn [map vrender andb app].
  assert (Hn : match WC c with WC Root => false | WPrefix _ (Disk _) => false | _ => true end = true)
    by (destruct c; try reflexivity; exfalso; apply Hc; reflexivity).
  rewrite Hn, (vrender_tail t Ht). destruct t as [|m t']; [cbn [map render]; unfold cbytes; apply app_nil_r|]. reflexivity.
Qed.
Lemma atom_not_root f norm c : atom_ok f norm c -> not_root c.
Proof. intros H E. subst c. exact H. Qed.

(* ---- the shape the fold keeps ---- *)
Section V.
Variables (p : list byte) (k : wprefix) (f : byte -> bool) (norm : bool).
Hypothesis Hkv : k_verbatim k = true.
Hypothesis Hsub : forall b, f b = true -> wany b = true.

Definition VForm (acc : list wcomp) : Prop :=
  exists items, acc = WPrefix p k :: WC Root :: map WC items /\ Forall (atom_ok f norm) items.

Definition b_comp (c : comp) : Prop := match c with Normal n => gn wany n | _ => True end.

Lemma gn_atom n : gn wany n -> atom_ok f norm (Normal n).
Proof.
  intros (Hn & Hne & Hd & Hdd). cbn. repeat split; try assumption.
  unfold nosep in Hn. rewrite forallb_forall in *. intros b Hb. specialize (Hn b Hb).
  apply negb_true_iff in Hn. apply negb_true_iff. destruct (f b) eqn:E; [|reflexivity]. rewrite (Hsub b E) in Hn. discriminate.
Qed.

Lemma vstep_form acc c : VForm acc -> b_comp c -> VForm (vstep acc (WC c)).
Proof.
  intros (items & -> & Hit) Hc. unfold vstep.
  destruct c as [| | |n]; cbn [k_is_cur k_is_parent k_is_root].
  - (* Root *) exists []. split; [reflexivity | constructor].
  - (* Cur *) exists items. auto.
  - (* Parent *)
    unfold last_w, removelast_w. cbn [rev]. rewrite <- map_rev. destruct (rev items) as [|c0 ri] eqn:Er.
    + cbn [map app]. exists items. auto.
    + cbn [map app]. assert (Ei : items = rev ri ++ [c0]) by (rewrite <- (rev_involutive items), Er; reflexivity).
      destruct c0 as [| | |m]; cbn [k_is_normal]; try (exists items; split; [reflexivity | assumption]).
      cbn [tl]. exists (rev ri). split.
      * rewrite rev_app_distr. cbn [rev app]. rewrite rev_app_distr. cbn [rev app]. rewrite map_rev. reflexivity.
      * rewrite Ei in Hit. apply Forall_app in Hit as [Hit _]. exact Hit.
  - (* Normal *) exists (items ++ [Normal n]). split.
    + rewrite map_app. reflexivity.
    + apply Forall_app. split; [exact Hit|]. constructor; [apply gn_atom; exact Hc | constructor].
Qed.
Lemma fold_vstep_form cs : forall acc, VForm acc -> Forall b_comp cs -> VForm (fold_left vstep (map WC cs) acc).
Proof.
  induction cs as [|c cs IH]; intros acc Ha H; cbn [map fold_left]; [exact Ha|].
  inversion H as [|? ? Hc Hcs]; subst. apply IH; [apply vstep_form; assumption | exact Hcs].
Qed.
End V.

Lemma wcomps_b_comp b : Forall b_comp (WCOMPS b).
Proof.
  destruct (wcomps_shape b) as (h & t & E & Hh & _ & Hg). rewrite E. apply Forall_app. split.
  - destruct Hh as [-> | [-> | ->]]; repeat constructor.
  - eapply Forall_impl; [|exact Hg]. intros c Hc. destruct c; cbn in *; auto.
Qed.

(* ---- the theorem ---- *)
Lemma join_verbatim_struct a k r b : wprefix_grammar a = Some (k, r) -> k_verbatim k = true ->
  k <> Verbatim [85; 78; 67] -> sep_headed (s_wsep (s_norm a)) r -> noprefix b = true -> b <> [] ->
  exists p items items',
    a = p ++ r /\ (4 <= length p)%nat /\
    (forall r', sep_headed (s_wsep (s_norm a)) r' ->
       wprefix_grammar (p ++ r') = Some (k, r') /\ s_norm (p ++ r') = s_norm a /\
       wspec (p ++ r') = WPrefix p k :: map WC (spec_comps (s_wsep (s_norm a)) (s_norm a) r')) /\
    wspec a = WPrefix p k :: WC Root :: map WC items /\ Forall (atom_ok (s_wsep (s_norm a)) (s_norm a)) items /\
    fold_left vstep (wspec b) (wspec a) = WPrefix p k :: WC Root :: map WC items' /\
    Forall (atom_ok (s_wsep (s_norm a)) (s_norm a)) items' /\
    w_push a b = p ++ 92 :: render (map cbytes items').
Proof.
  intros Hg Hk Hunc Hr Hb Hbne. set (nm := s_norm a) in *. set (f := s_wsep nm) in *.
  assert (Hrne : r <> []) by (destruct Hr as (s & t & -> & _); discriminate).
  destruct (grammar_repl_verbatim a k r Hg Hk Hunc Hrne) as (p & El & Hlen & _ & S). fold nm in S. fold f in S.
  assert (W : forall r', sep_headed f r' -> wprefix_grammar (p ++ r') = Some (k, r') /\ s_norm (p ++ r') = nm /\
                wspec (p ++ r') = WPrefix p k :: map WC (spec_comps f nm r')).
  { intros r' Hr'. assert (Hf : fitsv f k r') by (destruct k; cbn [fitsv]; try exact I; exact Hr').
    destruct (S r' Hf) as (G & N). split; [exact G|]. split; [exact N|]. unfold wspec. rewrite G, N. fold f.
    replace (length (p ++ r') - length r')%nat with (length p) by (rewrite app_length; lia).
    rewrite firstn_app, Nat.sub_diag, firstn_all. cbn [firstn]. rewrite app_nil_r. reflexivity. }
  assert (Hsub : forall x, f x = true -> wany x = true) by (intros x Hx; apply (wsep_any nm x Hx)).
  destruct Hr as (s & r0 & Er & Hs). destruct (spec_comps_atoms f nm s r0 Hs) as (items & Ea & Hit).
  assert (Wa : wspec a = WPrefix p k :: WC Root :: map WC items).
  { rewrite El. rewrite (proj2 (proj2 (W r (ex_intro _ s (ex_intro _ r0 (conj Er Hs)))))). rewrite Er, Ea. reflexivity. }
  destruct (sp_plain b Hb) as (Bp & _ & _ & _ & _).
  assert (Hform : VForm p k f nm (fold_left vstep (wspec b) (wspec a))).
  { rewrite (wspec_plain b Hb). apply (fold_vstep_form p k f nm Hsub); [|apply wcomps_b_comp].
    exists items. split; [exact Wa | exact Hit]. }
  destruct Hform as (items' & Ef & Hit').
  exists p, items, items'. split; [exact El|]. split; [exact Hlen|]. split; [exact W|]. split; [exact Wa|]. split; [exact Hit|].
  split; [exact Ef|]. split; [exact Hit'|].
  rewrite w_push_join_spec. unfold join_spec. destruct b as [|b0 bt] eqn:Eb; [congruence|]. rewrite <- Eb in *.
  rewrite Bp. unfold sp_verbatim, sp_prefix. rewrite Wa, Hk. rewrite <- Wa. rewrite Ef.
  assert (Hnr : Forall not_root items') by (eapply Forall_impl; [|exact Hit']; intros c Hc; apply (atom_not_root f nm c Hc)).
  cbn [vrender andb app wc_bytes k_is_root negb].
  assert (Hn : match WPrefix p k with WC Root => false | WPrefix _ (Disk _) => false | _ => true end = true) by (destruct k; try discriminate; reflexivity).
  rewrite Hn. cbn [andb negb app]. rewrite (vrender_head items' Hnr). reflexivity.
Qed.
Theorem wspec_join_verbatim a k r b : wprefix_grammar a = Some (k, r) -> k_verbatim k = true ->
  k <> Verbatim [85; 78; 67] -> sep_headed (s_wsep (s_norm a)) r -> noprefix b = true -> b <> [] ->
  wspec (w_push a b) = fold_left vstep (wspec b) (wspec a).
Proof.
  intros Hg Hk Hunc Hr Hb Hbne.
  destruct (join_verbatim_struct a k r b Hg Hk Hunc Hr Hb Hbne) as (p & items & items' & El & _ & W & _ & _ & Ef & Hit' & Ew).
  rewrite Ew, Ef. set (nm := s_norm a) in *. set (f := s_wsep nm) in *.
  assert (Hf92 : f 92 = true) by (unfold f, s_wsep; reflexivity).
  assert (Hfdot : f 46 = false) by (unfold f, s_wsep; destruct nm; reflexivity).
  rewrite (proj2 (proj2 (W (92 :: render (map cbytes items')) (ex_intro _ 92 (ex_intro _ _ (conj eq_refl Hf92)))))).
  rewrite (spec_comps_render f nm Hf92 Hfdot items' Hit'). reflexivity.
Qed.

(* ---- what the checked join accepts never reaches below the base ---- *)
Lemma last_w_snoc l x : last_w (l ++ [x]) = Some x.
Proof. unfold last_w. rewrite rev_app_distr. reflexivity. Qed.
Lemma removelast_w_snoc l x : removelast_w (l ++ [x]) = l.
Proof. unfold removelast_w. rewrite rev_app_distr. cbn [rev app tl]. apply rev_involutive. Qed.
Lemma fold_vstep_contained cs : forall acc top, Forall (fun c => k_is_normal c = true) top -> w_scan cs (length top) = None ->
  exists top', Forall (fun c => k_is_normal c = true) top' /\ fold_left vstep cs (acc ++ top) = acc ++ top'.
Proof.
  induction cs as [|c cs IH]; intros acc top Ht Hs; cbn [fold_left]; [eauto|].
  destruct c as [raw k|[| | |n]]; cbn [w_scan] in Hs; try discriminate.
  - (* Cur *) unfold vstep. cbn [k_is_cur]. apply IH; assumption.
  - (* Parent *)
    destruct (length top) as [|d] eqn:El; [discriminate|].
    assert (Hsn : exists t0 x, top = t0 ++ [x]).
    { destruct top as [|y t] using rev_ind; [discriminate|]. eauto. }
    destruct Hsn as (t0 & x & ->). apply Forall_app in Ht as [Ht0 Hx]. inversion Hx as [|? ? Hxn _]; subst.
    unfold vstep. cbn [k_is_cur k_is_parent]. rewrite app_assoc, last_w_snoc, Hxn, removelast_w_snoc.
    apply IH; [exact Ht0|]. rewrite app_length in El. cbn [length] in El. replace (length t0) with d by lia. exact Hs.
  - (* Normal *)
    destruct (name_valid w_forbidden n); [|discriminate].
    unfold vstep. cbn [k_is_cur k_is_parent k_is_root]. rewrite <- app_assoc. apply IH.
    + apply Forall_app. split; [exact Ht | repeat constructor].
    + rewrite app_length. cbn [length]. rewrite Nat.add_1_r. exact Hs.
Qed.

Theorem w_push_checked_contains_verbatim a k r p : wprefix_grammar a = Some (k, r) -> k_verbatim k = true ->
  k <> Verbatim [85; 78; 67] -> sep_headed (s_wsep (s_norm a)) r -> p <> [] -> w_scan (wspec p) O = None ->
  w_push_checked a p = (w_push a p, None) /\
  exists added, Forall (fun c => k_is_normal c = true) added /\ wspec (w_push a p) = wspec a ++ added.
Proof.
  intros Hg Hk Hunc Hr Hp Hs. destruct (scan_none_simple p Hs) as (Hn & _). split.
  - unfold w_push_checked. rewrite w_components_wspec, Hs. reflexivity.
  - rewrite (wspec_join_verbatim a k r p Hg Hk Hunc Hr Hn Hp).
    destruct (fold_vstep_contained (wspec p) (wspec a) [] (Forall_nil _) Hs) as (top' & Ht & E).
    rewrite app_nil_r in E. exists top'. split; [exact Ht | exact E].
Qed.
(* a single name is appended *)
Theorem wspec_push_name_verbatim a k r n : wprefix_grammar a = Some (k, r) -> k_verbatim k = true ->
  k <> Verbatim [85; 78; 67] -> sep_headed (s_wsep (s_norm a)) r -> noprefix n = true -> gn wany n ->
  wspec (w_push a n) = wspec a ++ [WC (Normal n)].
Proof.
  intros Hg Hk Hunc Hr Hn G. assert (Hne : n <> []) by (destruct G as (_ & X & _); exact X).
  rewrite (wspec_join_verbatim a k r n Hg Hk Hunc Hr Hn Hne). rewrite (wspec_plain n Hn), (gcomps_gn wany wany_dot n G).
  reflexivity.
Qed.
