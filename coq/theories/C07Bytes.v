(* C07 at the level of bytes, for every history: with the byte identity of the two parents
   (StdParentBytes.v) pop and set_file_name keep the relation Rb as well, so after every step of every
   history over the shared operations the model's buffer and std's buffer are identical or std's carries
   the one extra trailing '/' that a push of the empty path leaves behind; after a push of a non-empty
   path they are identical. *)
From Coq Require Import List NArith Bool Lia Arith String.
Import ListNotations.
From TP Require Import Core CoreProofs CoreSched Path Unix StdUnix Spec Val Obs UnixProofs C04Proofs StdProofs C07Proofs StdParentBytes.
Open Scope N_scope.
Open Scope list_scope.

Lemma s_pop_u_pop b : s_pop b = u_pop b.
Proof. rewrite s_pop_spec, u_pop_spec, parent_bytes. reflexivity. Qed.

Lemma span_snoc_sep l s : usep s = true -> fst (span_nsep usep (l ++ [s])) = fst (span_nsep usep l).
Proof.
  intros Hs. induction l as [|b r IH]; cbn [app span_nsep]; [rewrite Hs; reflexivity|].
  destruct (usep b); [reflexivity|].
  destruct (span_nsep usep (r ++ [s])) as [n1 r1]. destruct (span_nsep usep r) as [n2 r2]. cbn [fst] in *. rewrite IH. reflexivity.
Qed.
Lemma parse_front_snoc_fst tp : tp <> [] ->
  option_map fst (parse_front usep true AtBeg (tp ++ [47])) = option_map fst (parse_front usep true AtBeg tp).
Proof.
  intros Hne. destruct tp as [|b r]; [congruence|]. cbn [app parse_front]. destruct (usep b) eqn:Hb; [reflexivity|].
  unfold filename. pose proof (span_snoc_sep (b :: r) 47 eq_refl) as S. cbn [app] in S.
  destruct (span_nsep usep (b :: r ++ [47])) as [n1 r1]. destruct (span_nsep usep (b :: r)) as [n2 r2]. cbn [fst] in S. subst n2.
  destruct n1; reflexivity.
Qed.
(* a trailing separator does not change the parent *)
Lemma u_parent_snoc_sep tp : tp <> [] -> u_parent (tp ++ [47]) = u_parent tp.
Proof.
  intros Hne. unfold u_parent, parent, u_nextb, u_init, next_back, u_remaining. cbn [fst snd]. unfold parse_back.
  rewrite (skipb_snoc_sep tp 47 eq_refl).
  destruct (skip_back usep true tp) as [|b0 t0]; [|reflexivity].
  pose proof (parse_front_snoc_fst tp Hne) as P.
  destruct (parse_front usep true AtBeg (tp ++ [47])) as [[c1 r1]|]; destruct (parse_front usep true AtBeg tp) as [[c2 r2]|];
    cbn [option_map fst] in P; try discriminate; [|reflexivity].
  inversion P. subst c2. reflexivity.
Qed.

Lemma pop_keeps_R tp sd : Rb tp sd -> Rb (fst (u_pop tp)) (fst (s_pop sd)) /\ snd (u_pop tp) = snd (s_pop sd).
Proof.
  intros [-> | (-> & Hne & Hl)]; rewrite s_pop_u_pop.
  - split; [left; reflexivity | reflexivity].
  - rewrite !u_pop_spec, (u_parent_snoc_sep tp Hne).
    destruct (u_parent tp) as [r|]; cbn [fst snd]; (split; [|reflexivity]); [left; reflexivity|].
    right. split; [reflexivity|]. split; assumption.
Qed.
Lemma sfn_keeps_R tp sd n : Rb tp sd -> Rb (u_set_file_name tp n) (s_set_file_name sd n).
Proof.
  intros HR. pose proof (Rb_comps tp sd HR) as E.
  unfold u_set_file_name, set_file_name, s_set_file_name. fold u_file_name u_pop.
  rewrite s_file_name_spec. rewrite <- (u_file_name_comps tp sd E).
  destruct (u_file_name tp); apply push_keeps_R; [apply (pop_keeps_R tp sd HR) | exact HR].
Qed.
Lemma Rb_refl b : Rb b b.
Proof. left. reflexivity. Qed.

Theorem hist_step_R tp sd op : std_op op = true -> Rb tp sd ->
  Rb (fst (hist_step UE tp op)) (fst (hist_step SE sd op)) /\ snd (hist_step UE tp op) = snd (hist_step SE sd op).
Proof.
  intros Hop HR. destruct op; try discriminate; cbn [hist_step UE SE o_push o_pop o_set_file_name fst snd].
  - split; [apply push_keeps_R; exact HR | reflexivity].
  - destruct (pop_keeps_R tp sd HR) as (E1 & E2). destruct (u_pop tp) as [b1 r1]. destruct (s_pop sd) as [b2 r2].
    cbn [fst snd] in *. split; [exact E1 | rewrite E2; reflexivity].
  - split; [apply sfn_keeps_R; exact HR | reflexivity].
  - split; [apply Rb_refl | reflexivity].
  - split; [apply push_keeps_R; exact HR | reflexivity].
  - split; [apply sfn_keeps_R; exact HR | reflexivity].
  - split; [apply extend_keeps_R; exact HR | reflexivity].
  - split; [apply extend_keeps_R; apply Rb_refl | reflexivity].
Qed.
Theorem hist_R ops : forall tp sd, forallb std_op ops = true -> Rb tp sd ->
  Forall2 (fun u s => Rb (fst u) (fst s) /\ snd u = snd s) (hist_bufs UE tp ops) (hist_bufs SE sd ops).
Proof.
  induction ops as [|op ops IH]; intros tp sd Hops E; [constructor|].
  cbn [forallb] in Hops. apply andb_true_iff in Hops as [Hop Hops].
  cbn [hist_bufs]. destruct (hist_step_R tp sd op Hop E) as (E1 & E2).
  destruct (hist_step UE tp op) as [b1 r1]. destruct (hist_step SE sd op) as [b2 r2]. cbn [fst snd] in *.
  constructor; [split; assumption | apply IH; assumption].
Qed.
(* the buffer a history ends in *)
Definition hist_end (E : encops) (buf : list byte) (ops : list hop) : list byte :=
  fold_left (fun b op => fst (hist_step E b op)) ops buf.
Lemma hist_end_R ops : forall tp sd, forallb std_op ops = true -> Rb tp sd -> Rb (hist_end UE tp ops) (hist_end SE sd ops).
Proof.
  induction ops as [|op ops IH]; intros tp sd Hops E; [exact E|].
  cbn [forallb] in Hops. apply andb_true_iff in Hops as [Hop Hops].
  unfold hist_end. cbn [fold_left]. apply IH; [exact Hops|]. apply (hist_step_R tp sd op Hop E).
Qed.
(* after any history from one common buffer, a push (or join) of a non-empty path leaves identical bytes *)
Theorem hist_then_push_bytes buf ops p : forallb std_op ops = true -> p <> [] ->
  hist_end UE buf (ops ++ [HPush p]) = hist_end SE buf (ops ++ [HPush p]).
Proof.
  intros Hops Hp. unfold hist_end. rewrite !fold_left_app. cbn [fold_left hist_step UE SE o_push fst].
  apply push_bytes_R; [|exact Hp]. apply (hist_end_R ops buf buf Hops (Rb_refl buf)).
Qed.
