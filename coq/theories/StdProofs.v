(* The Gallina transcription of std::path (StdUnix.v) against the specification ucomps:
   front-only and back-only iteration of std's Components state machine yield ucomps from the
   respective end.  With the C05/C09/C10/C12 characterisations of the typed-path model this gives
   "the same answer as std" for every query that is a function of the component list. *)
From Coq Require Import List NArith Bool Lia Arith.
Import ListNotations.
From TP Require Import Core CoreProofs CoreSched Deq Path Unix StdUnix Spec Ops UnixProofs C05Proofs C10Proofs C04Proofs C11Proofs.
Open Scope N_scope.

Notation BODY := (body usep true).
Notation LEAD := (lead_extra usep true).
Lemma ssep_usep : ssep = usep. Proof. reflexivity. Qed.

(* parse_single_component against the specification's classification of a segment *)
Lemma s_single_sc seg : sc true false seg = match s_single seg with Some x => [x] | None => [] end.
Proof.
  unfold sc, seg_comp, s_single. destruct seg as [|x t]; [reflexivity|].
  destruct (is_dot (x :: t)) eqn:Ed.
  - apply is_dot_iff in Ed. rewrite Ed. reflexivity.
  - destruct (is_dotdot (x :: t)); reflexivity.
Qed.

(* ---------------- front-only iteration ---------------- *)
Definition fcs (c : scomps) : list comp :=
  match s_front c with
  | SStartDir | SPrefix => LEAD (s_path c) ++ BODY (s_path c)
  | SBody => BODY (s_path c)
  | SDone => []
  end.
Definition FInv (c : scomps) : Prop :=
  s_back c = SBody /\ (s_front c = SStartDir \/ s_front c = SBody) /\ (s_front c = SStartDir -> s_root c = root_ok usep (s_path c)).

Lemma skipn_span path seg rest : span_nsep usep path = (seg, rest) ->
  skipn (length seg + match rest with [] => 0 | _ => 1 end) path = tl rest.
Proof.
  intros Hs. destruct (span_spec usep _ _ _ Hs) as (-> & _ & Hr).
  destruct Hr as [-> | (s & r' & -> & _)].
  - rewrite Nat.add_0_r, app_nil_r, skipn_all. reflexivity.
  - rewrite skipn_app. rewrite skipn_all2 by lia. replace (length seg + 1 - length seg)%nat with 1%nat by lia. reflexivity.
Qed.

Lemma s_next_body : forall fuel c, s_front c = SBody -> s_back c = SBody -> (length (s_path c) + 1 < fuel)%nat ->
  match s_next fuel c with
  | (Some x, c') => BODY (s_path c) = x :: BODY (s_path c') /\ s_front c' = SBody /\ s_back c' = SBody /\
                    (length (s_path c') < length (s_path c))%nat
  | (None, _) => BODY (s_path c) = []
  end.
Proof.
  induction fuel as [|f IH]; intros c Hf Hb Hl; [lia|].
  cbn [s_next]. unfold s_finished. rewrite Hf, Hb. cbn [s_is sidx Nat.eqb sle Nat.leb orb negb].
  destruct (s_path c) as [|p0 pt] eqn:Ep.
  - destruct f as [|f']; [cbn in Hl; lia|]. cbn [s_next]. unfold s_finished. cbn. reflexivity.
  - unfold s_next_comp. rewrite ssep_usep. destruct (span_nsep usep (p0 :: pt)) as [seg rest] eqn:Hs.
    pose proof (body_span usep true (p0 :: pt) seg rest Hs) as Hbody. fold (sc true false seg) in Hbody.
    rewrite s_single_sc in Hbody.
    pose proof (skipn_span _ _ _ Hs) as Hsk. rewrite Hsk.
    assert (Hlen : (length (tl rest) < length (p0 :: pt))%nat).
    { destruct (span_spec usep _ _ _ Hs) as (E & _ & Hr). rewrite E, app_length.
      destruct Hr as [-> | (s & r' & -> & _)]; cbn [tl length].
      - destruct seg; [rewrite app_nil_r in E; discriminate | cbn; lia].
      - lia. }
    destruct (s_single seg) as [x|].
    + cbn [s_path s_with_path s_front s_back]. repeat split; assumption.
    + specialize (IH (s_with_path c (tl rest))). cbn [s_path s_with_path s_front s_back] in IH.
      specialize (IH Hf Hb). cbn [app] in Hbody.
      assert (Hl' : (length (tl rest) + 1 < f)%nat) by (cbn [length] in *; lia).
      specialize (IH Hl'). destruct (s_next f (s_with_path c (tl rest))) as [[x|] c'].
      * destruct IH as (E & H1 & H2 & H3). rewrite Hbody. repeat split; try assumption. lia.
      * rewrite Hbody. exact IH.
Qed.

Lemma include_cur_ok c : s_root c = false -> s_include_cur_dir c = cur_ok usep (s_path c).
Proof. intros H. unfold s_include_cur_dir, cur_ok. rewrite H. destruct (s_path c) as [|b [|d t]]; reflexivity. Qed.

Lemma s_next_front_step c : FInv c ->
  match s_nextf c with
  | Some (x, c') => fcs c = x :: fcs c' /\ FInv c'
  | None => fcs c = []
  end.
Proof.
  intros (Hb & Hfr & Hroot). unfold s_nextf, s_fuel.
  destruct Hfr as [Hf | Hf].
  - (* StartDir *)
    specialize (Hroot Hf).
    replace (length (s_path c) + 5)%nat with (S (length (s_path c) + 4)) by lia. cbn [s_next].
    unfold s_finished. rewrite Hf, Hb. cbn [s_is sidx Nat.eqb sle Nat.leb orb negb].
    unfold fcs. rewrite Hf.
    destruct (s_root c) eqn:Er.
    + (* root *)
      symmetry in Hroot. destruct (s_path c) as [|s r] eqn:Ep; [discriminate|]. cbn [root_ok] in Hroot.
      cbn [s_with_front s_with_path s_path s_front s_back s_root]. rewrite ?Ep. cbn [tl].
      rewrite (lead_extra_sep usep true s r Hroot), (body_cons_sep usep true s r Hroot).
      split; [reflexivity|]. split; [exact Hb|]. split; [right; reflexivity | discriminate].
    + rewrite (include_cur_ok c Er).
      assert (HL : LEAD (s_path c) = if cur_ok usep (s_path c) then [Cur] else []).
      { unfold lead_extra. rewrite <- Hroot. reflexivity. }
      destruct (cur_ok usep (s_path c)) eqn:Ec.
      * (* leading "." *)
        cbn [s_with_front s_with_path s_path s_front s_back s_root].
        rewrite HL. cbn [app]. split.
        -- f_equal. destruct (s_path c) as [|b [|d t]] eqn:Ep; [discriminate | |].
           ++ cbn in Ec. apply N.eqb_eq in Ec. subst b. cbn [tl].
              rewrite (body_nosep usep true [46] (nosep_dot usep usep_dot)). reflexivity.
           ++ cbn [cur_ok] in Ec. apply andb_true_iff in Ec as [Eb Ed]. apply N.eqb_eq in Eb. subst b. cbn [tl].
              change (46 :: d :: t) with ([46] ++ d :: t). rewrite (body_app_sep usep true [46] t d Ed).
              rewrite (body_nosep usep true [46] (nosep_dot usep usep_dot)), (body_cons_sep usep true d t Ed). reflexivity.
        -- split; [exact Hb|]. split; [right; reflexivity | discriminate].
      * (* neither: fall through to the body *)
        rewrite HL. cbn [app].
        pose proof (s_next_body (length (s_path c) + 4) (s_with_front c SBody)) as B.
        cbn [s_with_front s_path s_front s_back] in B. specialize (B eq_refl Hb ltac:(lia)).
        destruct (s_next (length (s_path c) + 4) (s_with_front c SBody)) as [[x|] c'].
        -- destruct B as (E & H1 & H2 & _). split; [rewrite E; unfold fcs; rewrite H1; reflexivity|].
           split; [exact H2|]. split; [right; exact H1 | rewrite H1; discriminate].
        -- exact B.
  - (* Body *)
    pose proof (s_next_body (length (s_path c) + 5) c Hf Hb ltac:(lia)) as B.
    destruct (s_next (length (s_path c) + 5) c) as [[x|] c'].
    + destruct B as (E & H1 & H2 & _). unfold fcs. rewrite Hf, H1. split; [exact E|].
      split; [exact H2|]. split; [right; exact H1 | rewrite H1; discriminate].
    + unfold fcs. rewrite Hf. exact B.
Qed.

Lemma FInv_init l : FInv (s_init l).
Proof. unfold FInv, s_init. cbn. split; [reflexivity|]. split; [left; reflexivity|]. intros _. destruct l; reflexivity. Qed.
Lemma fcs_init l : fcs (s_init l) = ucomps l.
Proof. unfold fcs, s_init. cbn. rewrite ucomps_cs. reflexivity. Qed.

(* std's components, iterated from the front, are the specification components *)
Theorem s_components_spec l : s_components l = ucomps l.
Proof.
  unfold s_components. rewrite <- fcs_init.
  apply (deq_front_all scomps comp fcs FInv s_nextf s_next_front_step); [apply FInv_init|].
  rewrite fcs_init. pose proof (ucomps_len l). lia.
Qed.
(* hence equality and ordering of paths agree with the model's *)
Theorem s_path_eq_spec a b : s_path_eq a b = u_path_eq a b.
Proof.
  unfold s_path_eq, u_path_eq, path_eq. fold (u_components a) (u_components b).
  rewrite !s_components_spec, !u_components_spec.
  generalize (ucomps a) (ucomps b). induction l as [|x l IH]; intros [|y l0]; cbn; try reflexivity; rewrite IH; reflexivity.
Qed.
Theorem s_path_cmp_spec a b : s_path_cmp a b = u_path_cmp a b.
Proof.
  unfold s_path_cmp, u_path_cmp, path_cmp. fold (u_components a) (u_components b).
  rewrite !s_components_spec, !u_components_spec. reflexivity.
Qed.
Theorem s_has_root_spec l : s_has_root l = u_has_root l.
Proof.
  rewrite u_has_root_spec, ucomps_cs. unfold cs, cspec. cbn [fst snd]. unfold s_has_root, s_init. cbn [s_root].
  unfold lead_extra. destruct l as [|b r]; [reflexivity|]. cbn [root_ok]. rewrite ssep_usep.
  destruct (usep b) eqn:Hb; [reflexivity|].
  destruct (true && cur_ok usep (b :: r)); cbn [app]; [reflexivity|].
  destruct (body usep true (b :: r)) as [|c0 t0] eqn:Eb; [reflexivity|]. destruct c0; try reflexivity.
  exfalso. pose proof (body_no_root_cur (b :: r)) as H. rewrite Eb in H. inversion H as [|? ? [H1 _] _]. congruence.
Qed.

(* ---------------- back-only iteration ---------------- *)
Definition leadb (c : scomps) : list comp :=
  if s_root c then [Root] else if s_include_cur_dir c then [Cur] else [].
Definition bcs (c : scomps) : list comp :=
  match s_back c with
  | SBody => leadb c ++ BODY (skipn (s_len_before_body c) (s_path c))
  | _ => []
  end.
Definition BInv (c : scomps) : Prop :=
  s_front c = SStartDir /\ ((s_back c = SBody /\ s_root c = root_ok usep (s_path c)) \/ (s_back c = SDone /\ s_path c = [])).

Lemma lbb_leadb c : s_front c = SStartDir -> s_len_before_body c = length (leadb c).
Proof.
  intros Hf. unfold s_len_before_body, leadb. rewrite Hf. cbn [sle sidx Nat.leb andb].
  unfold s_include_cur_dir. destruct (s_root c); [reflexivity|]. cbn.
  destruct (match s_path c with [] => false | [b] => b =? 46 | b :: d :: _ => (b =? 46) && ssep d end); reflexivity.
Qed.
Lemma drop_last_app (a b : list byte) : drop_last (length b) (a ++ b) = a.
Proof.
  unfold drop_last. rewrite app_length. replace (length a + length b - length b)%nat with (length a) by lia.
  rewrite firstn_app, firstn_all, Nat.sub_diag. cbn. apply app_nil_r.
Qed.
(* the head (root byte or leading ".") is the first lbb bytes, and what the head is depends on at most two bytes *)
Lemma leadb_lead c : s_root c = root_ok usep (s_path c) -> leadb c = LEAD (s_path c).
Proof.
  intros Hr. unfold leadb, lead_extra. rewrite <- Hr. destruct (s_root c) eqn:Er; [reflexivity|].
  rewrite (include_cur_ok c Er). reflexivity.
Qed.
Lemma body_skip_lead l : BODY (skipn (length (LEAD l)) l) = BODY l.
Proof.
  unfold lead_extra. destruct l as [|b r]; [reflexivity|]. cbn [root_ok].
  destruct (usep b) eqn:Hb.
  - cbn [length skipn]. symmetry. apply (body_cons_sep usep true b r Hb).
  - cbn [andb]. destruct (cur_ok usep (b :: r)) eqn:Ec; [|reflexivity].
    cbn [length skipn]. destruct r as [|d t].
    + cbn in Ec. apply N.eqb_eq in Ec. subst b. rewrite (body_nosep usep true [46] (nosep_dot usep usep_dot)). reflexivity.
    + cbn [cur_ok] in Ec. apply andb_true_iff in Ec as [Eb Ed]. apply N.eqb_eq in Eb. subst b.
      change (46 :: d :: t) with ([46] ++ d :: t). rewrite (body_app_sep usep true [46] t d Ed).
      rewrite (body_nosep usep true [46] (nosep_dot usep usep_dot)), (body_cons_sep usep true d t Ed). reflexivity.
Qed.
Lemma bcs_init l : bcs (s_init l) = ucomps l.
Proof.
  unfold bcs. cbn [s_init s_back]. rewrite (lbb_leadb (s_init l) eq_refl).
  assert (Hr : s_root (s_init l) = root_ok usep (s_path (s_init l))) by (cbn; destruct l; reflexivity).
  rewrite (leadb_lead _ Hr). cbn [s_init s_path]. rewrite body_skip_lead. rewrite ucomps_cs. reflexivity.
Qed.

(* LEAD of a path depends on its first two bytes only *)
Definition trail_sep (rest : list byte) : Prop := rest = [] \/ exists s r, rest = s :: r /\ usep s = true.
Lemma lead_prefix p' rest : trail_sep rest -> (length (LEAD (p' ++ rest)) <= length p')%nat -> LEAD p' = LEAD (p' ++ rest).
Proof.
  intros Hr Hl. destruct p' as [|b [|d t]].
  - cbn [app] in *. destruct (LEAD rest); [apply (lead_extra_nil usep true) | cbn in Hl; lia].
  - cbn [app]. unfold lead_extra. cbn [root_ok]. destruct (usep b); [reflexivity|].
    destruct Hr as [-> | (s & r & -> & Hs)]; [reflexivity|]. cbn [cur_ok]. rewrite Hs, andb_true_r. reflexivity.
  - cbn [app]. apply lead_extra_cons2.
Qed.
Lemma lead_head l : LEAD (firstn (length (LEAD l)) l) = LEAD l.
Proof.
  unfold lead_extra. destruct l as [|b r]; [reflexivity|]. cbn [root_ok]. destruct (usep b) eqn:Hb.
  - cbn [length firstn root_ok]. rewrite Hb. reflexivity.
  - cbn [andb]. destruct (cur_ok usep (b :: r)) eqn:Ec; cbn [length firstn]; [|cbn; reflexivity].
    cbn [root_ok]. rewrite Hb. cbn [andb cur_ok].
    destruct r as [|d t]; cbn [cur_ok] in Ec; [rewrite Ec; reflexivity|]. apply andb_true_iff in Ec as [Eb _]. rewrite Eb. reflexivity.
Qed.
Lemma root_ok_lead l : root_ok usep l = match LEAD l with Root :: _ => true | _ => false end.
Proof. unfold lead_extra. destruct (root_ok usep l); [reflexivity|]. destruct (true && cur_ok usep l); reflexivity. Qed.

(* one back step from the body state *)
Lemma s_next_back_body : forall fuel c, s_front c = SStartDir -> s_back c = SBody -> s_root c = root_ok usep (s_path c) ->
  (length (s_path c) + 3 < fuel)%nat ->
  match s_next_back fuel c with
  | (Some x, c') => bcs c = bcs c' ++ [x] /\ BInv c' /\ exists j, s_path c = s_path c' ++ j
  | (None, _) => bcs c = []
  end.
Proof.
  induction fuel as [|f IH]; intros c Hf Hb Hr Hl; [lia|].
  cbn [s_next_back]. unfold s_finished. rewrite Hf, Hb. cbn [s_is sidx Nat.eqb sle Nat.leb orb negb].
  pose proof (lbb_leadb c Hf) as Hlbb. pose proof (leadb_lead c Hr) as HL.
  unfold bcs. rewrite Hb, Hlbb, HL.
  destruct (Nat.ltb (length (LEAD (s_path c))) (length (s_path c))) eqn:Elt.
  - (* a body segment is left *)
    apply Nat.ltb_lt in Elt.
    unfold s_next_comp_back. rewrite Hlbb, HL. rewrite ssep_usep.
    set (lbb := length (LEAD (s_path c))) in *.
    set (bodyb := skipn lbb (s_path c)) in *.
    destruct (span_nsep usep (rev bodyb)) as [seg_r rest_r] eqn:Hs.
    assert (Hrs : rspan usep bodyb = (rev rest_r, rev seg_r)) by (unfold rspan; rewrite Hs; reflexivity).
    destruct (rspan_spec usep usep_dot _ _ _ Hrs) as (Hbody & Hn & Hbef & _).
    set (before := rev rest_r) in *. set (seg := rev seg_r) in *.
    assert (Hpath : s_path c = firstn lbb (s_path c) ++ before ++ seg) by (rewrite <- Hbody; symmetry; apply firstn_skipn).
    assert (Hlen_hd : length (firstn lbb (s_path c)) = lbb) by (apply firstn_length_le; lia).
    assert (Hsz : (length seg_r + match rest_r with [] => 0 | _ => 1 end)%nat = (length seg + match before with [] => 0 | _ => 1 end)%nat).
    { unfold seg, before. rewrite rev_length. destruct rest_r as [|y t]; [reflexivity|]. cbn [rev]. destruct (rev t ++ [y]) eqn:E; [destruct (rev t); discriminate | reflexivity]. }
    rewrite Hsz.
    assert (Hbb : BODY bodyb = BODY before ++ sc true false seg) by (rewrite Hbody; apply (body_before_seg usep true before seg Hn Hbef)).
    rewrite s_single_sc in Hbb.
    (* the new path, its LEAD and its body *)
    assert (Hnew : exists p', drop_last (length seg + match before with [] => 0 | _ => 1 end) (s_path c) = p' /\
                              LEAD p' = LEAD (s_path c) /\ BODY (skipn lbb p') = BODY before /\ (length p' < length (s_path c))%nat).
    { destruct Hbef as [Eb | (b' & s0 & Eb & Hs0)].
      - (* the segment is the whole body *)
        exists (firstn lbb (s_path c)). rewrite Eb in *. cbn [app] in Hpath. rewrite Nat.add_0_r.
        split; [etransitivity; [apply f_equal; exact Hpath | apply drop_last_app]|]. split; [apply lead_head|].
        split; [rewrite skipn_all2 by lia; reflexivity | rewrite firstn_length; lia].
      - exists (firstn lbb (s_path c) ++ b').
        assert (Hp2 : s_path c = (firstn lbb (s_path c) ++ b') ++ ([s0] ++ seg)).
        { rewrite Hpath at 1. rewrite Eb. rewrite <- !app_assoc. reflexivity. }
        split.
        + destruct before eqn:Eb0; [destruct b'; discriminate|].
          replace (length seg + 1)%nat with (length ([s0] ++ seg)) by (cbn; lia).
          etransitivity; [apply f_equal; exact Hp2 | apply drop_last_app].
        + split; [|split].
          * transitivity (LEAD ((firstn lbb (s_path c) ++ b') ++ [s0] ++ seg)); [|rewrite <- Hp2; reflexivity].
            apply lead_prefix.
            -- right. exists s0, seg. auto.
            -- rewrite <- Hp2. rewrite app_length, Hlen_hd. fold lbb. lia.
          * rewrite skipn_app, Hlen_hd, Nat.sub_diag. rewrite skipn_all2 by lia. cbn [skipn app].
            rewrite Eb. symmetry. apply (body_snoc_sep usep true b' s0 Hs0).
          * apply (f_equal (@length byte)) in Hp2. rewrite !app_length in Hp2. rewrite app_length. cbn in Hp2. lia. }
    destruct Hnew as (p' & Hdrop & Hlead' & Hbody' & Hlen').
    rewrite Hdrop.
    assert (Hroot' : s_root c = root_ok usep p') by (rewrite Hr, !root_ok_lead, Hlead'; reflexivity).
    destruct (s_single seg) as [x|].
    + (* a component is produced *)
      split.
      * cbn [s_with_path s_back s_path]. rewrite Hb.
        rewrite (lbb_leadb (s_with_path c p') Hf). rewrite (leadb_lead (s_with_path c p') Hroot'). cbn [s_with_path s_path].
        rewrite Hlead'. fold lbb. rewrite Hbody'. fold bodyb. rewrite Hbb. rewrite app_assoc. reflexivity.
      * split; [split; [exact Hf|]; left; split; [exact Hb | exact Hroot']|].
        cbn [s_with_path s_path]. rewrite <- Hdrop. unfold drop_last.
        exists (skipn (length (s_path c) - (length seg + match before with [] => 0 | _ => 1 end)) (s_path c)). symmetry. apply firstn_skipn.
    + (* an empty or "." segment: keep trimming *)
      specialize (IH (s_with_path c p')). cbn [s_with_path s_front s_back s_root s_path] in IH.
      specialize (IH Hf Hb Hroot' ltac:(lia)).
      assert (Ebcs : LEAD (s_path c) ++ BODY bodyb = bcs (s_with_path c p')).
      { unfold bcs. cbn [s_with_path s_back]. rewrite Hb.
        rewrite (lbb_leadb (s_with_path c p') Hf). rewrite (leadb_lead (s_with_path c p') Hroot'). cbn [s_with_path s_path].
        rewrite Hlead'. fold lbb. rewrite Hbody', Hbb, app_nil_r. reflexivity. }
      rewrite Ebcs. destruct (s_next_back f (s_with_path c p')) as [[x|] c'']; [|exact IH].
      destruct IH as (E1 & HI & (j1 & Hj1)). split; [exact E1|]. split; [exact HI|].
      cbn [s_with_path s_path] in Hj1. exists (j1 ++ skipn (length (s_path c) - (length seg + match before with [] => 0 | _ => 1 end)) (s_path c)).
      rewrite app_assoc, <- Hj1, <- Hdrop. unfold drop_last. symmetry. apply firstn_skipn.
  - (* the body is exhausted: hand out the head, if any *)
    apply Nat.ltb_ge in Elt.
    rewrite skipn_all2 by exact Elt. rewrite body_nil, app_nil_r.
    destruct f as [|f1]; [lia|]. cbn [s_next_back]. unfold s_finished. cbn [s_with_back s_front s_back]. rewrite Hf.
    cbn [s_is sidx Nat.eqb sle Nat.leb orb negb]. cbn [s_root s_with_back].
    rewrite <- HL. unfold leadb.
    assert (Hdl : drop_last 1 (s_path c) = []).
    { unfold drop_last. assert (length (LEAD (s_path c)) <= 1)%nat by apply (lead_extra_len usep true).
      replace (length (s_path c) - 1)%nat with 0%nat by lia. reflexivity. }
    assert (Hpre0 : exists j, s_path c = [] ++ j) by (exists (s_path c); reflexivity).
    destruct (s_root c) eqn:Er.
    + split; [reflexivity|]. cbn [s_with_path s_with_back s_path s_front s_back]. rewrite Hdl.
      split; [split; [exact Hf | right; split; reflexivity] | exact Hpre0].
    + assert (Hic : s_include_cur_dir (s_with_back c SStartDir) = s_include_cur_dir c) by reflexivity.
      rewrite Hic. destruct (s_include_cur_dir c).
      * split; [reflexivity|]. cbn [s_with_path s_with_back s_path s_front s_back]. rewrite Hdl.
        split; [split; [exact Hf | right; split; reflexivity] | exact Hpre0].
      * destruct f1 as [|f2]; [lia|]. cbn [s_next_back]. unfold s_finished. cbn [s_with_back s_front s_back]. rewrite ?Hf. cbn. reflexivity.
Qed.

Lemma s_next_back_step c : BInv c ->
  match s_nextb c with
  | Some (x, c') => bcs c = bcs c' ++ [x] /\ BInv c'
  | None => bcs c = []
  end.
Proof.
  intros (Hf & [(Hb & Hr) | (Hb & _)]); unfold s_nextb, s_fuel.
  - pose proof (s_next_back_body (length (s_path c) + 5) c Hf Hb Hr ltac:(lia)) as B.
    destruct (s_next_back (length (s_path c) + 5) c) as [[x|] c']; [destruct B as (B1 & B2 & _); split; assumption | exact B].
  - replace (length (s_path c) + 5)%nat with (S (length (s_path c) + 4)) by lia. cbn [s_next_back].
    unfold s_finished. rewrite Hb. cbn. rewrite orb_true_r. unfold bcs. rewrite Hb. reflexivity.
Qed.
Lemma BInv_init l : BInv (s_init l).
Proof. split; [reflexivity|]. left. split; [reflexivity|]. cbn. destruct l; reflexivity. Qed.

(* std's components, iterated from the back, are the specification components reversed *)
Theorem s_components_rev_spec l : back_all scomps comp s_nextb (S (length l)) (s_init l) = rev (ucomps l).
Proof.
  rewrite <- bcs_init.
  apply (deq_back_all scomps comp bcs BInv s_nextb s_next_back_step); [apply BInv_init|].
  rewrite bcs_init. pose proof (ucomps_len l). lia.
Qed.
Lemma s_nextb_init_spec l :
  match s_nextb (s_init l) with
  | Some (c, c') => ucomps l = bcs c' ++ [c] /\ BInv c' /\ exists j, l = s_path c' ++ j
  | None => ucomps l = []
  end.
Proof.
  rewrite <- bcs_init. unfold s_nextb, s_fuel.
  pose proof (s_next_back_body (length (s_path (s_init l)) + 5) (s_init l) eq_refl eq_refl) as B.
  assert (Hr : s_root (s_init l) = root_ok usep (s_path (s_init l))) by (cbn; destruct l; reflexivity).
  specialize (B Hr ltac:(lia)).
  destruct (s_next_back (length (s_path (s_init l)) + 5) (s_init l)) as [[x|] c']; exact B.
Qed.

(* file name, stem and extension: identical to the model's (they are functions of the last component) *)
Theorem s_file_name_spec l : s_file_name l = u_file_name l.
Proof.
  rewrite u_file_name_spec. unfold s_file_name. pose proof (s_nextb_init_spec l) as B.
  destruct (s_nextb (s_init l)) as [[c c']|].
  - destruct B as (E & _). rewrite E, rev_app_distr. cbn. destruct c; reflexivity.
  - rewrite B. reflexivity.
Qed.
Theorem s_file_stem_spec l : s_file_stem l = u_file_stem l.
Proof. unfold s_file_stem, u_file_stem, file_stem. fold (u_file_name l). rewrite s_file_name_spec. reflexivity. Qed.
Theorem s_extension_spec l : s_extension l = u_extension l.
Proof. unfold s_extension, u_extension, extension. fold (u_file_name l). rewrite s_file_name_spec. reflexivity. Qed.

(* ---------------- as_path after back steps: trim_right ---------------- *)
Lemma bcs_body c : s_front c = SStartDir -> s_back c = SBody -> s_root c = root_ok usep (s_path c) -> bcs c = ucomps (s_path c).
Proof.
  intros Hf Hb Hr. unfold bcs. rewrite Hb, (lbb_leadb c Hf), (leadb_lead c Hr), body_skip_lead, ucomps_cs. reflexivity.
Qed.
Lemma s_trim_right_spec : forall fuel c, s_front c = SStartDir -> s_back c = SBody -> s_root c = root_ok usep (s_path c) ->
  (length (s_path c) < fuel)%nat ->
  ucomps (s_path (s_trim_right fuel c)) = ucomps (s_path c) /\ exists j, s_path c = s_path (s_trim_right fuel c) ++ j.
Proof.
  induction fuel as [|f IH]; intros c Hf Hb Hr Hl; [lia|].
  cbn [s_trim_right].
  destruct (Nat.ltb (s_len_before_body c) (length (s_path c))) eqn:Elt; [|split; [reflexivity | exists []; symmetry; apply app_nil_r]].
  destruct (s_next_comp_back c) as [size cm] eqn:Enc.
  destruct cm as [x|]; [split; [reflexivity | exists []; symmetry; apply app_nil_r]|].
  (* one trimming step = the None branch of the back step *)
  pose proof (s_next_back_body (S (length (s_path c) + 4)) c Hf Hb Hr ltac:(lia)) as B.
  cbn [s_next_back] in B. unfold s_finished in B. rewrite Hf, Hb in B. cbn [s_is sidx Nat.eqb sle Nat.leb orb negb] in B.
  rewrite Elt, Enc in B.
  set (c1 := s_with_path c (drop_last size (s_path c))) in *.
  (* the shortened path keeps the components: read it off bcs *)
  assert (Hlen1 : (length (s_path c1) <= length (s_path c))%nat).
  { unfold c1. cbn [s_with_path s_path]. unfold drop_last. rewrite firstn_length. lia. }
  assert (Hpre : exists j, s_path c = s_path c1 ++ j).
  { unfold c1. cbn [s_with_path s_path]. unfold drop_last. exists (skipn (length (s_path c) - size) (s_path c)). symmetry. apply firstn_skipn. }
  (* size is positive: the path gets strictly shorter *)
  assert (Hsize : (0 < size)%nat /\ s_root c1 = root_ok usep (s_path c1) /\ bcs c1 = bcs c).
  { (* replay the analysis of the back step on this one segment *)
    clear IH B. unfold s_next_comp_back in Enc. rewrite (lbb_leadb c Hf), (leadb_lead c Hr), ssep_usep in Enc.
    rewrite (lbb_leadb c Hf), (leadb_lead c Hr) in Elt. apply Nat.ltb_lt in Elt.
    set (lbb := length (LEAD (s_path c))) in *.
    set (bodyb := skipn lbb (s_path c)) in *.
    destruct (span_nsep usep (rev bodyb)) as [seg_r rest_r] eqn:Hs. inversion Enc as [[Esz Ecm]]. clear Enc.
    assert (Hrs : rspan usep bodyb = (rev rest_r, rev seg_r)) by (unfold rspan; rewrite Hs; reflexivity).
    destruct (rspan_spec usep usep_dot _ _ _ Hrs) as (Hbody & Hn & Hbef & _).
    set (before := rev rest_r) in *. set (seg := rev seg_r) in *.
    assert (Hpath : s_path c = firstn lbb (s_path c) ++ before ++ seg) by (rewrite <- Hbody; symmetry; apply firstn_skipn).
    assert (Hlen_hd : length (firstn lbb (s_path c)) = lbb) by (apply firstn_length_le; lia).
    assert (Hsz : size = (length seg + match before with [] => 0 | _ => 1 end)%nat).
    { rewrite <- Esz. unfold seg, before. rewrite rev_length. destruct rest_r as [|y t]; [reflexivity|]. cbn [rev]. destruct (rev t ++ [y]) eqn:E; [destruct (rev t); discriminate | reflexivity]. }
    assert (Hbb : BODY bodyb = BODY before ++ sc true false seg) by (rewrite Hbody; apply (body_before_seg usep true before seg Hn Hbef)).
    rewrite s_single_sc, Ecm, app_nil_r in Hbb.
    assert (Hnonempty : bodyb <> []).
    { intros E. apply (f_equal (@length byte)) in E. unfold bodyb in E. rewrite skipn_length in E. cbn in E. lia. }
    assert (Hnew : LEAD (s_path c1) = LEAD (s_path c) /\ BODY (skipn lbb (s_path c1)) = BODY before /\ (0 < size)%nat).
    { unfold c1. cbn [s_with_path s_path]. rewrite Hsz.
      destruct Hbef as [Eb | (b' & s0 & Eb & Hs0)].
      - rewrite Eb in *. cbn [app] in Hpath, Hbody. rewrite Nat.add_0_r.
        assert (Ed : drop_last (length seg) (s_path c) = firstn lbb (s_path c)) by (etransitivity; [apply f_equal; exact Hpath | apply drop_last_app]).
        rewrite Ed. split; [apply lead_head|]. split; [rewrite skipn_all2 by lia; reflexivity|].
        destruct seg; [rewrite Hbody in Hnonempty; congruence | cbn; lia].
      - assert (Hp2 : s_path c = (firstn lbb (s_path c) ++ b') ++ ([s0] ++ seg)).
        { rewrite Hpath at 1. rewrite Eb. rewrite <- !app_assoc. reflexivity. }
        assert (Ed : drop_last (length seg + 1) (s_path c) = firstn lbb (s_path c) ++ b').
        { replace (length seg + 1)%nat with (length ([s0] ++ seg)) by (cbn; lia). etransitivity; [apply f_equal; exact Hp2 | apply drop_last_app]. }
        destruct before eqn:Eb0; [destruct b'; discriminate|]. rewrite Ed.
        split; [|split; [|lia]].
        + transitivity (LEAD ((firstn lbb (s_path c) ++ b') ++ [s0] ++ seg)); [|rewrite <- Hp2; reflexivity].
          apply lead_prefix; [right; exists s0, seg; auto|]. rewrite <- Hp2. rewrite app_length, Hlen_hd. fold lbb. lia.
        + rewrite skipn_app, Hlen_hd, Nat.sub_diag. rewrite skipn_all2 by lia. cbn [skipn app].
          rewrite Eb. symmetry. apply (body_snoc_sep usep true b' s0 Hs0). }
    destruct Hnew as (Hlead' & Hbody' & Hpos).
    assert (Hroot' : s_root c1 = root_ok usep (s_path c1)).
    { unfold c1 at 1. cbn [s_with_path s_root]. rewrite Hr, !root_ok_lead, Hlead'. reflexivity. }
    split; [rewrite ?Esz; exact Hpos|]. split; [exact Hroot'|].
    unfold bcs. unfold c1 at 1. cbn [s_with_path s_back]. rewrite Hb.
    rewrite (lbb_leadb c1 Hf), (leadb_lead c1 Hroot'), (lbb_leadb c Hf), (leadb_lead c Hr).
    rewrite Hlead'. fold lbb. rewrite Hbody'. fold bodyb. rewrite Hbb. reflexivity. }
  destruct Hsize as (Hpos & Hroot1 & Hbcs1).
  assert (Hlt1 : (length (s_path c1) < length (s_path c))%nat).
  { unfold c1. cbn [s_with_path s_path]. unfold drop_last. rewrite firstn_length.
    rewrite (lbb_leadb c Hf) in Elt. apply Nat.ltb_lt in Elt. lia. }
  destruct (IH c1 Hf Hb Hroot1 ltac:(lia)) as (E1 & (j1 & Hj1)).
  split.
  - rewrite E1. rewrite <- (bcs_body c1 Hf Hb Hroot1), <- (bcs_body c Hf Hb Hr). exact Hbcs1.
  - destruct Hpre as (j0 & Hj0). exists (j1 ++ j0). rewrite Hj0. rewrite Hj1 at 1. rewrite <- app_assoc. reflexivity.
Qed.

(* ---------------- parent ---------------- *)
Lemma s_as_path_back c : BInv c -> ucomps (s_as_path c) = bcs c /\ exists j, s_path c = s_as_path c ++ j.
Proof.
  intros (Hf & [(Hb & Hr) | (Hb & Hp)]); unfold s_as_path; rewrite Hf; cbn [s_is sidx Nat.eqb]; rewrite Hb; cbn [s_is sidx Nat.eqb].
  - destruct (s_trim_right_spec (S (length (s_path c))) c Hf Hb Hr ltac:(lia)) as (E & J).
    split; [rewrite E; symmetry; apply bcs_body; assumption | exact J].
  - rewrite Hp. unfold bcs. rewrite Hb. split; [reflexivity | exists []; reflexivity].
Qed.
(* std's parent and the model's parent: both absent, or both leading slices of the path with the same
   components (all components but the last) *)
Theorem s_parent_spec l :
  match s_parent l, u_parent l with
  | Some r, Some r' => ucomps r = removelast (ucomps l) /\ ucomps r' = removelast (ucomps l)
                       /\ (exists j, l = r ++ j) /\ (exists j, l = r' ++ j)
  | None, None => True
  | _, _ => False
  end.
Proof.
  unfold s_parent. pose proof (s_nextb_init_spec l) as B.
  destruct (s_nextb (s_init l)) as [[c c']|].
  - destruct B as (E & HI & (j & Hj)).
    destruct (s_as_path_back c' HI) as (Ea & (j' & Hj')).
    assert (Hsome : c <> Root -> match u_parent l with Some r' => ucomps r' = removelast (ucomps l) /\ (exists j, l = r' ++ j) | None => False end).
    { intros Hc. destruct (u_parent l) as [r'|] eqn:Eu.
      - destruct (u_parent_some l r' Eu) as (J & E' & _). split; assumption.
      - apply u_parent_none in Eu as [Eu | (cs0 & Eu)].
        + rewrite Eu in E. destruct (bcs c'); discriminate.
        + rewrite Eu in E. apply app_inj_tail in E as [_ E]. congruence. }
    assert (Hr : ucomps (s_as_path c') = removelast (ucomps l)) by (rewrite Ea, E, removelast_last; reflexivity).
    assert (Hp : exists j0, l = s_as_path c' ++ j0) by (exists (j' ++ j); rewrite Hj, Hj', <- app_assoc; reflexivity).
    destruct c.
    + destruct (u_parent l) as [r'|] eqn:Eu; [|exact I].
      destruct (u_parent_some l r' Eu) as (_ & _ & (c0 & E0 & Hc0)). rewrite E in E0. apply app_inj_tail in E0 as [_ <-]. discriminate.
    + specialize (Hsome ltac:(discriminate)). destruct (u_parent l) as [r'|]; [|exact Hsome]. destruct Hsome. repeat split; assumption.
    + specialize (Hsome ltac:(discriminate)). destruct (u_parent l) as [r'|]; [|exact Hsome]. destruct Hsome. repeat split; assumption.
    + specialize (Hsome ltac:(discriminate)). destruct (u_parent l) as [r'|]; [|exact Hsome]. destruct Hsome. repeat split; assumption.
  - destruct (u_parent l) as [r'|] eqn:Eu; [|exact I].
    destruct (u_parent_some l r' Eu) as (_ & _ & (c0 & E0 & _)). rewrite B in E0. destruct (ucomps r'); discriminate.
Qed.

(* ---------------- starts_with / ends_with / strip_prefix ---------------- *)
Section SIterAfter.
Variable cs : scomps -> list comp.
Variable Inv : scomps -> Prop.
Variable nx : scomps -> option (comp * scomps).
Variable fwd : bool.   (* true: nx pops the head; false: nx pops the last *)
Hypothesis Hn : forall s, Inv s ->
  match nx s with
  | Some (c, s') => (if fwd then cs s = c :: cs s' else cs s = cs s' ++ [c]) /\ Inv s'
  | None => cs s = []
  end.
Lemma s_iter_after_spec : forall fuel it pre, Inv it -> Inv pre -> (length (cs pre) < fuel)%nat ->
  match s_iter_after nx fuel it pre with
  | Some s => Inv s /\ (if fwd then cs it = cs pre ++ cs s else cs it = cs s ++ cs pre)
  | None => ~ exists t, (if fwd then cs it = cs pre ++ t else cs it = t ++ cs pre)
  end.
Proof.
  induction fuel as [|f IH]; intros it pre Hi Hp Hl; [lia|].
  cbn [s_iter_after]. pose proof (Hn it Hi) as Fi. pose proof (Hn pre Hp) as Fp.
  destruct (nx it) as [[x it']|]; destruct (nx pre) as [[y pre']|].
  - destruct Fi as (Ei & Hi'). destruct Fp as (Ep & Hp').
    assert (Hl' : (length (cs pre') < f)%nat) by (destruct fwd; rewrite Ep in Hl; [cbn in Hl | rewrite app_length in Hl; cbn in Hl]; lia).
    destruct (comp_eqb x y) eqn:Exy.
    + apply comp_eqb_eq in Exy. subst y. specialize (IH it' pre' Hi' Hp' Hl').
      destruct (s_iter_after nx f it' pre') as [s|].
      * destruct IH as (Hs & E). split; [exact Hs|]. destruct fwd; rewrite Ei, Ep, E; [reflexivity | rewrite app_assoc; reflexivity].
      * intros (t & Et). apply IH. exists t. destruct fwd; rewrite Ei, Ep in Et.
        -- cbn in Et. inversion Et. reflexivity.
        -- rewrite app_assoc in Et. apply app_inj_tail in Et as [Et _]. exact Et.
    + intros (t & Et). destruct fwd; rewrite Ei, Ep in Et.
      * cbn in Et. injection Et as E1 _. subst. rewrite comp_eqb_refl in Exy. discriminate.
      * rewrite app_assoc in Et. apply app_inj_tail in Et as [_ E1]. subst. rewrite comp_eqb_refl in Exy. discriminate.
  - destruct Fi as (Ei & Hi'). split; [exact Hi|]. rewrite Fp. destruct fwd; [reflexivity | rewrite app_nil_r; reflexivity].
  - destruct Fp as (Ep & _). intros (t & Et). destruct fwd; rewrite Fi, Ep in Et; [discriminate|].
    apply (f_equal (@length comp)) in Et. rewrite !app_length in Et. cbn in Et. lia.
  - split; [exact Hi|]. rewrite Fp. destruct fwd; [reflexivity | rewrite app_nil_r; reflexivity].
Qed.
End SIterAfter.

Lemma bool_eq_iff (a b : bool) : (a = true <-> b = true) -> a = b.
Proof. destruct a, b; intros [H1 H2]; try reflexivity; [symmetry; apply H1; reflexivity | apply H2; reflexivity]. Qed.

Theorem s_starts_with_spec p q : s_starts_with p q = u_starts_with p q.
Proof.
  apply bool_eq_iff. rewrite u_starts_with_iff. unfold s_starts_with.
  pose proof (s_iter_after_spec fcs FInv s_nextf true s_next_front_step (S (S (length q))) (s_init p) (s_init q) (FInv_init p) (FInv_init q)) as H.
  rewrite !fcs_init in H. pose proof (ucomps_len q). specialize (H ltac:(lia)).
  destruct (s_iter_after s_nextf (S (S (length q))) (s_init p) (s_init q)) as [s|].
  - destruct H as (_ & E). split; [intros _; eexists; exact E | reflexivity].
  - split; [discriminate | intros X; exfalso; apply H; exact X].
Qed.
Theorem s_ends_with_spec p q : s_ends_with p q = u_ends_with p q.
Proof.
  apply bool_eq_iff. rewrite u_ends_with_iff. unfold s_ends_with.
  pose proof (s_iter_after_spec bcs BInv s_nextb false s_next_back_step (S (S (length q))) (s_init p) (s_init q) (BInv_init p) (BInv_init q)) as H.
  rewrite !bcs_init in H. pose proof (ucomps_len q). specialize (H ltac:(lia)).
  destruct (s_iter_after s_nextb (S (S (length q))) (s_init p) (s_init q)) as [s|].
  - destruct H as (_ & E). split; [intros _; eexists; exact E | reflexivity].
  - split; [discriminate | intros X; exfalso; apply H; exact X].
Qed.

(* ---------------- as_path after front steps: trim_left, then trim_right ---------------- *)
Lemma s_trim_left_spec : forall fuel c, (length (s_path c) < fuel)%nat ->
  BODY (s_path (s_trim_left fuel c)) = BODY (s_path c) /\ LEAD (s_path (s_trim_left fuel c)) = [] /\
  s_front (s_trim_left fuel c) = s_front c /\ s_back (s_trim_left fuel c) = s_back c.
Proof.
  induction fuel as [|f IH]; intros c Hl; [lia|].
  cbn [s_trim_left]. destruct (s_path c) as [|p0 pt] eqn:Ep.
  - rewrite Ep. split; [reflexivity|]. split; [apply (lead_extra_nil usep true)|]. split; reflexivity.
  - unfold s_next_comp. rewrite ssep_usep. destruct (span_nsep usep (p0 :: pt)) as [seg rest] eqn:Hs.
    pose proof (body_span usep true (p0 :: pt) seg rest Hs) as Hbody. fold (sc true false seg) in Hbody. rewrite s_single_sc in Hbody.
    pose proof (skipn_span _ _ _ Hs) as Hsk.
    destruct (s_single seg) as [x|] eqn:Ex.
    + rewrite Ep. split; [reflexivity|]. split; [|split; reflexivity].
      (* the path starts with a real component: no root, no leading "." *)
      unfold lead_extra. rewrite (cur_ok_span usep usep_dot _ _ _ Hs).
      assert (Hseg : seg <> [] /\ is_dot seg = false).
      { unfold s_single in Ex. destruct (is_dot seg); [discriminate|]. split; [|reflexivity]. intros ->. discriminate. }
      destruct Hseg as (Hne & Hd). rewrite Hd. cbn [andb].
      destruct (span_spec usep _ _ _ Hs) as (E & Hn & _). destruct seg as [|b r]; [congruence|].
      rewrite E. cbn [app root_ok]. cbn in Hn. apply andb_true_iff in Hn as [Hb _]. apply negb_true_iff in Hb. rewrite Hb. reflexivity.
    + rewrite Hsk.
      assert (Hlen : (length (tl rest) < length (p0 :: pt))%nat).
      { destruct (span_spec usep _ _ _ Hs) as (E & _ & Hr). rewrite E, app_length.
        destruct Hr as [-> | (s & r' & -> & _)]; cbn [tl length].
        - destruct seg; [rewrite app_nil_r in E; discriminate | cbn; lia].
        - lia. }
      specialize (IH (s_with_path c (tl rest))). cbn [s_with_path s_path s_front s_back] in IH.
      destruct (IH ltac:(cbn [length] in *; lia)) as (E1 & E2 & E3 & E4).
      rewrite Hbody. cbn [app]. repeat split; assumption.
Qed.
Lemma s_trim_right_body : forall fuel c, s_front c = SBody -> LEAD (s_path c) = [] -> (length (s_path c) < fuel)%nat ->
  BODY (s_path (s_trim_right fuel c)) = BODY (s_path c) /\ LEAD (s_path (s_trim_right fuel c)) = [].
Proof.
  induction fuel as [|f IH]; intros c Hf HL Hl; [lia|].
  cbn [s_trim_right].
  assert (Hlbb : s_len_before_body c = 0%nat) by (unfold s_len_before_body; rewrite Hf; reflexivity).
  rewrite Hlbb. destruct (Nat.ltb 0 (length (s_path c))) eqn:Elt; [|split; [reflexivity | exact HL]].
  unfold s_next_comp_back. rewrite Hlbb, ssep_usep. cbn [skipn].
  destruct (span_nsep usep (rev (s_path c))) as [seg_r rest_r] eqn:Hs.
  assert (Hrs : rspan usep (s_path c) = (rev rest_r, rev seg_r)) by (unfold rspan; rewrite Hs; reflexivity).
  destruct (rspan_spec usep usep_dot _ _ _ Hrs) as (Hbody & Hn & Hbef & _).
  set (before := rev rest_r) in *. set (seg := rev seg_r) in *.
  destruct (s_single seg) as [x|] eqn:Ex; [split; [reflexivity | exact HL]|].
  assert (Hsz : (length seg_r + match rest_r with [] => 0 | _ => 1 end)%nat = (length seg + match before with [] => 0 | _ => 1 end)%nat).
  { unfold seg, before. rewrite rev_length. destruct rest_r as [|y t]; [reflexivity|]. cbn [rev]. destruct (rev t ++ [y]) eqn:E; [destruct (rev t); discriminate | reflexivity]. }
  rewrite Hsz.
  assert (Hbb : BODY (s_path c) = BODY before).
  { rewrite Hbody at 1. rewrite (body_before_seg usep true before seg Hn Hbef). rewrite s_single_sc, Ex, app_nil_r. reflexivity. }
  apply Nat.ltb_lt in Elt.
  destruct Hbef as [Eb | (b' & s0 & Eb & Hs0)].
  - (* the whole path would be one empty or "." segment: impossible, it has no leading "." *)
    exfalso. rewrite Eb in Hbody. cbn [app] in Hbody. unfold s_single in Ex.
    destruct (is_dot seg) eqn:Ed.
    + apply is_dot_iff in Ed. rewrite Hbody, Ed in HL. unfold lead_extra in HL. cbn in HL. discriminate.
    + destruct (is_dotdot seg); [discriminate|]. destruct seg; [rewrite Hbody in Elt; cbn in Elt; lia | discriminate].
  - assert (Hp2 : s_path c = b' ++ ([s0] ++ seg)) by (rewrite Hbody, Eb, <- app_assoc; reflexivity).
    assert (Ed : drop_last (length seg + 1) (s_path c) = b').
    { replace (length seg + 1)%nat with (length ([s0] ++ seg)) by (cbn; lia). etransitivity; [apply f_equal; exact Hp2 | apply drop_last_app]. }
    destruct before eqn:Eb0; [destruct b'; discriminate|]. rewrite Ed.
    assert (HL' : LEAD b' = []).
    { rewrite <- HL. rewrite Hp2. apply lead_prefix; [right; exists s0, seg; auto|]. rewrite <- Hp2, HL. cbn. lia. }
    specialize (IH (s_with_path c b')). cbn [s_with_path s_path s_front] in IH.
    assert (Hlen : (length b' < f)%nat) by (apply (f_equal (@length byte)) in Hp2; rewrite app_length in Hp2; cbn in Hp2; lia).
    destruct (IH Hf HL' Hlen) as (E1 & E2). split; [|exact E2].
    rewrite E1, Hbb, Eb. symmetry. apply (body_snoc_sep usep true b' s0 Hs0).
Qed.
Lemma s_trim_left_length : forall fuel c, (length (s_path (s_trim_left fuel c)) <= length (s_path c))%nat.
Proof.
  induction fuel as [|f IH]; intros c; [cbn; lia|]. cbn [s_trim_left].
  destruct (s_path c) as [|p0 pt] eqn:Ep; [rewrite Ep; cbn; lia|].
  destruct (s_next_comp (p0 :: pt)) as [size cm]. destruct cm; [rewrite Ep; lia|].
  specialize (IH (s_with_path c (skipn size (p0 :: pt)))). cbn [s_with_path s_path] in IH.
  pose proof (skipn_length size (p0 :: pt)). lia.
Qed.
(* the remainder std reports after front steps reads as the not yet consumed components *)
Lemma s_as_path_front c : FInv c -> s_front c = SBody -> ucomps (s_as_path c) = fcs c.
Proof.
  intros (Hb & _ & _) Hf. unfold s_as_path. rewrite Hf. cbn [s_is sidx Nat.eqb].
  destruct (s_trim_left_spec (S (length (s_path c))) c ltac:(lia)) as (E1 & E2 & E3 & E4).
  set (c1 := s_trim_left (S (length (s_path c))) c) in *.
  rewrite E4, Hb. cbn [s_is sidx Nat.eqb].
  assert (Hlen : (length (s_path c1) <= length (s_path c))%nat) by apply s_trim_left_length.
  destruct (s_trim_right_body (S (length (s_path c))) c1 ltac:(rewrite E3; exact Hf) E2 ltac:(lia)) as (F1 & F2).
  rewrite ucomps_cs. unfold cs, cspec. cbn [fst snd]. rewrite F2, F1, E1. cbn [app]. unfold fcs. rewrite Hf. reflexivity.
Qed.
(* strip_prefix: std succeeds exactly when the model does, and the two remainders are equal paths *)
Theorem s_strip_prefix_spec p q :
  match s_strip_prefix p q, u_strip_prefix p q with
  | Some r, Some r' => ucomps r = ucomps r' /\ ucomps p = ucomps q ++ ucomps r
  | None, None => True
  | _, _ => False
  end.
Proof.
  unfold s_strip_prefix.
  pose proof (s_iter_after_spec fcs FInv s_nextf true s_next_front_step (S (S (length q))) (s_init p) (s_init q) (FInv_init p) (FInv_init q)) as H.
  rewrite !fcs_init in H. pose proof (ucomps_len q). specialize (H ltac:(lia)).
  pose proof (u_strip_prefix_spec p q) as U.
  destruct (s_iter_after s_nextf (S (S (length q))) (s_init p) (s_init q)) as [s|].
  - destruct H as (Hs & E). destruct (u_strip_prefix p q) as [r'|]; [|apply U; eexists; exact E].
    assert (Er : ucomps (s_as_path s) = fcs s).
    { destruct Hs as (Hb & [Hf | Hf] & Hroot).
      - (* nothing consumed: the whole path, which std trims on the right only *)
        specialize (Hroot Hf).
        assert (HB : BInv s) by (split; [exact Hf | left; split; assumption]).
        destruct (s_as_path_back s HB) as (Ea & _). rewrite Ea. rewrite (bcs_body s Hf Hb Hroot).
        unfold fcs. rewrite Hf. rewrite ucomps_cs. reflexivity.
      - apply s_as_path_front; [split; [exact Hb|]; split; [right; exact Hf | exact Hroot] | exact Hf]. }
    rewrite Er. rewrite U in E. apply app_inv_head in E. split; [symmetry; exact E | rewrite U, E; reflexivity].
  - destruct (u_strip_prefix p q) as [r'|]; [|exact I]. apply H. eexists. exact U.
Qed.

(* ---------------- ancestors ---------------- *)
(* whether a path has a parent, and the parent's components, depend on the components only *)
Lemma u_parent_comps a b : ucomps a = ucomps b ->
  match u_parent a, u_parent b with
  | Some r, Some r' => ucomps r = ucomps r'
  | None, None => True
  | _, _ => False
  end.
Proof.
  intros E. destruct (u_parent a) as [r|] eqn:Ea; destruct (u_parent b) as [r'|] eqn:Eb.
  - destruct (u_parent_some _ _ Ea) as (_ & E1 & _). destruct (u_parent_some _ _ Eb) as (_ & E2 & _). rewrite E1, E2, E. reflexivity.
  - apply u_parent_none in Eb. rewrite <- E in Eb. apply u_parent_none in Eb. congruence.
  - apply u_parent_none in Ea. rewrite E in Ea. apply u_parent_none in Ea. congruence.
  - exact I.
Qed.
Lemma su_parent_comps a b : ucomps a = ucomps b ->
  match s_parent a, u_parent b with
  | Some r, Some r' => ucomps r = ucomps r'
  | None, None => True
  | _, _ => False
  end.
Proof.
  intros E. pose proof (s_parent_spec a) as S. pose proof (u_parent_comps a b E) as U.
  destruct (s_parent a) as [r|]; destruct (u_parent a) as [r0|]; destruct (u_parent b) as [r'|]; try contradiction; try exact I.
  destruct S as (S1 & S2 & _). rewrite S1, <- S2. exact U.
Qed.
Theorem s_ancestors_spec l :
  Forall2 (fun a b => ucomps a = ucomps b) (s_ancestors l) (u_ancestors l).
Proof.
  unfold s_ancestors, u_ancestors, ancestors. generalize (S (S (length l))) as fuel.
  assert (G : forall fuel a b, ucomps a = ucomps b ->
            Forall2 (fun a b => ucomps a = ucomps b) (s_ancestors_fuel fuel (Some a))
              (ancestors_fuel ustate comp u_init u_nextb u_remaining c_is_normal c_is_parent c_is_current fuel (Some b))).
  { induction fuel as [|f IH]; intros a b E; [constructor|].
    cbn [s_ancestors_fuel ancestors_fuel]. constructor; [exact E|]. fold (u_parent b).
    pose proof (su_parent_comps a b E) as P.
    destruct (s_parent a) as [r|]; destruct (u_parent b) as [r'|]; try contradiction.
    - apply IH. exact P.
    - destruct f; constructor. }
  intros fuel. apply G. reflexivity.
Qed.
