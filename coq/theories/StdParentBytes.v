(* Byte identity of the parents: what std::path (transcribed in StdUnix.v) and the model of typed-path
   return as Path::parent are the same bytes, not only slices with the same components.
   Both sides trim from the right and keep the leading root or ".":
     std:        Components::next_back, then as_path with its trim_right loop, both guarded by len_before_body;
     typed-path: skip_back, rtake, then `if root_ok before || cur_ok before then (skip_back before or its first byte)`.
   [tkl] ("trim, keep lead") is the second formula as a function; the file shows that std's loop computes it. *)
From Coq Require Import List NArith Bool Lia Arith.
Import ListNotations.
From TP Require Import Core CoreProofs CoreSched Deq Path Unix StdUnix Spec Ops UnixProofs StdProofs.
Open Scope N_scope.

Notation skipb := (skip_back usep true).
Definition tkl (p : list byte) : list byte :=
  if root_ok usep p || cur_ok usep p then match skipb p with [] => firstn 1 p | nb => nb end else skipb p.

Lemma skipb_snoc_sep p s : usep s = true -> skipb (p ++ [s]) = skipb p.
Proof. intros H. unfold skip_back. rewrite rev_app_distr. cbn [rev app skip_front]. rewrite H. reflexivity. Qed.
Lemma skipb_snoc_sep_dot p s : usep s = true -> skipb (p ++ [s; 46]) = skipb p.
Proof.
  intros H. unfold skip_back. rewrite rev_app_distr. cbn [rev app skip_front].
  rewrite usep_dot. cbn [andb N.eqb Pos.eqb]. rewrite H. reflexivity.
Qed.

Lemma root_ok_app p q : p <> [] -> root_ok usep (p ++ q) = root_ok usep p.
Proof. destruct p; [congruence | reflexivity]. Qed.
Lemma firstn1_app (p q : list byte) : p <> [] -> firstn 1 (p ++ q) = firstn 1 p.
Proof. destruct p; [congruence | reflexivity]. Qed.
Lemma cur_ok_snoc_sep p s t : p <> [] -> usep s = true -> cur_ok usep (p ++ s :: t) = cur_ok usep p.
Proof.
  intros Hp Hs. destruct p as [|b [|d r]]; [congruence | |reflexivity].
  cbn [app cur_ok]. rewrite Hs, andb_true_r. reflexivity.
Qed.

Lemma tkl_snoc_sep p s : p <> [] -> usep s = true -> tkl (p ++ [s]) = tkl p.
Proof.
  intros Hp Hs. unfold tkl. rewrite (skipb_snoc_sep p s Hs), (root_ok_app p [s] Hp), (cur_ok_snoc_sep p s [] Hp Hs), (firstn1_app p [s] Hp).
  reflexivity.
Qed.
Lemma tkl_snoc_sep_dot p s : p <> [] -> usep s = true -> tkl (p ++ [s; 46]) = tkl p.
Proof.
  intros Hp Hs. unfold tkl. rewrite (skipb_snoc_sep_dot p s Hs), (root_ok_app p _ Hp), (cur_ok_snoc_sep p s [46] Hp Hs), (firstn1_app p _ Hp).
  reflexivity.
Qed.
Lemma tkl_sep s : usep s = true -> tkl [s] = [s].
Proof. intros H. unfold tkl, skip_back. cbn. rewrite H. reflexivity. Qed.
Lemma tkl_sep_dot s : usep s = true -> tkl [s; 46] = [s].
Proof. intros H. unfold tkl, skip_back. cbn [rev app skip_front root_ok cur_ok]. rewrite ?H, ?usep_dot. cbn. rewrite ?H. reflexivity. Qed.
Lemma tkl_dot : tkl [46] = [46].
Proof. reflexivity. Qed.
Lemma tkl_nil : tkl [] = [].
Proof. reflexivity. Qed.

(* a path that ends in a real segment (non-empty, no separator, not ".") is a fixed point *)
Lemma skipb_real a seg : nosep usep seg = true -> seg <> [] -> is_dot seg = false ->
  skipb (a ++ seg) = a ++ seg.
Proof.
  intros Hn Hne Hd. unfold skip_back. rewrite rev_app_distr.
  destruct (rev seg) as [|x t] eqn:Er.
  - apply (f_equal (@rev byte)) in Er. rewrite rev_involutive in Er. cbn in Er. congruence.
  - assert (Hn' : nosep usep (x :: t) = true) by (rewrite <- Er; rewrite nosep_rev; exact Hn).
    cbn [nosep forallb] in Hn'. apply andb_true_iff in Hn' as [Hx Ht]. apply negb_true_iff in Hx.
    cbn [app skip_front]. rewrite Hx.
    assert (Hback : rev ((x :: t) ++ rev a) = a ++ seg).
    { rewrite rev_app_distr, rev_involutive. rewrite <- Er, rev_involutive. reflexivity. }
    destruct (x =? 46) eqn:Ex; cbn [andb].
    + destruct t as [|y t'].
      * (* the segment would be "." *)
        apply N.eqb_eq in Ex. subst x. apply (f_equal (@rev byte)) in Er. rewrite rev_involutive in Er. cbn in Er. subst seg. discriminate.
      * cbn [app]. cbn [nosep forallb] in Ht. apply andb_true_iff in Ht as [Hy _]. apply negb_true_iff in Hy. rewrite Hy.
        exact Hback.
    + exact Hback.
Qed.
Lemma tkl_real a seg : nosep usep seg = true -> seg <> [] -> is_dot seg = false -> tkl (a ++ seg) = a ++ seg.
Proof.
  intros Hn Hne Hd. unfold tkl. rewrite (skipb_real a seg Hn Hne Hd).
  destruct (a ++ seg) as [|b0 l0] eqn:E; [destruct a, seg; cbn in E; congruence|].
  destruct (root_ok usep (b0 :: l0) || cur_ok usep (b0 :: l0)); reflexivity.
Qed.

(* ---------- span / rspan of an explicit decomposition ---------- *)
Lemma span_app n r : nosep usep n = true -> (r = [] \/ exists s r', r = s :: r' /\ usep s = true) ->
  span_nsep usep (n ++ r) = (n, r).
Proof.
  induction n as [|x n IH]; intros Hn Hr.
  - destruct Hr as [-> | (s & r' & -> & Hs)]; [reflexivity | cbn; rewrite Hs; reflexivity].
  - cbn [nosep forallb] in Hn. apply andb_true_iff in Hn as [Hx Hn]. apply negb_true_iff in Hx.
    cbn [app span_nsep]. rewrite Hx. rewrite (IH Hn Hr). reflexivity.
Qed.
Lemma rspan_app a seg : nosep usep seg = true -> (a = [] \/ exists b' s, a = b' ++ [s] /\ usep s = true) ->
  rspan usep (a ++ seg) = (a, seg).
Proof.
  intros Hn Ha. unfold rspan. rewrite rev_app_distr.
  rewrite (span_app (rev seg) (rev a)).
  - rewrite !rev_involutive. reflexivity.
  - rewrite nosep_rev. exact Hn.
  - destruct Ha as [-> | (b' & s & -> & Hs)]; [left; reflexivity|]. right. rewrite rev_app_distr. cbn. eauto.
Qed.

Lemma s_single_none seg : s_single seg = None -> seg = [] \/ seg = [46].
Proof.
  unfold s_single. destruct (is_dot seg) eqn:Ed; [intros _; right; apply is_dot_iff; exact Ed|].
  destruct (is_dotdot seg); [discriminate|]. destruct seg; [left; reflexivity | discriminate].
Qed.
Lemma s_single_some seg x : s_single seg = Some x -> seg <> [] /\ is_dot seg = false.
Proof.
  unfold s_single. destruct (is_dot seg) eqn:Ed; [discriminate|]. intros H. split; [|reflexivity].
  intros ->. cbn in H. discriminate.
Qed.

Lemma tkl_lead_only p : (length p <= length (LEAD p))%nat -> tkl p = p /\ skipb p = [].
Proof.
  intros H. pose proof (lead_extra_len usep true p) as L.
  destruct p as [|x [|y t]]; [split; reflexivity | | cbn [length] in H; lia].
  unfold lead_extra in H. cbn [root_ok cur_ok andb] in H.
  destruct (usep x) eqn:Hx.
  - split; [apply tkl_sep; exact Hx|]. unfold skip_back. cbn. rewrite Hx. reflexivity.
  - destruct (x =? 46) eqn:E; [|cbn in H; lia]. apply N.eqb_eq in E. subst x. split; reflexivity.
Qed.

(* ---------- one segment taken from the back of the body, as std does it ---------- *)
Lemma back_seg p seg_r rest_r : (length (LEAD p) < length p)%nat ->
  span_nsep usep (rev (skipn (length (LEAD p)) p)) = (seg_r, rest_r) ->
  let seg := rev seg_r in
  let p' := drop_last (length seg_r + match rest_r with [] => 0 | _ => 1 end) p in
  (length p' < length p)%nat /\ LEAD p' = LEAD p /\
  (s_single seg = None -> tkl p' = tkl p /\ skipb p' = skipb p) /\
  (forall x, s_single seg = Some x -> tkl p = p /\ skipb p = p /\ exists a, rspan usep p = (a, seg) /\ tkl p' = tkl a).
Proof.
  intros Elt Hs. set (lbb := length (LEAD p)) in *. set (bodyb := skipn lbb p) in *.
  assert (Hrs : rspan usep bodyb = (rev rest_r, rev seg_r)) by (unfold rspan; rewrite Hs; reflexivity).
  destruct (rspan_spec usep usep_dot _ _ _ Hrs) as (Hbody & Hn & Hbef & _).
  cbv zeta. set (before := rev rest_r) in *. set (seg := rev seg_r) in *.
  assert (Hpath : p = firstn lbb p ++ before ++ seg) by (rewrite <- Hbody; symmetry; apply firstn_skipn).
  assert (Hlen_hd : length (firstn lbb p) = lbb) by (apply firstn_length_le; lia).
  assert (Hsz : (length seg_r + match rest_r with [] => 0 | _ => 1 end)%nat = (length seg + match before with [] => 0 | _ => 1 end)%nat).
  { unfold seg, before. rewrite rev_length. destruct rest_r as [|y t]; [reflexivity|]. cbn [rev]. destruct (rev t ++ [y]) eqn:E; [destruct (rev t); discriminate | reflexivity]. }
  rewrite Hsz.
  assert (Hnonempty : bodyb <> []).
  { intros E. apply (f_equal (@length byte)) in E. unfold bodyb in E. rewrite skipn_length in E. cbn in E. lia. }
  pose proof (lead_extra_len usep true p) as Hll. fold lbb in Hll.
  set (hd := firstn lbb p) in *.
  destruct Hbef as [Eb | (b' & s0 & Eb & Hs0)].
  - (* the segment is the whole body *)
    rewrite Eb in *. cbn [app] in Hpath, Hbody. rewrite Nat.add_0_r.
    assert (Ed : drop_last (length seg) p = hd) by (etransitivity; [apply f_equal; exact Hpath | apply drop_last_app]).
    rewrite Ed.
    assert (Hseg : seg <> []) by (intros E; apply Hnonempty; rewrite Hbody; exact E).
    (* the head is empty, or one separator (a "." head needs a separator after it, which the body does not start with) *)
    assert (Hhd : hd = [] \/ exists s, hd = [s] /\ usep s = true).
    { destruct hd as [|x [|y t]] eqn:Ehd; [left; reflexivity | | cbn [length] in Hlen_hd; lia].
      right. exists x. split; [reflexivity|].
      destruct (usep x) eqn:Hx; [reflexivity|]. exfalso.
      (* then the head would be ".", and p = "." ++ seg with seg starting with a non-separator: no leading "." *)
      assert (HL : LEAD p = []).
      { rewrite Hpath. destruct seg as [|c0 seg']; [congruence|]. cbn [app]. unfold lead_extra. cbn [root_ok cur_ok]. rewrite Hx.
        cbn [nosep forallb] in Hn. apply andb_true_iff in Hn as [Hc0 _]. apply negb_true_iff in Hc0. rewrite Hc0, andb_false_r. reflexivity. }
      unfold lbb in Hlen_hd. rewrite HL in Hlen_hd. cbn in Hlen_hd. lia. }
    assert (Hlenp : length p = (length hd + length seg)%nat) by (rewrite Hpath at 1; apply app_length).
    split; [rewrite Hlenp; destruct seg; [congruence | cbn; lia]|].
    split; [apply lead_head|].
    split.
    + intros Hnone. destruct (s_single_none seg Hnone) as [E | E]; [congruence|].
      destruct Hhd as [Eh | (s & Eh & Hsep)].
      * exfalso. rewrite Eh, E in Hpath. cbn in Hpath. unfold lbb in Hlen_hd. rewrite Eh, Hpath in Hlen_hd. cbn in Hlen_hd. lia.
      * rewrite Hpath, Eh, E. cbn [app]. rewrite (tkl_sep s Hsep), (tkl_sep_dot s Hsep).
        split; [reflexivity|]. change [s; 46] with ([] ++ [s; 46]). change [s] with ([] ++ [s]).
        rewrite (skipb_snoc_sep_dot [] s Hsep), (skipb_snoc_sep [] s Hsep). reflexivity.
    + intros x Hx. destruct (s_single_some seg x Hx) as (Hne & Hnd).
      split; [rewrite Hpath; apply tkl_real; assumption|].
      split; [rewrite Hpath; apply skipb_real; assumption|].
      exists hd. split; [|reflexivity]. rewrite Hpath at 1. apply rspan_app; [exact Hn|].
      destruct Hhd as [Eh | (s & Eh & Hsep)]; [left; exact Eh | right; exists [], s; split; [exact Eh | exact Hsep]].
  - (* a separator and more before the segment *)
    assert (Hp2 : p = (hd ++ b') ++ ([s0] ++ seg)).
    { rewrite Hpath at 1. rewrite Eb. rewrite <- !app_assoc. reflexivity. }
    assert (Ed : drop_last (length seg + 1) p = hd ++ b').
    { replace (length seg + 1)%nat with (length ([s0] ++ seg)) by (cbn; lia). etransitivity; [apply f_equal; exact Hp2 | apply drop_last_app]. }
    destruct before eqn:Eb0; [destruct b'; discriminate|]. rewrite Ed.
    assert (Hne' : hd ++ b' <> []).
    { intros E. apply app_eq_nil in E as [Eh Eb']. rewrite Eh, Eb' in Hp2. cbn [app] in Hp2.
      unfold lbb in Hlen_hd. rewrite Eh in Hlen_hd. rewrite Hp2 in Hlen_hd. unfold lead_extra in Hlen_hd. cbn [root_ok] in Hlen_hd.
      rewrite Hs0 in Hlen_hd. cbn in Hlen_hd. lia. }
    assert (Hlenp : length p = (length (hd ++ b') + S (length seg))%nat) by (rewrite Hp2 at 1; rewrite app_length; reflexivity).
    split; [rewrite Hlenp; lia|].
    split.
    { transitivity (LEAD ((hd ++ b') ++ [s0] ++ seg)); [|rewrite <- Hp2; reflexivity].
      apply lead_prefix; [right; exists s0, seg; auto|]. rewrite <- Hp2. rewrite app_length, Hlen_hd. fold lbb. lia. }
    split.
    + intros Hnone.
      assert (Etk : tkl p = tkl ((hd ++ b') ++ [s0] ++ seg)) by (f_equal; exact Hp2).
      assert (Esk : skipb p = skipb ((hd ++ b') ++ [s0] ++ seg)) by (f_equal; exact Hp2).
      rewrite Etk, Esk. destruct (s_single_none seg Hnone) as [E | E]; rewrite E; cbn [app].
      * split; [symmetry; apply tkl_snoc_sep; assumption | symmetry; apply skipb_snoc_sep; assumption].
      * split; [symmetry; apply tkl_snoc_sep_dot; assumption | symmetry; apply skipb_snoc_sep_dot; assumption].
    + intros x Hx. destruct (s_single_some seg x Hx) as (Hne & Hnd).
      assert (Hp3 : p = ((hd ++ b') ++ [s0]) ++ seg) by (rewrite Hp2; rewrite <- !app_assoc; reflexivity).
      split; [rewrite Hp3; apply tkl_real; assumption|].
      split; [rewrite Hp3; apply skipb_real; assumption|].
      exists ((hd ++ b') ++ [s0]). split.
      * rewrite Hp3 at 1. apply rspan_app; [exact Hn|]. right. exists (hd ++ b'), s0. auto.
      * symmetry. apply tkl_snoc_sep; assumption.
Qed.

(* ---------- std's trim_right computes tkl ---------- *)
Lemma trimr_tkl : forall fuel c, s_front c = SStartDir -> s_back c = SBody -> s_root c = root_ok usep (s_path c) ->
  (length (s_path c) < fuel)%nat -> s_path (s_trim_right fuel c) = tkl (s_path c).
Proof.
  induction fuel as [|f IH]; intros c Hf Hb Hr Hl; [lia|].
  cbn [s_trim_right]. rewrite (lbb_leadb c Hf), (leadb_lead c Hr).
  destruct (Nat.ltb (length (LEAD (s_path c))) (length (s_path c))) eqn:Elt.
  - apply Nat.ltb_lt in Elt. unfold s_next_comp_back. rewrite (lbb_leadb c Hf), (leadb_lead c Hr), ssep_usep.
    destruct (span_nsep usep (rev (skipn (length (LEAD (s_path c))) (s_path c)))) as [seg_r rest_r] eqn:Hs.
    destruct (back_seg (s_path c) seg_r rest_r Elt Hs) as (Hlen & Hlead & Hnone & Hsome).
    destruct (s_single (rev seg_r)) as [x|] eqn:Ex.
    + destruct (Hsome x eq_refl) as (E & _). symmetry. exact E.
    + destruct (Hnone eq_refl) as (E & _). rewrite <- E.
      set (p' := drop_last (length seg_r + match rest_r with [] => 0 | _ => 1 end) (s_path c)) in *.
      apply (IH (s_with_path c p')); cbn [s_with_path s_front s_back s_root s_path]; try assumption; [|lia].
      rewrite Hr, !root_ok_lead, Hlead. reflexivity.
  - apply Nat.ltb_ge in Elt. symmetry. apply tkl_lead_only. exact Elt.
Qed.

(* ---------- std's next_back from the start state, at the level of bytes ---------- *)
Lemma nextb_bytes : forall fuel c, s_front c = SStartDir -> s_back c = SBody -> s_root c = root_ok usep (s_path c) ->
  (length (s_path c) + 3 < fuel)%nat ->
  match s_next_back fuel c with
  | (Some x, c') =>
      s_front c' = SStartDir /\
      ((s_back c' = SBody /\ s_root c' = root_ok usep (s_path c') /\ skipb (s_path c) <> [] /\
        exists a seg, rspan usep (skipb (s_path c)) = (a, seg) /\ s_single seg = Some x /\ tkl (s_path c') = tkl a)
       \/ (s_back c' = SDone /\ s_path c' = [] /\ skipb (s_path c) = []))
  | (None, _) => True
  end.
Proof.
  induction fuel as [|f IH]; intros c Hf Hb Hr Hl; [lia|].
  cbn [s_next_back]. unfold s_finished. rewrite Hf, Hb. cbn [s_is sidx Nat.eqb sle Nat.leb orb negb].
  rewrite (lbb_leadb c Hf), (leadb_lead c Hr).
  destruct (Nat.ltb (length (LEAD (s_path c))) (length (s_path c))) eqn:Elt.
  - apply Nat.ltb_lt in Elt. unfold s_next_comp_back. rewrite (lbb_leadb c Hf), (leadb_lead c Hr), ssep_usep.
    destruct (span_nsep usep (rev (skipn (length (LEAD (s_path c))) (s_path c)))) as [seg_r rest_r] eqn:Hs.
    destruct (back_seg (s_path c) seg_r rest_r Elt Hs) as (Hlen & Hlead & Hnone & Hsome).
    set (p' := drop_last (length seg_r + match rest_r with [] => 0 | _ => 1 end) (s_path c)) in *.
    assert (Hroot' : s_root c = root_ok usep p') by (rewrite Hr, !root_ok_lead, Hlead; reflexivity).
    destruct (s_single (rev seg_r)) as [x|] eqn:Ex.
    + destruct (Hsome x eq_refl) as (_ & Esk & (a & Ea & Et)).
      cbn [s_with_path s_front s_back s_root s_path]. split; [exact Hf|]. left.
      split; [exact Hb|]. split; [exact Hroot'|].
      assert (Hne : s_path c <> []) by (intros E; rewrite E in Elt; cbn in Elt; lia).
      split; [rewrite Esk; exact Hne|].
      exists a, (rev seg_r). rewrite Esk. split; [exact Ea|]. split; [exact Ex | exact Et].
    + destruct (Hnone eq_refl) as (_ & Esk).
      specialize (IH (s_with_path c p')). cbn [s_with_path s_front s_back s_root s_path] in IH.
      specialize (IH Hf Hb Hroot' ltac:(lia)).
      destruct (s_next_back f (s_with_path c p')) as [[x|] c'']; [|exact I].
      rewrite <- Esk. exact IH.
  - apply Nat.ltb_ge in Elt. destruct (tkl_lead_only (s_path c) Elt) as (_ & Esk).
    destruct f as [|f1]; [lia|]. cbn [s_next_back]. unfold s_finished. cbn [s_with_back s_front s_back]. rewrite Hf.
    cbn [s_is sidx Nat.eqb sle Nat.leb orb negb]. cbn [s_root s_with_back].
    assert (Hdl : drop_last 1 (s_path c) = []).
    { unfold drop_last. assert (length (LEAD (s_path c)) <= 1)%nat by apply (lead_extra_len usep true).
      replace (length (s_path c) - 1)%nat with 0%nat by lia. reflexivity. }
    assert (Hic : s_include_cur_dir (s_with_back c SStartDir) = s_include_cur_dir c) by reflexivity.
    destruct (s_root c) eqn:Er.
    + cbn [s_with_path s_with_back s_path s_front s_back]. rewrite Hdl. split; [exact Hf|]. right. repeat split. exact Esk.
    + rewrite Hic. destruct (s_include_cur_dir c).
      * cbn [s_with_path s_with_back s_path s_front s_back]. rewrite Hdl. split; [exact Hf|]. right. repeat split. exact Esk.
      * destruct f1 as [|f2]; [lia|]. cbn [s_next_back]. unfold s_finished. cbn [s_with_back s_front s_back]. rewrite ?Hf. cbn. exact I.
Qed.

(* ---------- the two parents are the same bytes ---------- *)
Theorem parent_bytes l : s_parent l = u_parent l.
Proof.
  pose proof (s_parent_spec l) as Spec.
  destruct (s_parent l) as [r|] eqn:Es; destruct (u_parent l) as [r'|] eqn:Eu; try contradiction; [|reflexivity].
  clear Spec. f_equal.
  unfold s_parent, s_nextb, s_fuel in Es.
  assert (Hr0 : s_root (s_init l) = root_ok usep (s_path (s_init l))) by (cbn; destruct l; reflexivity).
  pose proof (nextb_bytes (length (s_path (s_init l)) + 5) (s_init l) eq_refl eq_refl Hr0 ltac:(lia)) as B.
  destruct (s_next_back (length (s_path (s_init l)) + 5) (s_init l)) as [[x|] c']; [|discriminate].
  cbn [s_init s_path] in B.
  unfold u_parent, parent, u_nextb, u_init, next_back, u_remaining in Eu. cbn [fst snd] in Eu. unfold parse_back in Eu.
  destruct B as (Hf' & [(Hb' & Hr' & Hne & (a & seg & Ea & Ex & Et)) | (Hb' & Hp' & Esk)]).
  - (* a segment was taken: both sides return tkl of what is before it *)
    assert (Er : r = tkl a).
    { destruct x; inversion Es; subst r; unfold s_as_path; rewrite Hf'; cbn [s_is sidx Nat.eqb]; rewrite Hb'; cbn [s_is sidx Nat.eqb];
        rewrite <- Et; apply trimr_tkl; auto. }
    destruct (s_single_some seg x Ex) as (Hsne & _).
    destruct (skipb l) as [|b0 t0] eqn:El1; [congruence|].
    rewrite Ea in Eu. destruct seg as [|g gs]; [congruence|].
    destruct (c_is_normal (classify true false (g :: gs)) || c_is_current (classify true false (g :: gs)) || c_is_parent (classify true false (g :: gs))); [|discriminate].
    inversion Eu. subst r'. rewrite Er. reflexivity.
  - (* only the head was left: both sides return the empty path *)
    assert (Er : r = []).
    { destruct x; inversion Es; subst r; unfold s_as_path; rewrite Hf'; cbn [s_is sidx Nat.eqb]; rewrite Hb'; cbn [s_is sidx Nat.eqb]; exact Hp'. }
    rewrite Esk in Eu.
    destruct (parse_front usep true AtBeg l) as [[c0 rest0]|]; [|discriminate].
    destruct (c_is_normal c0 || c_is_current c0 || c_is_parent c0); [|discriminate].
    inversion Eu. subst r'. exact Er.
Qed.

(* hence the ancestors are the same byte strings, one by one *)
Theorem ancestors_bytes l : s_ancestors l = u_ancestors l.
Proof.
  unfold s_ancestors, u_ancestors, ancestors. generalize (S (S (length l))) as fuel. generalize (Some l) as cur.
  intros cur fuel. revert cur. induction fuel as [|f IH]; intros cur; [reflexivity|].
  cbn [s_ancestors_fuel ancestors_fuel]. destruct cur as [p|]; [|reflexivity].
  f_equal. fold (u_parent p). rewrite <- parent_bytes. apply IH.
Qed.
