(* Consequences of WinVerbJoin.v for bases with a verbatim prefix: C10 (the join starts with the base), C12
   (replacing the file name). *)
From Coq Require Import List NArith Bool Lia Arith.
Import ListNotations.
From TP Require Import Core CoreProofs CoreSched Path Unix Win Spec GenJoin C02Proofs C08Proofs WinProofs WinTrunc WinSimple C16Proofs
  WinExtend C12Win C10WinProofs C10WinAll WinVerbJoin.
Open Scope N_scope.

Theorem w_join_checked_starts_with_verbatim a k r p : wprefix_grammar a = Some (k, r) -> k_verbatim k = true ->
  k <> Verbatim [85; 78; 67] -> sep_headed (s_wsep (s_norm a)) r -> p <> [] -> w_scan (wspec p) O = None ->
  w_starts_with (w_push a p) a = true.
Proof.
  intros Hg Hk Hunc Hr Hp Hs.
  destruct (w_push_checked_contains_verbatim a k r p Hg Hk Hunc Hr Hp Hs) as (_ & added & _ & E).
  apply w_starts_with_complete. exists added. exact E.
Qed.

Theorem w_set_file_name_some_verbatim l m n rr k r : w_file_name l = Some m -> w_parent l = Some rr ->
  wprefix_grammar rr = Some (k, r) -> k_verbatim k = true -> k <> Verbatim [85; 78; 67] -> sep_headed (s_wsep (s_norm rr)) r ->
  noprefix n = true -> gn wany n ->
  w_set_file_name l n = w_push rr n /\
  wspec (w_set_file_name l n) = removelast (wspec l) ++ [WC (Normal n)].
Proof.
  intros H Hp Hg Hk Hunc Hr Hn G. unfold w_set_file_name, set_file_name. fold w_file_name w_pop. rewrite H.
  rewrite w_pop_spec, Hp. cbn [fst]. split; [reflexivity|].
  rewrite (wspec_push_name_verbatim rr k r n Hg Hk Hunc Hr Hn G). rewrite <- !w_components_wspec. rewrite (w_parent_reparse l rr Hp). reflexivity.
Qed.

(* C16: a Windows source with a verbatim prefix followed by a root becomes a rooted Unix path; the prefix is
   dropped, and when the body holds no "." component (under exactly \\?\ a "." is one) and its names are names
   in both readings, the components after the root are kept *)
Notation WU_STEP := (conv_step wcomp wc_bytes wc_is_root wc_is_parent wc_is_current u_push [47] [46] [46; 46]).
Theorem w_to_u_verbatim l k r : wprefix_grammar l = Some (k, r) -> k_verbatim k = true -> k <> Verbatim [85; 78; 67] ->
  sep_headed (s_wsep (s_norm l)) r ->
  exists items, spec_comps (s_wsep (s_norm l)) (s_norm l) r = Root :: items /\
    (Forall (fun c => c <> Cur) items -> Forall gn_comp items -> ucomps (w_to_u l) = Root :: items).
Proof.
  intros Hg Hk Hunc Hr. set (nm := s_norm l) in *. set (f := s_wsep nm) in *.
  assert (Hrne : r <> []) by (destruct Hr as (s & t & -> & _); discriminate).
  destruct (grammar_repl_verbatim l k r Hg Hk Hunc Hrne) as (p & El & Hlen & Hf & S). fold nm in S, Hf. fold f in S, Hf.
  destruct Hr as (s & r0 & Er & Hs). destruct (spec_comps_atoms f nm s r0 Hs) as (items & Ea & Hit).
  exists items. rewrite Er. split; [exact Ea|]. intros Hnc Hgn.
  assert (Wl : wspec l = WPrefix p k :: WC Root :: map WC items).
  { destruct (S r Hf) as (G & N). rewrite <- El in G, N. unfold wspec. rewrite G. fold nm. fold f.
    assert (Efn : firstn (length l - length r) l = p).
    { rewrite El. rewrite app_length. replace (length p + length r - length r)%nat with (length p) by lia.
      rewrite firstn_app, firstn_all, Nat.sub_diag. cbn [firstn]. apply app_nil_r. }
    rewrite Efn. rewrite Er, Ea. reflexivity. }
  rewrite w_to_u_fold, Wl. cbn [fold_left].
  assert (H1 : WU_STEP [] (WPrefix p k) = [47]).
  { unfold conv_step. cbn [wc_is_root]. destruct k; try discriminate; reflexivity. }
  rewrite H1. change (WU_STEP [47] (WC Root)) with [47].
  assert (Hnr : Forall (fun c => c <> Root /\ c <> Cur) items).
  { apply Forall_forall. intros c Hin. rewrite Forall_forall in Hit, Hnc. split; [|apply (Hnc c Hin)].
    intros ->. apply (Hit Root Hin). }
  rewrite (wu_fold_tail items [47] Hnr Hgn). reflexivity.
Qed.

(* C08 over every history of pushes onto a verbatim base followed by a root: the components after the history are
   the fold, path by path, of the documented verbatim step over the pushed components *)
Section VH.
Variables (p : list byte) (k : wprefix) (nm : bool).
Hypothesis Hk : k_verbatim k = true.
Hypothesis Hunc : k <> Verbatim [85; 78; 67].
Hypothesis W : forall r', sep_headed (s_wsep nm) r' ->
  wprefix_grammar (p ++ r') = Some (k, r') /\ s_norm (p ++ r') = nm.

Definition VB (buf : list byte) : Prop := exists rb, buf = p ++ rb /\ sep_headed (s_wsep nm) rb.

Lemma push_verbatim_inv buf b : VB buf -> noprefix b = true -> b <> [] ->
  VB (w_push buf b) /\ wspec (w_push buf b) = fold_left vstep (wspec b) (wspec buf).
Proof.
  intros (rb & -> & Hrb) Hn Hne. destruct (W rb Hrb) as (Hg & Hnm).
  assert (Hrb' : sep_headed (s_wsep (s_norm (p ++ rb))) rb) by (rewrite Hnm; exact Hrb).
  split.
  - destruct (join_verbatim_struct (p ++ rb) k rb b Hg Hk Hunc Hrb' Hn Hne) as (p' & items & items' & El & _ & _ & _ & _ & _ & _ & Ew).
    apply app_inv_tail in El. subst p'. rewrite Ew. exists (92 :: render (map cbytes items')). split; [reflexivity|].
    exists 92, (render (map cbytes items')). split; [reflexivity|]. unfold s_wsep. reflexivity.
  - apply (wspec_join_verbatim (p ++ rb) k rb b Hg Hk Hunc Hrb' Hn Hne).
Qed.
Lemma fold_push_verbatim bs : forall buf, VB buf -> Forall (fun b => noprefix b = true /\ b <> []) bs ->
  wspec (fold_left w_push bs buf) = fold_left (fun acc b => fold_left vstep (wspec b) acc) bs (wspec buf).
Proof.
  induction bs as [|b bs IH]; intros buf Hb H; cbn [fold_left]; [reflexivity|].
  inversion H as [|? ? (Hn & Hne) Hbs]; subst. destruct (push_verbatim_inv buf b Hb Hn Hne) as (H1 & H2).
  rewrite (IH _ H1 Hbs), H2. reflexivity.
Qed.
End VH.

Theorem wspec_push_history_verbatim a k r bs : wprefix_grammar a = Some (k, r) -> k_verbatim k = true ->
  k <> Verbatim [85; 78; 67] -> sep_headed (s_wsep (s_norm a)) r -> Forall (fun b => noprefix b = true /\ b <> []) bs ->
  wspec (fold_left w_push bs a) = fold_left (fun acc b => fold_left vstep (wspec b) acc) bs (wspec a).
Proof.
  intros Hg Hk Hunc Hr Hbs.
  assert (Hrne : r <> []) by (destruct Hr as (s & t & -> & _); discriminate).
  destruct (grammar_repl_verbatim a k r Hg Hk Hunc Hrne) as (p & El & _ & _ & S).
  apply (fold_push_verbatim p k (s_norm a) Hk Hunc); [| |exact Hbs].
  - intros r' Hr'. apply S. destruct k; cbn [fitsv]; try exact I; exact Hr'.
  - exists r. split; [exact El | exact Hr].
Qed.
