(* The bare prefix: a UNC prefix with a non-empty share, a device-namespace prefix or a drive, with NOTHING after
   it.  Such a prefix is read the same way when a separator and anything else is put after it (a drive: anything
   at all), it does not end in a separator, and joining a relative prefix-free path onto it gives the prefix, the
   root that every non-drive prefix implies, and what the path adds.  (\\server with an empty share is not
   covered: the next name becomes its share -- not well-formed in Spec.wf_comps, finding D10's neighbour.) *)
From Coq Require Import List NArith Bool Lia Arith.
Import ListNotations.
From TP Require Import Core CoreProofs CoreSched Path Unix Win Spec GenJoin C02Proofs C08Proofs WinProofs WinTrunc WinSimple WinExtend.
Open Scope N_scope.

Definition complete (k : wprefix) : Prop :=
  match k with UNC _ sh => sh <> [] | DeviceNS _ => True | Disk _ => True | _ => False end.

Lemma nosep_last_not_sep (f : byte -> bool) (x : list byte) : x <> [] -> forallb (fun b => negb (f b)) x = true ->
  match rev x with b :: _ => f b | [] => false end = false.
Proof.
  intros Hne H. destruct (rev x) as [|b t] eqn:E; [reflexivity|].
  assert (Hin : In b x) by (apply in_rev; rewrite E; left; reflexivity).
  rewrite forallb_forall in H. specialize (H b Hin). apply negb_true_iff in H. exact H.
Qed.

Lemma unc_parts_bare f t srv sh : unc_parts f t = Some (srv, sh, []) -> sh <> [] ->
  (2 <= length t)%nat /\ match rev t with b :: _ => f b | [] => false end = false /\
  forall r', sep_headed f r' -> unc_parts f (t ++ r') = Some (srv, sh, r').
Proof.
  unfold unc_parts. destruct (take_name f t) as [s1 r1] eqn:E1.
  destruct (take_name_shape _ _ _ _ E1) as (El & Hs1 & Hr1). subst t.
  destruct s1 as [|s0 s1t]; [discriminate|].
  destruct Hr1 as [-> | (b & t0 & -> & Hb)].
  - cbn. intros X; inversion X; subst. congruence.
  - rewrite Hb. destruct (take_name f t0) as [sh' r3] eqn:E2. intros X Hne; inversion X; subst sh' r3 srv.
    destruct (take_name_shape _ _ _ _ E2) as (El & Hsh & _). rewrite app_nil_r in El. subst t0.
    split; [rewrite app_length; cbn [length]; lia|]. split.
    + rewrite rev_app_distr. cbn [rev]. pose proof (nosep_last_not_sep f sh Hne Hsh) as L.
      destruct (rev sh) as [|z zs] eqn:Er.
      * exfalso. apply Hne. rewrite <- (rev_involutive sh), Er. reflexivity.
      * cbn [app]. exact L.
    + intros r' Hr'. rewrite <- app_assoc.
      rewrite (take_name_repl f (s0 :: s1t) ((b :: sh) ++ r') Hs1) by (right; exists b, (sh ++ r'); split; [reflexivity | exact Hb]).
      cbn [app]. rewrite Hb. rewrite (take_name_repl f sh r' Hsh (or_intror Hr')). reflexivity.
Qed.


Lemma unc_alt_hdr_kind a b c d k r : s_sep_any c = false -> s_sep_any d = true ->
  unc_alt [a; b; c; d] = Some (k, r) -> k = UNC [c] [].
Proof.
  intros Hc Hd. cbn [unc_alt]. destruct (s_sep_any a && s_sep_any b); [|discriminate].
  unfold unc_parts, take_name. cbn [span_nsep]. rewrite Hc, Hd. cbn [span_nsep]. rewrite Hd.
  intros X; inversion X. reflexivity.
Qed.
Lemma ends_in_sep_tail (a b : byte) (t : list byte) : t <> [] ->
  ends_in_sep (a :: b :: t) = match rev t with z :: _ => s_sep_any z | [] => false end.
Proof.
  intros H. unfold ends_in_sep. cbn [rev]. destruct (rev t) as [|z zs] eqn:E; [|reflexivity].
  exfalso. apply H. rewrite <- (rev_involutive t), E. reflexivity.
Qed.
(* the UNC alternative on a bare, complete \\server\share *)
Lemma unc_alt_bare a b t k : unc_alt (a :: b :: t) = Some (k, []) -> complete k ->
  s_sep_any a = true /\ s_sep_any b = true /\ (2 <= length t)%nat /\ ends_in_sep (a :: b :: t) = false /\
  forall r', sep_headed s_sep_any r' -> unc_alt (a :: b :: t ++ r') = Some (k, r').
Proof.
  cbn [unc_alt]. destruct (s_sep_any a) eqn:Ha; [|discriminate]. destruct (s_sep_any b) eqn:Hb; [|discriminate]. cbn [andb].
  destruct (unc_parts s_sep_any t) as [[[srv sh] r0]|] eqn:E; [|discriminate]. intros X Hc; inversion X; subst k r0.
  cbn [complete] in Hc. destruct (unc_parts_bare _ _ _ _ E Hc) as (Hlen & Hlast & S).
  split; [reflexivity|]. split; [reflexivity|]. split; [exact Hlen|]. split.
  - rewrite ends_in_sep_tail by (destruct t; [cbn in Hlen; lia | discriminate]). exact Hlast.
  - intros r' Hr'. rewrite (S r' Hr'). reflexivity.
Qed.

Theorem grammar_bare l k : wprefix_grammar l = Some (k, []) -> k_verbatim k = false -> complete k ->
  l <> [] /\ (is_disk k = false -> ends_in_sep l = false) /\
  forall r', fits k r' -> wprefix_grammar (l ++ r') = Some (k, r') /\ s_norm (l ++ r') = true.
Proof.
  intros H Hk Hc. destruct (hdr l) eqn:Eh.
  - rewrite grammar_eq in H. destruct l as [|a [|b [|c [|d rest]]]]; try discriminate. cbn [hdr] in Eh. rewrite Eh in H.
    pose proof Eh as Eh0. apply andb_true_iff in Eh as [Eab Hd]. apply andb_true_iff in Eab as [Ha Hb].
    split; [discriminate|].
    destruct (c =? 63) eqn:E63.
    + exfalso. apply N.eqb_eq in E63. subst c. unfold verb_alt in H.
      destruct (vunc_alt _ rest) as [[k1 r1]|] eqn:Ev.
      { inversion H; subst k1 r1. unfold vunc_alt in Ev. destruct (starts_unc_lit rest) as [[|s t]|]; try discriminate.
        destruct (s_wsep _ s); [|discriminate]. destruct (unc_parts _ t) as [[[srv sh] r0]|]; [|discriminate].
        inversion Ev; subst k. discriminate. }
      destruct (disk_at rest) as [[dl r1]|]; [inversion H; subst k; discriminate|].
      destruct (take_name _ rest) as [x r1] eqn:Et. destruct x as [|x0 xt]; [|inversion H; subst k; discriminate].
      destruct (take_name_shape _ _ _ _ Et) as (El & _ & Hr1). cbn [app] in El. subst r1.
      destruct Hr1 as [-> | (s & t & -> & Hs)].
      * apply (unc_alt_hdr_kind a b 63 d k [] sep_any_63 Hd) in H. subst k. apply Hc. reflexivity.
      * rewrite Hs in H. inversion H.
    + destruct (c =? 46) eqn:E46.
      * apply N.eqb_eq in E46. subst c. unfold dev_alt in H.
        destruct (take_name s_sep_any rest) as [x r1] eqn:Et. destruct (take_name_shape _ _ _ _ Et) as (El & Hx & Hr1).
        destruct x as [|x0 xt].
        { exfalso. cbn [app] in El. subst r1. destruct Hr1 as [-> | (s & t & -> & Hs)].
          - apply (unc_alt_hdr_kind a b 46 d k [] sep_any_46 Hd) in H. subst k. apply Hc. reflexivity.
          - revert H. cbn [unc_alt]. rewrite Ha, Hb. cbn [andb]. rewrite (unc_parts_hdr 46 d s t sep_any_46 Hd Hs).
            intros X; inversion X. }
        inversion H; subst k r1. rewrite app_nil_r in El. subst rest. split.
        { intros _. change (a :: b :: 46 :: d :: x0 :: xt) with (a :: b :: ([46; d] ++ x0 :: xt)).
          rewrite ends_in_sep_tail by discriminate. rewrite rev_app_distr.
          pose proof (nosep_last_not_sep s_sep_any (x0 :: xt)) as L. specialize (L ltac:(discriminate) Hx).
          destruct (rev (x0 :: xt)) as [|z zs] eqn:Er; [exfalso; apply (f_equal (@rev byte)) in Er; rewrite rev_involutive in Er; discriminate|].
          cbn [app]. exact L. }
        intros r' Hr'. cbn [fits] in Hr'. cbn [app]. split; [|apply s_norm_not63; reflexivity].
        rewrite grammar_eq. rewrite Eh0. cbn [N.eqb Pos.eqb]. unfold dev_alt.
        change (x0 :: xt ++ r') with ((x0 :: xt) ++ r'). rewrite (take_name_repl s_sep_any (x0 :: xt) r' Hx (or_intror Hr')). reflexivity.
      * destruct (unc_alt_bare a b (c :: d :: rest) k H Hc) as (_ & _ & _ & He & S).
        split; [intros _; exact He|].
        assert (Hfit : forall z, fits k z -> sep_headed s_sep_any z).
        { intros z Hz. cbn [unc_alt] in H. rewrite Ha, Hb in H. cbn [andb] in H.
          destruct (unc_parts s_sep_any (c :: d :: rest)) as [[[srv sh] r0]|]; [|discriminate]. inversion H; subst k. exact Hz. }
        intros r' Hr'. cbn [app]. split; [|apply s_norm_not63; exact E63].
        rewrite grammar_eq. rewrite Eh0. rewrite E63, E46. apply (S r' (Hfit r' Hr')).
  - rewrite (grammar_tail_eq l Eh) in H. unfold tail_alt in H.
    destruct (unc_alt l) as [[k1 r1]|] eqn:Eu.
    + inversion H; subst k1 r1. destruct l as [|a [|b t]]; try discriminate.
      destruct (unc_alt_bare a b t k Eu Hc) as (Ha & Hb & Hlen & He & S).
      split; [discriminate|]. split; [intros _; exact He|].
      assert (Hfit : forall z, fits k z -> sep_headed s_sep_any z).
      { intros z Hz. cbn [unc_alt] in Eu. rewrite Ha, Hb in Eu. cbn [andb] in Eu.
        destruct (unc_parts s_sep_any t) as [[[srv sh] r0]|]; [|discriminate]. inversion Eu; subst k. exact Hz. }
      intros r' Hr'.
      assert (Eh' : hdr ((a :: b :: t) ++ r') = false).
      { rewrite <- (app_nil_r (a :: b :: t)) in Eh. rewrite (hdr_app (a :: b :: t) r' []) by (cbn [length]; lia). exact Eh. }
      split; [|apply hdr_false_norm; exact Eh'].
      rewrite (grammar_tail_eq _ Eh'). unfold tail_alt. cbn [app]. rewrite (S r' (Hfit r' Hr')). reflexivity.
    + destruct (disk_at l) as [[dl r1]|] eqn:Ed; [|discriminate]. inversion H; subst k r1.
      unfold disk_at in Ed. destruct l as [|d0 [|c0 t]]; try discriminate.
      destruct (s_alpha d0) eqn:Hal; [|discriminate]. destruct (c0 =? 58) eqn:E58; [|discriminate].
      apply N.eqb_eq in E58. subst c0. cbn [andb] in Ed. inversion Ed; subst dl t.
      split; [discriminate|]. split; [discriminate|].
      intros r' _. cbn [app]. exact (disk_grammar d0 r' Hal).
Qed.

(* ---------- joining onto the bare prefix ---------- *)
Lemma wspec_bare a k : wprefix_grammar a = Some (k, []) -> wspec a = [WPrefix a k].
Proof. intros H. unfold wspec. rewrite H. cbn [length]. rewrite Nat.sub_0_r, firstn_all. reflexivity. Qed.

Lemma wspec_bare_ext a k r' : wprefix_grammar a = Some (k, []) -> k_verbatim k = false -> complete k -> fits k r' ->
  wspec (a ++ r') = WPrefix a k :: map WC (WCOMPS r').
Proof.
  intros H Hk Hc Hf. destruct (grammar_bare a k H Hk Hc) as (_ & _ & S). destruct (S r' Hf) as (G & N).
  unfold wspec. rewrite G, N. rewrite (gcomps_spec wany wany_dot).
  replace (length (a ++ r') - length r')%nat with (length a) by (rewrite app_length; lia).
  rewrite firstn_app, Nat.sub_diag, firstn_all. cbn [firstn]. rewrite app_nil_r. reflexivity.
Qed.

(* a relative, prefix-free, non-empty b: the prefix, the root it implies, what b adds *)
Theorem wspec_join_bare a k b : wprefix_grammar a = Some (k, []) -> k_verbatim k = false -> complete k -> is_disk k = false ->
  noprefix b = true -> g_rooted wany b = false -> b <> [] ->
  w_push a b = a ++ 92 :: b /\ wspec (w_push a b) = wspec a ++ WC Root :: map WC (gadded wany b).
Proof.
  intros H Hk Hc Hd Hb Hr Hbne. destruct (grammar_bare a k H Hk Hc) as (Hane & He & _). specialize (He Hd).
  pose proof (wspec_bare a k H) as Wa. destruct (sp_plain b Hb) as (Bp & _ & _ & _ & Br).
  assert (J : w_push a b = a ++ 92 :: b).
  { rewrite w_push_join_spec. unfold join_spec. destruct b as [|b0 bt] eqn:Eb; [congruence|]. rewrite <- Eb in *.
    rewrite Bp, Br, Hr. unfold sp_verbatim, sp_bare_drive, sp_prefix. rewrite Wa, Hk, He.
    destruct a as [|a0 at_]; [congruence|]. destruct k; try discriminate; reflexivity. }
  split; [exact J|]. rewrite J, Wa.
  assert (Hf : fits k (92 :: b)) by (destruct k; cbn [fits]; try exact I; exists 92, b; split; reflexivity).
  rewrite (wspec_bare_ext a k (92 :: b) H Hk Hc Hf). cbn [app]. f_equal.
  assert (Ej : 92 :: b = WJOIN [92] b).
  { unfold gjoin. destruct b as [|b0 bt] eqn:Eb; [congruence|]. rewrite <- Eb in *. rewrite Hr. reflexivity. }
  rewrite Ej. rewrite (gjoin_comps_all wany 92 wany_92). destruct b as [|b0 bt] eqn:Eb; [congruence|]. rewrite <- Eb in *. rewrite Hr.
  reflexivity.
Qed.
(* a rooted, prefix-free b: the prefix followed by b *)
Theorem wspec_join_rooted_bare a k b : wprefix_grammar a = Some (k, []) -> k_verbatim k = false -> complete k ->
  noprefix b = true -> g_rooted wany b = true ->
  w_push a b = a ++ b /\ wspec (w_push a b) = WPrefix a k :: map WC (WCOMPS b).
Proof.
  intros H Hk Hc Hb Hr. pose proof (wspec_bare a k H) as Wa. destruct (sp_plain b Hb) as (Bp & _ & _ & _ & Br).
  assert (J : w_push a b = a ++ b).
  { rewrite w_push_join_spec. unfold join_spec. destruct b as [|b0 bt] eqn:Eb; [discriminate|]. rewrite <- Eb in *.
    rewrite Bp, Br, Hr. unfold sp_verbatim, sp_prefix_raw, sp_prefix. rewrite Wa, Hk. reflexivity. }
  split; [exact J|]. rewrite J. apply (wspec_bare_ext a k b H Hk Hc).
  destruct k; cbn [fits]; try exact I; unfold g_rooted, root_ok in Hr; destruct b as [|b0 bt]; try discriminate; exists b0, bt; auto.
Qed.
(* the checked join onto the bare prefix: on success exactly the base, the implied root, what p adds *)
Theorem w_push_checked_contains_bare a k p : wprefix_grammar a = Some (k, []) -> k_verbatim k = false -> complete k -> is_disk k = false ->
  p <> [] -> w_scan (wspec p) O = None ->
  w_push_checked a p = (w_push a p, None) /\ wspec (w_push a p) = wspec a ++ WC Root :: map WC (gadded wany p).
Proof.
  intros H Hk Hc Hd Hp Hs. destruct (scan_none_simple p Hs) as (Hn & Hr). split.
  - unfold w_push_checked. rewrite w_components_wspec, Hs. reflexivity.
  - apply (wspec_join_bare a k p H Hk Hc Hd Hn Hr Hp).
Qed.
