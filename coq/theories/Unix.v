(* Unix instance: src/unix/non_utf8.rs, src/unix/non_utf8/components.rs, component.rs *)
From Coq Require Import List NArith Bool Lia.
Import ListNotations.
From TP Require Import Core Path.
Open Scope N_scope.

Definition usep (b : byte) : bool := b =? 47.
Definition ustate := (pstate * list byte)%type.
Definition u_init (l : list byte) : ustate := (AtBeg, l).
Definition u_nextf : ustate -> option (comp * ustate) := next_front usep true.
Definition u_nextb : ustate -> option (comp * ustate) := next_back usep true.
Definition u_remaining (s : ustate) : list byte := snd s.
Definition u_back_off (s : ustate) : nat := back_off usep true (fst s) (snd s).

(* UnixComponent::as_bytes and the predicates of trait Component *)
Definition uc_bytes (c : comp) : list byte :=
  match c with Root => [47] | Cur => [46] | Parent => [46; 46] | Normal n => n end.
Definition c_is_root (c : comp) := match c with Root => true | _ => false end.
Definition c_is_normal (c : comp) := match c with Normal _ => true | _ => false end.
Definition c_is_parent (c : comp) := match c with Parent => true | _ => false end.
Definition c_is_current (c : comp) := match c with Cur => true | _ => false end.
Definition u_forbidden : list byte := [47; 0].     (* DISALLOWED_FILENAME_BYTES; re-read from source by tie B *)
Definition name_valid (tbl n : list byte) : bool := forallb (fun b => negb (mem_b b tbl)) n.
Definition uc_is_valid (c : comp) : bool := match c with Normal n => name_valid u_forbidden n | _ => true end.

(* derive(PartialOrd, Ord) on UnixComponent: variant index, then payload *)
Definition comp_idx (c : comp) : N := match c with Root => 0 | Cur => 1 | Parent => 2 | Normal _ => 3 end.
Definition comp_cmp (a b : comp) : comparison :=
  match a, b with
  | Normal x, Normal y => cmp_bytes x y
  | _, _ => comp_idx a ?= comp_idx b
  end.

(* UnixComponents::has_root / is_absolute *)
Definition u_has_root (l : list byte) : bool :=
  match u_nextf (u_init l) with Some (Root, _) => true | _ => false end.
Definition u_is_absolute := u_has_root.
(* the same queries asked of a partially consumed iterator (they clone the parser in its current state) *)
Definition us_has_root (s : ustate) : bool := match u_nextf s with Some (Root, _) => true | _ => false end.

(* UnixEncoding::push *)
Definition u_push (cur p : list byte) : list byte :=
  match p with
  | [] => cur
  | _ =>
      if u_is_absolute p then p
      else match cur with
           | [] => p
           | _ => match last_byte cur with
                  | Some b => if b =? 47 then cur ++ p else cur ++ 47 :: p
                  | None => cur ++ p
                  end
           end
  end.

(* UnixEncoding::push_checked: the scan over the components of the pushed path *)
Fixpoint u_scan (cs : list comp) (normal_cnt : nat) : option cerr :=
  match cs with
  | [] => None
  | Root :: _ => Some ERoot
  | Parent :: r => match normal_cnt with O => Some ETraversal | S n => u_scan r n end
  | Normal n :: r => if name_valid u_forbidden n then u_scan r (S normal_cnt) else Some EInvalid
  | Cur :: r => u_scan r normal_cnt
  end.
Definition u_components (l : list byte) : list comp := components ustate comp u_init u_nextf l.
Definition u_push_checked (cur p : list byte) : list byte * option cerr :=
  match u_scan (u_components p) O with
  | Some e => (cur, Some e)
  | None => (u_push cur p, None)
  end.

(* UnixEncoding::hash: the sequence of Hasher calls *)
Inductive hcall := HWrite (b : list byte) | HUsize (n : N) | HU8 (n : N) | HIsize (n : N).
Definition flush (cur_rev : list byte) (feed_rev : list (list byte)) : list (list byte) :=
  match cur_rev with [] => feed_rev | _ => rev cur_rev :: feed_rev end.
(* [sep] is the separator test, [skipdot] says whether a `.` segment after a separator is skipped *)
Fixpoint hash_go (sep : byte -> bool) (skipdot : bool) (l cur_rev : list byte) (feed_rev : list (list byte))
  : list (list byte) :=
  match l with
  | [] => rev (flush cur_rev feed_rev)
  | b :: r =>
      if sep b then
        let feed' := flush cur_rev feed_rev in
        match r with
        | d :: t =>
            if skipdot && (d =? 46) then
              match t with
              | [] => rev feed'
              | c :: _ => if sep c then hash_go sep skipdot t [] feed' else hash_go sep skipdot r [] feed'
              end
            else hash_go sep skipdot r [] feed'
        | [] => rev feed'
        end
      else hash_go sep skipdot r (b :: cur_rev) feed_rev
  end.
Definition total_len (chunks : list (list byte)) : N :=
  fold_left (fun a c => a + N.of_nat (length c)) chunks 0.
Definition u_hash (l : list byte) : list hcall :=
  let chunks := hash_go usep true l [] [] in
  map HWrite chunks ++ [HUsize (total_len chunks)].

(* ---- generic operations instantiated ---- *)
Definition u_parent := parent ustate comp u_init u_nextb u_remaining c_is_normal c_is_parent c_is_current.
Definition u_ancestors := ancestors ustate comp u_init u_nextb u_remaining c_is_normal c_is_parent c_is_current.
Definition u_file_name := file_name ustate comp u_init u_nextb uc_bytes c_is_normal.
Definition u_file_stem := file_stem ustate comp u_init u_nextb uc_bytes c_is_normal.
Definition u_extension := extension ustate comp u_init u_nextb uc_bytes c_is_normal.
Definition u_strip_prefix := strip_prefix ustate comp u_init u_nextf u_remaining uc_bytes.
Definition u_starts_with := starts_with ustate comp u_init u_nextf uc_bytes.
Definition u_ends_with := ends_with ustate comp u_init u_nextb uc_bytes.
Definition u_is_valid := is_valid ustate comp u_init u_nextf uc_is_valid.
Definition u_normalize := normalize ustate comp u_init u_nextf uc_bytes c_is_normal c_is_parent c_is_current u_push.
Definition u_join := u_push.
Definition u_join_checked := join_checked u_push_checked.
Definition u_pop := pop ustate comp u_init u_nextb u_remaining c_is_normal c_is_parent c_is_current.
Definition u_set_file_name :=
  set_file_name ustate comp u_init u_nextb u_remaining uc_bytes c_is_normal c_is_parent c_is_current u_push.
Definition u_set_extension :=
  set_extension ustate comp u_init u_nextb uc_bytes c_is_normal u_back_off.
Definition u_path_eq := path_eq ustate comp u_init u_nextf comp_eqb.
Definition u_path_cmp := path_cmp ustate comp u_init u_nextf comp_cmp.
Definition u_components_rev (l : list byte) : list comp := components_rev ustate comp u_init u_nextb l.

(* UnixComponent::try_from(&[u8]) *)
Definition u_try_from (l : list byte) : option comp :=
  match u_nextf (u_init l) with
  | Some (c, s') => match u_nextf s' with Some _ => None | None => Some c end
  | None => None
  end.
