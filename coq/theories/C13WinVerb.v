(* C13 for Windows paths with a VERBATIM prefix: the generic core of C13WinComps.v once more, now for either
   setting of the normalisation flag (under exactly \\?\ a "." is a component and only '\' separates), and the
   Windows statement over WinExtend.grammar_repl_verbatim. *)
From Coq Require Import List NArith Bool Lia Arith.
Import ListNotations.
From TP Require Import Core CoreProofs CoreSched Path Unix Win Spec GenJoin UnixProofs C02Proofs C08Proofs WinProofs C03Slices C13Proofs WinTrunc WinSimple WinExtend C13Win C13WinComps.
Open Scope N_scope.

Section GENN.
Variable is_sep : byte -> bool.
Variable norm : bool.
Hypothesis Hdot : is_sep 46 = false.
Notation skipb := (skip_back is_sep norm).
Definition ng_trail_ok (j : list byte) : Prop := j = [] \/ exists s t, j = s :: t /\ is_sep s = true.
Definition ng_lead_ok (before : list byte) : Prop := before = [] \/ exists b' s, before = b' ++ [s] /\ is_sep s = true.

Lemma ng_span_nosep_app m t : nosep is_sep m = true -> ng_trail_ok t -> span_nsep is_sep (m ++ t) = (m, t).
Proof.
  intros Hn Ht. induction m as [|b r IH]; cbn [app].
  - destruct Ht as [-> | (s & t' & -> & Hs)]; [reflexivity|]. cbn. rewrite Hs. reflexivity.
  - cbn in Hn. apply andb_true_iff in Hn as [Hb Hr]. apply negb_true_iff in Hb. cbn [span_nsep]. rewrite Hb.
    rewrite (IH Hr). reflexivity.
Qed.
Lemma ng_lead_extra_nosep_name m t : m <> [] -> nosep is_sep m = true -> is_dot m = false -> ng_trail_ok t ->
  lead_extra is_sep norm (m ++ t) = [].
Proof.
  intros Hne Hn Hd Ht. unfold lead_extra.
  rewrite (cur_ok_span is_sep Hdot _ _ _ (ng_span_nosep_app m t Hn Ht)). rewrite Hd. rewrite andb_false_r.
  destruct m as [|b r]; [congruence|]. cbn [app root_ok].
  cbn in Hn. apply andb_true_iff in Hn as [Hb _]. apply negb_true_iff in Hb. rewrite Hb. reflexivity.
Qed.
Lemma ng_lead_extra_before before x y : ng_lead_ok before ->
  (before = [] -> lead_extra is_sep norm x = [] /\ lead_extra is_sep norm y = []) ->
  lead_extra is_sep norm (before ++ x) = lead_extra is_sep norm (before ++ y).
Proof.
  intros [-> | (b' & s & -> & Hs)] H0.
  - cbn [app]. destruct (H0 eq_refl) as [-> ->]. reflexivity.
  - destruct b' as [|c0 [|c1 t]].
    + cbn [app]. rewrite !(lead_extra_sep is_sep norm s _ Hs). reflexivity.
    + cbn [app]. apply lead_extra_cons2.
    + cbn [app]. apply lead_extra_cons2.
Qed.

(* the back parser hands out a normal name: where it sits *)
Lemma npback_normal_decomp l n l' : parse_back is_sep norm AtBeg l = Some (Normal n, l') ->
  exists before j,
    l = before ++ n ++ j /\ ng_lead_ok before /\ ng_trail_ok j /\ back_off is_sep norm AtBeg l = length before /\
    nosep is_sep n = true /\ n <> [] /\ is_dot n = false /\ is_dotdot n = false /\
    body is_sep norm l = body is_sep norm before ++ [Normal n].
Proof.
  unfold parse_back, back_off. destruct (skipb l) as [|z l1'] eqn:El1.
  - pose proof (front_spec is_sep norm Hdot AtBeg l eq_refl) as Hf.
    destruct (parse_front is_sep norm AtBeg l) as [[c l'']|]; [|discriminate].
    destruct Hf as (Hc & _ & _). cbn [cspec] in Hc. rewrite (skipb_nil_body is_sep norm Hdot l El1), app_nil_r in Hc.
    unfold lead_extra in Hc. intros X; inversion X; subst c.
    destruct (root_ok is_sep l); [inversion Hc|]. destruct (norm && cur_ok is_sep l); inversion Hc.
  - assert (Hne : skipb l <> []) by (rewrite El1; discriminate).
    destruct (back_decomp_j is_sep norm Hdot l Hne) as (before & seg & j & Hr & Hl & Hseg & Hn & Hbef & Hsc & Hnd & Hbody & Hj).
    rewrite El1 in Hr. rewrite Hr. destruct seg as [|x seg'] eqn:Eseg; [congruence|]. rewrite <- Eseg in *.
    cbn [fst]. intros H. inversion H as [[Hcl Hrest]]. clear H Hrest.
    unfold classify in Hcl. destruct (is_dotdot seg) eqn:Edd; [discriminate|]. destruct (is_dot seg) eqn:Ed.
    { rewrite andb_true_r in Hnd. subst norm. cbn in Hcl. discriminate. }
    inversion Hcl; subst n.
    assert (Hcls : classify norm false seg = Normal seg) by (unfold classify; rewrite Edd, Ed; reflexivity).
    rewrite Hcls in Hbody.
    exists before, j. rewrite ?Hcls. repeat split; first [assumption | reflexivity].
Qed.

(* replacing that name (and whatever trailed it) by another single name replaces the last component *)
Lemma ng_replace_last before n j m :
  ng_lead_ok before -> ng_trail_ok j -> nosep is_sep n = true -> n <> [] -> is_dot n = false ->
  body is_sep norm (before ++ n ++ j) = body is_sep norm before ++ [Normal n] -> (nosep is_sep m = true /\ m <> [] /\ is_dot m = false /\ is_dotdot m = false) ->
  lead_extra is_sep norm (before ++ m) ++ body is_sep norm (before ++ m) =
  removelast (lead_extra is_sep norm (before ++ n ++ j) ++ body is_sep norm (before ++ n ++ j)) ++ [Normal m].
Proof.
  intros Hbef Hj Hn Hne Hd Hbody (Gn & Gne & Gd & Gdd).
  remember (before ++ n ++ j) as l eqn:Hl.
  rewrite Hbody. rewrite (body_before_seg is_sep norm before m Gn Hbef).
  assert (Hsc : sc norm false m = [Normal m]).
  { unfold sc, seg_comp. destruct m as [|x t] eqn:Em; [congruence|]. rewrite Gdd, Gd. reflexivity. }
  rewrite Hsc. rewrite !app_assoc. rewrite removelast_last. f_equal. f_equal.
  rewrite Hl. apply ng_lead_extra_before; [exact Hbef|]. intros ->. split.
  - rewrite <- (app_nil_r m). apply ng_lead_extra_nosep_name; try assumption. left. reflexivity.
  - apply ng_lead_extra_nosep_name; assumption.
Qed.
End GENN.

(* ---------- Windows, verbatim prefix ---------- *)
Definition wviewn (l p r : list byte) (nm : bool) : Prop :=
  l = p ++ r /\ plen (w_init l) = length p /\ negb (exact_verbatim l) = nm.

Lemma wviewn_verbatim l k r : wprefix_grammar l = Some (k, r) -> k_verbatim k = true -> k <> Verbatim [85; 78; 67] -> r <> [] ->
  exists p, wviewn l p r (s_norm l) /\ fitsv (s_wsep (s_norm l)) k r /\
    forall r', fitsv (s_wsep (s_norm l)) k r' -> wspec (p ++ r') = WPrefix p k :: map WC (spec_comps (s_wsep (s_norm l)) (s_norm l) r').
Proof.
  intros H Hk Hunc Hne. destruct (grammar_repl_verbatim l k r H Hk Hunc Hne) as (p & El & Hlen & Hf & S).
  exists p. split; [|split; [exact Hf|]].
  - split; [exact El|]. split; [|symmetry; apply s_norm_eq].
    unfold plen, w_init, prefix_component. cbn [w_prefix]. rewrite <- prefix_grammar, H.
    rewrite El. rewrite app_length. replace (length p + length r - length r)%nat with (length p) by lia.
    rewrite firstn_app, firstn_all, Nat.sub_diag. cbn [firstn]. rewrite app_nil_r. reflexivity.
  - intros r' Hr'. destruct (S r' Hr') as (G & N). unfold wspec. rewrite G, N.
    replace (length (p ++ r') - length r')%nat with (length p) by (rewrite app_length; lia).
    rewrite firstn_app, Nat.sub_diag, firstn_all. cbn [firstn]. rewrite app_nil_r. reflexivity.
Qed.

Lemma w_file_name_viewn l p r nm n : wviewn l p r nm -> w_file_name l = Some n ->
  exists l', parse_back (wsep nm) nm AtBeg r = Some (Normal n, l') /\
             w_back_off (w_init l) = (length p + back_off (wsep nm) nm AtBeg r)%nat.
Proof.
  intros (El & Hpl & Hev). unfold w_file_name, file_name, w_nextb, w_back_off. rewrite Hpl.
  cbn [w_init w_input w_st w_norm]. rewrite Hev.
  assert (Esk : skipn (length p) l = r) by (rewrite El, skipn_app, skipn_all, Nat.sub_diag; reflexivity).
  rewrite Esk. destruct r as [|r0 rt] eqn:Er.
  - destruct (w_prefix (w_init l)) as [[raw k]|]; cbn; discriminate.
  - rewrite <- Er. destruct (parse_back (wsep nm) nm AtBeg r) as [[c0 l']|]; [|discriminate].
    cbn [wc_is_normal wc_bytes]. destruct c0 as [| | |n0]; try discriminate. intros X; inversion X; subst n0.
    exists l'. split; reflexivity.
Qed.

Lemma w_set_extension_viewn l p r nm n ext : wviewn l p r nm -> w_file_name l = Some n ->
  exists before j, r = before ++ n ++ j /\ ng_lead_ok (wsep nm) before /\ ng_trail_ok (wsep nm) j /\
    nosep (wsep nm) n = true /\ n <> [] /\ is_dot n = false /\
    body (wsep nm) nm r = body (wsep nm) nm before ++ [Normal n] /\
    w_set_extension l ext = (p ++ before ++ new_name n ext, true).
Proof.
  intros V H. destruct (w_file_name_viewn l p r nm n V H) as (l' & Eb & Hoff).
  destruct (npback_normal_decomp (wsep nm) nm (wsep_dot nm) r n l' Eb) as (before & j & Hr & Hbef & Hj & Hbo & Hn & Hne & Hd & Hdd & Hbody).
  exists before, j. repeat split; try assumption.
  destruct V as (El & _ & _).
  assert (Hl : l = (p ++ before) ++ n ++ j) by (rewrite El, Hr, <- app_assoc; reflexivity).
  assert (Hoff' : w_back_off (w_init l) = length (p ++ before)) by (rewrite Hoff, Hbo, app_length; reflexivity).
  rewrite (app_assoc p before). set (pb := p ++ before) in *.
  unfold w_set_extension, set_extension. fold w_file_name w_file_stem. rewrite H, (w_file_stem_of l n H).
  unfold name_end. fold w_file_name. rewrite H, Hoff'.
  destruct (stem_prefix n) as (rest & Hsn & _).
  assert (Hlen : length n = (length (stem_of n) + length rest)%nat) by (rewrite Hsn at 1; apply app_length).
  replace (length pb + length n - (length n - length (stem_of n)))%nat with (length pb + length (stem_of n))%nat by lia.
  assert (Hf : firstn (length pb + length (stem_of n)) l = pb ++ stem_of n).
  { rewrite Hl. rewrite Hsn at 2. rewrite <- !app_assoc. rewrite firstn_app_2.
    f_equal. rewrite firstn_app, firstn_all, Nat.sub_diag. cbn. apply app_nil_r. }
  rewrite Hf. unfold new_name. destruct ext; [reflexivity|]. rewrite <- app_assoc. reflexivity.
Qed.

Definition name_ok (f : byte -> bool) (m : list byte) : Prop :=
  nosep f m = true /\ m <> [] /\ is_dot m = false /\ is_dotdot m = false.

Theorem w_set_extension_comps_verbatim l k r n ext : wprefix_grammar l = Some (k, r) -> k_verbatim k = true ->
  k <> Verbatim [85; 78; 67] -> w_file_name l = Some n -> name_ok (s_wsep (s_norm l)) (new_name n ext) ->
  wspec (fst (w_set_extension l ext)) = removelast (wspec l) ++ [WC (Normal (new_name n ext))].
Proof.
  intros Hg Hk Hunc H G. set (nm := s_norm l) in *.
  assert (Hrne : r <> []).
  { intros ->. unfold w_file_name, file_name, w_nextb in H. cbn [w_init w_input] in H.
    assert (Esk : skipn (plen (w_init l)) l = []).
    { unfold plen, w_init, prefix_component. cbn [w_prefix]. rewrite <- prefix_grammar, Hg. cbn [length]. rewrite Nat.sub_0_r.
      rewrite firstn_all. apply skipn_all. }
    rewrite Esk in H. destruct (w_prefix (w_init l)) as [[raw k0]|]; cbn in H; discriminate. }
  destruct (wviewn_verbatim l k r Hg Hk Hunc Hrne) as (p & V & Hf & S). fold nm in V, Hf, S.
  destruct (w_set_extension_viewn l p r nm n ext V H) as (before & j & Hr & Hbef & Hj & Hn & Hne & Hd & Hbody & E).
  rewrite E. cbn [fst]. set (m := new_name n ext) in *.
  assert (Hfit : fitsv (s_wsep nm) k (before ++ m)).
  { destruct k; cbn [fitsv] in *; try exact I; destruct Hf as (s9 & t9 & Es9 & Hs9);
    (destruct before as [|b0 bt];
      [exfalso; cbn [app] in Hr; rewrite Hr in Es9; destruct n as [|n0 nt]; [congruence|]; cbn [app] in Es9; inversion Es9; subst;
       cbn [nosep forallb] in Hn; change (s_wsep nm s9) with (wsep nm s9) in Hs9; rewrite Hs9 in Hn; discriminate
      | exists b0, (bt ++ m); split; [reflexivity|]; rewrite Hr in Es9; cbn [app] in Es9; inversion Es9; subst; exact Hs9]). }
  rewrite (S _ Hfit). destruct V as (El & _ & _). rewrite El. rewrite (S r Hf).
  change (s_wsep nm) with (wsep nm).
  rewrite !(spec_comps_cspec (wsep nm) nm (wsep_dot nm)).
  assert (Hc : lead_extra (wsep nm) nm r ++ body (wsep nm) nm r <> []).
  { rewrite Hbody. intros X. apply app_eq_nil in X as [_ X]. apply app_eq_nil in X as [_ X]. discriminate. }
  rewrite (removelast_cons_ne _ _ (fun X => Hc (map_eq_nil _ _ X))). rewrite removelast_map. cbn [app]. f_equal.
  change [WC (Normal m)] with (map WC [Normal m]). rewrite <- map_app. f_equal.
  rewrite Hr at 1 2. unfold cspec.
  rewrite (ng_replace_last (wsep nm) nm (wsep_dot nm) before n j m Hbef Hj Hn Hne Hd).
  - rewrite <- Hr. reflexivity.
  - rewrite <- Hr. exact Hbody.
  - exact G.
Qed.
