(* Abstract double-ended iterators: if a front step pops the head and a back step pops the
   last element of an abstract component list [cs], then every schedule of front/back steps
   behaves like popping that list, collection from the back is the reverse of collection
   from the front, fuel beyond the length is irrelevant, and exhaustion is permanent. *)
From Coq Require Import List Lia.
Import ListNotations.
From TP Require Import Core Path.

Section Deq.
Variables st A : Type.
Variable cs : st -> list A.
Variable Inv : st -> Prop.
Variables nf nb : st -> option (A * st).
Hypothesis Hf : forall s, Inv s ->
  match nf s with Some (c, s') => cs s = c :: cs s' /\ Inv s' | None => cs s = [] end.
Hypothesis Hb : forall s, Inv s ->
  match nb s with Some (c, s') => cs s = cs s' ++ [c] /\ Inv s' | None => cs s = [] end.

Theorem deq_sched sched : forall s, Inv s ->
  map (fun x => (fst x, cs (snd x))) (sched_run nf nb s sched) = deq_run (cs s) sched.
Proof.
  induction sched as [|d r IH]; intros s H; [reflexivity|].
  cbn [sched_run deq_run]. destruct d.
  - pose proof (Hb s H) as B. destruct (nb s) as [[c s']|].
    + destruct B as (E & HI). rewrite E. rewrite rev_app_distr. cbn [rev app map fst snd].
      rewrite rev_involutive. rewrite (IH s' HI). reflexivity.
    + cbn [map fst snd]. rewrite (IH s H). rewrite B. reflexivity.
  - pose proof (Hf s H) as F. destruct (nf s) as [[c s']|].
    + destruct F as (E & HI). rewrite E. cbn [map fst snd]. rewrite (IH s' HI). reflexivity.
    + cbn [map fst snd]. rewrite (IH s H). rewrite F. reflexivity.
Qed.
Lemma deq_inv sched : forall s, Inv s -> Forall (fun x => Inv (snd x)) (sched_run nf nb s sched).
Proof.
  induction sched as [|d r IH]; intros s H; [constructor|].
  cbn [sched_run]. destruct d.
  - pose proof (Hb s H) as B. destruct (nb s) as [[c s']|].
    + destruct B as (_ & HI). constructor; [exact HI | apply IH; exact HI].
    + constructor; [exact H | apply IH; exact H].
  - pose proof (Hf s H) as F. destruct (nf s) as [[c s']|].
    + destruct F as (_ & HI). constructor; [exact HI | apply IH; exact HI].
    + constructor; [exact H | apply IH; exact H].
Qed.
Lemma deq_front_all : forall fuel s, Inv s -> length (cs s) < fuel -> front_all st A nf fuel s = cs s.
Proof.
  induction fuel as [|f IH]; intros s H Hl; [lia|].
  cbn [front_all]. pose proof (Hf s H) as F. destruct (nf s) as [[c s']|].
  - destruct F as (E & HI). rewrite E. f_equal. apply IH; [exact HI|]. rewrite E in Hl. cbn in Hl. lia.
  - rewrite F. reflexivity.
Qed.
Lemma deq_back_all : forall fuel s, Inv s -> length (cs s) < fuel -> back_all st A nb fuel s = rev (cs s).
Proof.
  induction fuel as [|f IH]; intros s H Hl; [lia|].
  cbn [back_all]. pose proof (Hb s H) as B. destruct (nb s) as [[c s']|].
  - destruct B as (E & HI). rewrite E. rewrite rev_app_distr. cbn [rev app]. f_equal.
    apply IH; [exact HI|]. rewrite E in Hl. rewrite app_length in Hl. cbn in Hl. lia.
  - rewrite B. reflexivity.
Qed.
Lemma deq_front_none s : Inv s -> (nf s = None <-> cs s = []).
Proof.
  intros H. pose proof (Hf s H) as F. destruct (nf s) as [[c s']|].
  - destruct F as (E & _). rewrite E. split; discriminate.
  - split; auto.
Qed.
Lemma deq_back_none s : Inv s -> (nb s = None <-> cs s = []).
Proof.
  intros H. pose proof (Hb s H) as B. destruct (nb s) as [[c s']|].
  - destruct B as (E & _). rewrite E. split; [discriminate|]. intros X. destruct (cs s'); discriminate.
  - split; auto.
Qed.
Lemma deq_exhausted s : Inv s -> cs s = [] ->
  forall sched, sched_run nf nb s sched = map (fun _ => (None, s)) sched.
Proof.
  intros H E sched. induction sched as [|d r IH]; [reflexivity|].
  cbn [sched_run map]. destruct d.
  - rewrite (proj2 (deq_back_none s H) E). rewrite IH. reflexivity.
  - rewrite (proj2 (deq_front_none s H) E). rewrite IH. reflexivity.
Qed.
End Deq.
