From Coq Require Import List NArith Bool Lia.
Import ListNotations.
From TP Require Import Core.
Open Scope N_scope.

Section P.
Variable is_sep : byte -> bool.
Variable norm : bool.
Hypothesis dot_not_sep : is_sep 46 = false.

Notation span := (span_nsep is_sep).
Notation skipf := (skip_front is_sep norm).
Notation skipb := (skip_back is_sep norm).

(* ---------- segments, structurally ---------- *)
Fixpoint segs (l : list byte) : list byte * list (list byte) :=
  match l with
  | [] => ([], [])
  | b :: r => let (g, gs) := segs r in if is_sep b then ([], g :: gs) else (b :: g, gs)
  end.
Definition split (l : list byte) : list (list byte) := let (g, gs) := segs l in g :: gs.
Definition sc := seg_comp norm.
Definition body (l : list byte) : list comp := flat_map (sc false) (split l).
Definition lead_extra (l : list byte) : list comp :=
  if root_ok is_sep l then [Root] else if norm && cur_ok is_sep l then [Cur] else [].
Definition cspec (st : pstate) (l : list byte) : list comp :=
  match st with AtBeg => lead_extra l ++ body l | NotAtBeg => body l end.
Definition nosep (n : list byte) := forallb (fun b => negb (is_sep b)) n.

Lemma split_cons_sep b r : is_sep b = true -> split (b :: r) = [] :: split r.
Proof. intros H. unfold split. cbn [segs]. destruct (segs r). rewrite H. reflexivity. Qed.
Lemma split_cons_nsep b r : is_sep b = false -> split (b :: r) = match split r with g :: gs => (b :: g) :: gs | [] => [[b]] end.
Proof. intros H. unfold split. cbn [segs]. destruct (segs r). rewrite H. reflexivity. Qed.
Lemma split_nonnil l : split l <> [].
Proof. unfold split. destruct (segs l). discriminate. Qed.

Lemma split_app_sep a b s : is_sep s = true -> split (a ++ s :: b) = split a ++ split b.
Proof.
  intros Hs. induction a as [|x a IH]; cbn [app].
  - rewrite split_cons_sep by assumption. reflexivity.
  - destruct (is_sep x) eqn:Hx.
    + rewrite !split_cons_sep by assumption. rewrite IH. reflexivity.
    + rewrite !split_cons_nsep by assumption. rewrite IH.
      destruct (split a) eqn:Ha. { exfalso. eapply split_nonnil; eauto. } reflexivity.
Qed.
Lemma split_nosep n : nosep n = true -> split n = [n].
Proof.
  induction n as [|x n IH]; cbn; intros H. { reflexivity. }
  apply andb_true_iff in H as [Hx Hn]. apply negb_true_iff in Hx.
  rewrite split_cons_nsep by assumption. rewrite IH by assumption. reflexivity.
Qed.
Lemma body_app_sep a b s : is_sep s = true -> body (a ++ s :: b) = body a ++ body b.
Proof. intros. unfold body. rewrite split_app_sep by assumption. apply flat_map_app. Qed.
Lemma body_nil : body [] = [].
Proof. reflexivity. Qed.
Lemma body_cons_sep s r : is_sep s = true -> body (s :: r) = body r.
Proof. intros. unfold body. rewrite split_cons_sep by assumption. reflexivity. Qed.
Lemma body_nosep n : nosep n = true -> body n = sc false n.
Proof. intros. unfold body. rewrite split_nosep by assumption. cbn. apply app_nil_r. Qed.

(* ---------- span ---------- *)
Lemma span_spec l : forall n r, span l = (n, r) ->
  l = n ++ r /\ nosep n = true /\ (r = [] \/ exists s r', r = s :: r' /\ is_sep s = true).
Proof.
  induction l as [|b l IH]; cbn; intros n r H.
  - inversion H; subst. auto.
  - destruct (is_sep b) eqn:Hb.
    + inversion H; subst. split; [reflexivity|]. split; [reflexivity|]. right. eauto.
    + destruct (span l) as [n' r'] eqn:Hs. inversion H; subst.
      destruct (IH n' r eq_refl) as (-> & Hn & Hr). split; [reflexivity|]. split; [|assumption].
      cbn. rewrite Hb. assumption.
Qed.
Lemma body_span l n r : span l = (n, r) -> body l = sc false n ++ body (tl r).
Proof.
  intros H. destruct (span_spec _ _ _ H) as (-> & Hn & [-> | (s & r' & -> & Hs)]).
  - rewrite app_nil_r. cbn. rewrite app_nil_r. apply body_nosep; assumption.
  - rewrite body_app_sep by assumption. cbn [tl]. rewrite body_nosep by assumption. reflexivity.
Qed.

(* ---------- skip_front ---------- *)
Definition is_dot_seg (g : list byte) := match g with [46] => true | _ => false end.
Lemma sc_nil : forall f, sc f [] = []. Proof. reflexivity. Qed.
Lemma sc_dot_norm : norm = true -> sc false [46] = [].
Proof. intros H. unfold sc, seg_comp. rewrite H. reflexivity. Qed.

Lemma nosep_dot : nosep [46] = true.
Proof. unfold nosep. cbn [forallb]. rewrite dot_not_sep. reflexivity. Qed.
Lemma body_skipf l : body (skipf l) = body l.
Proof.
  induction l as [|b r IH]; [reflexivity|].
  cbn [skip_front]. destruct (is_sep b) eqn:Hb.
  - rewrite IH. symmetry. apply body_cons_sep; assumption.
  - destruct (norm && (b =? DOT)) eqn:Hd; [|reflexivity].
    apply andb_true_iff in Hd as [Hn Hd]. apply N.eqb_eq in Hd. subst b.
    destruct r as [|c r'].
    + rewrite body_nil. rewrite (body_nosep [46] nosep_dot). symmetry. apply sc_dot_norm; assumption.
    + destruct (is_sep c) eqn:Hc; [|reflexivity].
      rewrite IH. change (46 :: c :: r') with ([46] ++ c :: r'). rewrite body_app_sep by assumption.
      rewrite body_cons_sep by assumption.
      rewrite (body_nosep [46] nosep_dot). rewrite sc_dot_norm by assumption. reflexivity.
Qed.
Lemma inv_skipf l : inv is_sep norm (NotAtBeg, skipf l) = true.
Proof.
  unfold inv; cbn [fst snd].
  induction l as [|b r IH].
  - cbn. rewrite andb_false_r. reflexivity.
  - cbn [skip_front]. destruct (is_sep b) eqn:Hb; [assumption|].
    destruct (norm && (b =? DOT)) eqn:Hd.
    + apply andb_true_iff in Hd as [Hn Hd]. apply N.eqb_eq in Hd. subst b.
      destruct r as [|c r']. { cbn. rewrite andb_false_r. reflexivity. }
      destruct (is_sep c) eqn:Hc; [assumption|].
      cbn [root_ok cur_ok]. rewrite Hb, Hc. rewrite !andb_false_r. reflexivity.
    + cbn [root_ok]. rewrite Hb. cbn [negb andb].
      destruct norm; [|reflexivity]. cbn [andb] in Hd |- *.
      unfold cur_ok. destruct r as [|c r']; rewrite Hd; reflexivity.
Qed.
Lemma skipf_length l : (length (skipf l) <= length l)%nat.
Proof.
  induction l as [|b r IH]; [cbn; lia|]. cbn [skip_front].
  destruct (is_sep b); [cbn; lia|]. destruct (norm && (b =? DOT)); [|lia].
  destruct r as [|c r']; [cbn; lia|]. destruct (is_sep c); [cbn in *; lia| lia].
Qed.

(* ---------- front step vs cspec ---------- *)
Lemma classify_sc ab n : n <> [] -> (ab = true \/ norm = false \/ is_dot n = false) ->
  sc ab n = [classify norm ab n].
Proof.
  intros Hn Hc. unfold sc, seg_comp, classify. destruct n as [|x t]; [congruence|].
  destruct (is_dotdot (x :: t)); [reflexivity|].
  destruct (is_dot (x :: t)) eqn:Hd; [|reflexivity].
  destruct ab; cbn; [reflexivity|]. destruct norm; cbn; [|reflexivity].
  destruct Hc as [?|[?|?]]; congruence.
Qed.

Lemma is_dot_iff n : is_dot n = true <-> n = [46].
Proof.
  unfold is_dot. destruct n as [|x [|y t]]; cbn; split; intros H; try congruence.
  - rewrite andb_true_r in H. apply N.eqb_eq in H. congruence.
  - inversion H; subst. reflexivity.
  - rewrite andb_false_r in H. discriminate.
Qed.

Lemma span_cons_nsep b r : is_sep b = false -> exists n' rest, span (b :: r) = (b :: n', rest) /\ span r = (n', rest).
Proof. intros H. cbn. rewrite H. destruct (span r) as [n' rest]. eauto. Qed.

(* cur_ok l  <->  first segment of l is exactly "." *)
Lemma cur_ok_span l n r : span l = (n, r) -> cur_ok is_sep l = is_dot n.
Proof.
  intros H. destruct l as [|b [|c t]].
  - cbn in H. inversion H; subst. reflexivity.
  - cbn in H. destruct (is_sep b) eqn:Hb; inversion H; subst; cbn.
    + destruct (b =? 46) eqn:E; [|reflexivity]. apply N.eqb_eq in E. subst. congruence.
    + unfold is_dot. cbn. rewrite andb_true_r. reflexivity.
  - cbn [cur_ok]. cbn in H. destruct (is_sep b) eqn:Hb.
    + inversion H; subst. cbn. destruct (b =? DOT) eqn:E; [|reflexivity]. apply N.eqb_eq in E. subst. congruence.
    + destruct (is_sep c) eqn:Hc.
      * inversion H; subst. unfold is_dot. cbn. rewrite !andb_true_r. reflexivity.
      * destruct (span t) as [n' r'] eqn:Ht. inversion H; subst. unfold is_dot. cbn. rewrite !andb_false_r. reflexivity.
Qed.

Lemma body_tl_skipf rest : (rest = [] \/ exists s r', rest = s :: r' /\ is_sep s = true) -> body (skipf rest) = body (tl rest).
Proof.
  intros [-> | (s & r' & -> & Hs)]; [reflexivity|]. rewrite body_skipf. cbn [tl]. apply body_cons_sep; assumption.
Qed.

Lemma span_length l n r : span l = (n, r) -> length l = (length n + length r)%nat.
Proof. intros H. destruct (span_spec _ _ _ H) as (-> & _). apply app_length. Qed.

Lemma cspec_nil st : cspec st [] = [].
Proof. destruct st; cbn; [|reflexivity]. unfold lead_extra. cbn. rewrite andb_false_r. reflexivity. Qed.

Lemma front_spec st l : inv is_sep norm (st, l) = true ->
  match parse_front is_sep norm st l with
  | Some (c, l') => cspec st l = c :: body l' /\ inv is_sep norm (NotAtBeg, l') = true /\ (length l' < length l)%nat
  | None => cspec st l = []
  end.
Proof.
  intros Hinv. destruct st.
  - (* AtBeg *)
    destruct l as [|b r]; [apply cspec_nil|]. cbn [parse_front].
    destruct (is_sep b) eqn:Hb.
    + split; [|split].
      * cbn [cspec]. unfold lead_extra. cbn [root_ok]. rewrite Hb. rewrite body_cons_sep by assumption. rewrite body_skipf. reflexivity.
      * apply inv_skipf.
      * pose proof (skipf_length r). cbn. lia.
    + unfold filename. destruct (span_cons_nsep b r Hb) as (n' & rest & Hs & _). rewrite Hs.
      destruct (span_spec _ _ _ Hs) as (Hl & Hn & Hr).
      split; [|split].
      * cbn [cspec]. rewrite (body_span _ _ _ Hs). rewrite body_tl_skipf by assumption.
        unfold lead_extra. cbn [root_ok]. rewrite Hb. rewrite (cur_ok_span _ _ _ Hs).
        destruct (norm && is_dot (b :: n')) eqn:Hd.
        -- apply andb_true_iff in Hd as [Hnorm Hd]. apply is_dot_iff in Hd. rewrite Hd.
           rewrite sc_dot_norm by assumption. unfold classify. cbn. reflexivity.
        -- rewrite (classify_sc false (b :: n')); [| congruence |].
           ++ cbn [app]. f_equal. unfold classify. destruct (is_dotdot (b :: n')); [reflexivity|].
              destruct (is_dot (b :: n')) eqn:E; [|reflexivity]. rewrite andb_true_r in Hd. subst norm. reflexivity.
           ++ apply andb_false_iff in Hd. destruct Hd; auto.
      * apply inv_skipf.
      * pose proof (skipf_length rest). pose proof (span_length _ _ _ Hs). cbn in *. lia.
  - (* NotAtBeg *)
    unfold inv in Hinv. cbn [fst snd] in Hinv. apply andb_true_iff in Hinv as [Hroot Hcur].
    apply negb_true_iff in Hroot. apply negb_true_iff in Hcur.
    cbn [parse_front]. destruct l as [|b r]; [apply cspec_nil|].
    cbn [root_ok] in Hroot. unfold filename. destruct (span_cons_nsep b r Hroot) as (n' & rest & Hs & _). rewrite Hs.
    destruct (span_spec _ _ _ Hs) as (Hl & Hn & Hr).
    rewrite (cur_ok_span _ _ _ Hs) in Hcur.
    split; [|split].
    + cbn [cspec]. rewrite (body_span _ _ _ Hs). rewrite body_tl_skipf by assumption.
      rewrite (classify_sc false (b :: n')); [reflexivity | congruence |].
      apply andb_false_iff in Hcur. destruct Hcur; auto.
    + apply inv_skipf.
    + pose proof (skipf_length rest). pose proof (span_length _ _ _ Hs). cbn in *. lia.
Qed.

Theorem comps_cspec fuel : forall st l, inv is_sep norm (st, l) = true -> (length l < fuel)%nat ->
  comps_fuel is_sep norm fuel (st, l) = cspec st l.
Proof.
  induction fuel as [|f IH]; intros st l Hinv Hlen; [lia|].
  cbn [comps_fuel]. unfold next_front. cbn [fst snd].
  pose proof (front_spec st l Hinv) as H.
  destruct (parse_front is_sep norm st l) as [[c l']|].
  - destruct H as (-> & Hinv' & Hlt). f_equal. rewrite IH; [reflexivity | assumption | lia].
  - symmetry. assumption.
Qed.

Corollary comps_spec l : comps is_sep norm (AtBeg, l) = lead_extra l ++ body l.
Proof. unfold comps. apply (comps_cspec _ AtBeg); [reflexivity | cbn; lia]. Qed.

(* ================= back step ================= *)
Lemma body_snoc_sep a s : is_sep s = true -> body (a ++ [s]) = body a.
Proof. intros H. rewrite body_app_sep by assumption. rewrite body_nil. apply app_nil_r. Qed.

Lemma body_skipb_rev rl : body (rev (skipf rl)) = body (rev rl).
Proof.
  induction rl as [|b r IH]; [reflexivity|].
  cbn [skip_front]. destruct (is_sep b) eqn:Hb.
  - rewrite IH. cbn [rev]. symmetry. apply body_snoc_sep; assumption.
  - destruct (norm && (b =? 46)) eqn:Hd; [|reflexivity].
    apply andb_true_iff in Hd as [Hn Hd]. apply N.eqb_eq in Hd. subst b.
    destruct r as [|c r']. { cbn. rewrite (body_nosep [46] nosep_dot). rewrite sc_dot_norm by assumption. reflexivity. }
    destruct (is_sep c) eqn:Hc; [|reflexivity].
    rewrite IH. cbn [rev]. rewrite <- app_assoc. cbn [app].
    rewrite (body_app_sep (rev r') [46] c Hc). rewrite (body_nosep [46] nosep_dot). rewrite sc_dot_norm by assumption.
    rewrite app_nil_r. apply body_snoc_sep; assumption.
Qed.
Lemma body_skipb l : body (skipb l) = body l.
Proof. unfold skip_back. rewrite body_skipb_rev. rewrite rev_involutive. reflexivity. Qed.

Lemma skipf_suffix l : exists j, l = j ++ skipf l.
Proof.
  induction l as [|b r IH]; [exists []; reflexivity|].
  cbn [skip_front]. destruct (is_sep b).
  - destruct IH as [j Hj]. exists (b :: j). cbn. f_equal. assumption.
  - destruct (norm && (b =? 46)); [|exists []; reflexivity].
    destruct r as [|c r']; [exists [b]; reflexivity|].
    destruct (is_sep c); [|exists []; reflexivity].
    destruct IH as [j Hj]. exists (b :: j). cbn [app]. f_equal. assumption.
Qed.
Lemma skipb_prefix l : exists j, l = skipb l ++ j.
Proof.
  unfold skip_back. destruct (skipf_suffix (rev l)) as [j Hj]. exists (rev j).
  rewrite <- rev_app_distr. rewrite <- Hj. symmetry. apply rev_involutive.
Qed.

Lemma is_dot_rev n : is_dot (rev n) = is_dot n.
Proof.
  destruct (is_dot n) eqn:E.
  - apply is_dot_iff in E. subst. reflexivity.
  - destruct (is_dot (rev n)) eqn:E'; [|reflexivity]. apply is_dot_iff in E'.
    assert (n = [46]) by (rewrite <- (rev_involutive n), E'; reflexivity). subst. discriminate.
Qed.
Lemma is_dotdot_iff n : is_dotdot n = true <-> n = [46; 46].
Proof.
  unfold is_dotdot. destruct n as [|x [|y [|z t]]]; cbn; split; intros H; try congruence.
  - rewrite andb_false_r in H. discriminate.
  - rewrite andb_true_r in H. apply andb_true_iff in H as [H1 H2]. apply N.eqb_eq in H1, H2. congruence.
  - inversion H; subst. reflexivity.
  - rewrite !andb_false_r in H. discriminate.
Qed.
Lemma is_dotdot_rev n : is_dotdot (rev n) = is_dotdot n.
Proof.
  destruct (is_dotdot n) eqn:E.
  - apply is_dotdot_iff in E. subst. reflexivity.
  - destruct (is_dotdot (rev n)) eqn:E'; [|reflexivity]. apply is_dotdot_iff in E'.
    assert (n = [46;46]) by (rewrite <- (rev_involutive n), E'; reflexivity). subst. discriminate.
Qed.
Lemma nosep_rev n : nosep (rev n) = nosep n.
Proof.
  unfold nosep. induction n as [|x n IH]; [reflexivity|]. cbn. rewrite forallb_app. cbn. rewrite IH. rewrite andb_true_r. apply andb_comm.
Qed.

(* decomposition produced by rspan on a list that does not end with a separator *)
Lemma rspan_spec l1 before seg : rspan is_sep l1 = (before, seg) ->
  l1 = before ++ seg /\ nosep seg = true /\ (before = [] \/ exists b' s, before = b' ++ [s] /\ is_sep s = true)
  /\ is_dot seg = cur_ok is_sep (rev l1).
Proof.
  unfold rspan. destruct (span (rev l1)) as [seg_r before_r] eqn:Hs. intros H. inversion H; subst. clear H.
  destruct (span_spec _ _ _ Hs) as (Hl & Hn & Hr).
  split; [|split; [|split]].
  - rewrite <- rev_app_distr. rewrite <- Hl. symmetry. apply rev_involutive.
  - rewrite nosep_rev. assumption.
  - destruct Hr as [-> | (s & r' & -> & Hsep)]; [left; reflexivity|]. right. exists (rev r'), s. cbn. auto.
  - rewrite is_dot_rev. symmetry. eapply cur_ok_span; eauto.
Qed.

Lemma body_before_seg before seg : nosep seg = true ->
  (before = [] \/ exists b' s, before = b' ++ [s] /\ is_sep s = true) ->
  body (before ++ seg) = body before ++ sc false seg.
Proof.
  intros Hn [-> | (b' & s & -> & Hs)].
  - cbn. rewrite body_nosep by assumption. reflexivity.
  - rewrite <- app_assoc. cbn [app]. rewrite body_app_sep by assumption. rewrite body_snoc_sep by assumption.
    rewrite (body_nosep seg) by assumption. reflexivity.
Qed.

(* the facts about l1 = skipb l that the back parser relies on *)
Lemma skipb_inv l : root_ok is_sep (rev (skipb l)) = false /\ (norm && cur_ok is_sep (rev (skipb l))) = false.
Proof.
  unfold skip_back. rewrite rev_involutive. pose proof (inv_skipf (rev l)) as H. unfold inv in H. cbn [fst snd] in H.
  apply andb_true_iff in H as [H1 H2]. apply negb_true_iff in H1. apply negb_true_iff in H2. auto.
Qed.

Lemma back_spec_notbeg l : inv is_sep norm (NotAtBeg, l) = true ->
  match parse_back is_sep norm NotAtBeg l with
  | Some (c, l') => body l = body l' ++ [c] /\ (exists j, l = l' ++ j)
  | None => body l = []
  end.
Proof.
  intros Hinv. unfold parse_back.
  pose proof (body_skipb l) as Hb. destruct (skipb_inv l) as [Hroot Hcur]. destruct (skipb_prefix l) as [j Hj].
  remember (skipb l) as l1 eqn:El1.
  destruct (rspan is_sep l1) as [before seg] eqn:Hr.
  destruct (rspan_spec _ _ _ Hr) as (Hl1 & Hn & Hbef & Hdot).
  assert (Hcase : match l1 with [] => True | _ => True end) by (destruct l1; exact I).
  destruct seg as [|x seg'] eqn:Hseg.
  - (* empty last segment: l1 must be empty *)
    rewrite app_nil_r in Hl1.
    destruct Hbef as [E | (b' & s & E & Hs)].
    + rewrite E in Hl1. rewrite Hl1 in *. rewrite <- Hb. reflexivity.
    + exfalso. rewrite Hl1, E in Hroot. rewrite rev_app_distr in Hroot. cbn in Hroot. congruence.
  - assert (Hne : x :: seg' <> []) by discriminate. rewrite <- Hseg in *. clear Hseg.
    assert (Hsc : sc false seg = [classify norm false seg]).
    { apply classify_sc. { assumption. } rewrite Hdot. apply andb_false_iff in Hcur. destruct Hcur; auto. }
    assert (Hbody : body l = body (skipb before) ++ [classify norm false seg]).
    { rewrite <- Hb. rewrite Hl1. rewrite body_before_seg by assumption. rewrite body_skipb. rewrite Hsc. reflexivity. }
    assert (Hpre : exists j', l = skipb before ++ j').
    { destruct (skipb_prefix before) as [j2 Hj2]. exists (j2 ++ seg ++ j). rewrite Hj. rewrite Hl1. rewrite Hj2 at 1. rewrite <- !app_assoc. reflexivity. }
    destruct l1 as [|y l1']; [ exfalso; destruct before; [cbn in Hl1; congruence | discriminate] |]. split; assumption.
Qed.

(* ================= back step, AtBeginning ================= *)
Lemma lead_extra_len l : (length (lead_extra l) <= 1)%nat.
Proof. unfold lead_extra. destruct (root_ok is_sep l); [cbn; lia|]. destruct (norm && cur_ok is_sep l); cbn; lia. Qed.
Lemma lead_extra_cons2 x y t t' : lead_extra (x :: y :: t) = lead_extra (x :: y :: t').
Proof. reflexivity. Qed.
Lemma lead_extra_sep s t : is_sep s = true -> lead_extra (s :: t) = [Root].
Proof. intros H. unfold lead_extra. cbn. rewrite H. reflexivity. Qed.
Lemma lead_extra_nil : lead_extra [] = [].
Proof. unfold lead_extra. cbn. rewrite andb_false_r. reflexivity. Qed.

(* common part: decomposition of l through skip_back and rspan when skipb l <> [] *)
Lemma back_decomp l : skipb l <> [] ->
  exists before seg j,
    rspan is_sep (skipb l) = (before, seg) /\ l = before ++ seg ++ j /\ seg <> [] /\ nosep seg = true /\
    (before = [] \/ exists b' s, before = b' ++ [s] /\ is_sep s = true) /\
    sc false seg = [classify norm false seg] /\ (norm && is_dot seg) = false /\
    body l = body before ++ [classify norm false seg].
Proof.
  intros Hne. pose proof (body_skipb l) as Hb. destruct (skipb_inv l) as [Hroot Hcur]. destruct (skipb_prefix l) as [j Hj].
  remember (skipb l) as l1 eqn:El1.
  destruct (rspan is_sep l1) as [before seg] eqn:Hr.
  destruct (rspan_spec _ _ _ Hr) as (Hl1 & Hn & Hbef & Hdot).
  assert (Hseg : seg <> []).
  { intros ->. rewrite app_nil_r in Hl1. destruct Hbef as [E | (b' & s & E & Hs)]; [congruence|].
    rewrite Hl1, E in Hroot. rewrite rev_app_distr in Hroot. cbn in Hroot. congruence. }
  assert (Hnd : (norm && is_dot seg) = false) by (rewrite Hdot; assumption).
  assert (Hsc : sc false seg = [classify norm false seg]).
  { apply classify_sc; [assumption|]. apply andb_false_iff in Hnd. destruct Hnd; auto. }
  exists before, seg, j. repeat split; try assumption.
  - rewrite Hj, Hl1. rewrite <- app_assoc. reflexivity.
  - rewrite <- Hb. rewrite Hl1. rewrite body_before_seg by assumption. rewrite Hsc. reflexivity.
Qed.

Lemma skipb_nil_body x : skipb x = [] -> body x = [].
Proof. intros H. rewrite <- body_skipb. rewrite H. reflexivity. Qed.
Lemma skipb_nonnil_hd x y t : skipb x = y :: t -> exists t', x = y :: t'.
Proof. intros H. destruct (skipb_prefix x) as [j Hj]. rewrite H in Hj. exists (t ++ j). assumption. Qed.

Lemma back_spec_atbeg l :
  match parse_back is_sep norm AtBeg l with
  | Some (c, l') => cspec AtBeg l = cspec AtBeg l' ++ [c] /\ (exists j, l = l' ++ j)
  | None => cspec AtBeg l = []
  end.
Proof.
  unfold parse_back. destruct (skipb l) as [|z l1'] eqn:El1.
  - (* only root / leading dot left *)
    pose proof (front_spec AtBeg l eq_refl) as Hf.
    destruct (parse_front is_sep norm AtBeg l) as [[c l']|]; [|assumption].
    destruct Hf as (Hc & _ & _). split; [|exists l; reflexivity].
    rewrite cspec_nil. cbn [app]. rewrite Hc. f_equal.
    pose proof (lead_extra_len l) as Hlen. cbn [cspec] in Hc. rewrite (skipb_nil_body l El1), app_nil_r in Hc.
    rewrite Hc in Hlen. cbn in Hlen. destruct (body l'); [reflexivity | cbn in Hlen; lia].
  - assert (Hne : skipb l <> []) by (rewrite El1; discriminate).
    destruct (back_decomp l Hne) as (before & seg & j & Hr & Hl & Hseg & Hn & Hbef & Hsc & Hnd & Hbody).
    rewrite El1 in Hr. rewrite Hr. destruct seg as [|x seg'] eqn:Eseg; [congruence|]. rewrite <- Eseg in *.
    set (c := classify norm false seg) in *.
    destruct (root_ok is_sep before) eqn:Hroot.
    + (* before starts with the root separator *)
      cbn [orb]. destruct before as [|s bt]; [discriminate|]. cbn [root_ok] in Hroot.
      assert (HL : lead_extra l = [Root]) by (rewrite Hl; apply lead_extra_sep; assumption).
      destruct (skipb (s :: bt)) as [|y nb] eqn:Enb.
      * split; [| exists (bt ++ seg ++ j); rewrite Hl; reflexivity].
        cbn [firstn cspec]. rewrite HL, Hbody. rewrite (skipb_nil_body _ Enb).
        rewrite (lead_extra_sep s [] Hroot). rewrite (body_cons_sep s [] Hroot). reflexivity.
      * destruct (skipb_nonnil_hd _ _ _ Enb) as [t' Et]. inversion Et; subst y.
        split.
        -- cbn [cspec]. rewrite HL, Hbody. rewrite (lead_extra_sep s nb Hroot). rewrite <- Enb. rewrite body_skipb. rewrite app_assoc. reflexivity.
        -- destruct (skipb_prefix (s :: bt)) as [j2 Hj2]. rewrite Enb in Hj2. exists (j2 ++ seg ++ j). rewrite Hl. rewrite Hj2 at 1. rewrite <- !app_assoc. reflexivity.
    + cbn [orb]. destruct (cur_ok is_sep before) eqn:Hcur.
      * (* before starts with a "." segment: before = 46 :: sep :: _ *)
        destruct Hbef as [-> | (b' & s & Eb & Hs)]; [discriminate|].
        destruct before as [|d [|y bt]]; [discriminate | |].
        { exfalso. destruct b' as [|? [|? ?]]; cbn in Eb; inversion Eb; subst. cbn in Hroot. congruence. }
        cbn [cur_ok] in Hcur. apply andb_true_iff in Hcur as [Hd Hy]. apply N.eqb_eq in Hd. subst d.
        assert (HL : lead_extra l = if norm then [Cur] else []).
        { rewrite Hl. cbn [app]. unfold lead_extra. cbn [root_ok cur_ok]. rewrite dot_not_sep, Hy. cbn. destruct norm; reflexivity. }
        destruct (skipb (46 :: y :: bt)) as [|y' nb] eqn:Enb.
        -- (* everything before is junk: keep the "." byte; only possible when normalising *)
           pose proof (skipb_nil_body _ Enb) as Hbb.
           destruct (Bool.bool_dec norm true) as [Hnorm|Hnorm].
           ++ split; [| exists ((y :: bt) ++ seg ++ j); rewrite Hl; reflexivity].
              cbn [firstn cspec]. rewrite HL, Hbody, Hbb. unfold lead_extra. cbn [root_ok cur_ok]. rewrite dot_not_sep.
              rewrite (body_nosep [46] nosep_dot). rewrite (sc_dot_norm Hnorm). rewrite Hnorm. reflexivity.
           ++ exfalso. apply not_true_is_false in Hnorm.
              change (46 :: y :: bt) with ([46] ++ y :: bt) in Hbb. rewrite (body_app_sep [46] bt y Hy) in Hbb.
              rewrite (body_nosep [46] nosep_dot) in Hbb. unfold sc, seg_comp in Hbb. cbn in Hbb. rewrite Hnorm in Hbb. discriminate.
        -- destruct (skipb_nonnil_hd _ _ _ Enb) as [t' Et]. inversion Et; subst y'.
           split.
           ++ cbn [cspec]. rewrite HL, Hbody. rewrite <- Enb at 2. rewrite body_skipb. rewrite app_assoc. f_equal. f_equal.
              (* lead_extra of the kept prefix *)
              destruct nb as [|y2 nb'].
              ** (* kept prefix is "." alone: impossible when normalising *)
                 destruct (skipb_inv (46 :: y :: bt)) as [_ Hc]. rewrite Enb in Hc. cbn in Hc. rewrite andb_true_r in Hc.
                 rewrite Hc. unfold lead_extra. cbn. rewrite dot_not_sep. rewrite Hc. reflexivity.
              ** destruct (skipb_prefix (46 :: y :: bt)) as [j2 Hj2]. rewrite Enb in Hj2. cbn in Hj2. inversion Hj2; subst y2.
                 unfold lead_extra. cbn [root_ok cur_ok]. rewrite dot_not_sep, Hy. cbn. destruct norm; reflexivity.
           ++ destruct (skipb_prefix (46 :: y :: bt)) as [j2 Hj2]. rewrite Enb in Hj2. exists (j2 ++ seg ++ j). rewrite Hl. rewrite Hj2 at 1. rewrite <- !app_assoc. reflexivity.
      * (* no root, no leading dot: same as the NotAtBeginning case, lead_extra is empty on both sides *)
        cbn [cspec].
        assert (Hpre : exists j', l = skipb before ++ j').
        { destruct (skipb_prefix before) as [j2 Hj2]. exists (j2 ++ seg ++ j). rewrite Hl. rewrite Hj2 at 1. rewrite <- !app_assoc. reflexivity. }
        split; [|assumption].
        rewrite Hbody, body_skipb. rewrite app_assoc. f_equal. f_equal.
        assert (HLl : lead_extra l = []).
        { rewrite Hl. destruct before as [|b0 [|b1 bt]].
          - (* l = seg ++ j *) cbn [app]. rewrite Eseg. cbn [app]. unfold lead_extra. cbn [root_ok].
            assert (Hx : is_sep x = false). { rewrite Eseg in Hn. cbn in Hn. apply andb_true_iff in Hn as [Hx _]. apply negb_true_iff in Hx. assumption. }
            rewrite Hx. destruct (norm && cur_ok is_sep (x :: seg' ++ j)) eqn:E; [|reflexivity]. exfalso.
            apply andb_true_iff in E as [En Ec]. rewrite En in Hnd. cbn in Hnd.
            destruct seg' as [|x2 seg2].
            + cbn in Ec. rewrite Eseg in Hnd. unfold is_dot in Hnd. cbn in Hnd. rewrite andb_true_r in Hnd.
              destruct j as [|j0 jt]; cbn in Ec; [congruence|]. apply andb_true_iff in Ec as [Ec _]. congruence.
            + cbn in Ec. apply andb_true_iff in Ec as [_ Ec]. rewrite Eseg in Hn. cbn in Hn. rewrite Ec in Hn. cbn in Hn. rewrite andb_false_r in Hn. discriminate.
          - exfalso. destruct Hbef as [E | (b' & s & Eb & Hs)]; [discriminate|].
            destruct b' as [|? [|? ?]]; cbn in Eb; inversion Eb; subst. cbn in Hroot. congruence.
          - cbn [app]. unfold lead_extra. cbn [root_ok cur_ok] in *. rewrite Hroot, Hcur. rewrite andb_false_r. reflexivity. }
        rewrite HLl. symmetry.
        destruct (skipb before) as [|r0 [|r1 rt]] eqn:Er.
        -- apply lead_extra_nil.
        -- destruct (skipb_nonnil_hd _ _ _ Er) as [t' Et]. subst before. cbn [root_ok] in Hroot.
           unfold lead_extra. cbn [root_ok cur_ok]. rewrite Hroot.
           destruct (skipb_inv (r0 :: t')) as [_ Hc]. rewrite Er in Hc. cbn in Hc. rewrite Hc. reflexivity.
        -- destruct (skipb_prefix before) as [j2 Hj2]. rewrite Er in Hj2. subst before. cbn [app root_ok cur_ok] in *.
           unfold lead_extra. cbn [root_ok cur_ok]. rewrite Hroot, Hcur. rewrite andb_false_r. reflexivity.
Qed.

(* what skip_front removes ends with a separator (unless nothing is left or nothing was removed) *)
Lemma skipf_removed l : exists jr, l = jr ++ skipf l /\
  (skipf l = [] \/ jr = [] \/ exists j0 s, jr = j0 ++ [s] /\ is_sep s = true).
Proof.
  induction l as [|b0 r0 IH0]; [exists []; split; [reflexivity | left; reflexivity]|].
  cbn [skip_front]. destruct (is_sep b0) eqn:Hb0.
  - destruct IH0 as (jr & Hj & Hp). exists (b0 :: jr). split; [cbn; f_equal; exact Hj|].
    destruct Hp as [Hp | [-> | (j0 & s & -> & Hs)]]; [left; exact Hp | right; right; exists [], b0; auto | right; right; exists (b0 :: j0), s; auto].
  - destruct (norm && (b0 =? 46)) eqn:Hd0; [|exists []; split; [reflexivity | right; left; reflexivity]].
    destruct r0 as [|c0 r0']; [exists [b0]; split; [reflexivity | left; reflexivity]|].
    destruct (is_sep c0) eqn:Hc0; [|exists []; split; [reflexivity | right; left; reflexivity]].
    destruct IH0 as (jr & Hj & Hp). exists (b0 :: jr). split; [cbn [app]; f_equal; exact Hj|].
    destruct Hp as [Hp | [-> | (j0 & s & -> & Hs)]]; [left; exact Hp | | right; right; exists (b0 :: j0), s; auto].
    exfalso. cbn [app] in Hj. pose proof (skipf_length (c0 :: r0')) as Hlen.
    cbn [skip_front] in Hj, Hlen. rewrite Hc0 in Hj, Hlen. pose proof (skipf_length r0') as H2. rewrite <- Hj in H2. cbn in H2. lia.
Qed.
Lemma skipb_removed l : exists j, l = skipb l ++ j /\
  (skipb l = [] \/ j = [] \/ exists s t, j = s :: t /\ is_sep s = true).
Proof.
  unfold skip_back. destruct (skipf_removed (rev l)) as (jr & Hj & Hp). exists (rev jr). split.
  - rewrite <- rev_app_distr. rewrite <- Hj. symmetry. apply rev_involutive.
  - destruct Hp as [Hp | [-> | (j0 & s & -> & Hs)]].
    + left. rewrite Hp. reflexivity.
    + right. left. reflexivity.
    + right. right. exists s, (rev j0). rewrite rev_app_distr. auto.
Qed.

(* back_decomp with the shape of what trails the last segment *)
Lemma back_decomp_j l : skipb l <> [] ->
  exists before seg j,
    rspan is_sep (skipb l) = (before, seg) /\ l = before ++ seg ++ j /\ seg <> [] /\ nosep seg = true /\
    (before = [] \/ exists b' s, before = b' ++ [s] /\ is_sep s = true) /\
    sc false seg = [classify norm false seg] /\ (norm && is_dot seg) = false /\
    body l = body before ++ [classify norm false seg] /\
    (j = [] \/ exists s t, j = s :: t /\ is_sep s = true).
Proof.
  intros Hne. pose proof (body_skipb l) as Hb. destruct (skipb_inv l) as [Hroot Hcur].
  destruct (skipb_removed l) as (j & Hj & Hjp).
  remember (skipb l) as l1 eqn:El1.
  destruct (rspan is_sep l1) as [before seg] eqn:Hr.
  destruct (rspan_spec _ _ _ Hr) as (Hl1 & Hn & Hbef & Hdot).
  assert (Hseg : seg <> []).
  { intros ->. rewrite app_nil_r in Hl1. destruct Hbef as [E | (b' & s & E & Hs)]; [congruence|].
    rewrite Hl1, E in Hroot. rewrite rev_app_distr in Hroot. cbn in Hroot. congruence. }
  assert (Hnd : (norm && is_dot seg) = false) by (rewrite Hdot; assumption).
  assert (Hsc : sc false seg = [classify norm false seg]).
  { apply classify_sc; [assumption|]. apply andb_false_iff in Hnd. destruct Hnd; auto. }
  exists before, seg, j. repeat split; try assumption.
  - rewrite Hj, Hl1. rewrite <- app_assoc. reflexivity.
  - rewrite <- Hb. rewrite Hl1. rewrite body_before_seg by assumption. rewrite Hsc. reflexivity.
  - destruct Hjp as [Hp | Hp]; [congruence | exact Hp].
Qed.
End P.
