From Coq Require Import List NArith Bool Lia.
Import ListNotations.
Open Scope N_scope.
Notation byte := N (only parsing).
Notation DOT := 46 (only parsing).

Inductive comp := Root | Cur | Parent | Normal (n : list byte).
Inductive pstate := AtBeg | NotAtBeg.

Fixpoint beq_list (a b : list byte) : bool :=
  match a, b with [], [] => true | x :: a', y :: b' => (x =? y) && beq_list a' b' | _, _ => false end.
Definition comp_eqb (a b : comp) : bool :=
  match a, b with Root, Root | Cur, Cur | Parent, Parent => true | Normal x, Normal y => beq_list x y | _, _ => false end.

Section Core.
Variable is_sep : byte -> bool.
Variable norm : bool.

(* take_until_byte(is_sep) *)
Fixpoint span_nsep (l : list byte) : list byte * list byte :=
  match l with
  | [] => ([], [])
  | b :: r => if is_sep b then ([], l) else let (n, rest) := span_nsep r in (b :: n, rest)
  end.

(* move_front_to_next *)
Fixpoint skip_front (l : list byte) : list byte :=
  match l with
  | [] => []
  | b :: r =>
      if is_sep b then skip_front r
      else if norm && (b =? DOT) then
             match r with
             | [] => []
             | c :: _ => if is_sep c then skip_front r else l
             end
           else l
  end.

(* move_back_to_next *)
Definition skip_back (l : list byte) : list byte := rev (skip_front (rev l)).

(* cur_dir(..).is_ok() *)
Definition cur_ok (l : list byte) : bool :=
  match l with
  | b :: [] => b =? DOT
  | b :: c :: _ => (b =? DOT) && is_sep c
  | [] => false
  end.
Definition root_ok (l : list byte) : bool := match l with b :: _ => is_sep b | [] => false end.

Definition is_dot (n : list byte) := beq_list n [46].
Definition is_dotdot (n : list byte) := beq_list n [46; 46].
Definition classify (at_beg : bool) (n : list byte) : comp :=
  if is_dotdot n then Parent
  else if is_dot n then (if at_beg || negb norm then Cur else Normal n)
  else Normal n.

(* any_of!(parent_dir, [cur_dir], normal) on a separator-delimited head segment *)
Definition filename (at_beg : bool) (l : list byte) : option (comp * list byte) :=
  let (n, rest) := span_nsep l in
  match n with [] => None | _ => Some (classify at_beg n, rest) end.

Definition parse_front (st : pstate) (l : list byte) : option (comp * list byte) :=
  match st with
  | AtBeg =>
      match l with
      | b :: r => if is_sep b then Some (Root, skip_front r)
                  else match filename true l with Some (c, rest) => Some (c, skip_front rest) | None => None end
      | [] => None
      end
  | NotAtBeg => match filename false l with Some (c, rest) => Some (c, skip_front rest) | None => None end
  end.

(* rtake_until_byte(is_sep): (everything up to and including the last sep, the last segment) *)
Definition rspan (l : list byte) : list byte * list byte :=
  let (seg_r, before_r) := span_nsep (rev l) in (rev before_r, rev seg_r).

Definition parse_back (st : pstate) (l : list byte) : option (comp * list byte) :=
  let l1 := skip_back l in
  match st, l1 with
  | AtBeg, [] => match parse_front AtBeg l with Some (c, _) => Some (c, []) | None => None end
  | _, _ =>
      let (before, seg) := rspan l1 in
      match seg with
      | [] => None
      | _ =>
        let c := classify false seg in
        let rest :=
          match st with
          | AtBeg =>
              if root_ok before || cur_ok before then
                match skip_back before with [] => firstn 1 before | nb => nb end
              else skip_back before
          | NotAtBeg => skip_back before
          end in
        Some (c, rest)
      end
  end.

(* offset, within l, of the slice parse_back returns as its component (a Normal / `..`
   segment; 0 when the component comes from the front parser) *)
Definition back_off (st : pstate) (l : list byte) : nat :=
  let l1 := skip_back l in
  match st, l1 with
  | AtBeg, [] => O
  | _, _ => length (fst (rspan l1))
  end.

Definition next_front (s : pstate * list byte) : option (comp * (pstate * list byte)) :=
  match parse_front (fst s) (snd s) with Some (c, l') => Some (c, (NotAtBeg, l')) | None => None end.
Definition next_back (s : pstate * list byte) : option (comp * (pstate * list byte)) :=
  match parse_back (fst s) (snd s) with Some (c, l') => Some (c, (fst s, l')) | None => None end.

Fixpoint comps_fuel (fuel : nat) (s : pstate * list byte) : list comp :=
  match fuel with
  | O => []
  | S f => match next_front s with Some (c, s') => c :: comps_fuel f s' | None => [] end
  end.
Definition comps (s : pstate * list byte) : list comp := comps_fuel (S (length (snd s))) s.

(* ---- spec: split and classify ---- *)
Fixpoint split_sep (l acc : list byte) : list (list byte) :=
  match l with
  | [] => [rev acc]
  | b :: r => if is_sep b then rev acc :: split_sep r [] else split_sep r (b :: acc)
  end.
Definition seg_comp (first : bool) (g : list byte) : list comp :=
  match g with
  | [] => []
  | _ => if is_dotdot g then [Parent]
         else if is_dot g then (if first || negb norm then [Cur] else [])
         else [Normal g]
  end.
Definition spec_comps (l : list byte) : list comp :=
  match l with
  | [] => []
  | b :: r =>
     if is_sep b then Root :: flat_map (seg_comp false) (split_sep r [])
     else match split_sep l [] with
          | [] => []
          | g :: gs => seg_comp true g ++ flat_map (seg_comp false) gs
          end
  end.

(* state invariant *)
Definition inv (s : pstate * list byte) : bool :=
  match fst s with
  | AtBeg => true
  | NotAtBeg => negb (root_ok (snd s)) && negb (norm && cur_ok (snd s))
  end.
End Core.

Fixpoint list_eqb (a b : list comp) : bool :=
  match a, b with [], [] => true | x :: a', y :: b' => comp_eqb x y && list_eqb a' b' | _, _ => false end.

(* ---- schedules over a double-ended iterator ---- *)
(* run a schedule (false = next, true = next_back); a failed step leaves the iterator unchanged *)
Fixpoint sched_run {st cmp : Type} (nextf nextb : st -> option (cmp * st)) (s : st) (sched : list bool)
  : list (option cmp * st) :=
  match sched with
  | [] => []
  | d :: r =>
      match (if d then nextb s else nextf s) with
      | Some (c, s') => (Some c, s') :: sched_run nextf nextb s' r
      | None => (None, s) :: sched_run nextf nextb s r
      end
  end.

(* what an ideal double-ended iterator over the list [cs] answers to the same schedule,
   with the un-consumed middle after every step *)
Fixpoint deq_run {A} (cs : list A) (sched : list bool) : list (option A * list A) :=
  match sched with
  | [] => []
  | false :: r =>
      match cs with
      | [] => (None, []) :: deq_run [] r
      | c :: cs' => (Some c, cs') :: deq_run cs' r
      end
  | true :: r =>
      match rev cs with
      | [] => (None, []) :: deq_run [] r
      | c :: rcs' => (Some c, rev rcs') :: deq_run (rev rcs') r
      end
  end.
