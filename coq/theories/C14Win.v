(* C14 for the Windows iterator as a whole: the prefix the grammar cuts off a valid UTF-8 input is valid
   UTF-8 and so is what follows it, because every alternative of the prefix grammar stops next to an ASCII
   byte (a separator, ':' or '?') or at the end of the input; with C14Slices this gives validity of every
   window, every prefix and every normal name under any schedule of the Windows iterator. *)
From Coq Require Import List NArith Bool Lia Arith.
Import ListNotations.
From TP Require Import Core CoreProofs Path Unix Win WinProofs Utf8 Utf8Proofs C03Slices C14Slices.
Open Scope N_scope.

(* l = a ++ r with a non-empty, and the cut between a and r is next to an ASCII byte or at the end *)
Definition cut_ok (l r : list byte) : Prop :=
  exists a, a <> [] /\ l = a ++ r /\
    (r = [] \/ (exists s t, r = s :: t /\ s < 128) \/ (exists a' x, a = a' ++ [x] /\ x < 128)).
Lemma cut_ok_consumes l r : cut_ok l r -> consumes l r.
Proof. intros (a & Ha & E & _). exists a. auto. Qed.
Lemma cut_trans l m r : consumes l m -> cut_ok m r -> cut_ok l r.
Proof.
  intros (a & Ha & ->) (b & Hb & -> & Hc). exists (a ++ b).
  split; [destruct a; [congruence | discriminate]|]. split; [rewrite app_assoc; reflexivity|].
  destruct Hc as [Hc | [Hc | (b' & x & -> & Hx)]]; [left; exact Hc | right; left; exact Hc|].
  right. right. exists (a ++ b'), x. split; [rewrite app_assoc; reflexivity | exact Hx].
Qed.
Lemma cut_ok_Valid l r : cut_ok l r -> Valid l -> Valid (firstn (length l - length r) l) /\ Valid r.
Proof.
  intros (a & Ha & -> & Hc) Hv.
  rewrite app_length. replace (length a + length r - length r)%nat with (length a) by lia.
  rewrite firstn_app, firstn_all, Nat.sub_diag. cbn [firstn]. rewrite app_nil_r.
  destruct Hc as [-> | [(s & t & -> & Hs) | (a' & x & -> & Hx)]].
  - rewrite app_nil_r in Hv. split; [exact Hv | constructor].
  - apply (Valid_split_before_ascii a s t Hv Hs).
  - rewrite <- app_assoc in Hv. cbn [app] in Hv. apply (Valid_split_after_ascii a' x r Hv Hx).
Qed.

Lemma p_sep_cut norm l r : p_sep norm l = Some r -> cut_ok l r.
Proof.
  unfold p_sep. destruct l as [|b t]; [discriminate|]. destruct (wsep norm b) eqn:Hb; [|discriminate].
  intros X; inversion X; subst. exists [b]. split; [discriminate|]. split; [reflexivity|].
  right. right. exists [], b. split; [reflexivity | apply (wsep_ascii norm b Hb)].
Qed.
Lemma p_normal_cut norm l n r : p_normal norm l = Some (n, r) -> cut_ok l r.
Proof.
  unfold p_normal. destruct (span_nsep (wsep norm) l) as [n' r'] eqn:E. destruct n' as [|x t] eqn:En; [discriminate|].
  intros X; inversion X; subst n r'. exists (x :: t). split; [discriminate|].
  destruct (span_spec (wsep norm) _ _ _ E) as (El & _ & Hr). split; [exact El|].
  destruct Hr as [-> | (s & r'' & -> & Hs)]; [left; reflexivity|]. right. left. exists s, r''. split; [reflexivity | apply (wsep_ascii norm s Hs)].
Qed.
Lemma p_disk_cut l d r : p_disk l = Some (d, r) -> cut_ok l r.
Proof.
  unfold p_disk. destruct l as [|x t]; [discriminate|]. destruct (is_ascii_alpha x); [|discriminate].
  unfold p_byte. destruct t as [|c t']; [discriminate|]. destruct (c =? 58) eqn:Ec; [|discriminate].
  intros X; inversion X; subst. apply N.eqb_eq in Ec. subst c.
  exists [x; 58]. split; [discriminate|]. split; [reflexivity|]. right. right. exists [x], 58. split; reflexivity.
Qed.
Lemma p_verbatim_cut l r : p_verbatim l = Some r -> cut_ok l r.
Proof.
  unfold p_verbatim. destruct (p_sep true l) as [l1|] eqn:E1; [|discriminate].
  destruct (p_sep true l1) as [l2|] eqn:E2; [|discriminate].
  destruct (p_byte 63 l2) as [l3|] eqn:E3; [|discriminate]. intros E4.
  eapply cut_trans; [eapply p_sep_consumes; eauto|].
  eapply cut_trans; [eapply p_sep_consumes; eauto|].
  eapply cut_trans; [eapply p_byte_consumes; eauto|]. eapply p_sep_cut; eauto.
Qed.
Lemma p_unc_tail_cut norm l srv sh r : p_unc_tail norm l = Some (srv, sh, r) -> cut_ok l r.
Proof.
  unfold p_unc_tail. destruct (p_normal norm l) as [[s l1]|] eqn:E1; [|discriminate].
  pose proof (p_normal_cut _ _ _ _ E1) as C1.
  destruct (p_sep norm l1) as [r1|] eqn:E2.
  - destruct (p_normal norm r1) as [[sh' l3]|] eqn:E3; intros X; inversion X; subst.
    + eapply cut_trans; [apply cut_ok_consumes; exact C1|].
      eapply cut_trans; [eapply p_sep_consumes; eauto|]. eapply p_normal_cut; eauto.
    + eapply cut_trans; [apply cut_ok_consumes; exact C1|]. eapply p_sep_cut; eauto.
  - destruct (p_normal norm l1) as [[sh' l3]|] eqn:E3; intros X; inversion X; subst.
    + eapply cut_trans; [apply cut_ok_consumes; exact C1|]. eapply p_normal_cut; eauto.
    + exact C1.
Qed.

Theorem prefix_cut l k r : prefix l = Some (k, r) -> cut_ok l r.
Proof.
  unfold prefix, prefix_alternatives, first_some. cbn [map fold_right].
  destruct (prefix_verbatim_unc l) as [[k1 r1]|] eqn:E1.
  { intros X; inversion X; subst. unfold prefix_verbatim_unc in E1.
    destruct (p_verbatim l) as [l0|] eqn:F0; [|discriminate].
    destruct (p_unc_lit l0) as [l1|] eqn:F1; [|discriminate].
    destruct (p_sep (negb (exact_verbatim l)) l1) as [l2|] eqn:F2; [|discriminate].
    destruct (p_unc_tail (negb (exact_verbatim l)) l2) as [[[srv sh] r']|] eqn:F3; [|discriminate].
    inversion E1; subst.
    eapply cut_trans; [eapply p_verbatim_consumes; eauto|].
    eapply cut_trans; [eapply p_unc_lit_consumes; eauto|].
    eapply cut_trans; [eapply p_sep_consumes; eauto|]. eapply p_unc_tail_cut; eauto. }
  destruct (prefix_verbatim_disk l) as [[k2 r2]|] eqn:E2.
  { intros X; inversion X; subst. unfold prefix_verbatim_disk in E2.
    destruct (p_verbatim l) as [l1|] eqn:F0; [|discriminate].
    destruct (p_disk l1) as [[d r']|] eqn:F1; [|discriminate]. inversion E2; subst.
    eapply cut_trans; [eapply p_verbatim_consumes; eauto|]. eapply p_disk_cut; eauto. }
  destruct (prefix_verbatim l) as [[k3 r3]|] eqn:E3.
  { intros X; inversion X; subst. unfold prefix_verbatim in E3. rewrite E2, E1 in E3.
    destruct (p_verbatim l) as [l1|] eqn:F0; [|discriminate].
    destruct (p_normal (negb (exact_verbatim l)) l1) as [[x r']|] eqn:F1.
    - inversion E3; subst. eapply cut_trans; [eapply p_verbatim_consumes; eauto|]. eapply p_normal_cut; eauto.
    - destruct (p_sep (negb (exact_verbatim l)) l1); [|discriminate]. inversion E3; subst. eapply p_verbatim_cut; eauto. }
  destruct (prefix_device_ns l) as [[k4 r4]|] eqn:E4.
  { intros X; inversion X; subst. unfold prefix_device_ns in E4.
    destruct (p_sep true l) as [l1|] eqn:F1; [|discriminate].
    destruct (p_sep true l1) as [l2|] eqn:F2; [|discriminate].
    destruct (p_byte 46 l2) as [l3|] eqn:F3; [|discriminate].
    destruct (p_sep true l3) as [l4|] eqn:F4; [|discriminate].
    destruct (p_normal true l4) as [[x r']|] eqn:F5; [|discriminate]. inversion E4; subst.
    eapply cut_trans; [eapply p_sep_consumes; eauto|].
    eapply cut_trans; [eapply p_sep_consumes; eauto|].
    eapply cut_trans; [eapply p_byte_consumes; eauto|].
    eapply cut_trans; [eapply p_sep_consumes; eauto|]. eapply p_normal_cut; eauto. }
  destruct (prefix_unc l) as [[k5 r5]|] eqn:E5.
  { intros X; inversion X; subst. unfold prefix_unc in E5.
    destruct (p_sep true l) as [l1|] eqn:F1; [|discriminate].
    destruct (p_sep true l1) as [l2|] eqn:F2; [|discriminate].
    destruct (p_unc_tail true l2) as [[[srv sh] r']|] eqn:F3; [|discriminate]. inversion E5; subst.
    eapply cut_trans; [eapply p_sep_consumes; eauto|].
    eapply cut_trans; [eapply p_sep_consumes; eauto|]. eapply p_unc_tail_cut; eauto. }
  destruct (prefix_disk l) as [[k6 r6]|] eqn:E6; [|discriminate].
  intros X; inversion X; subst. unfold prefix_disk in E6.
  destruct (p_disk l) as [[d r']|] eqn:F; [|discriminate]. inversion E6; subst. eapply p_disk_cut; eauto.
Qed.
(* the prefix slice of a valid input is valid, and so is what follows it *)
Theorem prefix_component_Valid l raw k : prefix_component l = Some (raw, k) -> Valid l ->
  Valid raw /\ Valid (skipn (length raw) l).
Proof.
  unfold prefix_component. destruct (prefix l) as [[k' r]|] eqn:E; [|discriminate].
  intros X Hv. inversion X; subst k'.
  destruct (cut_ok_Valid l r (prefix_cut _ _ _ E) Hv) as (H1 & H2). split; [exact H1|].
  destruct (prefix_cut _ _ _ E) as (a & Ha & El & _). rewrite El.
  rewrite app_length. replace (length a + length r - length r)%nat with (length a) by lia.
  rewrite firstn_app, firstn_all, Nat.sub_diag. cbn [firstn]. rewrite app_nil_r.
  rewrite skipn_app, skipn_all, Nat.sub_diag. cbn. exact H2.
Qed.

(* ---------- every schedule of the Windows iterator ---------- *)
Definition WV (s : wstate) : Prop :=
  wpre s /\ Valid (firstn (plen s) (w_input s)) /\ Valid (skipn (plen s) (w_input s)).
Lemma WV_input s : WV s -> Valid (w_input s).
Proof. intros (_ & H1 & H2). rewrite <- (firstn_skipn (plen s) (w_input s)). apply Valid_app; assumption. Qed.
Lemma WV_init l : Valid l -> WV (w_init l).
Proof.
  intros Hv. split; [apply wpre_init|]. unfold plen, w_init. cbn [w_prefix w_input].
  destruct (prefix_component l) as [[raw k]|] eqn:E.
  - destruct (prefix_component_Valid l raw k E Hv) as (H1 & H2). split; [|exact H2].
    destruct (prefix_component_raw l raw k E) as (rest & _ & El & _). rewrite El.
    rewrite firstn_app, firstn_all, Nat.sub_diag. cbn [firstn]. rewrite app_nil_r. exact H1.
  - cbn [firstn skipn]. split; [constructor | exact Hv].
Qed.
Definition wout_ok (c : option wcomp) : Prop :=
  match c with
  | Some (WPrefix raw _) => Valid raw
  | Some (WC (Normal n)) => Valid n
  | _ => True
  end.

Lemma w_nextf_WV s c s' : WV s -> w_nextf s = Some (c, s') -> WV s' /\ wout_ok (Some c).
Proof.
  intros (Hw & H1 & H2). unfold w_nextf. destruct (w_prefix s) as [[raw k]|] eqn:Ep.
  - intros X. inversion X; subst c s'. clear X.
    assert (Hpl : plen s = length raw) by (unfold plen; rewrite Ep; reflexivity).
    unfold wpre in Hw. rewrite Ep in Hw. destruct Hw as (Hf & _).
    split.
    + split; [exact I|]. unfold plen. cbn [w_prefix w_input firstn skipn]. split; [constructor|]. rewrite <- Hpl. exact H2.
    + cbn [wout_ok]. rewrite <- Hf, <- Hpl. exact H1.
  - assert (Hpl : plen s = 0%nat) by (unfold plen; rewrite Ep; reflexivity).
    rewrite Hpl in H2. cbn [skipn] in H2.
    destruct (parse_front (wsep (w_norm s)) (w_norm s) (w_st s) (w_input s)) as [[c0 l']|] eqn:Ef; [|discriminate].
    intros X. inversion X; subst c s'. clear X.
    destruct (front_Valid (wsep (w_norm s)) (w_norm s) (wsep_ascii (w_norm s)) (w_st s) (w_input s) c0 l' Ef H2) as (Hl' & Hn).
    split.
    + split; [exact I|]. unfold plen. cbn [w_prefix w_input firstn skipn]. split; [constructor | exact Hl'].
    + cbn [wout_ok]. destruct c0 as [| | |n]; try exact I. apply (Hn n eq_refl).
Qed.
Lemma w_nextb_WV s c s' : WV s -> w_nextb s = Some (c, s') -> WV s' /\ wout_ok (Some c).
Proof.
  intros (Hw & H1 & H2). unfold w_nextb.
  assert (Hin : w_input s = firstn (plen s) (w_input s) ++ skipn (plen s) (w_input s)) by (symmetry; apply firstn_skipn).
  assert (Hhd : length (firstn (plen s) (w_input s)) = plen s).
  { apply firstn_length_le. unfold plen, wpre in *. destruct (w_prefix s) as [[raw k]|]; [destruct Hw; assumption | lia]. }
  set (hd := firstn (plen s) (w_input s)) in *.
  destruct (skipn (plen s) (w_input s)) as [|r0 rt] eqn:Erest.
  - destruct (w_prefix s) as [[raw k]|] eqn:Ep; [|discriminate].
    intros X. inversion X; subst c s'. clear X.
    assert (Hpl : plen s = length raw) by (unfold plen; rewrite Ep; reflexivity).
    unfold wpre in Hw. rewrite Ep in Hw. destruct Hw as (Hf & _).
    split.
    + split; [exact I|]. unfold plen. cbn [w_prefix w_input firstn skipn]. split; [constructor|]. rewrite <- Hpl, Erest. constructor.
    + cbn [wout_ok]. rewrite <- Hf, <- Hpl. exact H1.
  - destruct (parse_back (wsep (w_norm s)) (w_norm s) (w_st s) (r0 :: rt)) as [[c0 l']|] eqn:Eb; [|discriminate].
    intros X. inversion X; subst c s'. clear X.
    destruct (back_Valid (wsep (w_norm s)) (w_norm s) (wsep_dot (w_norm s)) (wsep_ascii (w_norm s)) (w_st s) (r0 :: rt) c0 l' Eb H2) as (Hl' & Hn).
    assert (Hnew : firstn (length l' + plen s) (w_input s) = hd ++ l').
    { destruct (back_shape (wsep (w_norm s)) (w_norm s) (wsep_dot (w_norm s)) (w_st s) (r0 :: rt) c0 l' Eb)
        as [(k & seg & j & El & _) | (El' & _)].
      - rewrite Hin at 1. rewrite El. rewrite <- !app_assoc. apply firstn_app_exact. lia.
      - subst l'. cbn [length Nat.add]. rewrite app_nil_r. reflexivity. }
    split.
    + rewrite Hnew.
      set (s1 := {| w_input := hd ++ l'; w_st := w_st s; w_prefix := w_prefix s; w_norm := w_norm s |}).
      assert (Hp1 : plen s1 = plen s) by reflexivity.
      assert (E1 : firstn (plen s) (hd ++ l') = hd) by (rewrite <- Hhd at 1; rewrite firstn_app, firstn_all, Nat.sub_diag; cbn; apply app_nil_r).
      assert (E2 : skipn (plen s) (hd ++ l') = l') by (rewrite <- Hhd at 1; rewrite skipn_app, skipn_all, Nat.sub_diag; reflexivity).
      split; [|rewrite Hp1; cbn [s1 w_input]; rewrite E1, E2; split; [exact H1 | exact Hl']].
      unfold wpre. cbn [s1 w_prefix w_input].
      destruct (w_prefix s) as [[raw k]|] eqn:Ep; [|exact I].
      unfold wpre in Hw. rewrite Ep in Hw. destruct Hw as (Hf & Hl).
      assert (Hpl : plen s = length raw) by (unfold plen; rewrite Ep; reflexivity).
      assert (Ehd : hd = raw) by (unfold hd; rewrite Hpl; exact Hf).
      rewrite Ehd. split; [rewrite firstn_app, firstn_all, Nat.sub_diag; cbn; apply app_nil_r | rewrite app_length; lia].
    + cbn [wout_ok]. destruct c0 as [| | |n]; try exact I. apply (Hn n eq_refl).
Qed.

Theorem w_sched_Valid sched : forall s, WV s ->
  Forall (fun x : option wcomp * wstate => Valid (w_input (snd x)) /\ wout_ok (fst x))
         (sched_run w_nextf w_nextb s sched).
Proof.
  induction sched as [|d r IH]; intros s Hs; [constructor|].
  cbn [sched_run]. destruct d.
  - destruct (w_nextb s) as [[c s']|] eqn:E.
    + destruct (w_nextb_WV s c s' Hs E) as (Hs' & Hc).
      constructor; [cbn [fst snd]; split; [apply WV_input; exact Hs' | exact Hc]|]. apply (IH s' Hs').
    + constructor; [cbn [fst snd]; split; [apply WV_input; exact Hs | exact I]|]. apply (IH s Hs).
  - destruct (w_nextf s) as [[c s']|] eqn:E.
    + destruct (w_nextf_WV s c s' Hs E) as (Hs' & Hc).
      constructor; [cbn [fst snd]; split; [apply WV_input; exact Hs' | exact Hc]|]. apply (IH s' Hs').
    + constructor; [cbn [fst snd]; split; [apply WV_input; exact Hs | exact I]|]. apply (IH s Hs).
Qed.
Theorem w_init_sched_Valid l sched : Valid l ->
  Forall (fun x : option wcomp * wstate => Valid (w_input (snd x)) /\ wout_ok (fst x))
         (sched_run w_nextf w_nextb (w_init l) sched).
Proof. intros Hv. apply w_sched_Valid. apply WV_init. exact Hv. Qed.
