(* C13 for Windows at the level of bytes: with a file name n, set_extension returns true and the buffer is
   everything before the name, the old stem and (for a non-empty extension) a dot and the extension --
   whatever separators or "." segments trailed the name, whatever prefix the path has; without a file
   name it returns false and leaves the buffer untouched.  (That the result, read again, has the old parent
   and the new file name is not stated here: it needs the prefix grammar to be stable when what follows
   the prefix is REBUILT, see DESIGN.) *)
From Coq Require Import List NArith Bool Lia Arith.
Import ListNotations.
From TP Require Import Core CoreProofs Path Unix Win UnixProofs WinProofs C03Slices C13Proofs.
Open Scope N_scope.

Theorem w_set_extension_none l ext : w_file_name l = None -> w_set_extension l ext = (l, false).
Proof. unfold w_set_extension, set_extension. fold w_file_name. intros ->. reflexivity. Qed.

Lemma w_file_stem_of l n : w_file_name l = Some n -> w_file_stem l = Some (stem_of n).
Proof.
  intros H. unfold w_file_stem, file_stem. fold w_file_name. rewrite H. unfold stem_of.
  pose proof (rsplit_reproduces n) as R. destruct (rsplit_file_at_dot n) as [before after].
  destruct (opt_and before after) as [e|].
  - destruct R as (st & Ho & _). rewrite Ho. reflexivity.
  - rewrite R. reflexivity.
Qed.

(* where the file name sits *)
Lemma w_file_name_decomp l n : w_file_name l = Some n ->
  exists before j, l = before ++ n ++ j /\ w_back_off (w_init l) = length before.
Proof.
  unfold w_file_name, file_name, w_nextb, w_back_off. cbn [w_init w_input w_st w_prefix w_norm].
  set (pl := plen (w_init l)).
  assert (Hin : l = firstn pl l ++ skipn pl l) by (symmetry; apply firstn_skipn).
  assert (Hpl : (pl <= length l)%nat).
  { unfold pl, plen, w_init. cbn [w_prefix]. destruct (prefix_component l) as [[raw k]|] eqn:Ep; [|lia].
    destruct (prefix_component_raw l raw k Ep) as (r & _ & El & _). apply (f_equal (@length byte)) in El. rewrite app_length in El. lia. }
  assert (Hhd : length (firstn pl l) = pl) by (apply firstn_length_le; exact Hpl).
  destruct (skipn pl l) as [|r0 rt] eqn:Erest.
  - destruct (prefix_component l) as [[raw k]|]; cbn; discriminate.
  - destruct (parse_back (wsep (negb (exact_verbatim l))) (negb (exact_verbatim l)) AtBeg (r0 :: rt)) as [[c0 l']|] eqn:Eb; [|discriminate].
    cbn [wc_is_normal wc_bytes]. destruct c0 as [| | |n0]; try discriminate. intros X; inversion X; subst n0.
    destruct (back_shape _ _ (wsep_dot _) _ _ _ _ Eb) as [(k & seg & j & Esh & Eoff & Ec) | (_ & Hnn)].
    + symmetry in Ec. apply (classify_normal (negb (exact_verbatim l))) in Ec. subst seg.
      exists (firstn pl l ++ l' ++ k), j. split.
      * rewrite Hin at 1. rewrite Esh. rewrite <- !app_assoc. reflexivity.
      * rewrite Eoff. rewrite !app_length, Hhd. lia.
    + exfalso. apply (Hnn n). reflexivity.
Qed.

Theorem w_set_extension_bytes l n ext : w_file_name l = Some n ->
  exists before j, l = before ++ n ++ j /\ w_set_extension l ext = (before ++ new_name n ext, true).
Proof.
  intros H. destruct (w_file_name_decomp l n H) as (before & j & Hl & Hoff).
  exists before, j. split; [exact Hl|].
  unfold w_set_extension, set_extension. fold w_file_name w_file_stem. rewrite H, (w_file_stem_of l n H).
  unfold name_end. fold w_file_name. rewrite H, Hoff.
  destruct (stem_prefix n) as (rest & Hn & _).
  assert (Hlen : length n = (length (stem_of n) + length rest)%nat) by (rewrite Hn at 1; apply app_length).
  replace (length before + length n - (length n - length (stem_of n)))%nat with (length before + length (stem_of n))%nat by lia.
  assert (Hf : firstn (length before + length (stem_of n)) l = before ++ stem_of n).
  { rewrite Hl. rewrite Hn at 2. rewrite <- !app_assoc. rewrite firstn_app_2.
    f_equal. rewrite firstn_app, firstn_all, Nat.sub_diag. cbn. apply app_nil_r. }
  rewrite Hf. unfold new_name. destruct ext; [reflexivity|]. rewrite <- app_assoc. reflexivity.
Qed.
