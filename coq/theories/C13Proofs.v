(* C13 (Unix): set_extension changes only the extension of the final component. *)
From Coq Require Import List NArith Bool Lia Arith.
Import ListNotations.
From TP Require Import Core CoreProofs CoreSched Path Unix Win Spec Ops UnixProofs C04Proofs C11Proofs Utf8 Utf8Proofs C14Proofs.
Open Scope N_scope.

Notation skipb := (skip_back usep true).
Definition trail_ok (j : list byte) : Prop := j = [] \/ exists s t, j = s :: t /\ usep s = true.
Definition lead_ok (before : list byte) : Prop := before = [] \/ exists b' s, before = b' ++ [s] /\ usep s = true.

(* the last component, when it is a normal name: where it sits in the input *)
Lemma u_file_name_decomp l n : u_file_name l = Some n ->
  exists before j,
    l = before ++ n ++ j /\ lead_ok before /\ trail_ok j /\
    u_back_off (u_init l) = length before /\ nosep usep n = true /\ n <> [] /\
    is_dot n = false /\ is_dotdot n = false /\
    body usep true l = body usep true before ++ [Normal n].
Proof.
  unfold u_file_name, file_name, u_nextb, next_back, u_init, u_back_off, back_off. cbn [fst snd].
  unfold parse_back. destruct (skipb l) as [|z l1'] eqn:El1.
  - (* only root / "." left: never a normal name *)
    pose proof (front_spec usep true usep_dot AtBeg l eq_refl) as Hf.
    destruct (parse_front usep true AtBeg l) as [[c l']|]; [|discriminate].
    destruct Hf as (Hc & _ & _). cbn [cspec] in Hc. rewrite (skipb_nil_body usep true usep_dot l El1), app_nil_r in Hc.
    unfold lead_extra in Hc. destruct (root_ok usep l); [inversion Hc; subst; discriminate|].
    destruct (true && cur_ok usep l); [inversion Hc; subst; discriminate | discriminate].
  - assert (Hne : skipb l <> []) by (rewrite El1; discriminate).
    destruct (back_decomp_j usep true usep_dot l Hne) as (before & seg & j & Hr & Hl & Hseg & Hn & Hbef & Hsc & Hnd & Hbody & Hj).
    rewrite El1 in Hr. rewrite Hr. destruct seg as [|x seg'] eqn:Eseg; [congruence|]. rewrite <- Eseg in *.
    cbn [fst]. intros H.
    assert (Hcl : classify true false seg = Normal n).
    { destruct (classify true false seg) eqn:Ec; cbn in H; try discriminate. inversion H; subst. reflexivity. }
    cbn [andb] in Hnd. unfold classify in Hcl. destruct (is_dotdot seg) eqn:Edd; [discriminate|]. rewrite Hnd in Hcl.
    inversion Hcl; subst n.
    exists before, j. repeat split; try assumption. rewrite Hbody. unfold classify. rewrite Edd, Hnd. reflexivity.
Qed.
(* without a file name: false, buffer untouched *)
Theorem u_set_extension_none l ext : u_file_name l = None -> u_set_extension l ext = (l, false).
Proof. unfold u_set_extension, set_extension. fold u_file_name. intros ->. reflexivity. Qed.

(* stem of a name *)
Definition stem_of (n : list byte) : list byte :=
  let (before, after) := rsplit_file_at_dot n in match opt_or before after with Some s => s | None => n end.
Lemma stem_prefix n : exists rest, n = stem_of n ++ rest /\ (rest = [] \/ exists e, rest = 46 :: e).
Proof.
  unfold stem_of. pose proof (rsplit_reproduces n) as H. destruct (rsplit_file_at_dot n) as [before after].
  destruct (opt_and before after) as [e|].
  - destruct H as (st & Ho & Hn & _). rewrite Ho. exists (46 :: e). split; [exact Hn | right; eauto].
  - rewrite H. exists []. rewrite app_nil_r. auto.
Qed.
Lemma u_file_stem_of l n : u_file_name l = Some n -> u_file_stem l = Some (stem_of n).
Proof.
  intros H. unfold u_file_stem, file_stem. fold u_file_name. rewrite H. unfold stem_of.
  pose proof (rsplit_reproduces n) as R. destruct (rsplit_file_at_dot n) as [before after].
  destruct (opt_and before after) as [e|].
  - destruct R as (st & Ho & _). rewrite Ho. reflexivity.
  - rewrite R. reflexivity.
Qed.
Definition new_name (n ext : list byte) : list byte := match ext with [] => stem_of n | _ => stem_of n ++ 46 :: ext end.

Lemma u_set_extension_at l n ext before j : u_file_name l = Some n -> l = before ++ n ++ j ->
  u_back_off (u_init l) = length before -> u_set_extension l ext = (before ++ new_name n ext, true).
Proof.
  intros H Hl Hoff.
  unfold u_set_extension, set_extension. fold u_file_name u_file_stem. rewrite H, (u_file_stem_of l n H).
  unfold name_end. fold u_file_name. rewrite H, Hoff.
  destruct (stem_prefix n) as (rest & Hn & _).
  assert (Hlen : length n = (length (stem_of n) + length rest)%nat) by (rewrite Hn at 1; apply app_length).
  replace (length before + length n - (length n - length (stem_of n)))%nat with (length before + length (stem_of n))%nat by lia.
  assert (Hf : firstn (length before + length (stem_of n)) l = before ++ stem_of n).
  { rewrite Hl. rewrite Hn at 2. rewrite <- !app_assoc. rewrite firstn_app_2.
    f_equal. rewrite firstn_app, firstn_all, Nat.sub_diag. cbn. apply app_nil_r. }
  rewrite Hf. unfold new_name. destruct ext; [reflexivity|]. rewrite <- app_assoc. reflexivity.
Qed.
(* the bytes: everything before the file name, the old stem, then "." and the new extension;
   whatever trailed the file name (separators, "." segments) is gone and nothing before the stem moved *)
Theorem u_set_extension_bytes l n ext : u_file_name l = Some n ->
  exists before j, l = before ++ n ++ j /\ lead_ok before /\ trail_ok j /\
                   u_set_extension l ext = (before ++ new_name n ext, true).
Proof.
  intros H. destruct (u_file_name_decomp l n H) as (before & j & Hl & Hbef & Hj & Hoff & _).
  exists before, j. split; [exact Hl|]. split; [exact Hbef|]. split; [exact Hj|].
  apply (u_set_extension_at l n ext before j H Hl Hoff).
Qed.

(* ---- reading the result back ---- *)
Lemma span_nosep_app m t : nosep usep m = true -> trail_ok t -> span_nsep usep (m ++ t) = (m, t).
Proof.
  intros Hn Ht. induction m as [|b r IH]; cbn [app].
  - destruct Ht as [-> | (s & t' & -> & Hs)]; [reflexivity|]. cbn. rewrite Hs. reflexivity.
  - cbn in Hn. apply andb_true_iff in Hn as [Hb Hr]. apply negb_true_iff in Hb. cbn [span_nsep]. rewrite Hb.
    rewrite (IH Hr). reflexivity.
Qed.
Lemma lead_extra_nosep_name m t : m <> [] -> nosep usep m = true -> is_dot m = false -> trail_ok t ->
  lead_extra usep true (m ++ t) = [].
Proof.
  intros Hne Hn Hd Ht. unfold lead_extra.
  rewrite (cur_ok_span usep usep_dot _ _ _ (span_nosep_app m t Hn Ht)). rewrite Hd. cbn [andb].
  destruct m as [|b r]; [congruence|]. cbn [app root_ok].
  cbn in Hn. apply andb_true_iff in Hn as [Hb _]. apply negb_true_iff in Hb. rewrite Hb. reflexivity.
Qed.
Lemma lead_extra_before before x y : lead_ok before ->
  (before = [] -> lead_extra usep true x = [] /\ lead_extra usep true y = []) ->
  lead_extra usep true (before ++ x) = lead_extra usep true (before ++ y).
Proof.
  intros [-> | (b' & s & -> & Hs)] H0.
  - cbn [app]. destruct (H0 eq_refl) as [-> ->]. reflexivity.
  - destruct b' as [|c0 [|c1 t]].
    + cbn [app]. rewrite !(lead_extra_sep usep true s _ Hs). reflexivity.
    + cbn [app]. apply lead_extra_cons2.
    + cbn [app]. apply lead_extra_cons2.
Qed.

(* the components: the same leading components, then the new name *)
Theorem u_set_extension_comps l n ext : u_file_name l = Some n -> gname (new_name n ext) ->
  ucomps (fst (u_set_extension l ext)) = removelast (ucomps l) ++ [Normal (new_name n ext)].
Proof.
  intros H G. destruct (u_file_name_decomp l n H) as (before & j & Hl & Hbef & Hj & Hoff & Hn & Hne & Hd & Hdd & Hbody).
  rewrite (u_set_extension_at l n ext before j H Hl Hoff). cbn [fst]. set (m := new_name n ext) in *.
  destruct G as (Gn & Gne & Gd & Gdd).
  rewrite !ucomps_cs. unfold cs. cbn [fst snd cspec].
  rewrite Hbody. rewrite (body_before_seg usep true before m Gn Hbef).
  assert (Hsc : sc true false m = [Normal m]).
  { unfold sc, seg_comp. destruct m as [|x t] eqn:Em; [congruence|]. rewrite Gdd, Gd. reflexivity. }
  rewrite Hsc. rewrite !app_assoc. rewrite removelast_last. f_equal. f_equal.
  rewrite Hl. apply lead_extra_before; [exact Hbef|]. intros ->. split.
  - rewrite <- (app_nil_r m). apply lead_extra_nosep_name; try assumption. left. reflexivity.
  - apply lead_extra_nosep_name; assumption.
Qed.
(* hence the file name is the new name and the parent is unchanged (as a path) *)
Corollary u_set_extension_file_name l n ext : u_file_name l = Some n -> gname (new_name n ext) ->
  u_file_name (fst (u_set_extension l ext)) = Some (new_name n ext).
Proof.
  intros H G. rewrite u_file_name_spec. rewrite (u_set_extension_comps l n ext H G).
  rewrite rev_app_distr. reflexivity.
Qed.
Corollary u_set_extension_parent l n ext r r' : u_file_name l = Some n -> gname (new_name n ext) ->
  u_parent l = Some r -> u_parent (fst (u_set_extension l ext)) = Some r' -> ucomps r' = ucomps r.
Proof.
  intros H G Hr Hr'. destruct (u_parent_some _ _ Hr) as (_ & E & _). destruct (u_parent_some _ _ Hr') as (_ & E' & _).
  rewrite E, E'. rewrite (u_set_extension_comps l n ext H G). rewrite removelast_last.
  rewrite u_file_name_spec in H. destruct (rev (ucomps l)) as [|c t] eqn:Er; [discriminate|].
  destruct c; try discriminate. inversion H; subst.
  assert (El : ucomps l = rev t ++ [Normal n]) by (rewrite <- (rev_involutive (ucomps l)), Er; reflexivity).
  rewrite El, !removelast_last. reflexivity.
Qed.
(* the new name is a proper file name except in the known class D13: empty extension on a stem "." or ".." *)
Lemma gname_new_name l n ext : u_file_name l = Some n -> nosep usep ext = true ->
  ~ (ext = [] /\ (stem_of n = [46] \/ stem_of n = [46; 46])) -> gname (new_name n ext).
Proof.
  intros H He Hk. destruct (u_file_name_decomp l n H) as (_ & _ & _ & _ & _ & _ & Hn & Hne & Hd & Hdd & _).
  destruct (stem_prefix n) as (rest & En & Hrest).
  assert (Hsn : nosep usep (stem_of n) = true).
  { rewrite En in Hn. unfold nosep in *. rewrite forallb_app in Hn. apply andb_true_iff in Hn as [Hs _]. exact Hs. }
  assert (Hsne : stem_of n <> []).
  { unfold stem_of. pose proof (rsplit_reproduces n) as R. destruct (rsplit_file_at_dot n) as [bf af].
    destruct (opt_and bf af) as [e|].
    - destruct R as (st & Ho & _ & Hst & _). rewrite Ho. exact Hst.
    - rewrite R. exact Hne. }
  unfold new_name, gname. destruct ext as [|e0 et].
  - repeat split; try assumption.
    + destruct (is_dot (stem_of n)) eqn:E; [|reflexivity]. apply is_dot_iff in E. exfalso. apply Hk. auto.
    + destruct (is_dotdot (stem_of n)) eqn:E; [|reflexivity]. apply is_dotdot_iff in E. exfalso. apply Hk. auto.
  - repeat split.
    + unfold nosep. rewrite forallb_app. cbn [forallb]. rewrite usep_dot. cbn [negb andb].
      apply andb_true_iff. split; [exact Hsn | exact He].
    + destruct (stem_of n); discriminate.
    + destruct (is_dot (stem_of n ++ 46 :: e0 :: et)) eqn:E; [|reflexivity]. apply is_dot_iff in E.
      apply (f_equal (@length byte)) in E. rewrite app_length in E. cbn in E. lia.
    + destruct (is_dotdot (stem_of n ++ 46 :: e0 :: et)) eqn:E; [|reflexivity]. apply is_dotdot_iff in E.
      apply (f_equal (@length byte)) in E. rewrite app_length in E. cbn in E.
      destruct (stem_of n); [congruence | cbn in E; lia].
Qed.
(* no panic in the UTF-8 twin: String::truncate requires a character boundary; the end of the file
   stem is one, because the next byte (if any) is the "." before the old extension or the separator
   that trails the file name; so on valid UTF-8 the truncated buffer and the result are valid UTF-8 *)
Theorem u_set_extension_cut_valid l n ext : Valid l -> Valid ext -> u_file_name l = Some n ->
  exists before j, l = before ++ n ++ j /\ Valid (before ++ stem_of n) /\ Valid (fst (u_set_extension l ext)).
Proof.
  intros Hv He H. destruct (u_file_name_decomp l n H) as (before & j & Hl & Hbef & Hj & Hoff & _).
  exists before, j. split; [exact Hl|].
  destruct (stem_prefix n) as (rest & Hn & Hrest).
  assert (Hcut : Valid (before ++ stem_of n)).
  { assert (El : l = (before ++ stem_of n) ++ (rest ++ j)) by (rewrite Hl; rewrite Hn at 1; rewrite <- !app_assoc; reflexivity).
    destruct (rest ++ j) as [|x t] eqn:Et.
    - rewrite app_nil_r in El. rewrite <- El. exact Hv.
    - assert (Hx : x < 128).
      { destruct Hrest as [-> | (e & ->)].
        - cbn in Et. destruct Hj as [-> | (s0 & t0 & -> & Hs)]; [discriminate|]. inversion Et; subst.
          unfold usep in Hs. apply N.eqb_eq in Hs. subst. reflexivity.
        - inversion Et; subst. reflexivity. }
      set (pre := before ++ stem_of n) in *.
      assert (Hk : (length pre < length l)%nat) by (rewrite El, app_length; cbn; lia).
      assert (Hnth : nth (length pre) l 0 = x).
      { rewrite El. rewrite app_nth2 by (apply le_n). rewrite Nat.sub_diag. reflexivity. }
      destruct (Valid_cut_before_ascii l Hv (length pre) Hk) as [C1 _]; [rewrite Hnth; exact Hx|].
      rewrite El in C1. rewrite firstn_app, firstn_all, Nat.sub_diag in C1. cbn in C1. rewrite app_nil_r in C1. exact C1. }
  split; [exact Hcut|].
  rewrite (u_set_extension_at l n ext before j H Hl Hoff). cbn [fst]. unfold new_name. destruct ext as [|e0 et]; [exact Hcut|].
  rewrite app_assoc. apply Valid_app; [exact Hcut|]. apply Valid_cons_ascii; [reflexivity | exact He].
Qed.
(* repeated application: any sequence of extensions *)
Example u_set_extension_examples :
  u_set_extension [102;111;111;46;116;120;116;47] [114;115] = ([102;111;111;46;114;115], true)      (* foo.txt/ + rs *)
  /\ u_set_extension [97;46;98;47;46] [99] = ([97;46;99], true)                                       (* a.b/. + c *)
  /\ u_set_extension [97;46] [] = ([97], true)
  /\ u_set_extension [47;46;46] [120] = ([47;46;46], false).
Proof. vm_compute. repeat split. Qed.

(* ---------------- C14: the slices handed out for the last component are valid UTF-8 ---------------- *)
Lemma Valid_split_at_sep a s b : Valid (a ++ s :: b) -> s < 128 -> Valid a /\ Valid b.
Proof.
  intros Hv Hs.
  assert (Hk : (length a < length (a ++ s :: b))%nat) by (rewrite app_length; cbn; lia).
  assert (Hn : nth (length a) (a ++ s :: b) 0 = s) by (rewrite app_nth2 by (apply le_n); rewrite Nat.sub_diag; reflexivity).
  destruct (Valid_cut_before_ascii _ Hv (length a) Hk ltac:(rewrite Hn; exact Hs)) as [H1 _].
  destruct (Valid_cut_after_ascii _ Hv (length a) Hk ltac:(rewrite Hn; exact Hs)) as [_ H2].
  rewrite firstn_app, firstn_all, Nat.sub_diag in H1. cbn in H1. rewrite app_nil_r in H1.
  replace (S (length a)) with (length (a ++ [s])) in H2 by (rewrite app_length; cbn; lia).
  replace (a ++ s :: b) with ((a ++ [s]) ++ b) in H2 by (rewrite <- app_assoc; reflexivity).
  rewrite skipn_app, skipn_all, Nat.sub_diag in H2. cbn in H2. split; assumption.
Qed.
Lemma usep_ascii s : usep s = true -> s < 128.
Proof. unfold usep. intros H. apply N.eqb_eq in H. subst. reflexivity. Qed.
(* file name, stem and extension of a valid UTF-8 path are valid UTF-8 (cut on character boundaries) *)
Theorem u_file_name_valid l n : Valid l -> u_file_name l = Some n -> Valid n.
Proof.
  intros Hv H. destruct (u_file_name_decomp l n H) as (before & j & Hl & Hbef & Hj & _).
  assert (Hnj : Valid (n ++ j)).
  { destruct Hbef as [-> | (b' & s & -> & Hs)]; [rewrite Hl in Hv; exact Hv|].
    rewrite Hl, <- app_assoc in Hv. cbn [app] in Hv. apply (Valid_split_at_sep b' s (n ++ j) Hv (usep_ascii s Hs)). }
  destruct Hj as [-> | (s & t & -> & Hs)]; [rewrite app_nil_r in Hnj; exact Hnj|].
  apply (Valid_split_at_sep n s t Hnj (usep_ascii s Hs)).
Qed.
Theorem u_file_stem_valid l st : Valid l -> u_file_stem l = Some st -> Valid st.
Proof.
  intros Hv H. destruct (u_file_name l) as [n|] eqn:En.
  - pose proof (u_file_name_valid l n Hv En) as Hn.
    rewrite (u_file_stem_of l n En) in H. inversion H; subst st.
    destruct (stem_prefix n) as (rest & E & [-> | (e & ->)]).
    + rewrite app_nil_r in E. rewrite <- E. exact Hn.
    + rewrite E in Hn. apply (Valid_split_at_sep _ 46 e Hn eq_refl).
  - unfold u_file_stem, file_stem in H. fold u_file_name in H. rewrite En in H. discriminate.
Qed.
Theorem u_extension_valid l e : Valid l -> u_extension l = Some e -> Valid e.
Proof.
  intros Hv H. unfold u_extension, extension in H. fold u_file_name in H.
  destruct (u_file_name l) as [n|] eqn:En; [|discriminate].
  pose proof (u_file_name_valid l n Hv En) as Hn.
  pose proof (rsplit_reproduces n) as R. destruct (rsplit_file_at_dot n) as [bf af].
  rewrite H in R. destruct R as (st & _ & E & _). rewrite E in Hn. apply (Valid_split_at_sep st 46 e Hn eq_refl).
Qed.
