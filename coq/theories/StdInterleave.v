(* The Gallina transcription of std::path::Components (StdUnix.v) under arbitrary interleavings of
   next and next_back: one invariant that covers every state a schedule can reach from s_init, the
   component list such a state still has to hand out, and the two step lemmas the abstract deque
   theorem (Deq.v) asks for.  The new ingredient next to StdProofs.v is the back step taken after the
   front has already moved into the body (front = back = Body): there std's len_before_body is 0 and
   the leading root or "." can no longer be handed out from the back. *)
From Coq Require Import List NArith Bool Lia Arith.
Import ListNotations.
From TP Require Import Core CoreProofs CoreSched Deq Path Unix StdUnix Spec Ops UnixProofs StdProofs.
Open Scope N_scope.

Lemma lbb_body c : s_front c = SBody -> s_len_before_body c = 0%nat.
Proof. intros H. unfold s_len_before_body. rewrite H. reflexivity. Qed.

(* one back step when front and back are both in the body *)
Lemma s_next_back_bb : forall fuel c, s_front c = SBody -> s_back c = SBody ->
  (length (s_path c) + 3 < fuel)%nat ->
  match s_next_back fuel c with
  | (Some x, c') => BODY (s_path c) = BODY (s_path c') ++ [x] /\ s_front c' = SBody /\ s_back c' = SBody /\
                    s_root c' = s_root c /\ exists j, s_path c = s_path c' ++ j
  | (None, _) => BODY (s_path c) = []
  end.
Proof.
  induction fuel as [|f IH]; intros c Hf Hb Hl; [lia|].
  cbn [s_next_back]. unfold s_finished. rewrite Hf, Hb. cbn [s_is sidx Nat.eqb sle Nat.leb orb negb].
  rewrite (lbb_body c Hf).
  destruct (Nat.ltb 0 (length (s_path c))) eqn:Elt.
  - unfold s_next_comp_back. rewrite (lbb_body c Hf). cbn [skipn]. rewrite ssep_usep.
    destruct (span_nsep usep (rev (s_path c))) as [seg_r rest_r] eqn:Hs.
    assert (Hrs : rspan usep (s_path c) = (rev rest_r, rev seg_r)) by (unfold rspan; rewrite Hs; reflexivity).
    destruct (rspan_spec usep usep_dot _ _ _ Hrs) as (Hpath & Hn & Hbef & _).
    set (before := rev rest_r) in *. set (seg := rev seg_r) in *.
    assert (Hsz : (length seg_r + match rest_r with [] => 0 | _ => 1 end)%nat = (length seg + match before with [] => 0 | _ => 1 end)%nat).
    { unfold seg, before. rewrite rev_length. destruct rest_r as [|y t]; [reflexivity|]. cbn [rev]. destruct (rev t ++ [y]) eqn:E; [destruct (rev t); discriminate | reflexivity]. }
    rewrite Hsz.
    assert (Hbb : BODY (s_path c) = BODY before ++ sc true false seg).
    { etransitivity; [apply f_equal; exact Hpath | apply (body_before_seg usep true before seg Hn Hbef)]. }
    rewrite s_single_sc in Hbb.
    assert (Hnew : exists p', drop_last (length seg + match before with [] => 0 | _ => 1 end) (s_path c) = p' /\
                              BODY p' = BODY before /\ (length p' < length (s_path c))%nat /\ exists j, s_path c = p' ++ j).
    { apply Nat.ltb_lt in Elt. destruct Hbef as [Eb | (b' & s0 & Eb & Hs0)].
      - exists []. rewrite Eb in *. cbn [app] in Hpath. rewrite Nat.add_0_r.
        split; [unfold drop_last; rewrite Hpath, Nat.sub_diag; reflexivity|].
        split; [reflexivity|]. split; [cbn [length]; lia | exists (s_path c); reflexivity].
      - exists b'.
        assert (Hp2 : s_path c = b' ++ ([s0] ++ seg)) by (rewrite Hpath, Eb, <- app_assoc; reflexivity).
        split.
        + destruct before eqn:Eb0; [destruct b'; discriminate|].
          replace (length seg + 1)%nat with (length ([s0] ++ seg)) by (cbn; lia).
          etransitivity; [apply f_equal; exact Hp2 | apply drop_last_app].
        + split; [rewrite Eb; symmetry; apply (body_snoc_sep usep true b' s0 Hs0)|].
          split; [|exists ([s0] ++ seg); exact Hp2].
          apply (f_equal (@length byte)) in Hp2. rewrite !app_length in Hp2. cbn in Hp2. lia. }
    destruct Hnew as (p' & Hdrop & Hbody' & Hlen' & (j & Hj)).
    rewrite Hdrop.
    destruct (s_single seg) as [x|].
    + cbn [s_with_path s_path s_front s_back s_root]. rewrite Hbb, Hbody'.
      split; [reflexivity|]. split; [exact Hf|]. split; [exact Hb|]. split; [reflexivity|]. exists j. exact Hj.
    + specialize (IH (s_with_path c p')). cbn [s_with_path s_front s_back s_root s_path] in IH.
      specialize (IH Hf Hb ltac:(lia)).
      rewrite Hbb, app_nil_r, <- Hbody'.
      destruct (s_next_back f (s_with_path c p')) as [[x|] c'']; [|exact IH].
      destruct IH as (E1 & H1 & H2 & H3 & (j1 & Hj1)). split; [exact E1|]. split; [exact H1|]. split; [exact H2|].
      split; [exact H3|]. exists (j1 ++ j). rewrite app_assoc, <- Hj1. exact Hj.
  - apply Nat.ltb_ge in Elt. assert (Ep : s_path c = []) by (destruct (s_path c); [reflexivity | cbn in Elt; lia]).
    rewrite Ep. destruct f as [|f1]; [lia|]. cbn [s_next_back]. unfold s_finished. cbn [s_with_back s_front s_back].
    rewrite Hf. cbn. reflexivity.
Qed.

(* ---------------- every reachable state ---------------- *)
(* what a state still has to hand out *)
Definition gcs (c : scomps) : list comp :=
  match s_back c, s_front c with
  | SBody, SBody => BODY (s_path c)
  | SBody, _ => bcs c
  | _, _ => []
  end.
Definition GInv (c : scomps) : Prop := BInv c \/ (s_front c = SBody /\ s_back c = SBody).

Lemma GInv_init l : GInv (s_init l).
Proof. left. apply BInv_init. Qed.
Lemma gcs_init l : gcs (s_init l) = ucomps l.
Proof. unfold gcs. cbn [s_init s_back s_front]. apply bcs_init. Qed.

Lemma gcs_binv c : BInv c -> gcs c = bcs c.
Proof. intros (Hf & _). unfold gcs, bcs. rewrite Hf. destruct (s_back c); reflexivity. Qed.
Lemma gcs_bb c : s_front c = SBody -> s_back c = SBody -> gcs c = BODY (s_path c).
Proof. intros Hf Hb. unfold gcs. rewrite Hf, Hb. reflexivity. Qed.

(* in the start state the list handed out from the back is the list handed out from the front *)
Lemma bcs_fcs c : s_front c = SStartDir -> s_back c = SBody -> s_root c = root_ok usep (s_path c) -> bcs c = fcs c.
Proof. intros Hf Hb Hr. rewrite (bcs_body c Hf Hb Hr). unfold fcs. rewrite Hf. apply ucomps_cs. Qed.

Lemma s_nextf_finished c : s_back c = SDone -> s_nextf c = None.
Proof.
  intros Hb. unfold s_nextf, s_fuel. replace (length (s_path c) + 5)%nat with (S (length (s_path c) + 4)) by lia.
  cbn [s_next]. unfold s_finished. rewrite Hb. cbn. rewrite orb_true_r. reflexivity.
Qed.

Lemma g_front_step c : GInv c ->
  match s_nextf c with
  | Some (x, c') => gcs c = x :: gcs c' /\ GInv c'
  | None => gcs c = []
  end.
Proof.
  intros [HB | (Hf & Hb)].
  - pose proof HB as (Hf & [(Hb & Hr) | (Hb & Hp)]).
    + (* start state: the front step of StdProofs, which leaves front in the body *)
      assert (FI : FInv c) by (split; [exact Hb|]; split; [left; exact Hf | intros _; exact Hr]).
      pose proof (s_next_front_step c FI) as S. rewrite (gcs_binv c HB), (bcs_fcs c Hf Hb Hr).
      destruct (s_nextf c) as [[x c']|] eqn:En; [|exact S].
      destruct S as (E & (Hb' & Hfr' & Hroot')).
      destruct Hfr' as [Hf' | Hf'].
      * (* front still at the start: impossible after a successful step, but harmless *)
        split; [|left; split; [exact Hf'|]; left; split; [exact Hb' | exact (Hroot' Hf')]].
        rewrite E. f_equal. rewrite (gcs_binv c'); [symmetry; apply bcs_fcs; auto|].
        split; [exact Hf'|]. left. split; [exact Hb' | exact (Hroot' Hf')].
      * split; [|right; split; assumption]. rewrite E. f_equal. rewrite (gcs_bb c' Hf' Hb'). unfold fcs. rewrite Hf'. reflexivity.
    + rewrite (s_nextf_finished c Hb). unfold gcs. rewrite Hb. reflexivity.
  - assert (FI : FInv c) by (split; [exact Hb|]; split; [right; exact Hf | rewrite Hf; discriminate]).
    pose proof (s_next_front_step c FI) as S. rewrite (gcs_bb c Hf Hb).
    assert (Efc : fcs c = BODY (s_path c)) by (unfold fcs; rewrite Hf; reflexivity). rewrite Efc in S.
    unfold s_nextf, s_fuel in *.
    pose proof (s_next_body (length (s_path c) + 5) c Hf Hb ltac:(lia)) as B.
    destruct (s_next (length (s_path c) + 5) c) as [[x|] c']; [|exact S].
    destruct B as (E & Hf' & Hb' & _). split; [|right; split; assumption].
    rewrite E. f_equal. symmetry. apply gcs_bb; assumption.
Qed.

Lemma g_back_step c : GInv c ->
  match s_nextb c with
  | Some (x, c') => gcs c = gcs c' ++ [x] /\ GInv c'
  | None => gcs c = []
  end.
Proof.
  intros [HB | (Hf & Hb)].
  - pose proof (s_next_back_step c HB) as S. rewrite (gcs_binv c HB).
    destruct (s_nextb c) as [[x c']|]; [|exact S].
    destruct S as (E & HB'). split; [rewrite (gcs_binv c' HB'); exact E | left; exact HB'].
  - unfold s_nextb, s_fuel. rewrite (gcs_bb c Hf Hb).
    pose proof (s_next_back_bb (length (s_path c) + 5) c Hf Hb ltac:(lia)) as B.
    destruct (s_next_back (length (s_path c) + 5) c) as [[x|] c']; [|exact B].
    destruct B as (E & Hf' & Hb' & _). split; [rewrite (gcs_bb c' Hf' Hb'); exact E | right; split; assumption].
Qed.

(* every schedule of front and back steps of std's Components pops the specification's component list *)
Theorem s_sched_spec l sched :
  map (fun x => (fst x, gcs (snd x))) (sched_run s_nextf s_nextb (s_init l) sched) = deq_run (ucomps l) sched.
Proof.
  rewrite <- gcs_init.
  apply (deq_sched scomps comp gcs GInv s_nextf s_nextb g_front_step g_back_step). apply GInv_init.
Qed.
Lemma s_sched_inv l sched : Forall (fun x => GInv (snd x)) (sched_run s_nextf s_nextb (s_init l) sched).
Proof. apply (deq_inv scomps comp gcs GInv s_nextf s_nextb g_front_step g_back_step). apply GInv_init. Qed.

(* after any schedule the remainder std shows (Components::as_path) reads as exactly the components that
   are still to be handed out, and it is a piece of the original path's current window *)
Lemma g_as_path c : GInv c -> ucomps (s_as_path c) = gcs c.
Proof.
  intros [HB | (Hf & Hb)].
  - rewrite (gcs_binv c HB). apply (s_as_path_back c HB).
  - rewrite (gcs_bb c Hf Hb).
    assert (FI : FInv c) by (split; [exact Hb|]; split; [right; exact Hf | rewrite Hf; discriminate]).
    rewrite (s_as_path_front c FI Hf). unfold fcs. rewrite Hf. reflexivity.
Qed.
Theorem s_sched_remainders l sched :
  map (fun x => (fst x, ucomps (s_as_path (snd x)))) (sched_run s_nextf s_nextb (s_init l) sched) = deq_run (ucomps l) sched.
Proof.
  rewrite <- s_sched_spec.
  pose proof (s_sched_inv l sched) as HI.
  induction HI as [|x r Hx _ IH]; [reflexivity|].
  cbn [map]. rewrite IH. rewrite (g_as_path _ Hx). reflexivity.
Qed.

(* typed-path's model against the std transcription, step for step under any schedule: the same
   component (or the same None) at every step, and remainders that read as the same component list *)
Theorem u_s_sched_agree l sched :
  map (fun x => (fst x, ucomps (u_remaining (snd x)))) (sched_run u_nextf u_nextb (u_init l) sched)
  = map (fun x => (fst x, ucomps (s_as_path (snd x)))) (sched_run s_nextf s_nextb (s_init l) sched).
Proof. rewrite u_sched_spec, s_sched_remainders. reflexivity. Qed.
