(* C04: the checked join's decision procedure. *)
From Coq Require Import List NArith Bool Lia Arith PeanoNat.
Import ListNotations.
From TP Require Import Core CoreProofs CoreSched Path Unix Win Spec UnixProofs WinProofs.
Open Scope N_scope.

(* ---- the scan, declaratively ---- *)
Definition cnt_parent (cs : list comp) : nat := length (filter c_is_parent cs).
Definition cnt_normal (cs : list comp) : nat := length (filter c_is_normal cs).
Definition comp_valid_u (c : comp) : bool := match c with Normal n => name_valid u_forbidden n | _ => true end.
(* no leading run of the components has more ".." than [d] + its normal names *)
Definition never_climbs (cs : list comp) (d : nat) : Prop :=
  forall k, (cnt_parent (firstn k cs) <= d + cnt_normal (firstn k cs))%nat.

Lemma never_climbs_cons_other c cs d :
  c_is_parent c = false -> c_is_normal c = false -> (never_climbs (c :: cs) d <-> never_climbs cs d).
Proof.
  intros Hp Hn. unfold never_climbs, cnt_parent, cnt_normal. split; intros H k.
  - specialize (H (S k)). cbn [firstn filter] in H. rewrite Hp, Hn in H. exact H.
  - destruct k; [cbn; lia|]. cbn [firstn filter]. rewrite Hp, Hn. apply H.
Qed.
Lemma never_climbs_cons_normal n cs d : never_climbs (Normal n :: cs) d <-> never_climbs cs (S d).
Proof.
  unfold never_climbs, cnt_parent, cnt_normal. split; intros H k.
  - specialize (H (S k)). cbn [firstn filter c_is_parent c_is_normal length] in H. lia.
  - destruct k; [cbn; lia|]. cbn [firstn filter c_is_parent c_is_normal length]. specialize (H k). lia.
Qed.
Lemma never_climbs_cons_parent cs d :
  never_climbs (Parent :: cs) d <-> (exists d', d = S d' /\ never_climbs cs d').
Proof.
  unfold never_climbs, cnt_parent, cnt_normal. split.
  - intros H. destruct d as [|d'].
    + specialize (H 1%nat). cbn in H. lia.
    + exists d'. split; [reflexivity|]. intros k. specialize (H (S k)). cbn [firstn filter c_is_parent c_is_normal length] in H. lia.
  - intros (d' & -> & H) k. destruct k; [cbn; lia|]. cbn [firstn filter c_is_parent c_is_normal length]. specialize (H k). lia.
Qed.

(* success <=> no root, every normal name free of forbidden bytes, never more ".." than names before *)
Theorem u_scan_none_iff cs : forall d,
  u_scan cs d = None <->
  (forallb (fun c => negb (c_is_root c)) cs = true /\ forallb comp_valid_u cs = true /\ never_climbs cs d).
Proof.
  induction cs as [|c cs IH]; intros d.
  - cbn. split; [intros _; repeat split; intros k; destruct k; cbn; lia | reflexivity].
  - destruct c as [| | |n]; cbn [u_scan forallb c_is_root negb comp_valid_u andb].
    + split; [discriminate | intros (H & _); discriminate].
    + rewrite IH. rewrite (never_climbs_cons_other Cur cs d eq_refl eq_refl). reflexivity.
    + destruct d as [|d'].
      * split; [discriminate|]. intros (_ & _ & H). apply never_climbs_cons_parent in H as (d' & X & _). discriminate.
      * rewrite IH. rewrite never_climbs_cons_parent. split.
        -- intros (A & B & C). repeat split; try assumption. exists d'. auto.
        -- intros (A & B & (d2 & X & C)). inversion X; subst. auto.
    + destruct (name_valid u_forbidden n) eqn:Hv.
      * rewrite IH. rewrite never_climbs_cons_normal. reflexivity.
      * split; [discriminate | intros (_ & H & _); discriminate].
Qed.

(* the error names the first offending component *)
Definition offence (c : comp) (depth : nat) : option cerr :=
  match c with
  | Root => Some ERoot
  | Parent => match depth with O => Some ETraversal | S _ => None end
  | Normal n => if name_valid u_forbidden n then None else Some EInvalid
  | Cur => None
  end.
Theorem u_scan_first_offender cs : forall d e, u_scan cs d = Some e ->
  exists pre c post, cs = pre ++ c :: post /\ u_scan pre d = None /\
                     offence c (d + cnt_normal pre - cnt_parent pre) = Some e.
Proof.
  induction cs as [|c cs IH]; intros d e H; [discriminate|].
  destruct c as [| | |n]; cbn [u_scan] in H.
  - inversion H; subst. exists [], Root, cs. cbn. repeat split.
  - destruct (IH d e H) as (pre & c & post & -> & Hp & Ho). exists (Cur :: pre), c, post. cbn [app u_scan]. repeat split; try assumption.
  - destruct d as [|d'].
    + inversion H; subst. exists [], Parent, cs. cbn. repeat split.
    + destruct (IH d' e H) as (pre & c & post & -> & Hp & Ho). exists (Parent :: pre), c, post. cbn [app u_scan]. repeat split; try assumption.
  - destruct (name_valid u_forbidden n) eqn:Hv.
    + destruct (IH (S d) e H) as (pre & c & post & -> & Hp & Ho). exists (Normal n :: pre), c, post. cbn [app u_scan]. rewrite Hv.
      repeat split; try assumption. unfold cnt_normal, cnt_parent in *. cbn [filter c_is_normal c_is_parent length].
      replace (d + S (length (filter c_is_normal pre)) - length (filter c_is_parent pre))%nat
        with (S d + length (filter c_is_normal pre) - length (filter c_is_parent pre))%nat by lia. exact Ho.
    + inversion H; subst. exists [], (Normal n), cs. cbn. rewrite Hv. repeat split.
Qed.

(* ---- the decision: failure leaves the base untouched, success is the unchecked join ---- *)
Theorem u_push_checked_decision base p :
  u_push_checked base p =
  match u_scan (ucomps p) O with Some e => (base, Some e) | None => (u_push base p, None) end.
Proof. unfold u_push_checked. rewrite u_components_spec. reflexivity. Qed.
Theorem w_push_checked_decision base p :
  w_push_checked base p =
  match w_scan (w_components p) O with Some e => (base, Some e) | None => (w_push base p, None) end.
Proof. reflexivity. Qed.

(* ---- containment at Unix: the result's components begin with exactly the base's ---- *)
Lemma lead_extra_app_keep (base rest : list byte) :
  base <> [] -> (match base with [_] => match rest with b :: _ => usep b = true | [] => True end | _ => True end) ->
  lead_extra usep true (base ++ rest) = lead_extra usep true base.
Proof.
  intros Hb Hs. destruct base as [|x [|y t]]; [congruence| |].
  - cbn [app]. unfold lead_extra. cbn [root_ok cur_ok]. destruct rest as [|b r]; [reflexivity|]. rewrite Hs. rewrite andb_true_r. reflexivity.
  - cbn [app]. apply lead_extra_cons2.
Qed.
Definition no_root_p (p : list byte) : Prop := match p with b :: _ => usep b = false | [] => True end.
Lemma scan_none_no_root p : u_scan (ucomps p) O = None -> no_root_p p.
Proof.
  intros H. destruct p as [|b r]; [exact I|]. cbn. destruct (usep b) eqn:Hb; [|reflexivity].
  exfalso. rewrite ucomps_cs in H. unfold cs in H. cbn [fst snd cspec] in H.
  rewrite (lead_extra_sep usep true b r Hb) in H. cbn in H. discriminate.
Qed.
Lemma last_byte_snoc l b : last_byte (l ++ [b]) = Some b.
Proof. unfold last_byte. rewrite rev_app_distr. reflexivity. Qed.
Lemma last_byte_some l b : last_byte l = Some b -> exists l0, l = l0 ++ [b].
Proof.
  unfold last_byte. destruct (rev l) as [|x t] eqn:E; [discriminate|]. intros X; inversion X; subst.
  exists (rev t). apply (f_equal (@rev byte)) in E. rewrite rev_involutive in E. exact E.
Qed.
(* what the pushed path contributes: its components, minus a leading "." (which no longer starts the path) *)
Definition added (p : list byte) : list comp := body usep true p.
Lemma added_spec p : no_root_p p -> added p = match ucomps p with Cur :: t => t | l => l end.
Proof.
  intros Hr. unfold added. rewrite ucomps_cs. unfold cs. cbn [fst snd cspec]. unfold lead_extra.
  destruct p as [|b r]; [reflexivity|]. cbn in Hr. cbn [root_ok]. rewrite Hr.
  destruct (true && cur_ok usep (b :: r)) eqn:Hc; cbn [app].
  - reflexivity.
  - (* the body never starts with Cur when normalising *)
    destruct (span_nsep usep (b :: r)) as [n rest] eqn:Hs.
    rewrite (body_span usep true (b :: r) n rest Hs).
    pose proof (cur_ok_span usep usep_dot (b :: r) n rest Hs) as Hd. cbn [andb] in Hc. rewrite Hc in Hd.
    unfold sc, seg_comp. destruct n as [|x t].
    + cbn [app]. destruct (body usep true (tl rest)) as [|c0 t0] eqn:Eb; [reflexivity|].
      destruct c0; try reflexivity.
      exfalso. (* a Cur inside a normalising body is impossible *)
      assert (Hin : In Cur (body usep true (tl rest))) by (rewrite Eb; left; reflexivity).
      unfold body in Hin. apply in_flat_map in Hin as (g & _ & Hg). unfold sc, seg_comp in Hg.
      destruct g as [|y g']; [destruct Hg|]. destruct (is_dotdot (y :: g')); [destruct Hg as [X|[]]; discriminate|].
      destruct (is_dot (y :: g')); cbn in Hg; [destruct Hg | destruct Hg as [X|[]]; discriminate].
    + rewrite <- Hd. destruct (is_dotdot (x :: t)); [reflexivity|]. destruct (is_dot (x :: t)) eqn:E; [congruence|]. reflexivity.
Qed.
Theorem u_push_comps base p :
  no_root_p p -> p <> [] -> base <> [] ->
  ucomps (u_push base p) = ucomps base ++ added p.
Proof.
  intros Hr Hp Hb.
  unfold u_push. destruct p as [|b r] eqn:Ep; [congruence|]. rewrite <- Ep in *.
  assert (Habs : u_is_absolute p = false).
  { unfold u_is_absolute. rewrite u_has_root_spec. rewrite ucomps_cs. unfold cs. cbn [fst snd cspec]. unfold lead_extra.
    rewrite Ep in *. cbn in Hr. cbn [root_ok]. rewrite Hr. destruct (true && cur_ok usep (b :: r)); cbn [app];
    [reflexivity|]. destruct (body usep true (b :: r)) as [|c0 t0] eqn:Eb; [reflexivity|]. destruct c0; try reflexivity.
    exfalso. assert (Hin : In Root (body usep true (b :: r))) by (rewrite Eb; left; reflexivity).
    unfold body in Hin. apply in_flat_map in Hin as (g & _ & Hg). unfold sc, seg_comp in Hg.
    destruct g as [|y g']; [destruct Hg|]. destruct (is_dotdot (y :: g')); [destruct Hg as [X|[]]; discriminate|].
    destruct (is_dot (y :: g')); cbn in Hg; [destruct Hg | destruct Hg as [X|[]]; discriminate]. }
  rewrite Habs. destruct base as [|x0 t0] eqn:Eb0; [congruence|]. rewrite <- Eb0 in *.
  destruct (last_byte base) as [lb|] eqn:El.
  - destruct (last_byte_some _ _ El) as (b0 & Hb0). destruct (lb =? 47) eqn:Hlb.
    + (* the base already ends in a separator *)
      apply N.eqb_eq in Hlb. subst lb. rewrite !ucomps_cs. unfold cs, added. cbn [fst snd cspec].
      rewrite Hb0. rewrite <- app_assoc. cbn [app].
      rewrite (body_app_sep usep true b0 p 47 eq_refl). rewrite (body_snoc_sep usep true b0 47 eq_refl).
      rewrite app_assoc. f_equal. f_equal.
      destruct b0 as [|y b0'].
      { cbn [app]. rewrite (lead_extra_sep usep true 47 p eq_refl). rewrite (lead_extra_sep usep true 47 [] eq_refl). reflexivity. }
      change ((y :: b0') ++ 47 :: p) with ((y :: b0') ++ [47] ++ p). rewrite app_assoc.
      apply lead_extra_app_keep; [discriminate|]. destruct b0'; exact I.
    + rewrite !ucomps_cs. unfold cs, added. cbn [fst snd cspec].
      rewrite (body_app_sep usep true base p 47 eq_refl). rewrite app_assoc. f_equal. f_equal.
      apply lead_extra_app_keep; [rewrite Eb0; discriminate|]. destruct base as [|y [|z t]]; try exact I. reflexivity.
  - exfalso. unfold last_byte in El. rewrite Eb0 in El. destruct (rev (x0 :: t0)) eqn:E; [|discriminate].
    apply (f_equal (@length byte)) in E. rewrite rev_length in E. discriminate.
Qed.

Theorem u_push_contains base p :
  u_scan (ucomps p) O = None -> p <> [] -> base <> [] ->
  ucomps (u_push base p) = ucomps base ++ added p.
Proof. intros Hs. apply u_push_comps. apply scan_none_no_root. exact Hs. Qed.
