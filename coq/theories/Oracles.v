(* Property oracles at the level of encoded observations: executable statements of the
   properties, written against the specifications of Spec.v only (never against the
   model functions), applied to the implementation's output at run time. *)
From Coq Require Import List NArith Bool String Ascii.
Import ListNotations.
From TP Require Import Core Val Path Unix Win Obs Spec.
Open Scope N_scope.
Open Scope string_scope.

Definition oracle (name suffix : string) (args : list val) (out : val) : bool := true.
