(* Property oracles at the level of encoded observations: executable statements of the
   properties, written against the specifications of Spec.v only (never against the model's
   parser / push / hash / query functions), applied to the implementation's output at run
   time and to the model's output (where the theorems of Props/ say they must hold).
   Result: 0 = the property fails on this case, 1 = holds, k >= 2 = the case belongs to the
   known-finding class k of known_findings.json. *)
From Coq Require Import List NArith Bool String Ascii.
Import ListNotations.
From TP Require Import Core Val Path Unix Win Obs Spec.
Open Scope string_scope.
Open Scope N_scope.
Open Scope list_scope.

Inductive osel := OU | OW.
Definition osel_of (suffix : string) : option osel :=
  if tag_is suffix "u" || tag_is suffix "u8" || tag_is suffix "tu" || tag_is suffix "t8u" || tag_is suffix "pu" || tag_is suffix "p8"
     || tag_is suffix "bu" || tag_is suffix "b8u" || tag_is suffix "tbu" || tag_is suffix "tb8u" then Some OU
  else if tag_is suffix "w" || tag_is suffix "w8" || tag_is suffix "tw" || tag_is suffix "t8w"
          || tag_is suffix "bw" || tag_is suffix "b8w" || tag_is suffix "tbw" || tag_is suffix "tb8w" then Some OW
  else None.
Definition ospec (s : osel) (p : list byte) : list wcomp := match s with OU => uspec p | OW => wspec p end.
Definition otable (s : osel) : list byte := match s with OU => forbidden_unix | OW => forbidden_windows end.
Definition ocomps_eq (s : osel) (a b : list byte) : bool := wlist_eqb (ospec s a) (ospec s b).

(* accessors *)
Definition vargs (t : string) (v : val) : option (list val) :=
  match v with VC s l => if tag_is s t then Some l else None | _ => None end.
Definition vnth (l : list val) (n : nat) : val := nth n l VN.
Definition vsome (v : val) : option val := match vargs "S" v with Some [x] => Some x | _ => None end.
Definition is_vn (v : val) : bool := match v with VN => true | _ => false end.
Definition vbool (v : val) : option bool := match v with VBool b => Some b | _ => None end.
Definition vbytes (v : val) : option (list byte) := match v with VB b => Some b | _ => None end.
Definition obytes (v : val) : option (option (list byte)) :=       (* N | (S x..) *)
  match v with
  | VN => Some None
  | _ => match vsome v with Some (VB b) => Some (Some b) | _ => None end
  end.
Definition pass : N := 1.
Definition fail : N := 0.
Definition ob (b : bool) : N := if b then 1 else 0.
Definition oand (a b : N) : N := if a =? 0 then 0 else if b =? 0 then 0 else if 2 <=? a then a else b.

(* comps of an encoded component list against a spec list *)
Definition comps_match (vs : list val) (cs : list wcomp) : bool :=
  val_eqb (VL vs) (VL (map e_wcomp cs)).


(* ---------------- C03 ---------------- *)
Definition comp_slice (c : val) : option (list byte) :=
  match c with
  | VC t [VB n] => if tag_is t "Nm" then Some n else None
  | VC t [VB raw; _] => if tag_is t "Px" then Some raw else None
  | _ => None
  end.
Definition comp_bytes_enc (s : osel) (c : val) : list byte :=
  match c with
  | VC t [] => if tag_is t "R" then (match s with OU => [47] | OW => [92] end)
               else if tag_is t "C" then [46] else if tag_is t "P" then [46; 46] else []
  | _ => match comp_slice c with Some b => b | None => [] end
  end.
Definition junk_gap (sep : byte -> bool) (g : list byte) : bool :=
  forallb (fun seg => match seg with [] => true | _ => beq_list seg [46] || beq_list seg [46; 46] end) (split_sep sep g []).
(* slices (offset, length) in input order, strictly increasing and disjoint *)
Fixpoint ordered (l : list (nat * nat)) (from : nat) : bool :=
  match l with
  | [] => true
  | (o, n) :: r => Nat.leb from o && ordered r (o + n)
  end.
Fixpoint gaps_ok (sep : byte -> bool) (p : list byte) (l : list (nat * nat)) (from : nat) : bool :=
  match l with
  | [] => junk_gap sep (skipn from p)
  | (o, n) :: r => junk_gap sep (firstn (o - from) (skipn from p)) && gaps_ok sep p r (o + n)
  end.
Definition oracle_c03 (s : osel) (p : list byte) (sched : list bool) (out : val) : N :=
  match vargs "c03" out with
  | Some [VL steps; VL isteps] =>
      let spec := deq_run (ospec s p) sched in
      let cvals := map (fun st => match vargs "st" st with Some l => vnth l 0 | None => VC "bad" [] end) steps in
      let rems := map (fun st => match vargs "st" st with Some l => vnth l 1 | None => VC "bad" [] end) steps in
      let offs := map (fun st => match vargs "st" st with Some l => vnth l 2 | None => VC "bad" [] end) steps in
      (* 1. every component exactly once, in order, from the requested ends; None once exhausted and forever after *)
      let seq_ok := val_eqb (VL cvals) (VL (map (fun x => vopt e_wcomp (fst x)) spec)) in
      (* 2. prefix and normal components are the sub-slices of the input at the reported offsets *)
      let slice_ok :=
        forallb (fun co =>
                   match vsome (fst co), vsome (snd co) with
                   | Some c, Some (VI off) =>
                       match comp_slice c with
                       | Some b => beq_list b (firstn (List.length b) (skipn (N.to_nat off) p))
                       | None => false
                       end
                   | Some c, None => match comp_slice c with Some _ => false | None => is_vn (snd co) end
                   | Some _, Some _ => false
                   | None, _ => is_vn (snd co)
                   end) (combine cvals offs) in
      (* 3. in order without overlap: front slices ascending, back slices descending, fronts before backs *)
      let tagged := combine sched (combine cvals offs) in
      let sl := fun (d : bool) =>
        flat_map (fun x => if Bool.eqb (fst x) d then
                             match vsome (fst (snd x)), vsome (snd (snd x)) with
                             | Some c, Some (VI off) => match comp_slice c with Some b => [(N.to_nat off, List.length b)] | None => [] end
                             | _, _ => []
                             end else []) tagged in
      let all_sl := sl false ++ rev (sl true) in
      let order_ok := ordered all_sl O in
      (* 4. when the schedule exhausted the iterator, what lies between the slices is separators, "." and ".." only *)
      let exhausted := existsb (fun c => is_vn c) cvals in
      let sep := match s with OU => usep_s | OW => s_wsep (s_norm p) end in
      let gap_ok := if exhausted then gaps_ok sep p all_sl O else true in
      (* 6. what the iterator itself reports after every step: its path view is the remainder; it keeps the
            variant; at Unix it has a root / is absolute exactly when the remainder, read as a path, is rooted *)
      let its := map (fun st => match vargs "st" st with Some l => vnth l 3 | None => VC "bad" [] end) steps in
      let state_ok :=
        forallb (fun ri =>
                   match vargs "t" (snd ri), fst ri with
                   | Some [VBool hr; VBool ab; VB pv; var; _], VB rem =>
                       beq_list pv rem
                       && (match var with VN => true | VC t [] => tag_is t (match s with OU => "tu" | OW => "tw" end) | _ => false end)
                       && (match s with
                           | OU => let r := match ospec s rem with WC Root :: _ => true | _ => false end in Bool.eqb hr r && Bool.eqb ab r
                           | OW => true
                           end)
                   | _, _ => false
                   end) (combine rems its) in
      (* 5. the byte-slice iterator yields the bytes of the same components and the same remainders *)
      let iter_ok :=
        val_eqb (VL isteps)
                (VL (map (fun cr => vpair (match vsome (fst cr) with Some c => VSome (VB (comp_bytes_enc s c)) | None => VN end) (snd cr))
                         (combine cvals rems))) in
      (* 7. a Windows iterator reports the path's prefix exactly until it has handed it out (from either end) *)
      let pfx := match ospec s p with WPrefix raw k :: _ => VSome (vpair (VB raw) (e_wkind k)) | _ => VN end in
      let yielded :=
        (fix go (l : list val) (seen : bool) : list bool :=
           match l with
           | [] => []
           | c :: r => let seen' := seen || match vsome c with Some (VC t [_; _]) => tag_is t "Px" | _ => false end in seen' :: go r seen'
           end) cvals false in
      let prefix_ok :=
        forallb (fun iy : val * bool =>
                   match vargs "t" (fst iy) with
                   | Some [_; _; _; var; px] =>
                       match s, var with
                       | OW, VN => val_eqb px (if snd iy then VN else pfx)
                       | _, _ => is_vn px
                       end
                   | _ => false
                   end) (combine its yielded) in
      ob (seq_ok && slice_ok && order_ok && gap_ok && iter_ok && state_ok && prefix_ok)
  | _ => fail
  end.

(* ---------------- C09 ---------------- *)
(* r is the parent of p: a leading byte slice whose components are p's without the last *)
Definition parent_rel (s : osel) (p r : list byte) : bool :=
  bytes_prefix r p && wlist_eqb (ospec s r) (removelast_w (ospec s p)) &&
  match last_w (ospec s p) with Some c => removable c | None => false end.
Definition no_parent (s : osel) (p : list byte) : bool :=
  match last_w (ospec s p) with Some c => negb (removable c) | None => true end.
Fixpoint chain_ok (s : osel) (l : list (list byte)) : bool :=
  match l with
  | [] => false
  | [z] => no_parent s z
  | x :: ((y :: _) as r) => parent_rel s x y && chain_ok s r
  end.
Definition oracle_c09 (s : osel) (p : list byte) (out : val) : N :=
  match vargs "c09" out with
  | Some [par; VL anc; VL [snap]; VL vars] =>
      let vars_ok := forallb (fun v => match v with VC t [] => tag_is t (match s with OU => "tu" | OW => "tw" end) | _ => false end) vars in
      let par_ok :=
        match obytes par with
        | Some None => no_parent s p
        | Some (Some r) => parent_rel s p r
        | None => false
        end in
      let anc_b := flat_map (fun v => match v with VB b => [b] | _ => [] end) anc in
      let anc_ok := Nat.eqb (List.length anc_b) (List.length anc) &&
                    match anc_b with x :: _ => beq_list x p | [] => false end && chain_ok s anc_b in
      let pop_ok :=
        match vargs "t" snap, obytes par with
        | Some [VB buf; VBool res; _], Some (Some r) => res && beq_list buf r
        | Some [VB buf; VBool res; _], Some None => negb res && beq_list buf p
        | _, _ => false
        end in
      ob (par_ok && anc_ok && pop_ok && vars_ok)
  | _ => fail
  end.

Definition owf (s : osel) (p : list byte) : bool := match s with OU => wf_unix p | OW => wf_windows p end.

(* ---------------- C12 ---------------- *)
Definition spec_file_name (s : osel) (p : list byte) : option (list byte) :=
  match last_w (ospec s p) with Some (WC (Normal n)) => Some n | _ => None end.
Definition e_names_spec (s : osel) (p : list byte) : val :=
  match spec_file_name s p with
  | None => vt [VN; VN; VN]
  | Some n => let (stem, ext) := split_name n in vt [VSome (VB n); VSome (VB stem); vopt VB ext]
  end.
Definition single_valid_name (s : osel) (n : list byte) : bool :=
  wlist_eqb (ospec s n) [WC (Normal n)] && name_ok (otable s) n.
Definition parent_comps (s : osel) (p : list byte) : list wcomp := removelast_w (ospec s p).
Definition oracle_c12 (s : osel) (p n : list byte) (out : val) : N :=
  match vargs "c12" out with
  | Some [names_p; VB w; names_w; par_w; par_p; j] =>
      let q_ok := val_eqb names_p (e_names_spec s p) in
      (* reproduce: stem ++ "." ++ ext = name when an extension exists, stem = name otherwise *)
      let rep_ok :=
        match vargs "t" names_p with
        | Some [fnv; stv; exv] =>
            match obytes fnv, obytes stv, obytes exv with
            | Some (Some f), Some (Some st), Some (Some e) => beq_list f (st ++ 46 :: e)
            | Some (Some f), Some (Some st), Some None => beq_list f st
            | Some None, Some None, Some None => true
            | _, _, _ => false
            end
        | _ => false
        end in
      let repl_ok :=
        if single_valid_name s n && owf s p then
          match spec_file_name s p with
          | Some _ =>
              (* the new file name is n and the parent is the old parent (as paths) *)
              match spec_file_name s w with Some n' => beq_list n' n | None => false end
              && wlist_eqb (parent_comps s w) (parent_comps s p)
              && match obytes par_w, obytes par_p with
                 | Some (Some a), Some (Some b) => wlist_eqb (ospec s a) (ospec s b)
                 | _, _ => false
                 end
          | None =>
              match vargs "t" j with Some [VB jb; _] => beq_list w jb | _ => false end
          end
        else true in
      ob (q_ok && rep_ok && repl_ok)
  | _ => fail
  end.

(* ---------------- C13 ---------------- *)
Definition sep_free (s : osel) (e : list byte) : bool :=
  forallb (fun b => negb (match s with OU => usep_s b | OW => s_sep_any b end)) e.
Definition KNOWN_C13_DOTSTEM : N := 13.
Definition oracle_c13 (s : osel) (p e : list byte) (out : val) : N :=
  match vargs "c13" out with
  | Some [VL [snap]; VB r; names_r; par_r; par_p; names_p] =>
      match vargs "t" snap with
      | Some [VB buf; VBool res; _] =>
          if negb (sep_free s e) then pass          (* the property quantifies over separator-free extensions *)
          else
          match spec_file_name s p with
          | None => ob (negb res && beq_list buf p && beq_list r p)
          | Some n =>
              let (stem, _) := split_name n in
              let newname := match e with [] => stem | _ => stem ++ 46 :: e end in
              let dotstem := match e with [] => beq_list stem [46] || beq_list stem [46; 46] | _ => false end in
              let basic := res && beq_list buf r in
              if negb basic then fail
              else if dotstem then KNOWN_C13_DOTSTEM
              else
                ob (match spec_file_name s r with Some n' => beq_list n' newname | None => false end
                    && wlist_eqb (parent_comps s r) (parent_comps s p)
                    && val_eqb names_r (e_names_spec s r))
          end
      | _ => fail
      end
  | _ => fail
  end.

(* ---------------- C17 ---------------- *)
Definition oracle_c17 (s : osel) (typed : bool) (p : list byte) (out : val) : N :=
  match vargs "c17" out with
  | Some [valid; VL cvalid; jc] =>
      let cs := ospec s p in
      let tbl := otable s in
      let v_ok := if typed then is_vn valid else val_eqb valid (VBool (forallb (comp_ok tbl) cs)) in
      let cv_ok := val_eqb (VL cvalid) (VL (map (fun c => if typed then VN else VBool (comp_ok tbl c)) cs)) in
      (* the checked operations say InvalidFilename exactly when the first offending component is an invalid name *)
      let jc_ok :=
        match scan_spec tbl cs O with
        | Some e => val_eqb jc (VC "err" [e_err e])
        | None => match vargs "ok" jc with Some [_] => true | _ => false end
        end in
      ob (v_ok && cv_ok && jc_ok)
  | _ => fail
  end.

(* ---------------- C05 ---------------- *)
Definition oracle_c05 (s : osel) (a b : list byte) (out : val) : N :=
  match vargs "c05" out with
  | Some [ec; ha; hb] =>
      let ca := ospec s a in let cb := ospec s b in
      let eq := wlist_eqb ca cb in
      let c := wlist_cmp ca cb in
      let ec_ok := val_eqb ec (vt [VBool eq; e_ord c; VSome (e_ord c); VBool (negb eq)]) in
      let coh := Bool.eqb eq (match c with Eq => true | _ => false end) in
      let hash_ok := if eq then val_eqb ha hb else true in
      ob (ec_ok && coh && hash_ok)
  | _ => fail
  end.

(* ---------------- C04 ---------------- *)
(* helpers shared with C10: a base of exactly two separators (known finding D10, reported under C10), the root
   that a bare non-disk prefix implies, and what a relative prefix-free b contributes to a join *)
Definition KNOWN_C10_TWOSEP : N := 10.
Definition c10_twosep (s : osel) (a : list byte) : bool :=
  match s, a with OW, [x; y] => s_sep_any x && s_sep_any y | _, _ => false end.
Definition implicit_root (ca : list wcomp) : list wcomp :=
  match ca with [WPrefix _ k] => if is_disk k then [] else [WC Root] | _ => [] end.
Definition tail_comps (ca cb : list wcomp) : list wcomp :=
  match ca with
  | [] => cb
  | [WPrefix _ k] => if is_disk k then cb else match cb with WC Cur :: t => t | _ => cb end
  | _ => match cb with WC Cur :: t => t | _ => cb end
  end.
(* containment, over the specification only: on success the components of the result begin with exactly the
   components of the base; unless the base is verbatim (where the join also resolves "." and ".." of p, so
   only "begins with" is demanded) they are the base, the root a bare non-disk prefix implies, and what p
   adds.  Demanded for well-formed bases and non-empty p; the two-separator base is D10's input class. *)
Definition c04_contains (s : osel) (base p buf : list byte) : bool :=
  let ca := ospec s base in let cb := ospec s p in let cr := ospec s buf in
  let averb := match s with OU => false | OW => sp_verbatim base end in
  if owf s base && negb (match p with [] => true | _ => false end) then
    wlist_prefix ca cr && (if averb then true else wlist_eqb cr (ca ++ implicit_root ca ++ tail_comps ca cb))
  else true.
(* D17: the base is the verbatim prefix whose name is exactly "UNC" (\\?\UNC, possibly followed by separators
   only -- anything else after it makes it a verbatim UNC prefix): appending a separator and a name spells a
   verbatim UNC prefix, so the prefix of the base is replaced and what was added disappears into it *)
Definition KNOWN_C04_VERBATIM_UNC_NAME : N := 17.
Definition c04_verbatim_unc_name (s : osel) (base : list byte) : bool :=
  match s with
  | OU => false
  | OW => match sp_prefix base with Some (_, Verbatim x) => beq_list x [85; 78; 67] | _ => false end
  end.
Definition oracle_c04 (s : osel) (base p : list byte) (out : val) : N :=
  match vargs "c04" out with
  | Some [VL [snap]; jc; j] =>
      match vargs "t" snap, vargs "t" j with
      | Some [VB buf; err; _], Some [VB jb; _] =>
          match scan_spec (otable s) (ospec s p) O with
          | Some e =>
              (* fails, names the first offending component, leaves the base byte-for-byte unchanged *)
              ob (val_eqb err (e_err e) && beq_list buf base && val_eqb jc (VC "err" [e_err e]))
          | None =>
              (* succeeds with exactly the unchecked join *)
              if is_vn err && beq_list buf jb && val_eqb jc (VC "ok" [VB jb]) then
                if c04_contains s base p buf then pass
                else if c10_twosep s base then KNOWN_C10_TWOSEP
                else if c04_verbatim_unc_name s base then KNOWN_C04_VERBATIM_UNC_NAME
                else fail
              else fail
          end
      | _, _ => fail
      end
  | _ => fail
  end.

(* ---------------- C11 ---------------- *)
Definition oracle_c11 (s : osel) (p : list byte) (out : val) : N :=
  match vargs "c11" out with
  | Some [VB n; fp; fn; VB nn; VL steps] =>
      if negb (owf s p) then pass              (* the property quantifies over well-formed paths *)
      else
      let cs := ospec s p in
      let expect := nfold cs [] in
      (* the normalised path has exactly the folded components ... *)
      let fold_ok := wlist_eqb (ospec s n) expect in
      (* ... as the implementation itself reads them back, with no "." or ".." left *)
      let got := flat_map (fun st => match vargs "st" st with Some l => match vsome (vnth l 0) with Some c => [c] | None => [] end | None => [] end) steps in
      let read_ok := val_eqb (VL got) (VL (map e_wcomp (ospec s n))) in
      let clean := forallb (fun c => negb (k_is_cur c || k_is_parent c)) (ospec s n) in
      (* same prefix, root and absoluteness; idempotent on the bytes *)
      let flags := val_eqb fp fn in
      let idem := beq_list nn n in
      (* only the primary separator after the prefix *)
      let primary := match s with
                     | OU => true
                     | OW => let body := match ospec s n with WPrefix raw _ :: _ => skipn (List.length raw) n | _ => n end in
                             negb (mem_b 47 body) || negb (s_norm n)
                     end in
      ob (fold_ok && read_ok && clean && flags && idem && primary)
  | _ => fail
  end.

(* ---------------- C08 (Windows rule table) and push histories ---------------- *)
(* the Unix counterpart of the rule table, used for histories: b itself when it is rooted or the
   buffer is empty, otherwise exactly one '/' between the two unless the buffer already ends in one *)
Definition ujoin_spec (a b : list byte) : list byte :=
  match b with
  | [] => a
  | c :: _ => if usep_s c then b
              else match a with
                   | [] => b
                   | _ => match rev a with x :: _ => if usep_s x then a ++ b else a ++ 47 :: b | [] => b end
                   end
  end.
Definition ojoin (s : osel) (a b : list byte) : list byte := match s with OU => ujoin_spec a b | OW => join_spec a b end.
Definition oracle_c08 (s : osel) (a b : list byte) (out : val) : N :=
  match vargs "c08" out with
  | Some [j; VL [snap]] =>
      match vargs "t" j, vargs "t" snap with
      | Some [VB jb; _], Some [VB buf; _; _] => ob (beq_list jb (ojoin s a b) && beq_list buf jb)
      | _, _ => fail
      end
  | _ => fail
  end.
(* one step of a buffer history against the specifications (operations without a byte-level
   specification here are accepted: they are covered by their own properties) *)
Definition hist_step_ok (s : osel) (buf : list byte) (op : val) (snap : val) : bool :=
  match vargs "t" snap with
  | Some [VB nb; res; _] =>
      match op with
      | VC t [VB x] =>
          if tag_is t "push" || tag_is t "join" then beq_list nb (ojoin s buf x)
          else if tag_is t "pushc" then
            match scan_spec (otable s) (ospec s x) O with
            | Some e => beq_list nb buf && val_eqb res (e_err e)
            | None => beq_list nb (ojoin s buf x) && is_vn res
            end
          else if tag_is t "clonefrom" then beq_list nb x && is_vn res
          else if tag_is t "sfn" then
            (* C12 at any point of a history: a single valid name replaces the file name and keeps the parent; without
               a file name it is joined *)
            if single_valid_name s x && owf s buf then
              match spec_file_name s buf with
              | Some _ => match spec_file_name s nb with Some n' => beq_list n' x | None => false end
                          && wlist_eqb (parent_comps s nb) (parent_comps s buf)
              | None => beq_list nb (ojoin s buf x)
              end
            else true
          else if tag_is t "sext" then
            (* C13 at any point of a history: without a file name false and untouched; with one (outside the
               class D13) true, the new file name is stem[.ext] and the parent components are kept *)
            if negb (sep_free s x) then true
            else match spec_file_name s buf with
                 | None => val_eqb res (VBool false) && beq_list nb buf
                 | Some n =>
                     let (stem, _) := split_name n in
                     let newname := match x with [] => stem | _ => stem ++ 46 :: x end in
                     let dotstem := match x with [] => beq_list stem [46] || beq_list stem [46; 46] | _ => false end in
                     val_eqb res (VBool true) &&
                     (dotstem ||
                      (match spec_file_name s nb with Some n' => beq_list n' newname | None => false end
                       && wlist_eqb (parent_comps s nb) (parent_comps s buf)))
                 end
          else true
      | VC t [VI _] =>
          if tag_is t "reserve" || tag_is t "shrinkto" then beq_list nb buf && is_vn res else true
      | VC t [] =>
          if tag_is t "clear" then beq_list nb []
          else if tag_is t "shrinkfit" then beq_list nb buf && is_vn res
          else if tag_is t "pop" then
            match res with
            | VBool true => parent_rel s buf nb
            | VBool false => no_parent s buf && beq_list nb buf
            | _ => false
            end
          else true
      | VC t [VL xs] =>
          let bs := flat_map (fun x => match x with VB b => [b] | _ => [] end) xs in
          if tag_is t "extend" then beq_list nb (fold_left (ojoin s) bs buf)
          else if tag_is t "collect" then beq_list nb (fold_left (ojoin s) bs [])
          else true
      | _ => true
      end
  | _ => false
  end.
Fixpoint hist_ok (s : osel) (buf : list byte) (ops snaps : list val) : bool :=
  match ops, snaps with
  | [], [] => true
  | op :: ops', sn :: snaps' =>
      hist_step_ok s buf op sn &&
      match vargs "t" sn with Some (VB nb :: _) => hist_ok s nb ops' snaps' | _ => false end
  | _, _ => false
  end.
Definition oracle_hist (s : osel) (i : list byte) (ops : list val) (out : val) : N :=
  match vargs "hist" out with
  | Some [VL snaps] => ob (hist_ok s i ops snaps)
  | _ => fail
  end.

(* a base made of exactly two separators has no component but a root, yet anything joined onto it
   re-reads as a UNC / device prefix (\\ + b = \\b): excluded from the join statements, see DESIGN.md (D10) *)
Definition KNOWN_C10_REMAINDER : N := 15.   (* D15: the remainder of strip_prefix starts with two separators and re-reads as a prefix *)
(* ---------------- C10 ---------------- *)
(* The implementation compares components by their bytes (helpers::iter_after).  At Unix bytes
   determine the component.  At Windows they do not: known finding D7 = the cases where the
   byte-wise relation and the component-wise relation differ and the implementation follows the bytes. *)
Definition KNOWN_C10_BYTES : N := 7.
Definition wc_bytes_eqb (x y : wcomp) : bool := beq_list (wc_bytes x) (wc_bytes y).
Fixpoint wlist_prefix_by (eq : wcomp -> wcomp -> bool) (p l : list wcomp) : bool :=
  match p, l with
  | [], _ => true
  | x :: p', y :: l' => eq x y && wlist_prefix_by eq p' l'
  | _ :: _, [] => false
  end.
(* what b contributes when joined onto a (a without verbatim prefix, b relative and prefix-free):
   the separator inserted after a bare non-disk prefix shows as a root; a leading "." of b survives
   only if it still starts the path (a empty or a bare drive) *)
Definition oracle_c10 (s : osel) (a b : list byte) (out : val) : N :=
  match vargs "c10" out with
  | Some [rel; ec; j; rel2] =>
      let ca := ospec s a in let cb := ospec s b in
      let sw := wlist_prefix cb ca in
      let ew := wlist_suffix cb ca in
      let swb := wlist_prefix_by wc_bytes_eqb cb ca in
      let ewb := wlist_prefix_by wc_bytes_eqb (rev cb) (rev ca) in
      match vargs "t" rel with
      | Some [VBool sw'; VBool ew'; sp] =>
          let known := match s with OU => false | OW => negb (Bool.eqb sw swb) || negb (Bool.eqb ew ewb) end in
          let rel_ok := Bool.eqb sw sw' && Bool.eqb ew ew' in
          let rel_bytes := Bool.eqb swb sw' && Bool.eqb ewb ew' in
          let sp_exist_ok := match obytes sp with Some (Some _) => sw' | Some None => negb sw' | None => false end in
          let sp_ok :=
            sp_exist_ok &&
            match obytes sp with
            | Some (Some r) =>
                (match s with
                 | OU => wlist_eqb (ospec s r) (skipn (List.length cb) ca)
                 | OW => (* q joined with the remainder gives p back, up to the normalisation a verbatim q applies *)
                     if owf s a && owf s b then
                       if sp_verbatim b then wlist_eqb (ospec s (ojoin s b r)) (fold_left vstep (skipn (List.length cb) ca) cb)
                       else wlist_eqb (ospec s (ojoin s b r)) ca
                     else true
                 end)
            | _ => true
            end in
          (* a joined with a relative, prefix-free b starts with a; stripping a yields what b contributes *)
          let join_ok :=
            match vargs "t" j, vargs "t" rel2 with
            | Some [VB jb; _], Some [VBool jsw; _; jsp] =>
                let relb := negb (existsb (fun c => k_is_prefix c || k_is_root c) cb) in
                let averb := match s with OU => false | OW => sp_verbatim a end in
                if relb && negb averb && owf s a && owf s b && negb (match b with [] => true | _ => false end) then
                  jsw && match obytes jsp with
                         | Some (Some r) => wlist_eqb (ospec s r) (implicit_root ca ++ tail_comps ca cb)
                         | _ => false
                         end
                else true
            | _, _ => false
            end in
          if rel_ok && sp_ok && join_ok then pass
          else if known && rel_bytes then KNOWN_C10_BYTES
          else if rel_ok && sp_exist_ok && (c10_twosep s a || c10_twosep s b) then KNOWN_C10_TWOSEP
          else if rel_ok && sp_exist_ok && join_ok &&
                  match s, obytes sp with OW, Some (Some (x :: y :: _)) => s_sep_any x && s_sep_any y | _, _ => false end
               then KNOWN_C10_REMAINDER
          else fail
      | _ => fail
      end
  | _ => fail
  end.

(* ---------------- C16 ---------------- *)
Definition KNOWN_C16_DRIVEREL : N := 9.      (* D9: a disk prefix not followed by a root survives as a name *)
Definition KNOWN_C16_RESPLIT : N := 12.      (* D12: a source name containing a separator of the target is re-split *)
Definition KNOWN_C16_SAMEPREFIX : N := 14.   (* D14: checked conversion to the own encoding loses a non-disk Windows prefix *)
Definition other (s : osel) : osel := match s with OU => OW | OW => OU end.
Definition osep (s : osel) (b : byte) : bool := match s with OU => usep_s b | OW => s_sep_any b end.
(* kinds and names, prefix left out *)
Definition kinds_names (cs : list wcomp) : list comp := flat_map (fun c => match c with WPrefix _ _ => [] | WC x => [x] end) cs.
Definition names_of (cs : list wcomp) : list (list byte) := flat_map (fun c => match c with WC (Normal n) => [n] | _ => [] end) cs.
(* what a converted path must consist of: the prefix dropped; a root when the source has a root or
   a non-disk prefix; then the same kinds and names *)
Definition conv_expected (cs : list wcomp) : list comp :=
  match cs with
  | WPrefix _ k :: rest =>
      if is_disk k then kinds_names rest
      else match rest with WC Root :: _ => kinds_names rest | _ => Root :: kinds_names rest end
  | _ => kinds_names cs
  end.
(* a "." that does not start the path exists only in a verbatim (non-normalised) Windows path; no
   Unix or normalised Windows path can hold it, so it is not demanded of the converted path *)
Definition drop_interior_cur (l : list comp) : list comp :=
  match l with
  | Cur :: t => Cur :: filter (fun c => negb (c_is_current c)) t
  | _ => filter (fun c => negb (c_is_current c)) l
  end.
Definition driverel (cs : list wcomp) : bool :=
  match cs with WPrefix _ k :: rest => is_disk k && negb (match rest with WC Root :: _ => true | _ => false end) | _ => false end.
Definition nondisk_prefix (cs : list wcomp) : bool := match cs with WPrefix _ k :: _ => negb (is_disk k) | _ => false end.
Definition res_parts (v : val) : option (option (list byte)) :=
  match vargs "ok" v, vargs "err" v with
  | Some [VB r], _ => Some (Some r)
  | _, Some _ => Some None
  | _, _ => None
  end.
Definition oracle_c16 (s : osel) (p : list byte) (out : val) : N :=
  match vargs "c16" out with
  | Some [VB conv; chk; VB same; schk; VB rt] =>
      let t := other s in
      let src := ospec s p in
      let names := names_of src in
      let both_ok := forallb (fun n => name_ok forbidden_unix n && name_ok forbidden_windows n) names in
      let tgt_ok := forallb (name_ok (otable t)) names in
      let own_ok := forallb (name_ok (otable s)) names in
      let resplit := existsb (fun n => existsb (osep t) n) names in
      let expected := drop_interior_cur (conv_expected src) in
      (* 1. to its own encoding: the same bytes *)
      let same_ok := beq_list same p in
      (* 2./3. unchecked conversion keeps kinds and names, drops the prefix, keeps rootedness; round trip is an equal path *)
      let conv_ok :=
        if both_ok then
          list_eqb (kinds_names (ospec t conv)) expected
          && (if negb (existsb k_is_prefix src) then wlist_eqb (ospec s rt) src else true)
        else true in
      (* 4. checked conversion *)
      let chk_ok :=
        match res_parts chk with
        | Some (Some r) =>
            beq_list r conv && forallb (comp_ok (otable t)) (ospec t r) && tgt_ok
            && list_eqb (kinds_names (ospec t r)) expected
        | Some None => true
        | None => false
        end in
      (* it fails whenever a source name contains a byte the target forbids *)
      let chk_fail_ok := match res_parts chk with Some (Some _) => tgt_ok | _ => true end in
      (* 5. checked conversion to the own encoding: an equal, valid path *)
      let schk_ok :=
        match res_parts schk with
        | Some (Some r) => wlist_eqb (ospec s r) src && own_ok
        | Some None => true
        | None => false
        end in
      let cross_fail := negb (conv_ok && chk_ok && chk_fail_ok) in
      let same_fail := negb schk_ok in
      let resplit_own := existsb (fun n => existsb (osep s) n) names in
      let cross_explained := driverel src || resplit in
      let same_explained := nondisk_prefix src || resplit_own in
      if negb same_ok then fail
      else if negb cross_fail && negb same_fail then pass
      else if (negb cross_fail || cross_explained) && (negb same_fail || same_explained) then
        (if cross_fail then (if driverel src then KNOWN_C16_DRIVEREL else KNOWN_C16_RESPLIT)
         else (if nondisk_prefix src then KNOWN_C16_SAMEPREFIX else KNOWN_C16_RESPLIT))
      else fail
  | _ => fail
  end.

(* ---------------- C02 ---------------- *)
(* every query as a function of the grammar decomposition [wspec p] *)
Definition c02_flags (cs : list wcomp) : val :=
  let k := match cs with WPrefix _ k :: _ => Some k | _ => None end in
  let is k' := match k with Some x => k' x | None => false end in
  let phys := match cs with WC Root :: _ => true | WPrefix _ _ :: WC Root :: _ => true | _ => false end in
  vt [VBool (is (fun _ => true)); vopt e_wkind k;
      VBool (is k_verbatim);
      VBool (is (fun x => match x with Verbatim _ => true | _ => false end));
      VBool (is (fun x => match x with VerbatimUNC _ _ => true | _ => false end));
      VBool (is (fun x => match x with VerbatimDisk _ => true | _ => false end));
      VBool (is (fun x => match x with DeviceNS _ => true | _ => false end));
      VBool (is (fun x => match x with UNC _ _ => true | _ => false end));
      VBool (is is_disk);
      VBool phys;
      VBool (is (fun x => negb (is_disk x)));
      VBool (match cs with
             | WC Root :: _ => true
             | WPrefix _ (Disk _ | VerbatimDisk _) :: rest => match rest with WC Root :: _ => true | _ => false end
             | WPrefix _ _ :: _ => true
             | _ => false
             end);
      VBool (match cs with WPrefix _ _ :: WC Root :: _ => true | _ => false end)].
Definition drive_ok (k : wprefix) : bool :=
  match k with Disk d | VerbatimDisk d => (65 <=? d) && (d <=? 90) | _ => true end.
(* WindowsPrefix::len as documented: the length of the canonical spelling of the kind *)
Definition kind_len (k : wprefix) : nat :=
  let sh := fun y : list byte => match y with [] => O | _ => S (List.length y) end in
  match k with
  | Verbatim x => 4 + List.length x
  | VerbatimUNC x y => 8 + List.length x + sh y
  | VerbatimDisk _ => 6
  | DeviceNS x => 4 + List.length x
  | UNC x y => 2 + List.length x + sh y
  | Disk _ => 2
  end%nat.
Definition oracle_c02 (p : list byte) (out : val) : N :=
  match vargs "c02" out with
  | Some [VL cf; VL cb; flags; tf; ptf; kl] =>
      let cs := wspec p in
      let k := match cs with WPrefix raw k :: _ => Some (raw, k) | _ => None end in
      ob (comps_match cf cs && comps_match cb (rev cs)
          && val_eqb flags (c02_flags cs)
          && val_eqb tf (match cs with [c] => VSome (e_wcomp c) | _ => VN end)
          && val_eqb ptf (match cs with [WPrefix raw k] => VSome (vpair (VB raw) (e_wkind k)) | _ => VN end)
          && val_eqb kl (match k with Some (raw, k) => VSome (vpair (vnat (kind_len k)) (VBool (k_verbatim k))) | None => VN end)
          && match k with Some (raw, k) => drive_ok k && beq_list raw (firstn (List.length raw) p) | None => true end
          && forallb (fun c => negb (k_is_prefix c)) (tl cs))
  | _ => fail
  end.

Definition oracle (name suffix : string) (args : list val) (out : val) : N :=
  let typed := tag_is suffix "tu" || tag_is suffix "tw" || tag_is suffix "t8u" || tag_is suffix "t8w"
               || tag_is suffix "tbu" || tag_is suffix "tbw" || tag_is suffix "tb8u" || tag_is suffix "tb8w" in
  match osel_of suffix with
  | None => pass
  | Some s =>
      if tag_is name "c03" then
        match args with [VB p; VB sched] => oracle_c03 s p (e_dirs sched) out | _ => fail end
      else if tag_is name "c04" then
        match args with [VB a; VB b] => oracle_c04 s a b out | _ => fail end
      else if tag_is name "c05" then
        match args with [VB a; VB b] => oracle_c05 s a b out | _ => fail end
      else if tag_is name "c08" then
        match args with [VB a; VB b] => oracle_c08 s a b out | _ => fail end
      else if tag_is name "hist" then
        match args with [VB i; VL ops] => oracle_hist s i ops out | _ => fail end
      else if tag_is name "c09" then
        match args with [VB p] => oracle_c09 s p out | _ => fail end
      else if tag_is name "c10" then
        match args with [VB a; VB b] => oracle_c10 s a b out | _ => fail end
      else if tag_is name "c11" then
        match args with [VB p] => oracle_c11 s p out | _ => fail end
      else if tag_is name "c12" then
        match args with [VB p; VB n] => oracle_c12 s p n out | _ => fail end
      else if tag_is name "c13" then
        match args with [VB p; VB e] => oracle_c13 s p e out | _ => fail end
      else if tag_is name "c17" then
        match args with [VB p] => oracle_c17 s typed p out | _ => fail end
      else if tag_is name "cons" then
        (* the list of inconsistencies the harness found must be empty, and (C05, asked of partially consumed
           iterators) every reported pair (==, cmp) is coherent: equal exactly when the order is Equal *)
        match vargs "cons" out with
        | Some [VL []; VL ps] =>
            ob (forallb (fun p => match vargs "t" p with
                                  | Some [VBool e; VC _ [o]] => Bool.eqb e (val_eqb o (e_ord Eq))
                                  | Some [VBool e; VN] => true
                                  | _ => false end) ps)
        | Some [VL []; _] => pass
        | _ => fail
        end
      else if tag_is name "c02" then
        match s, args with OW, [VB p] => oracle_c02 p out | _, _ => fail end
      else if tag_is name "c16" then
        match args with [VB p] => oracle_c16 s p out | _ => fail end
      else if tag_is name "c19p" then
        match args, out with
        | [VB a; VB b], VC t [VBool eq; ord; VBool consistent] =>
            let ca := ospec s a in let cb := ospec s b in
            ob (tag_is t "c19p" && consistent && Bool.eqb eq (wlist_eqb ca cb) && val_eqb ord (e_ord (wlist_cmp ca cb)))
        | _, _ => fail
        end
      else pass
  end.
