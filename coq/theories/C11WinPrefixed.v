(* C11 for Windows paths with a UNC, device-namespace or drive prefix followed by a non-empty rest: normalize,
   read again from scratch, is the lexical fold of the input's components -- the prefix stays, "." goes, ".."
   cancels a preceding name and never the root or the prefix. *)
From Coq Require Import List NArith Bool Lia Arith.
Import ListNotations.
From TP Require Import Core CoreProofs CoreSched Path Unix Win Spec Ops UnixProofs C02Proofs C04Proofs C08Proofs C11Proofs GenJoin
  WinProofs WinTrunc WinSimple C16Proofs C11WinProofs WinExtend C12Win.
Open Scope N_scope.

Notation WPUSHC := (fun (buf : list byte) (c : wcomp) => w_push buf (wc_bytes c)).

(* the two folds with a prefix component at the bottom of the stack *)
Lemma nfw_prefixed p k cs : forall acc, NFW (map WC cs) (map WC acc ++ [WPrefix p k]) = WPrefix p k :: map WC (NFC cs acc).
Proof.
  induction cs as [|c cs IH]; intros acc; cbn [norm_fold map].
  - rewrite rev_app_distr. cbn [rev app]. rewrite map_rev. reflexivity.
  - destruct c as [| | |nm]; cbn [wc_is_current wc_is_parent c_is_current c_is_parent negb andb].
    + apply (IH (Root :: acc)).
    + apply IH.
    + destruct acc as [|x acc']; cbn [map app].
      * cbn [wc_is_normal]. apply (IH []).
      * destruct x; cbn [wc_is_normal c_is_normal]; [apply (IH (Root :: acc')) | apply (IH (Cur :: acc')) | apply (IH (Parent :: acc')) | apply (IH acc')].
    + apply (IH (Normal nm :: acc)).
Qed.
Lemma nfold_prefixed p k cs : forall acc, nfold (map WC cs) (map WC acc ++ [WPrefix p k]) = WPrefix p k :: map WC (NFC cs acc).
Proof.
  induction cs as [|c cs IH]; intros acc; cbn [nfold norm_fold map].
  - rewrite rev_app_distr. cbn [rev app]. rewrite map_rev. reflexivity.
  - destruct c as [| | |nm]; cbn [k_is_cur k_is_parent c_is_current c_is_parent negb andb].
    + apply (IH (Root :: acc)).
    + apply IH.
    + destruct acc as [|x acc']; cbn [map app].
      * cbn [k_is_normal]. apply (IH []).
      * destruct x; cbn [k_is_normal c_is_normal]; [apply (IH (Root :: acc')) | apply (IH (Cur :: acc')) | apply (IH (Parent :: acc')) | apply (IH acc')].
    + apply (IH (Normal nm :: acc)).
Qed.

(* shape of the folded body: an optional root, then names *)
Lemma nfc_shape r : Forall pn_comp (WCOMPS r) ->
  exists h ns, NFC (WCOMPS r) [] = h ++ ns /\ (h = [] \/ h = [Root]) /\ Forall pn_name ns.
Proof.
  intros Hnames. destruct (wcomps_shape r) as (h0 & t & E & Hh0 & Ht & Hg). rewrite E in *.
  apply Forall_app in Hnames as [_ Hnt].
  destruct Hh0 as [-> | [-> | ->]]; cbn [app norm_fold c_is_current c_is_parent negb andb].
  - destruct (nfc_names t [] Hnt Ht) as (h & ns & E1 & Hh & Hns); [exists [], []; repeat split; auto|]. eauto.
  - destruct (nfc_names t [Root] Hnt Ht) as (h & ns & E1 & Hh & Hns); [exists [Root], []; repeat split; auto|]. eauto.
  - destruct (nfc_names t [] Hnt Ht) as (h & ns & E1 & Hh & Hns); [exists [], []; repeat split; auto|]. eauto.
Qed.

Lemma w_push_nil x : w_push [] x = x.
Proof.
  rewrite w_push_join_spec. unfold join_spec. destruct x as [|x0 xt]; [reflexivity|].
  destruct (sp_has_prefix (x0 :: xt)); [reflexivity|]. change (sp_verbatim []) with false. cbv iota.
  destruct (sp_rooted (x0 :: xt)); reflexivity.
Qed.

Section P.
Variables (p : list byte) (k : wprefix).
Hypothesis Hk : k_verbatim k = false.
Hypothesis S : forall r', fits k r' -> wprefix_grammar (p ++ r') = Some (k, r') /\ s_norm (p ++ r') = true.
Hypothesis Hbare : wspec p = [WPrefix p k].

Definition PInv (buf : list byte) : Prop := exists rb, buf = p ++ rb /\ rb <> [] /\ fits k rb.

Lemma PInv_wspec buf : PInv buf -> exists rb, buf = p ++ rb /\ wprefix_grammar buf = Some (k, rb) /\ rb <> [].
Proof. intros (rb & -> & Hne & Hf). exists rb. split; [reflexivity|]. split; [apply (S rb Hf) | exact Hne]. Qed.

Lemma push_name_prefixed buf n : PInv buf -> pn n -> PInv (w_push buf n) /\ wspec (w_push buf n) = wspec buf ++ [WC (Normal n)].
Proof.
  intros Hb (G & Hn). destruct (PInv_wspec buf Hb) as (rb & Eb & Hg & Hne). split.
  - destruct (join_spec_prefixed buf k rb n Hg Hk Hne Hn) as (p' & El & _ & J & Fj & _).
    assert (p' = p) by (rewrite Eb in El; apply app_inv_tail in El; symmetry; exact El). subst p'.
    rewrite w_push_join_spec, J. exists (WJOIN rb n). split; [reflexivity|]. split.
    + unfold gjoin. destruct n as [|n0 nt] eqn:En; [exact Hne|]. rewrite <- En. destruct (g_rooted wany n); [rewrite En; discriminate|].
      destruct rb as [|b0 bt]; [congruence|]. destruct (g_ends_sep wany (b0 :: bt)); discriminate.
    + apply Fj. apply (gn_ne n G).
  - apply wspec_push_name; [right; exists k, rb; auto | exact Hn | exact G].
Qed.
Lemma fold_push_names_prefixed ns : forall buf, PInv buf -> Forall pn_name ns ->
  wspec (fold_left WPUSHC (map WC ns) buf) = wspec buf ++ map WC ns.
Proof.
  induction ns as [|c ns IH]; intros buf Hb H; cbn [fold_left map]; [rewrite app_nil_r; reflexivity|].
  inversion H as [|? ? Hc Hns]; subst. destruct c as [| | |n]; cbn in Hc; try contradiction. cbn [wc_bytes].
  destruct (push_name_prefixed buf n Hb Hc) as (H1 & H2). rewrite (IH _ H1 Hns), H2, <- app_assoc. reflexivity.
Qed.

(* pushing the root onto the bare prefix *)
Lemma push_root_bare : w_push p [92] = p ++ [92].
Proof.
  rewrite w_push_join_spec. unfold join_spec.
  assert (H1 : sp_has_prefix [92] = false) by reflexivity. rewrite H1.
  unfold sp_verbatim, sp_prefix_raw, sp_prefix. rewrite Hbare, Hk.
  assert (H2 : sp_rooted [92] = true) by reflexivity. rewrite H2. reflexivity.
Qed.
End P.

(* everything the grammar theorems say about such a path, with one raw prefix p *)
Lemma prefixed_pack l k r : wprefix_grammar l = Some (k, r) -> k_verbatim k = false -> r <> [] ->
  exists p, l = p ++ r /\ p <> [] /\ fits k r /\
    (forall r', fits k r' -> wprefix_grammar (p ++ r') = Some (k, r') /\ s_norm (p ++ r') = true) /\
    (forall r', fits k r' -> wspec (p ++ r') = WPrefix p k :: map WC (WCOMPS r')) /\
    wspec p = [WPrefix p k].
Proof.
  intros H Hk Hne. destruct (grammar_repl l k r H Hk Hne) as (p & El & Hp & Hf & S).
  destruct (wspec_prefixed l k r H Hk Hne) as (p' & El' & _ & _ & S').
  assert (p' = p).
  { rewrite El in El'. apply (f_equal (@rev byte)) in El'. rewrite !rev_app_distr in El'. apply app_inv_head in El'.
    rewrite <- (rev_involutive p), <- (rev_involutive p'), El'. reflexivity. }
  subst p'. exists p. repeat split; try assumption; try apply S; try assumption.
  (* the bare prefix: truncation of the rest to nothing (WinTrunc) *)
  assert (Hpm : prefix l = Some (k, r)) by (rewrite <- prefix_grammar; exact H).
  destruct (prefix_trunc l k r [] Hpm (lead_nil r)) as (a & Ela & _ & Ept & _).
  { intros ->. discriminate. }
  assert (a = p).
  { rewrite El in Ela. apply (f_equal (@rev byte)) in Ela. rewrite !rev_app_distr in Ela. apply app_inv_head in Ela.
    rewrite <- (rev_involutive p), <- (rev_involutive a), Ela. reflexivity. }
  subst a. rewrite app_nil_r in Ept. unfold wspec. rewrite prefix_grammar, Ept. cbn [length]. rewrite Nat.sub_0_r, firstn_all.
  reflexivity.
Qed.


Lemma w_normalize_unfold_all l : w_normalize l = fold_left WPUSHC (NFW (wspec l) []) [].
Proof.
  unfold w_normalize, normalize. change (components wstate wcomp w_init w_nextf l) with (w_components l).
  rewrite w_components_wspec. reflexivity.
Qed.
Lemma w_normalize_prefixed_struct l k r : wprefix_grammar l = Some (k, r) -> k_verbatim k = false -> r <> [] ->
  Forall pn_comp (WCOMPS r) ->
  exists p h ns, wspec l = WPrefix p k :: map WC (WCOMPS r) /\ NFC (WCOMPS r) [] = h ++ ns /\ (h = [] \/ h = [Root]) /\ Forall pn_name ns /\
    w_normalize l = fold_left WPUSHC (WPrefix p k :: map WC (h ++ ns)) [] /\
    wspec (w_normalize l) = WPrefix p k :: map WC (h ++ ns).
Proof.
  intros Hg Hk Hne Hnames. destruct (prefixed_pack l k r Hg Hk Hne) as (p & El & Hp & Hf & S & S' & Hbare).
  assert (Wl : wspec l = WPrefix p k :: map WC (WCOMPS r)) by (rewrite El; apply (S' r Hf)).
  destruct (nfc_shape r Hnames) as (h & ns & E & Hh & Hns).
  exists p, h, ns. split; [exact Wl|]. split; [exact E|]. split; [exact Hh|]. split; [exact Hns|].
  assert (U : w_normalize l = fold_left WPUSHC (WPrefix p k :: map WC (h ++ ns)) []).
  { rewrite w_normalize_unfold_all, Wl. cbn [norm_fold wc_is_current wc_is_parent negb andb].
    pose proof (nfw_prefixed p k (WCOMPS r) []) as Hnw. cbn [map app] in Hnw. rewrite Hnw, E. reflexivity. }
  split; [exact U|]. rewrite U. clear U.
  unfold w_normalize, normalize. change (components wstate wcomp w_init w_nextf l) with (w_components l).
  cbn [fold_left wc_bytes]. rewrite w_push_nil.
  destruct Hh as [-> | ->].
  - cbn [app]. destruct ns as [|c ns'].
    + cbn [map fold_left]. exact Hbare.
    + inversion Hns as [|? ? Hc Hns']; subst. destruct c as [| | |n]; cbn in Hc; try contradiction.
      destruct (is_disk k) eqn:Ed.
      * (* bare drive: the first name is written right after it *)
        destruct Hc as (G & Hn). destruct (sp_plain n Hn) as (Bp & _ & _ & _ & Br).
        assert (Epush : w_push p n = p ++ n).
        { rewrite w_push_join_spec. unfold join_spec. destruct n as [|n0 nt] eqn:En; [destruct G as (_ & X & _); congruence|]. rewrite <- En in *.
          rewrite Bp. unfold sp_verbatim, sp_prefix_raw, sp_bare_drive, sp_prefix. rewrite Hbare, Hk. rewrite Br, (gn_not_rooted wany n G).
          destruct k; try discriminate. rewrite orb_true_r. reflexivity. }
        cbn [map fold_left wc_bytes]. rewrite Epush.
        assert (Hfn : fits k n) by (destruct k; try discriminate; exact I).
        assert (Hinv : PInv p k (p ++ n)) by (exists n; split; [reflexivity|]; split; [apply (gn_ne n G) | exact Hfn]).
        rewrite (fold_push_names_prefixed p k Hk S ns' (p ++ n) Hinv Hns').
        rewrite (S' n Hfn), (gcomps_gn wany wany_dot n G). reflexivity.
      * (* any other prefix is followed by a separator: the fold keeps the root *)
        exfalso. assert (Hsh : sep_headed s_sep_any r) by (destruct k; try discriminate; exact Hf).
        destruct Hsh as (s & t & Er & Hs).
        pose proof (rooted_first r) as R. unfold g_rooted in R. rewrite Er in R at 2. cbn [root_ok] in R.
        change (s_sep_any s) with (wany s) in Hs. rewrite Hs in R.
        destruct (wcomps_shape r) as (h0 & t0 & E0 & Hh0 & Ht0 & _).
        destruct (WCOMPS r) as [|c0 cs0] eqn:Ew; [discriminate|]. destruct c0; try discriminate.
        assert (Eh0 : h0 = [Root] /\ t0 = cs0).
        { destruct Hh0 as [-> | [-> | ->]]; cbn [app] in E0.
          - subst t0. inversion Ht0 as [|? ? (X & _) _]. congruence.
          - inversion E0. auto.
          - discriminate. }
        destruct Eh0 as (-> & ->). cbn [norm_fold c_is_current c_is_parent negb andb] in E.
        destruct (nf_root_head cs0 [Root] (ex_intro _ [] eq_refl) Ht0) as (rr & Err). rewrite Err in E. discriminate.
  - cbn [app map fold_left wc_bytes]. rewrite (push_root_bare p k Hk Hbare).
    assert (Hfr : fits k [92]) by (destruct k; cbn [fits]; try exact I; exists 92, []; split; reflexivity).
    assert (Hinv : PInv p k (p ++ [92])) by (exists [92]; split; [reflexivity|]; split; [discriminate | exact Hfr]).
    rewrite (fold_push_names_prefixed p k Hk S ns (p ++ [92]) Hinv Hns).
    rewrite (S' [92] Hfr). reflexivity.
Qed.

Theorem w_normalize_prefixed l k r : wprefix_grammar l = Some (k, r) -> k_verbatim k = false -> r <> [] ->
  Forall pn_comp (WCOMPS r) ->
  wspec (w_normalize l) = nfold (wspec l) [].
Proof.
  intros Hg Hk Hne Hnames. destruct (w_normalize_prefixed_struct l k r Hg Hk Hne Hnames) as (p & h & ns & Wl & E & _ & _ & _ & W).
  rewrite W, Wl. cbn [nfold k_is_cur k_is_parent].
  pose proof (nfold_prefixed p k (WCOMPS r) []) as Hnf. cbn [map app] in Hnf. rewrite Hnf, E. reflexivity.
Qed.
Lemma NFW_fixed cs : forall acc, Forall (fun c => wc_is_current c = false /\ wc_is_parent c = false) cs -> NFW cs acc = rev acc ++ cs.
Proof.
  induction cs as [|c cs IH]; intros acc H; cbn [norm_fold]; [rewrite app_nil_r; reflexivity|].
  inversion H as [|? ? (H1 & H2) Hcs]; subst. rewrite H1, H2. cbn [negb andb]. rewrite IH by assumption.
  cbn [rev]. rewrite <- app_assoc. reflexivity.
Qed.
(* normalising again returns the same bytes *)
Theorem w_normalize_prefixed_idem l k r : wprefix_grammar l = Some (k, r) -> k_verbatim k = false -> r <> [] ->
  Forall pn_comp (WCOMPS r) -> w_normalize (w_normalize l) = w_normalize l.
Proof.
  intros Hg Hk Hne Hnames. destruct (w_normalize_prefixed_struct l k r Hg Hk Hne Hnames) as (p & h & ns & _ & _ & Hh & Hns & U & W).
  rewrite (w_normalize_unfold_all (w_normalize l)), W. rewrite U.
  rewrite (NFW_fixed (WPrefix p k :: map WC (h ++ ns)) []); [reflexivity|].
  constructor; [split; reflexivity|]. apply Forall_forall. intros c Hin. apply in_map_iff in Hin as (c0 & <- & Hin).
  apply in_app_or in Hin as [Hin | Hin].
  - destruct Hh as [-> | ->]; [destruct Hin|]. destruct Hin as [<- | []]. split; reflexivity.
  - rewrite Forall_forall in Hns. specialize (Hns _ Hin). destruct c0; cbn in Hns; try contradiction. split; reflexivity.
Qed.
(* the prefix is kept, and a root after it is kept: never above the root *)
Theorem w_normalize_prefixed_head l k r : wprefix_grammar l = Some (k, r) -> k_verbatim k = false -> r <> [] ->
  Forall pn_comp (WCOMPS r) ->
  exists p body, wspec l = WPrefix p k :: map WC (WCOMPS r) /\ wspec (w_normalize l) = WPrefix p k :: map WC body /\
                 (g_rooted wany r = true -> exists t, body = Root :: t) /\
                 Forall (fun c => c_is_current c = false /\ c_is_parent c = false) body.
Proof.
  intros Hg Hk Hne Hnames. destruct (w_normalize_prefixed_struct l k r Hg Hk Hne Hnames) as (p & h & ns & Wl & E & Hh & Hns & _ & W).
  exists p, (h ++ ns). split; [exact Wl|]. split; [exact W|]. split.
  - intros Hr. rewrite <- rooted_first in Hr. destruct (wcomps_shape r) as (h0 & t0 & E0 & Hh0 & Ht0 & _).
    destruct (WCOMPS r) as [|c0 cs0] eqn:Ew; [discriminate|]. destruct c0; try discriminate.
    assert (Eh0 : h0 = [Root] /\ t0 = cs0).
    { destruct Hh0 as [-> | [-> | ->]]; cbn [app] in E0.
      - subst t0. inversion Ht0 as [|? ? (X & _) _]. congruence.
      - inversion E0. auto.
      - discriminate. }
    destruct Eh0 as (-> & ->). cbn [norm_fold c_is_current c_is_parent negb andb] in E.
    destruct (nf_root_head cs0 [Root] (ex_intro _ [] eq_refl) Ht0) as (rr & Err). rewrite Err in E. exists rr. symmetry. exact E.
  - apply Forall_app. split.
    + destruct Hh as [-> | ->]; repeat constructor.
    + eapply Forall_impl; [|exact Hns]. intros c Hc. destruct c; cbn in Hc; try contradiction. split; reflexivity.
Qed.
