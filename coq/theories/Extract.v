From Coq Require Import Extraction ExtrOcamlBasic.
From TP Require Import Val Run.
Extraction Language OCaml.
Set Extraction Output Directory ".".
Extraction "model.ml" run check val_eqb.
