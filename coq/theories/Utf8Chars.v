(* C17, the UTF-8 twins: their validity predicates look at the CHARACTERS of a name (str::chars against a table
   of forbidden chars), the byte types at its BYTES.  On well-formed UTF-8 the two agree for every table of
   ASCII code points: a multi-byte character has a code point >= 128 and consists of bytes >= 128, a one-byte
   character is its byte.  The forbidden tables regenerated from the source are ASCII (checked below). *)
From Coq Require Import List NArith Bool Lia.
Import ListNotations.
From TP Require Import Core Path Utf8 Utf8Proofs Spec.
Open Scope N_scope.

(* the scalar value of the first character, given the length the step function reports *)
Definition scalar (l : list byte) (n : nat) : N :=
  match n, l with
  | 1%nat, b :: _ => b
  | 2%nat, b :: c :: _ => (b - 192) * 64 + (c - 128)
  | 3%nat, b :: c :: d :: _ => (b - 224) * 4096 + (c - 128) * 64 + (d - 128)
  | 4%nat, b :: c :: d :: e :: _ => (b - 240) * 262144 + (c - 128) * 4096 + (d - 128) * 64 + (e - 128)
  | _, _ => 0
  end.
Fixpoint chars_fuel (fuel : nat) (l : list byte) : list N :=
  match fuel with
  | O => []
  | S f => match l with
           | [] => []
           | _ => let (ok, n) := utf8_step l in scalar l n :: chars_fuel f (skipn n l)
           end
  end.
Definition chars (l : list byte) : list N := chars_fuel (length l) l.

Lemma in_range_lo lo hi b : in_range lo hi b = true -> lo <= b.
Proof. unfold in_range. intros H. apply andb_true_iff in H as [H _]. apply N.leb_le in H. exact H. Qed.
Lemma cont_lo c : is_cont c = true -> 128 <= c.
Proof. apply in_range_lo. Qed.
Lemma ok3_lo b c : second_ok3 b c = true -> 128 <= c.
Proof.
  unfold second_ok3. intros H. repeat (apply orb_true_iff in H as [H | H]); apply andb_true_iff in H as [_ H];
    try (apply cont_lo; exact H); apply in_range_lo in H; lia.
Qed.
Lemma ok4_lo b c : second_ok4 b c = true -> 128 <= c.
Proof.
  unfold second_ok4. intros H. repeat (apply orb_true_iff in H as [H | H]); apply andb_true_iff in H as [_ H];
    try (apply cont_lo; exact H); apply in_range_lo in H; lia.
Qed.

(* one well-formed step: either an ASCII byte that is its own code point, or at least two bytes, all >= 128,
   with a code point >= 128 *)
Lemma step_shape l n : l <> [] -> utf8_step l = (true, n) ->
  (exists b r, l = b :: r /\ n = 1%nat /\ b < 128 /\ scalar l n = b) \/
  ((2 <= n)%nat /\ Forall (fun x => 128 <= x) (firstn n l) /\ 128 <= scalar l n).
Proof.
  intros Hne. unfold utf8_step. destruct l as [|b l1]; [congruence|]. clear Hne.
  destruct (b <? 128) eqn:H1.
  { intros H; inversion H; subst. left. exists b, l1. apply N.ltb_lt in H1. auto. }
  apply N.ltb_ge in H1.
  destruct (in_range 194 223 b) eqn:H2.
  { destruct l1 as [|c l2]; [discriminate|]. destruct (is_cont c) eqn:Hc; [|discriminate].
    intros H; inversion H; subst. right. apply in_range_lo in H2. apply cont_lo in Hc.
    split; [lia|]. split; [cbn [firstn]; repeat constructor; assumption|]. cbn [scalar]. lia. }
  destruct (in_range 224 239 b) eqn:H3.
  { destruct l1 as [|c l2]; [discriminate|]. destruct (second_ok3 b c) eqn:Hc; [|discriminate].
    destruct l2 as [|d l3]; [discriminate|]. destruct (is_cont d) eqn:Hd; [|discriminate].
    intros H; inversion H; subst. right. pose proof (in_range_lo _ _ _ H3) as L3. pose proof (ok3_lo _ _ Hc) as Lc. apply cont_lo in Hd.
    split; [lia|]. split; [cbn [firstn]; repeat constructor; assumption|]. cbn [scalar].
    (* b = 224 forces c >= 160; otherwise b >= 225 *)
    unfold second_ok3 in Hc. repeat (apply orb_true_iff in Hc as [Hc | Hc]); apply andb_true_iff in Hc as [Hb Hc2].
    - apply N.eqb_eq in Hb. subst b. apply in_range_lo in Hc2. lia.
    - apply in_range_lo in Hb. lia.
    - apply N.eqb_eq in Hb. subst b. lia.
    - apply in_range_lo in Hb. lia. }
  destruct (in_range 240 244 b) eqn:H4; [|discriminate].
  destruct l1 as [|c l2]; [discriminate|]. destruct (second_ok4 b c) eqn:Hc; [|discriminate].
  destruct l2 as [|d l3]; [discriminate|]. destruct (is_cont d) eqn:Hd; [|discriminate].
  destruct l3 as [|e l4]; [discriminate|]. destruct (is_cont e) eqn:He; [|discriminate].
  intros H; inversion H; subst. right. pose proof (in_range_lo _ _ _ H4) as L4. pose proof (ok4_lo _ _ Hc) as Lc. apply cont_lo in Hd. apply cont_lo in He.
  split; [lia|]. split; [cbn [firstn]; repeat constructor; assumption|]. cbn [scalar].
  unfold second_ok4 in Hc. repeat (apply orb_true_iff in Hc as [Hc | Hc]); apply andb_true_iff in Hc as [Hb Hc2].
  - apply N.eqb_eq in Hb. subst b. apply in_range_lo in Hc2. lia.
  - apply in_range_lo in Hb. lia.
  - apply N.eqb_eq in Hb. subst b. lia.
Qed.

Lemma mem_b_ascii T x : (forall y, In y T -> y < 128) -> 128 <= x -> mem_b x T = false.
Proof.
  intros HT Hx. induction T as [|y T IH]; [reflexivity|]. cbn [mem_b].
  assert (Hy : y < 128) by (apply HT; left; reflexivity).
  destruct (y =? x) eqn:E; [apply N.eqb_eq in E; lia|]. apply IH. intros z Hz. apply HT. right. exact Hz.
Qed.
Lemma existsb_hi T xs : (forall y, In y T -> y < 128) -> Forall (fun x => 128 <= x) xs -> existsb (fun b => mem_b b T) xs = false.
Proof.
  intros HT H. induction H as [|x xs Hx _ IH]; [reflexivity|]. cbn [existsb]. rewrite (mem_b_ascii T x HT Hx), IH. reflexivity.
Qed.

Theorem chars_bytes_agree T : (forall y, In y T -> y < 128) -> forall l, Valid l -> forall fuel, (length l <= fuel)%nat ->
  existsb (fun c => mem_b c T) (chars_fuel fuel l) = existsb (fun b => mem_b b T) l.
Proof.
  intros HT l HV. induction HV as [|l n Hne Es Hv IH]; intros fuel Hf.
  - destruct fuel; reflexivity.
  - destruct fuel as [|f]; [destruct l; [congruence | cbn in Hf; lia]|].
    cbn [chars_fuel]. destruct l as [|b0 r0] eqn:El; [congruence|]. rewrite <- El in *. rewrite Es.
    pose proof (step_pos l true n Hne Es) as Hpos. pose proof (step_le l true n Es) as Hle.
    assert (Hlen : (length (skipn n l) <= f)%nat) by (rewrite skipn_length; lia).
    cbn [existsb]. rewrite (IH f Hlen).
    rewrite <- (firstn_skipn n l) at 3. rewrite existsb_app.
    destruct (step_shape l n Hne Es) as [(b & r & E & -> & Hb & Hs) | (H2 & Hall & Hsc)].
    + rewrite Hs. rewrite E. cbn [firstn existsb]. rewrite orb_false_r. reflexivity.
    + rewrite (mem_b_ascii T _ HT Hsc). rewrite (existsb_hi T _ HT Hall). reflexivity.
Qed.
(* as the predicates are written: no forbidden char iff no forbidden byte *)
Corollary name_ok_chars T l : (forall y, In y T -> y < 128) -> Valid l ->
  forallb (fun c => negb (mem_b c T)) (chars l) = name_ok T l.
Proof.
  intros HT HV. unfold name_ok, chars.
  assert (E : forall (xs : list N), forallb (fun b => negb (mem_b b T)) xs = negb (existsb (fun b => mem_b b T) xs)).
  { induction xs as [|x xs IH]; [reflexivity|]. cbn [forallb existsb]. rewrite IH, negb_orb. reflexivity. }
  rewrite !E. f_equal. apply (chars_bytes_agree T HT l HV). lia.
Qed.
(* the two tables regenerated from the source are ASCII *)
Lemma forbidden_tables_ascii : (forall y, In y forbidden_unix -> y < 128) /\ (forall y, In y forbidden_windows -> y < 128).
Proof.
  split; intros y Hy; cbn in Hy; repeat (destruct Hy as [<- | Hy]; [reflexivity|]); destruct Hy.
Qed.
