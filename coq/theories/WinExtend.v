(* Stability of the Windows prefix grammar when what FOLLOWS the prefix is replaced or extended, for the
   non-verbatim kinds (UNC, device namespace, drive), and with it the component-level reading of the joining
   rules (C08) and of the checked join (C04) for bases with such a prefix.
   If [wprefix_grammar (p ++ r) = Some (k, r)] with k not verbatim and r non-empty, then r begins with a
   separator (or k is a drive) and [wprefix_grammar (p ++ r') = Some (k, r')] for every r' that does too.
   The condition r <> [] is necessary: \\server read with an empty share takes the next name as its share
   (the instability recorded as D10 / excluded from "well-formed" by Spec.wf_comps). *)
From Coq Require Import List NArith Bool Lia Arith.
Import ListNotations.
From TP Require Import Core CoreProofs CoreSched Path Unix Win Spec GenJoin C02Proofs C08Proofs WinProofs WinTrunc WinSimple.
Open Scope N_scope.

Definition sep_headed (f : byte -> bool) (r : list byte) : Prop := exists s t, r = s :: t /\ f s = true.

Lemma take_name_shape f l x r : take_name f l = (x, r) ->
  l = x ++ r /\ forallb (fun b => negb (f b)) x = true /\ (r = [] \/ sep_headed f r).
Proof. unfold take_name. intros H. destruct (span_spec f _ _ _ H) as (A & B & C). split; [exact A|]. split; [exact B | exact C]. Qed.
Lemma take_name_repl f x r' : forallb (fun b => negb (f b)) x = true -> (r' = [] \/ sep_headed f r') ->
  take_name f (x ++ r') = (x, r').
Proof. intros Hx Hr. unfold take_name. apply span_app_gen; assumption. Qed.
Lemma take_name_sep_headed f r : sep_headed f r -> take_name f r = ([], r).
Proof. intros (s & t & -> & Hs). unfold take_name. cbn [span_nsep]. rewrite Hs. reflexivity. Qed.

(* server [sep] share, then a non-empty rest: the rest begins with a separator and may be replaced by
   anything that does *)
Lemma unc_parts_repl f l srv sh r : unc_parts f l = Some (srv, sh, r) -> r <> [] ->
  exists p, l = p ++ r /\ (2 <= length p)%nat /\ sep_headed f r /\
            forall r', sep_headed f r' -> unc_parts f (p ++ r') = Some (srv, sh, r').
Proof.
  unfold unc_parts. destruct (take_name f l) as [s1 r1] eqn:E1.
  destruct (take_name_shape _ _ _ _ E1) as (El & Hs1 & Hr1). subst l.
  destruct s1 as [|s0 s1t]; [discriminate|].
  destruct Hr1 as [-> | (b & t0 & -> & Hb)].
  - cbn. intros X; inversion X; subst. congruence.
  - rewrite Hb. destruct (take_name f t0) as [sh' r3] eqn:E2. intros X Hne; inversion X; subst sh' r3 srv.
    destruct (take_name_shape _ _ _ _ E2) as (El & Hsh & Hr3). subst t0.
    destruct Hr3 as [-> | Hr3]; [congruence|].
    exists ((s0 :: s1t) ++ b :: sh). split; [rewrite <- app_assoc; reflexivity|].
    split; [rewrite app_length; cbn [length]; lia|]. split; [exact Hr3|].
    intros r' Hr'. rewrite <- app_assoc.
    rewrite (take_name_repl f (s0 :: s1t) ((b :: sh) ++ r') Hs1) by (right; exists b, (sh ++ r'); split; [reflexivity | exact Hb]).
    cbn [app]. rewrite Hb. rewrite (take_name_repl f sh r' Hsh (or_intror Hr')). reflexivity.
Qed.

(* ---------- the grammar, cut into its alternatives ---------- *)
Definition unc_alt (l : list byte) : option (wprefix * list byte) :=
  match l with
  | a :: b :: t => if s_sep_any a && s_sep_any b then
                     match unc_parts s_sep_any t with Some (srv, sh, r) => Some (UNC srv sh, r) | None => None end
                   else None
  | _ => None
  end.
Definition tail_alt (l : list byte) : option (wprefix * list byte) :=
  match unc_alt l with Some x => Some x | None => match disk_at l with Some (dl, r) => Some (Disk dl, r) | None => None end end.
Definition vunc_alt (sep : byte -> bool) (rest : list byte) : option (wprefix * list byte) :=
  match starts_unc_lit rest with
  | Some (s :: t) => if sep s then match unc_parts sep t with Some (srv, sh, r) => Some (VerbatimUNC srv sh, r) | None => None end else None
  | _ => None
  end.
Definition verb_alt (sep : byte -> bool) (l rest : list byte) : option (wprefix * list byte) :=
  match vunc_alt sep rest with
  | Some x => Some x
  | None =>
      match disk_at rest with
      | Some (dl, r) => Some (VerbatimDisk dl, r)
      | None =>
          let (x, r) := take_name sep rest in
          match x, r with
          | _ :: _, _ => Some (Verbatim x, r)
          | [], s :: _ => if sep s then Some (Verbatim [], rest) else unc_alt l
          | [], [] => unc_alt l
          end
      end
  end.
Definition dev_alt (l rest : list byte) : option (wprefix * list byte) :=
  let (x, r) := take_name s_sep_any rest in
  match x with _ :: _ => Some (DeviceNS x, r) | [] => unc_alt l end.
Definition hdr (l : list byte) : bool :=
  match l with a :: b :: _ :: d :: _ => s_sep_any a && s_sep_any b && s_sep_any d | _ => false end.
Lemma grammar_eq l : wprefix_grammar l =
  match l with
  | a :: b :: c :: d :: rest =>
      if s_sep_any a && s_sep_any b && s_sep_any d then
        if c =? 63 then verb_alt (s_wsep (s_norm l)) l rest
        else if c =? 46 then dev_alt l rest else unc_alt l
      else tail_alt l
  | _ => tail_alt l
  end.
Proof. destruct l as [|a [|b [|c [|d rest]]]]; reflexivity. Qed.
Lemma grammar_tail_eq l : hdr l = false -> wprefix_grammar l = tail_alt l.
Proof.
  intros H. rewrite grammar_eq. destruct l as [|a [|b [|c [|d rest]]]]; try reflexivity. cbn [hdr] in H. rewrite H. reflexivity.
Qed.
Lemma hdr_app p x y : (4 <= length p)%nat -> hdr (p ++ x) = hdr (p ++ y).
Proof. intros H. destruct p as [|a [|b [|c [|d t]]]]; cbn [length] in H; try lia. reflexivity. Qed.
Lemma hdr_false_norm l : hdr l = false -> s_norm l = true.
Proof.
  destruct l as [|a [|b [|c [|d rest]]]]; try reflexivity. cbn [hdr s_norm]. unfold s_sep_any. intros H.
  destruct (a =? 92); [|reflexivity]. destruct (b =? 92); [|reflexivity]. destruct (c =? 63); [|reflexivity].
  destruct (d =? 92); [|reflexivity]. cbn in H. discriminate.
Qed.

(* ---------- the alternatives under replacement of the rest ---------- *)
Lemma unc_alt_repl a b t k r : unc_alt (a :: b :: t) = Some (k, r) -> r <> [] ->
  s_sep_any a = true /\ s_sep_any b = true /\ k_verbatim k = false /\
  exists p0, t = p0 ++ r /\ (2 <= length p0)%nat /\ sep_headed s_sep_any r /\
             forall r', sep_headed s_sep_any r' -> unc_alt (a :: b :: p0 ++ r') = Some (k, r').
Proof.
  cbn [unc_alt]. destruct (s_sep_any a) eqn:Ha; [|discriminate]. destruct (s_sep_any b) eqn:Hb; [|discriminate]. cbn [andb].
  destruct (unc_parts s_sep_any t) as [[[srv sh] r0]|] eqn:E; [|discriminate]. intros X Hne; inversion X; subst k r0.
  destruct (unc_parts_repl _ _ _ _ _ E Hne) as (p0 & -> & Hlen & Hr & S).
  split; [reflexivity|]. split; [reflexivity|]. split; [reflexivity|].
  exists p0. split; [reflexivity|]. split; [exact Hlen|]. split; [exact Hr|].
  intros r' Hr'. rewrite (S r' Hr'). reflexivity.
Qed.
Lemma sep_any_63 : s_sep_any 63 = false.  Proof. reflexivity. Qed.
Lemma sep_any_46 : s_sep_any 46 = false.  Proof. reflexivity. Qed.
(* the four-byte headers alone read as \\? or \\. with an empty share and nothing left *)
Lemma unc_alt_hdr_only a b c d k r : s_sep_any c = false -> s_sep_any d = true ->
  unc_alt [a; b; c; d] = Some (k, r) -> r = [].
Proof.
  intros Hc Hd. cbn [unc_alt]. destruct (s_sep_any a && s_sep_any b); [|discriminate].
  unfold unc_parts, take_name. cbn [span_nsep]. rewrite Hc, Hd. cbn [span_nsep]. rewrite Hd.
  intros X; inversion X. reflexivity.
Qed.

Lemma unc_parts_hdr c d s t : s_sep_any c = false -> s_sep_any d = true -> s_sep_any s = true ->
  unc_parts s_sep_any (c :: d :: s :: t) = Some ([c], [], s :: t).
Proof.
  intros Hc Hd Hs. unfold unc_parts, take_name. cbn [span_nsep]. rewrite Hc, Hd. cbv beta iota zeta. rewrite Hd.
  cbn [span_nsep]. rewrite Hs. reflexivity.
Qed.

Definition fits (k : wprefix) (r' : list byte) : Prop :=
  match k with Disk _ => True | _ => sep_headed s_sep_any r' end.

Lemma s_norm_not63 a b c d t : (c =? 63) = false -> s_norm (a :: b :: c :: d :: t) = true.
Proof. intros H. cbn [s_norm]. rewrite H. rewrite andb_false_r. reflexivity. Qed.

(* The theorem: a non-verbatim prefix followed by a non-empty rest is read the same way whatever follows
   it, as long as what follows begins with a separator (drive: anything at all). *)
Theorem grammar_repl l k r : wprefix_grammar l = Some (k, r) -> k_verbatim k = false -> r <> [] ->
  exists p, l = p ++ r /\ p <> [] /\ fits k r /\
            forall r', fits k r' -> wprefix_grammar (p ++ r') = Some (k, r') /\ s_norm (p ++ r') = true.
Proof.
  intros H Hk Hne. destruct (hdr l) eqn:Eh.
  - (* a \\x\ header *)
    rewrite grammar_eq in H. destruct l as [|a [|b [|c [|d rest]]]]; try discriminate. cbn [hdr] in Eh. rewrite Eh in H.
    apply andb_true_iff in Eh as [Eab Hd]. apply andb_true_iff in Eab as [Ha Hb].
    destruct (c =? 63) eqn:E63.
    + (* \\?\ : every result is verbatim, except the bare header *)
      exfalso. apply N.eqb_eq in E63. subst c. unfold verb_alt in H.
      destruct (vunc_alt _ rest) as [[k1 r1]|] eqn:Ev.
      { inversion H; subst k1 r1. unfold vunc_alt in Ev. destruct (starts_unc_lit rest) as [[|s t]|]; try discriminate.
        destruct (s_wsep _ s); [|discriminate]. destruct (unc_parts _ t) as [[[srv sh] r0]|]; [|discriminate].
        inversion Ev; subst k. discriminate. }
      destruct (disk_at rest) as [[dl r1]|]; [inversion H; subst k; discriminate|].
      destruct (take_name _ rest) as [x r1] eqn:Et. destruct x as [|x0 xt]; [|inversion H; subst k; discriminate].
      destruct (take_name_shape _ _ _ _ Et) as (El & _ & Hr1). cbn [app] in El. subst r1.
      destruct Hr1 as [-> | (s & t & -> & Hs)].
      * apply (unc_alt_hdr_only a b 63 d k r sep_any_63 Hd) in H. congruence.
      * rewrite Hs in H. inversion H; subst k. discriminate.
    + destruct (c =? 46) eqn:E46.
      * (* \\.\ *)
        apply N.eqb_eq in E46. subst c. unfold dev_alt in H.
        destruct (take_name s_sep_any rest) as [x r1] eqn:Et. destruct (take_name_shape _ _ _ _ Et) as (El & Hx & Hr1).
        destruct x as [|x0 xt].
        { (* no device name: \\. is a server *)
          cbn [app] in El. subst r1. destruct Hr1 as [-> | Hr1].
          - apply (unc_alt_hdr_only a b 46 d k r sep_any_46 Hd) in H. congruence.
          - destruct Hr1 as (s & t & -> & Hs). revert H. cbn [unc_alt]. rewrite Ha, Hb. cbn [andb].
            rewrite (unc_parts_hdr 46 d s t sep_any_46 Hd Hs).
            intros X; inversion X; subst k r.
            exists [a; b; 46; d]. split; [reflexivity|]. split; [discriminate|]. split; [exists s, t; auto|].
            intros r' (s' & t' & -> & Hs'). split; [|apply s_norm_not63; reflexivity].
            rewrite grammar_eq. cbn [app]. rewrite Ha, Hb, Hd. cbn [andb]. cbn [N.eqb Pos.eqb]. unfold dev_alt.
            rewrite (take_name_sep_headed s_sep_any (s' :: t')) by (exists s', t'; auto).
            cbn [unc_alt]. rewrite Ha, Hb. cbn [andb].
            rewrite (unc_parts_hdr 46 d s' t' sep_any_46 Hd Hs'). reflexivity. }
        inversion H; subst k r1. subst rest. destruct Hr1 as [-> | Hr1]; [congruence|].
        exists ([a; b; 46; d] ++ x0 :: xt). split; [rewrite <- app_assoc; reflexivity|]. split; [discriminate|]. split; [exact Hr1|].
        intros r' Hr'. cbn [fits] in Hr'. rewrite <- app_assoc. cbn [app]. split; [|apply s_norm_not63; reflexivity].
        rewrite grammar_eq. rewrite Ha, Hb, Hd. cbn [andb]. cbn [N.eqb Pos.eqb]. unfold dev_alt.
        change (x0 :: xt ++ r') with ((x0 :: xt) ++ r'). rewrite (take_name_repl s_sep_any (x0 :: xt) r' Hx (or_intror Hr')). reflexivity.
      * (* \\x\ with x neither ? nor . *)
        destruct (unc_alt_repl a b (c :: d :: rest) k r H Hne) as (_ & _ & _ & p0 & El & Hlen & Hr & S).
        destruct p0 as [|c' [|d' p1]]; cbn [length] in Hlen; try lia. cbn [app] in El. inversion El; subst c' d' rest.
        exists (a :: b :: c :: d :: p1). split; [reflexivity|]. split; [discriminate|].
        assert (Hfit : forall z, fits k z -> sep_headed s_sep_any z).
        { intros z Hz. cbn [unc_alt] in H. rewrite Ha, Hb in H. cbn [andb] in H.
          destruct (unc_parts s_sep_any (c :: d :: p1 ++ r)) as [[[srv sh] r0]|]; [|discriminate]. inversion H; subst k. exact Hz. }
        split.
        { cbn [unc_alt] in H. rewrite Ha, Hb in H. cbn [andb] in H.
          destruct (unc_parts s_sep_any (c :: d :: p1 ++ r)) as [[[srv sh] r0]|]; [|discriminate]. inversion H; subst k. exact Hr. }
        intros r' Hr'. cbn [app]. split; [|apply s_norm_not63; exact E63].
        rewrite grammar_eq. rewrite Ha, Hb, Hd. cbn [andb]. rewrite E63, E46.
        apply (S r' (Hfit r' Hr')).
  - (* no header: UNC, then drive *)
    rewrite (grammar_tail_eq l Eh) in H. unfold tail_alt in H.
    destruct (unc_alt l) as [[k1 r1]|] eqn:Eu.
    + inversion H; subst k1 r1. destruct l as [|a [|b t]]; try discriminate.
      destruct (unc_alt_repl a b t k r Eu Hne) as (Ha & Hb & _ & p0 & -> & Hlen & Hr & S).
      assert (Hfit : forall z, fits k z -> sep_headed s_sep_any z).
      { intros z Hz. cbn [unc_alt] in Eu. rewrite Ha, Hb in Eu. cbn [andb] in Eu.
        destruct (unc_parts s_sep_any (p0 ++ r)) as [[[srv sh] r0]|]; [|discriminate]. inversion Eu; subst k. exact Hz. }
      exists (a :: b :: p0). split; [reflexivity|]. split; [discriminate|].
      split.
      { cbn [unc_alt] in Eu. rewrite Ha, Hb in Eu. cbn [andb] in Eu.
        destruct (unc_parts s_sep_any (p0 ++ r)) as [[[srv sh] r0]|]; [|discriminate]. inversion Eu; subst k. exact Hr. }
      intros r' Hr'.
      assert (Eh' : hdr ((a :: b :: p0) ++ r') = false).
      { rewrite (hdr_app (a :: b :: p0) r' r) by (cbn [length]; lia). exact Eh. }
      split; [|apply hdr_false_norm; exact Eh'].
      rewrite (grammar_tail_eq _ Eh'). unfold tail_alt. cbn [app]. rewrite (S r' (Hfit r' Hr')). reflexivity.
    + destruct (disk_at l) as [[dl r1]|] eqn:Ed; [|discriminate]. inversion H; subst k r1.
      unfold disk_at in Ed. destruct l as [|d0 [|c0 t]]; try discriminate.
      destruct (s_alpha d0) eqn:Hal; [|discriminate]. destruct (c0 =? 58) eqn:E58; [|discriminate].
      apply N.eqb_eq in E58. subst c0. cbn [andb] in Ed. inversion Ed; subst dl t.
      exists [d0; 58]. split; [reflexivity|]. split; [discriminate|]. split; [exact I|].
      intros r' _. cbn [app]. exact (disk_grammar d0 r' Hal).
Qed.

(* ---------- the decomposition of such a path, whatever follows the prefix ---------- *)
Theorem wspec_prefixed l k r : wprefix_grammar l = Some (k, r) -> k_verbatim k = false -> r <> [] ->
  exists p, l = p ++ r /\ p <> [] /\ fits k r /\
            forall r', fits k r' -> wspec (p ++ r') = WPrefix p k :: map WC (WCOMPS r').
Proof.
  intros H Hk Hne. destruct (grammar_repl l k r H Hk Hne) as (p & El & Hp & Hf & S).
  exists p. split; [exact El|]. split; [exact Hp|]. split; [exact Hf|].
  intros r' Hr'. destruct (S r' Hr') as (G & N). unfold wspec. rewrite G, N.
  rewrite (gcomps_spec wany wany_dot).
  replace (length (p ++ r') - length r')%nat with (length p) by (rewrite app_length; lia).
  rewrite firstn_app, Nat.sub_diag, firstn_all. cbn [firstn]. rewrite app_nil_r. reflexivity.
Qed.

Lemma rev_last_app (p r : list byte) : r <> [] -> match rev (p ++ r) with b :: _ => Some b | [] => None end = match rev r with b :: _ => Some b | [] => None end.
Proof.
  intros H. rewrite rev_app_distr. destruct (rev r) as [|z zs] eqn:E; [|reflexivity].
  exfalso. apply H. rewrite <- (rev_involutive r), E. reflexivity.
Qed.
Lemma ends_in_sep_app p r : r <> [] -> ends_in_sep (p ++ r) = g_ends_sep wany r.
Proof.
  intros H. unfold ends_in_sep, g_ends_sep. pose proof (rev_last_app p r H) as E.
  destruct (rev (p ++ r)) as [|x xs]; destruct (rev r) as [|y ys]; try discriminate; [reflexivity|]. inversion E. reflexivity.
Qed.
Lemma fits_app k r e : r <> [] -> fits k r -> fits k (r ++ e).
Proof.
  intros Hne. destruct k; cbn [fits]; try exact (fun x => x); intros (s9 & t9 & -> & Hs9); exists s9, (t9 ++ e); auto.
Qed.

(* ---------- the joining rules on a base with a UNC / device / drive prefix and a non-empty rest ---------- *)
Theorem join_spec_prefixed a k r b : wprefix_grammar a = Some (k, r) -> k_verbatim k = false -> r <> [] -> noprefix b = true ->
  exists p, a = p ++ r /\ wspec a = WPrefix p k :: map WC (WCOMPS r) /\ join_spec a b = p ++ WJOIN r b /\
            (b <> [] -> fits k (WJOIN r b)) /\ wspec (p ++ WJOIN r b) = WPrefix p k :: map WC (WCOMPS (WJOIN r b)).
Proof.
  intros H Hk Hne Hb. destruct (wspec_prefixed a k r H Hk Hne) as (p & El & Hp & Hf & S).
  pose proof (S r Hf) as Wa. rewrite <- El in Wa.
  destruct (sp_plain b Hb) as (Bp & _ & _ & _ & Br).
  assert (Hcr : WCOMPS r <> []) by (intros X; apply gcomps_nil_inv in X; congruence).
  assert (Fj : b <> [] -> fits k (WJOIN r b)).
  { intros Hbne. unfold gjoin. destruct b as [|b0 bt] eqn:Eb; [congruence|]. rewrite <- Eb in *.
    destruct (g_rooted wany b) eqn:Hr.
    - destruct k; cbn [fits]; try exact I; unfold g_rooted, root_ok in Hr; rewrite Eb in Hr; exists b0, bt; rewrite Eb; auto.
    - destruct r as [|r0 rt] eqn:Er; [congruence|]. rewrite <- Er in *.
      destruct (g_ends_sep wany r); [apply fits_app; assumption|].
      change (r ++ 92 :: b) with (r ++ (92 :: b)). apply fits_app; assumption. }
  exists p. split; [exact El|]. split; [exact Wa|].
  assert (J : join_spec a b = p ++ WJOIN r b).
  { unfold join_spec, gjoin. destruct b as [|b0 bt] eqn:Eb; [exact El|].
    rewrite <- Eb in *. rewrite Bp, Br. unfold sp_verbatim, sp_prefix_raw, sp_bare_drive, sp_prefix. rewrite Wa. rewrite Hk.
    destruct (g_rooted wany b); [reflexivity|].
    replace (match WPrefix p k :: map WC (WCOMPS r) with [WPrefix _ (Disk _)] => true | _ => false end) with false
      by (destruct (WCOMPS r); [congruence | destruct k; reflexivity]).
    rewrite orb_false_r. rewrite El. rewrite (ends_in_sep_app p r Hne).
    destruct (p ++ r) as [|z zs] eqn:Epr; [destruct p; [congruence | discriminate]|]. cbn [orb]. rewrite <- Epr.
    destruct r as [|r0 rt] eqn:Er; [congruence|]. rewrite <- Er in *.
    destruct (g_ends_sep wany r); rewrite <- app_assoc; reflexivity. }
  split; [exact J|]. split; [exact Fj|].
  destruct b as [|b0 bt] eqn:Eb.
  - unfold gjoin. apply S. exact Hf.
  - rewrite <- Eb in *. apply S. apply Fj. rewrite Eb. discriminate.
Qed.

(* component-level reading: a relative, prefix-free, non-empty b appends its components (minus a leading ".") *)
Theorem wspec_join_prefixed a k r b : wprefix_grammar a = Some (k, r) -> k_verbatim k = false -> r <> [] ->
  noprefix b = true -> g_rooted wany b = false -> b <> [] ->
  wspec (w_push a b) = wspec a ++ map WC (gadded wany b).
Proof.
  intros H Hk Hne Hb Hr Hbne. destruct (join_spec_prefixed a k r b H Hk Hne Hb) as (p & El & Wa & J & _ & W).
  rewrite w_push_join_spec, J, W, Wa. rewrite (gjoin_comps_all wany 92 wany_92).
  destruct b as [|b0 bt] eqn:Eb; [congruence|]. rewrite <- Eb in *. rewrite Hr.
  destruct r as [|r0 rt] eqn:Er; [congruence|]. rewrite <- Er in *. rewrite map_app. reflexivity.
Qed.
(* ... and a rooted, prefix-free b replaces everything but the prefix *)
Theorem wspec_join_rooted_prefixed a k r b : wprefix_grammar a = Some (k, r) -> k_verbatim k = false -> r <> [] ->
  noprefix b = true -> g_rooted wany b = true ->
  exists p, a = p ++ r /\ wspec (w_push a b) = WPrefix p k :: map WC (WCOMPS b).
Proof.
  intros H Hk Hne Hb Hr. destruct (join_spec_prefixed a k r b H Hk Hne Hb) as (p & El & Wa & J & _ & W).
  exists p. split; [exact El|]. rewrite w_push_join_spec, J, W. rewrite (gjoin_comps_all wany 92 wany_92).
  destruct b as [|b0 bt] eqn:Eb; [discriminate|]. rewrite <- Eb in *. rewrite Hr. reflexivity.
Qed.
(* the checked join onto such a base: on success the result's components are exactly the base's components
   followed by what p adds -- the containment sentence of C04 for UNC / device / drive bases with a body *)
Theorem w_push_checked_contains_prefixed a k r p : wprefix_grammar a = Some (k, r) -> k_verbatim k = false -> r <> [] ->
  p <> [] -> w_scan (wspec p) O = None ->
  w_push_checked a p = (w_push a p, None) /\ wspec (w_push a p) = wspec a ++ map WC (gadded wany p).
Proof.
  intros H Hk Hne Hp Hs. destruct (scan_none_simple p Hs) as (Hn & Hr). split.
  - unfold w_push_checked. rewrite w_components_wspec, Hs. reflexivity.
  - apply (wspec_join_prefixed a k r p H Hk Hne Hn Hr Hp).
Qed.

(* ================= the verbatim kinds ================= *)
(* The same stability for \\?\name, \\?\UNC\server\share and \\?\X: -- with one kind left out, and it is the
   recorded finding D17: the verbatim prefix NAMED exactly "UNC".  \\?\UNC\ followed by a separator reads as
   Verbatim("UNC") (the server would be empty), but replace what follows by a separator and a name and it reads
   as VerbatimUNC(name).  Every other verbatim prefix with a non-empty rest is read the same way whatever
   follows it. *)
Definition fitsv (f : byte -> bool) (k : wprefix) (r' : list byte) : Prop :=
  match k with VerbatimDisk _ => True | _ => sep_headed f r' end.

Lemma wsep_any norm b : s_wsep norm b = true -> s_sep_any b = true.
Proof. unfold s_wsep, s_sep_any. destruct (b =? 92); [reflexivity|]. destruct norm; cbn [andb orb]; [exact (fun x => x) | discriminate]. Qed.
Lemma wsep_not_unc norm b : s_wsep norm b = true -> (b =? 85) = false /\ (b =? 78) = false /\ (b =? 67) = false /\ (b =? 58) = false /\ s_alpha b = false.
Proof.
  intros H. apply wsep_any in H. pose proof H as H'. unfold s_sep_any in H. apply orb_true_iff in H as [E | E]; apply N.eqb_eq in E; subst b; repeat split; reflexivity.
Qed.
Lemma sul_some l t : starts_unc_lit l = Some t -> l = 85 :: 78 :: 67 :: t.
Proof.
  unfold starts_unc_lit. destruct l as [|a [|b [|c t0]]]; try discriminate.
  destruct (a =? 85) eqn:Ea; [|discriminate]. destruct (b =? 78) eqn:Eb; [|discriminate]. destruct (c =? 67) eqn:Ec; [|discriminate].
  cbn [andb]. intros X; inversion X; subst. apply N.eqb_eq in Ea, Eb, Ec. subst. reflexivity.
Qed.
(* a separator-free name other than "UNC", followed by a separator (or nothing): never the \\?\UNC\ form *)
Lemma vunc_none_name norm x r' : forallb (fun b => negb (s_wsep norm b)) x = true -> x <> [85; 78; 67] ->
  (r' = [] \/ sep_headed (s_wsep norm) r') -> vunc_alt (s_wsep norm) (x ++ r') = None.
Proof.
  intros Hx Hne Hr. unfold vunc_alt. destruct (starts_unc_lit (x ++ r')) as [[|s t]|] eqn:E; try reflexivity.
  destruct (s_wsep norm s) eqn:Hs; [|reflexivity]. exfalso. apply sul_some in E.
  destruct (wsep_not_unc norm s Hs) as (_ & _ & _ & _ & _).
  assert (Hhead : forall z zs, r' = z :: zs -> s_wsep norm z = true).
  { intros z zs ->. destruct Hr as [X | (s1 & t1 & X & Hs1)]; [discriminate|]. inversion X; subst. exact Hs1. }
  destruct x as [|x0 [|x1 [|x2 [|x3 xt]]]]; cbn [app] in E.
  - specialize (Hhead _ _ E). destruct (wsep_not_unc norm 85 Hhead) as (X & _). discriminate.
  - inversion E as [[E0 E1]]. specialize (Hhead _ _ E1). destruct (wsep_not_unc norm 78 Hhead) as (_ & X & _). discriminate.
  - inversion E as [[E0 E1 E2]]. specialize (Hhead _ _ E2). destruct (wsep_not_unc norm 67 Hhead) as (_ & _ & X & _). discriminate.
  - destruct r' as [|z zs].
    + cbn [app] in E. discriminate.
    + cbn [app] in E. inversion E. subst. apply Hne. reflexivity.
  - inversion E. subst x0 x1 x2 x3. cbn [forallb] in Hx. rewrite Hs in Hx. cbn in Hx. rewrite !andb_false_r in Hx. discriminate.
Qed.
Lemma disk_none_name norm x r r' : forallb (fun b => negb (s_wsep norm b)) x = true ->
  sep_headed (s_wsep norm) r -> sep_headed (s_wsep norm) r' -> disk_at (x ++ r) = None -> disk_at (x ++ r') = None.
Proof.
  intros Hx (s & t & -> & Hs) (s' & t' & -> & Hs') H.
  destruct x as [|x0 [|x1 xt]]; cbn [app] in *.
  - unfold disk_at. destruct (wsep_not_unc norm s' Hs') as (_ & _ & _ & _ & Ha). rewrite Ha. destruct t'; reflexivity.
  - unfold disk_at. destruct (wsep_not_unc norm s' Hs') as (_ & _ & _ & E58 & _). rewrite E58, andb_false_r. reflexivity.
  - unfold disk_at in *. destruct (s_alpha x0 && (x1 =? 58)); [discriminate | reflexivity].
Qed.
Lemma vunc_disk_none f d0 r' : vunc_alt f (d0 :: 58 :: r') = None.
Proof.
  unfold vunc_alt, starts_unc_lit. destruct r' as [|c1 t1]; [reflexivity|].
  replace ((d0 =? 85) && (58 =? 78) && (c1 =? 67)) with false by (destruct (d0 =? 85); reflexivity). reflexivity.
Qed.
Lemma s_norm_app p x y : (4 <= length p)%nat -> s_norm (p ++ x) = s_norm (p ++ y).
Proof. intros H. destruct p as [|a [|b [|c [|d t]]]]; cbn [length] in H; try lia. reflexivity. Qed.
Lemma unc_alt_kind l k r : unc_alt l = Some (k, r) -> k_verbatim k = false.
Proof.
  unfold unc_alt. destruct l as [|a [|b t]]; try discriminate. destruct (s_sep_any a && s_sep_any b); [|discriminate].
  destruct (unc_parts s_sep_any t) as [[[srv sh] r0]|]; [|discriminate]. intros X; inversion X. reflexivity.
Qed.
Lemma tail_alt_kind l k r : tail_alt l = Some (k, r) -> k_verbatim k = false.
Proof.
  unfold tail_alt. destruct (unc_alt l) as [[k1 r1]|] eqn:E.
  - intros X; inversion X; subst. apply (unc_alt_kind _ _ _ E).
  - destruct (disk_at l) as [[dl r1]|]; [|discriminate]. intros X; inversion X. reflexivity.
Qed.

Theorem grammar_repl_verbatim l k r : wprefix_grammar l = Some (k, r) -> k_verbatim k = true ->
  k <> Verbatim [85; 78; 67] -> r <> [] ->
  exists p, l = p ++ r /\ (4 <= length p)%nat /\ fitsv (s_wsep (s_norm l)) k r /\
            forall r', fitsv (s_wsep (s_norm l)) k r' ->
                       wprefix_grammar (p ++ r') = Some (k, r') /\ s_norm (p ++ r') = s_norm l.
Proof.
  intros H Hk Hunc Hne. rewrite grammar_eq in H.
  destruct l as [|a [|b [|c [|d rest]]]]; try (apply tail_alt_kind in H; congruence).
  destruct (s_sep_any a && s_sep_any b && s_sep_any d) eqn:Eh; [|apply tail_alt_kind in H; congruence].
  destruct (c =? 63) eqn:E63.
  2:{ exfalso. destruct (c =? 46).
      - unfold dev_alt in H. destruct (take_name s_sep_any rest) as [x r1]. destruct x; [apply unc_alt_kind in H; congruence|].
        inversion H; subst k. discriminate.
      - apply unc_alt_kind in H. congruence. }
  apply N.eqb_eq in E63. subst c.
  set (l0 := a :: b :: 63 :: d :: rest) in *. set (f := s_wsep (s_norm l0)) in *.
  (* whatever is put after a piece of at least four bytes: same header, same normalisation *)
  assert (G : forall h x, (a :: b :: 63 :: d :: h) ++ x = a :: b :: 63 :: d :: (h ++ x)) by reflexivity.
  assert (Nrm : forall h x, s_norm (a :: b :: 63 :: d :: h ++ x) = s_norm l0) by reflexivity.
  assert (Geq : forall z, wprefix_grammar (a :: b :: 63 :: d :: z) = verb_alt f (a :: b :: 63 :: d :: z) z).
  { intros z. rewrite grammar_eq. rewrite Eh. cbn [N.eqb Pos.eqb]. reflexivity. }
  unfold verb_alt in H.
  destruct (vunc_alt f rest) as [[k1 r1]|] eqn:Ev.
  - (* \\?\UNC\server\share *)
    inversion H; subst k1 r1. clear H. unfold vunc_alt in Ev.
    destruct (starts_unc_lit rest) as [[|s t]|] eqn:Es; try discriminate. apply sul_some in Es. subst rest.
    destruct (f s) eqn:Hs; [|discriminate]. destruct (unc_parts f t) as [[[srv sh] r0]|] eqn:Eu; [|discriminate].
    inversion Ev; subst k r0. clear Ev.
    destruct (unc_parts_repl f t srv sh r Eu Hne) as (p0 & -> & _ & Hr & S).
    exists (a :: b :: 63 :: d :: 85 :: 78 :: 67 :: s :: p0). split; [reflexivity|]. split; [cbn [length]; lia|]. split; [exact Hr|].
    intros r' Hr'. cbn [fitsv] in Hr'. split; [|reflexivity]. cbn [app].
    rewrite (Geq (85 :: 78 :: 67 :: s :: p0 ++ r')). unfold verb_alt, vunc_alt. cbn [starts_unc_lit N.eqb Pos.eqb andb].
    rewrite Hs. rewrite (S r' Hr'). reflexivity.
  - destruct (disk_at rest) as [[dl r1]|] eqn:Ed.
    + (* \\?\X: *)
      inversion H; subst k r1. clear H. unfold disk_at in Ed. destruct rest as [|d0 [|c0 t]]; try discriminate.
      destruct (s_alpha d0) eqn:Hal; [|discriminate]. destruct (c0 =? 58) eqn:E58; [|discriminate].
      apply N.eqb_eq in E58. subst c0. cbn [andb] in Ed. inversion Ed; subst dl t.
      exists [a; b; 63; d; d0; 58]. split; [reflexivity|]. split; [cbn [length]; lia|]. split; [exact I|].
      intros r' _. split; [|reflexivity]. cbn [app]. rewrite (Geq (d0 :: 58 :: r')). unfold verb_alt.
      rewrite (vunc_disk_none f d0 r'). unfold disk_at. rewrite Hal. cbn [N.eqb Pos.eqb andb]. reflexivity.
    + destruct (take_name f rest) as [x r1] eqn:Et. destruct (take_name_shape _ _ _ _ Et) as (El & Hx & Hr1).
      destruct x as [|x0 xt].
      * (* \\?\ followed by a separator: the empty name *)
        cbn [app] in El. subst r1. destruct Hr1 as [-> | Hr1]; [apply unc_alt_kind in H; congruence|].
        destruct Hr1 as (s & t & -> & Hs). rewrite Hs in H. inversion H; subst k r. clear H.
        exists [a; b; 63; d]. split; [reflexivity|]. split; [cbn [length]; lia|]. split; [exists s, t; auto|].
        intros r' (s' & t' & -> & Hs'). split; [|reflexivity]. cbn [app]. rewrite (Geq (s' :: t')). unfold verb_alt.
        destruct (wsep_not_unc _ s' Hs') as (E85 & _ & _ & _ & Hal).
        replace (vunc_alt f (s' :: t')) with (@None (wprefix * list byte))
          by (unfold vunc_alt, starts_unc_lit; destruct t' as [|u [|v w]]; try reflexivity; rewrite E85; reflexivity).
        replace (disk_at (s' :: t')) with (@None (byte * list byte)) by (unfold disk_at; destruct t'; [reflexivity|]; rewrite Hal; reflexivity).
        rewrite (take_name_sep_headed f (s' :: t')) by (exists s', t'; auto). rewrite Hs'. reflexivity.
      * (* \\?\name *)
        inversion H; subst k r1. clear H. subst rest. destruct Hr1 as [-> | Hr1]; [congruence|].
        assert (Hxn : x0 :: xt <> [85; 78; 67]) by (intros X; apply Hunc; rewrite X; reflexivity).
        exists ([a; b; 63; d] ++ x0 :: xt). split; [rewrite <- app_assoc; reflexivity|]. split; [rewrite app_length; cbn [length]; lia|].
        split; [exact Hr1|]. intros r' Hr'. cbn [fitsv] in Hr'. split; [|rewrite <- app_assoc; reflexivity].
        rewrite <- app_assoc. cbn [app]. change (x0 :: xt ++ r') with ((x0 :: xt) ++ r'). rewrite (Geq ((x0 :: xt) ++ r')). unfold verb_alt.
        unfold f in *.
        rewrite (vunc_none_name (s_norm l0) (x0 :: xt) r' Hx Hxn (or_intror Hr')).
        rewrite (disk_none_name (s_norm l0) (x0 :: xt) r r' Hx Hr1 Hr' Ed).
        rewrite (take_name_repl (s_wsep (s_norm l0)) (x0 :: xt) r' Hx (or_intror Hr')). reflexivity.
Qed.
(* the finding, as the exception the theorem carries: named "UNC", a separator and a name re-read as \\?\UNC\name *)
Lemma grammar_repl_verbatim_unc_refuted :
  wprefix_grammar [92;92;63;92;85;78;67;92] = Some (Verbatim [85;78;67], [92]) /\
  wprefix_grammar ([92;92;63;92;85;78;67] ++ [92;120]) = Some (VerbatimUNC [120] [], []).
Proof. vm_compute. split; reflexivity. Qed.
