(* C11 (Windows, paths without UNC / verbatim / device prefix whose names carry no drive look-alike):
   normalize reads back as the lexical fold. *)
From Coq Require Import List NArith Bool Lia Arith.
Import ListNotations.
From TP Require Import Core CoreProofs CoreSched Path Unix Win Spec Ops UnixProofs C02Proofs C04Proofs C08Proofs C11Proofs GenJoin WinSimple C16Proofs.
Open Scope N_scope.

Notation NFC := (norm_fold comp c_is_normal c_is_parent c_is_current).
Notation NFW := (norm_fold wcomp wc_is_normal wc_is_parent wc_is_current).

(* ---- the fold over Windows components whose tail are ordinary components ---- *)
Lemma nfw_map cs : forall acc, NFW (map WC cs) (map WC acc) = map WC (NFC cs acc).
Proof.
  induction cs as [|c cs IH]; intros acc; cbn [norm_fold map]; [rewrite map_rev; reflexivity|].
  destruct c; cbn [wc_is_current wc_is_parent c_is_current c_is_parent negb andb]; try (rewrite <- IH; reflexivity).
  destruct acc as [|x acc']; cbn [map]; [apply (IH [])|]. destruct x; cbn [wc_is_normal c_is_normal]; [apply (IH (Root :: acc')) | apply (IH (Cur :: acc')) | apply (IH (Parent :: acc')) | apply (IH acc')].
Qed.
(* every element the fold keeps comes from the input or the stack; a root at the bottom of the stack stays first *)
Lemma nf_sub cs : forall acc c, In c (NFC cs acc) -> In c cs \/ In c acc.
Proof.
  induction cs as [|x cs IH]; intros acc c Hx; cbn [norm_fold] in Hx.
  - right. apply in_rev. exact Hx.
  - destruct (negb (c_is_current x) && negb (c_is_parent x)).
    + apply IH in Hx as [Hx|Hx]; [left; right; exact Hx|]. destruct Hx as [<-|Hx]; [left; left; reflexivity | right; exact Hx].
    + destruct (c_is_parent x).
      * destruct acc as [|y acc']; [apply IH in Hx as [Hx|Hx]; [left; right; exact Hx | right; exact Hx]|].
        destruct (c_is_normal y); apply IH in Hx as [Hx|Hx]; try (left; right; exact Hx); right; [right; exact Hx | exact Hx].
      * apply IH in Hx as [Hx|Hx]; [left; right; exact Hx | right; exact Hx].
Qed.
Lemma nf_root_head cs : forall acc, (exists a, rev acc = Root :: a) -> Forall (fun c => c <> Root /\ c <> Cur) cs ->
  exists r, NFC cs acc = Root :: r.
Proof.
  induction cs as [|c cs IH]; intros acc (a & Ea) Hc; cbn [norm_fold]; [eauto|].
  inversion Hc; subst. destruct c as [| | |n]; cbn [c_is_current c_is_parent negb andb]; try tauto.
  - destruct acc as [|x acc']; [apply IH; eauto|]. destruct (c_is_normal x) eqn:Hx; [|apply IH; eauto].
    apply IH; [|assumption]. cbn [rev] in Ea. destruct x; try discriminate.
    destruct (rev acc') as [|y ra]; [discriminate|]. inversion Ea; subst. eauto.
  - apply IH; [|assumption]. cbn [rev]. rewrite Ea. cbn. eauto.
Qed.

(* ---- shape of the folded list: an optional root, then names ---- *)
Definition pn (n : list byte) : Prop := gn wany n /\ noprefix n = true.
Definition pn_comp (c : comp) : Prop := match c with Normal n => pn n | _ => True end.
Definition pn_name (c : comp) : Prop := match c with Normal n => pn n | _ => False end.

Lemma nfc_names cs : forall acc, Forall pn_comp cs -> Forall (fun c => c <> Root /\ c <> Cur) cs ->
  (exists h ns, rev acc = h ++ ns /\ (h = [] \/ h = [Root]) /\ Forall pn_name ns) ->
  exists h ns, NFC cs acc = h ++ ns /\ (h = [] \/ h = [Root]) /\ Forall pn_name ns.
Proof.
  induction cs as [|c cs IH]; intros acc Hg Hnr Hacc; cbn [norm_fold]; [exact Hacc|].
  inversion Hg as [|? ? Gc Gcs]; subst. inversion Hnr as [|? ? Nc Ncs]; subst.
  destruct c as [| | |n]; cbn [c_is_current c_is_parent negb andb].
  - destruct Nc; congruence.
  - destruct Nc; congruence.
  - (* Parent *)
    destruct acc as [|x acc']; [apply IH; assumption|].
    destruct (c_is_normal x) eqn:Hx; [|apply IH; assumption].
    apply IH; try assumption. destruct Hacc as (h & ns & E & Hh & Hns). cbn [rev] in E.
    destruct x as [| | |m]; try discriminate.
    destruct (rev ns) as [|y rns] eqn:Er.
    + assert (ns = []) by (destruct ns; [reflexivity|]; cbn in Er; destruct (rev ns); discriminate). subst ns.
      rewrite app_nil_r in E. destruct Hh as [-> | ->].
      * destruct (rev acc'); discriminate.
      * exfalso. assert (X : rev (rev acc' ++ [Normal m]) = rev [Root]) by (rewrite E; reflexivity).
        rewrite rev_app_distr in X. cbn in X. discriminate.
    + assert (Ens : ns = rev rns ++ [y]) by (rewrite <- (rev_involutive ns), Er; reflexivity).
      rewrite Ens in E. rewrite app_assoc in E. apply app_inj_tail in E as [E _].
      exists h, (rev rns). split; [exact E|]. split; [exact Hh|].
      rewrite Ens in Hns. apply Forall_app in Hns as [Hns _]. exact Hns.
  - (* Normal *)
    apply IH; try assumption. destruct Hacc as (h & ns & E & Hh & Hns).
    exists h, (ns ++ [Normal n]). cbn [rev]. rewrite E. rewrite app_assoc. split; [reflexivity|]. split; [exact Hh|].
    apply Forall_app. split; [exact Hns|]. constructor; [exact Gc | constructor].
Qed.

(* ---- re-pushing onto a prefix-free buffer ---- *)
Notation WPUSHC := (fun (buf : list byte) (c : wcomp) => w_push buf (wc_bytes c)).
Lemma push_name_plain buf n : noprefix buf = true -> pn n ->
  noprefix (w_push buf n) = true /\ WCOMPS (w_push buf n) = WCOMPS buf ++ [Normal n].
Proof.
  intros Hb (G & Hn). rewrite (w_push_plain buf n Hb Hn). split.
  - apply noprefix_join; [exact Hb | exact Hn | apply (gn_not_rooted wany n G)].
  - apply (gjoin_gn wany 92 wany_dot wany_92 buf n G).
Qed.
Lemma fold_push_names_plain ns : forall buf, noprefix buf = true -> Forall pn_name ns ->
  noprefix (fold_left WPUSHC (map WC ns) buf) = true /\ WCOMPS (fold_left WPUSHC (map WC ns) buf) = WCOMPS buf ++ ns.
Proof.
  induction ns as [|c ns IH]; intros buf Hb H; cbn [fold_left map]; [rewrite app_nil_r; auto|].
  inversion H as [|? ? Hc Hns]; subst. destruct c as [| | |n]; cbn in Hc; try contradiction. cbn [wc_bytes].
  destruct (push_name_plain buf n Hb Hc) as (H1 & H2). destruct (IH _ H1 Hns) as (H3 & H4).
  split; [exact H3|]. rewrite H4, H2, <- app_assoc. reflexivity.
Qed.

(* the components of a prefix-free path, with the hypothesis on names written out *)
Definition names_plain (l : list byte) : Prop := Forall pn_comp (WCOMPS l).

Lemma w_normalize_unfold l : noprefix l = true -> w_normalize l = fold_left WPUSHC (map WC (NFC (WCOMPS l) [])) [].
Proof.
  intros Hl. unfold w_normalize, normalize.
  change (components wstate wcomp w_init w_nextf l) with (w_components l). rewrite w_components_wspec, (wspec_plain l Hl).
  pose proof (nfw_map (WCOMPS l) []) as Hm. cbn [map] in Hm. rewrite Hm. reflexivity.
Qed.
Lemma w_normalize_plain_struct l : noprefix l = true -> names_plain l ->
  exists h ns, (h = [] \/ h = [Root]) /\ Forall pn_name ns /\ NFC (WCOMPS l) [] = h ++ ns /\
               noprefix (w_normalize l) = true /\ WCOMPS (w_normalize l) = h ++ ns.
Proof.
  intros Hl Hnames. rewrite (w_normalize_unfold l Hl).
  destruct (wcomps_shape l) as (h0 & t & E & Hh0 & Ht & Hg). unfold names_plain in Hnames. rewrite E in *.
  apply Forall_app in Hnames as [_ Hnt].
  assert (Hshape : exists h ns, NFC (h0 ++ t) [] = h ++ ns /\ (h = [] \/ h = [Root]) /\ Forall pn_name ns).
  { destruct Hh0 as [-> | [-> | ->]]; cbn [app norm_fold c_is_current c_is_parent negb andb].
    - destruct (nfc_names t [] Hnt Ht) as (h & ns & E1 & Hh & Hns); [exists [], []; repeat split; auto|]. eauto.
    - destruct (nfc_names t [Root] Hnt Ht) as (h & ns & E1 & Hh & Hns); [exists [Root], []; repeat split; auto|]. eauto.
    - destruct (nfc_names t [] Hnt Ht) as (h & ns & E1 & Hh & Hns); [exists [], []; repeat split; auto|]. eauto. }
  destruct Hshape as (h & ns & E1 & Hh & Hns). exists h, ns. rewrite E1, map_app, fold_left_app.
  assert (Hstart : noprefix (fold_left WPUSHC (map WC h) []) = true /\ WCOMPS (fold_left WPUSHC (map WC h) []) = h).
  { destruct Hh as [-> | ->]; cbn; split; reflexivity. }
  destruct Hstart as (S1 & S2). destruct (fold_push_names_plain ns _ S1 Hns) as (F1 & F2).
  split; [exact Hh|]. split; [exact Hns|]. split; [reflexivity|]. split; [exact F1|]. rewrite F2, S2. reflexivity.
Qed.
(* the normalised path reads back as the lexical fold of the input's components *)
Theorem w_normalize_plain l : noprefix l = true -> names_plain l ->
  wspec (w_normalize l) = nfold (wspec l) [].
Proof.
  intros Hl Hnames. destruct (w_normalize_plain_struct l Hl Hnames) as (h & ns & Hh & Hns & E1 & F1 & F2).
  rewrite (wspec_plain _ F1), F2, (wspec_plain l Hl).
  pose proof (norm_fold_nfold (WCOMPS l) []) as Hnf. cbn [map] in Hnf. rewrite <- Hnf, E1. reflexivity.
Qed.
(* normalising again returns the same bytes *)
Theorem w_normalize_plain_idem l : noprefix l = true -> names_plain l -> w_normalize (w_normalize l) = w_normalize l.
Proof.
  intros Hl Hnames. destruct (w_normalize_plain_struct l Hl Hnames) as (h & ns & Hh & Hns & E1 & F1 & F2).
  rewrite (w_normalize_unfold _ F1), F2. rewrite (w_normalize_unfold l Hl), E1.
  rewrite (NF_fixed (h ++ ns) []); [reflexivity|].
  apply Forall_app. split.
  - destruct Hh as [-> | ->]; repeat constructor.
  - eapply Forall_impl; [|exact Hns]. intros c Hc. destruct c; cbn in Hc; try contradiction. split; reflexivity.
Qed.
(* same root; only the primary separator is used: the result is what the rule table writes *)
Theorem w_normalize_plain_root l : noprefix l = true -> names_plain l ->
  g_rooted wany (w_normalize l) = g_rooted wany l.
Proof.
  intros Hl Hnames. destruct (w_normalize_plain_struct l Hl Hnames) as (h & ns & Hh & Hns & E1 & F1 & F2).
  rewrite <- !rooted_first, F2.
  (* the fold keeps a leading root and creates none *)
  destruct (wcomps_shape l) as (h0 & t & E & Hh0 & Ht & Hg). rewrite E in *.
  assert (Hr : (h = [Root]) <-> (h0 = [Root])).
  { destruct Hh0 as [-> | [-> | ->]]; cbn [app norm_fold c_is_current c_is_parent negb andb] in E1.
    - split; [|discriminate]. intros ->. exfalso.
      assert (Hin : In Root (NFC t [])) by (rewrite E1; left; reflexivity).
      apply nf_sub in Hin as [Hin|[]]. rewrite Forall_forall in Ht. destruct (Ht _ Hin). congruence.
    - split; [reflexivity|]. intros _. destruct (nf_root_head t [Root] (ex_intro _ [] eq_refl) Ht) as (r & Er).
      rewrite Er in E1. destruct Hh as [-> | ->]; [|reflexivity]. cbn in E1. destruct ns; [discriminate|].
      inversion E1; subst. inversion Hns; subst. contradiction.
    - split; [|discriminate]. intros ->. exfalso.
      assert (Hin : In Root (NFC t [])) by (rewrite E1; left; reflexivity).
      apply nf_sub in Hin as [Hin|[]]. rewrite Forall_forall in Ht. destruct (Ht _ Hin). congruence. }
  assert (A : match h ++ ns with Root :: _ => true | _ => false end = match h with [Root] => true | _ => false end).
  { destruct Hh as [-> | ->]; [|reflexivity]. cbn [app]. destruct ns as [|c ns']; [reflexivity|].
    inversion Hns as [|? ? Hc _]; subst. destruct c; cbn in Hc; try contradiction. reflexivity. }
  assert (B : match h0 ++ t with Root :: _ => true | _ => false end = match h0 with [Root] => true | _ => false end).
  { destruct Hh0 as [-> | [-> | ->]]; [|reflexivity|reflexivity]. cbn [app]. destruct t as [|c t']; [reflexivity|].
    inversion Ht as [|? ? [Hc _] _]; subst. destruct c; try reflexivity. congruence. }
  rewrite A, B.
  destruct Hh as [-> | ->]; destruct Hh0 as [-> | [-> | ->]]; try reflexivity.
  - exfalso. assert (X : @nil comp = [Root]) by (apply Hr; reflexivity). discriminate.
  - exfalso. assert (X : @nil comp = [Root]) by (apply Hr; reflexivity). discriminate.
  - exfalso. assert (X : [Cur] = [Root]) by (apply Hr; reflexivity). discriminate.
Qed.
