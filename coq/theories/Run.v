(* Untyped entry points used by the extracted driver:
     run   op args        = the model's answer, encoded
     check op args out    = the property oracle applied to an (implementation or model) answer
   Operation names are  cNN.<family>  with family in u w u8 w8 tu tw t8u t8w:
   the UTF-8 and runtime-typed families are answered by the same byte model (C14, C15). *)
From Coq Require Import List NArith Bool String Ascii.
Import ListNotations.
From TP Require Import Core Val Path Unix Win Obs Spec Ops Oracles Utf8.
Open Scope string_scope.
Open Scope N_scope.

Definition VBad := VC "badargs" [].

(* split "c09.w8" into ("c09", "w8") *)
Fixpoint split_dot (s : string) (acc : string) : string * string :=
  match s with
  | EmptyString => (acc, EmptyString)
  | String c r => if Ascii.eqb c "."%char then (acc, r) else split_dot r (acc ++ String c EmptyString)
  end.

Inductive encsel := SelU | SelW | SelS.
Definition family (suffix : string) : option (encsel * bool) :=
  if tag_is suffix "u" || tag_is suffix "u8" || tag_is suffix "pu" || tag_is suffix "p8" || tag_is suffix "bu" || tag_is suffix "b8u" then Some (SelU, false)
  else if tag_is suffix "w" || tag_is suffix "w8" || tag_is suffix "bw" || tag_is suffix "b8w" then Some (SelW, false)
  else if tag_is suffix "tu" || tag_is suffix "t8u" || tag_is suffix "tbu" || tag_is suffix "tb8u" then Some (SelU, true)
  else if tag_is suffix "tw" || tag_is suffix "t8w" || tag_is suffix "tbw" || tag_is suffix "tb8w" then Some (SelW, true)
  else if tag_is suffix "sd" then Some (SelS, false)
  else None.
Definition enc_of (s : encsel) : encops := match s with SelU => UE | SelW => WE | SelS => SE end.

(* ---- C01 (typed model in Ops.v) ---- *)
Definition d_comp (v : val) : option comp :=
  match v with
  | VC t [] => if tag_is t "R" then Some Root else if tag_is t "C" then Some Cur else if tag_is t "P" then Some Parent else None
  | VC t [VB n] => if tag_is t "Nm" then Some (Normal n) else None
  | _ => None
  end.
Definition d_pair {A B} (fa : val -> option A) (fb : val -> option B) (v : val) : option (A * B) :=
  match v with
  | VC t [a; b] => if tag_is t "t" then match fa a, fb b with Some x, Some y => Some (x, y) | _, _ => None end else None
  | _ => None
  end.
Definition e_c01 (o : c01_out) : val :=
  VC "c01" [ vlist (fun x => vpair (vopt e_comp (fst x)) (VB (snd x))) (c01_impl o);
             vlist (fun x => vpair (vopt e_comp (fst x)) (vlist e_comp (snd x))) (c01_std o);
             VBool (c01_has_root o); VBool (c01_is_abs o);
             VBool (c01_std_has_root o); VBool (c01_std_is_abs o);
             vopt e_comp (c01_try_from o);
             vlist (fun x => vpair (VBool (fst x)) (VBool (snd x))) (c01_flags o);
             vlist (fun x => vpair (VBool (fst x)) (VBool (snd x))) (c01_std_flags o) ].
Definition dOptS {A} (f : val -> option A) (v : val) : option (option A) :=
  match v with
  | VN => Some None
  | VC t [x] => if tag_is t "S" then match f x with Some a => Some (Some a) | None => None end else None
  | _ => None
  end.
Definition d_c01 (v : val) : option c01_out :=
  match v with
  | VC t [a; b; VBool c; VBool d; VBool e; VBool f; g; fl; sfl] =>
      if tag_is t "c01" then
        match dList (d_pair (dOptS d_comp) dB) a, dList (d_pair (dOptS d_comp) (dList d_comp)) b, dOptS d_comp g,
              dList (d_pair dBool dBool) fl, dList (d_pair dBool dBool) sfl with
        | Some a', Some b', Some g', Some fl', Some sfl' =>
            Some {| c01_impl := a'; c01_std := b'; c01_has_root := c; c01_is_abs := d;
                    c01_std_has_root := e; c01_std_is_abs := f; c01_try_from := g';
                    c01_flags := fl'; c01_std_flags := sfl' |}
        | _, _, _, _, _ => None
        end
      else None
  | _ => None
  end.

(* ---- Windows-only queries (c02) ---- *)
Definition ob_c02 (p : list byte) : val :=
  VC "c02" [
    vlist e_wcomp (w_components p);
    vlist e_wcomp (w_components_rev p);
    vt [VBool (w_has_prefix p); vopt e_wkind (w_prefix_kind p);
        VBool (w_has_any_verbatim_prefix p); VBool (w_has_verbatim_prefix p); VBool (w_has_verbatim_unc_prefix p);
        VBool (w_has_verbatim_disk_prefix p); VBool (w_has_device_ns_prefix p); VBool (w_has_unc_prefix p);
        VBool (w_has_disk_prefix p); VBool (w_has_physical_root p); VBool (w_has_implicit_root p);
        VBool (w_has_root p); VBool (w_is_absolute p)];
    vopt e_wcomp (w_try_from p);
    vopt (fun x => vpair (VB (fst x)) (e_wkind (snd x))) (w_prefix_try_from p);
    vopt (fun k => vpair (vnat (wprefix_len k)) (VBool (wprefix_is_verbatim k))) (w_prefix_kind p) ].

(* ---- conversions (c16) ---- *)
Definition e_res (r : option (list byte) * option cerr) : val :=
  match r with
  | (_, Some e) => VC "err" [e_err e]
  | (Some b, None) => VC "ok" [VB b]
  | (None, None) => VC "err" []
  end.
Definition ob_c16 (s : encsel) (p : list byte) : val :=
  match s with
  | SelU => VC "c16" [VB (u_to_w p); e_res (u_to_w_checked p); VB p; e_res (u_to_u_checked p); VB (w_to_u (u_to_w p))]
  | SelW => VC "c16" [VB (w_to_u p); e_res (w_to_u_checked p); VB p; e_res (w_to_w_checked p); VB (u_to_w (w_to_u p))]
  | SelS => VBad
  end.

(* TypedPath::derive *)
Definition derive_windows (p : list byte) : bool :=
  match p with b :: _ => if N.eqb b 92 then true else w_has_prefix p | [] => w_has_prefix p end.

Fixpoint run_fuel (fuel : nat) (op : string) (args : list val) : val :=
  let (name, suffix) := split_dot op EmptyString in
  (* pair.<op> : the Unix byte family next to real std::path on the same arguments *)
  if tag_is name "pair" then
    match fuel with
    | S f => vpair (run_fuel f (suffix ++ ".u")%string args) (run_fuel f (suffix ++ ".sd")%string args)
    | O => VBad
    end
  (* same.<op>.<family> : a UTF-8 / runtime-typed / platform family next to the byte family of its encoding
     (C14 C15): the model answers both with the byte model *)
  else if tag_is name "same" then
    match fuel with
    | S f =>
        let (n2, fam) := split_dot suffix EmptyString in
        let bytefam := match family fam with Some (SelW, _) => "w" | _ => "u" end in
        vpair (run_fuel f suffix args) (run_fuel f (n2 ++ "." ++ bytefam)%string args)
    | O => VBad
    end
  else
  if tag_is name "c01" then
    match args with [VB p; VB sched] => e_c01 (model_c01 p (e_dirs sched)) | _ => VBad end
  else if tag_is name "c14c" then
    match args with [VB p] => VC "c14c" [VBool (utf8_valid p)] | _ => VBad end
  else if tag_is name "c19" then
    match args with
    | [VB p] => VC "c19" [if utf8_valid p then VSome (VB p) else VN; VB (lossy p); VB (lossy p); VBool true;
                          VL (repeat (VB (lossy p)) 6)]   (* Display ignores width / fill / precision, borrowed and owned *)
    | _ => VBad end
  else if tag_is name "c15d" then
    match args with [VB p] => VC "c15d" [VBool (derive_windows p)] | _ => VBad end
  else
  match family suffix with
  | None => VBad
  | Some (sel, typed) =>
    let E := enc_of sel in
    if tag_is name "c02" then
      match sel, args with SelW, [VB p] => ob_c02 p | _, _ => VBad end
    else if tag_is name "c03" then
      match args with [VB p; VB sched] => VC "c03" [o_sched E typed p (e_dirs sched); o_iter_sched E p (e_dirs sched)] | _ => VBad end
    else if tag_is name "c04" then
      match args with
      | [VB base; VB p] => VC "c04" [ob_hist E typed base [VC "pushc" [VB p]]; ob_join_checked E base p; ob_join E typed base p]
      | _ => VBad end
    else if tag_is name "c05" then
      match args with [VB a; VB b] => VC "c05" [ob_eqcmp E a b; ob_hash E typed a; ob_hash E typed b] | _ => VBad end
    else if tag_is name "c06" then
      match args with
      | [VB a; VB b] => VC "c06" [ob_parent E a; ob_ancestors E a; ob_names E a; ob_rel E a b; ob_eqcmp E a b; o_flags E a]
      | _ => VBad end
    else if tag_is name "hist" then
      match args with [VB i; VL ops] => VC "hist" [ob_hist E typed i ops] | _ => VBad end
    else if tag_is name "c08" then
      match args with [VB a; VB b] => VC "c08" [ob_join E typed a b; ob_hist E typed a [VC "push" [VB b]]] | _ => VBad end
    else if tag_is name "c09" then
      match args with [VB p] => VC "c09" [ob_parent E p; ob_ancestors E p; ob_hist E typed p [VC "pop" []]; ob_parent_variants E typed p] | _ => VBad end
    else if tag_is name "c10" then
      match args with
      | [VB a; VB b] =>
          let j := o_push E a b in
          VC "c10" [ob_rel E a b; ob_eqcmp E a b; ob_join E typed a b; ob_rel E j a]
      | _ => VBad end
    else if tag_is name "c11" then
      match args with
      | [VB p] =>
          let n := o_normalize E p in
          VC "c11" [VB n; o_flags E p; o_flags E n; VB (o_normalize E n);
                    o_sched E typed n (repeat false (S (List.length n)))]
      | _ => VBad end
    else if tag_is name "c12" then
      match args with
      | [VB p; VB n] =>
          let w := o_set_file_name E p n in
          VC "c12" [ob_names E p; VB w; ob_names E w; ob_parent E w; ob_parent E p; ob_join E typed p n]
      | _ => VBad end
    else if tag_is name "c13" then
      match args with
      | [VB p; VB e] =>
          let r := fst (o_set_extension E p e) in
          VC "c13" [ob_hist E typed p [VC "sext" [VB e]]; VB r; ob_names E r; ob_parent E r; ob_parent E p; ob_names E p]
      | _ => VBad end
    else if tag_is name "c16" then
      match args with [VB p] => ob_c16 sel p | _ => VBad end
    else if tag_is name "c19p" then
      match args with [VB a; VB b] => VC "c19p" [VBool (o_eq E a b); e_ord (o_cmp E a b); VBool true] | _ => VBad end
    else if tag_is name "c17" then
      match args with
      | [VB p] => VC "c17" [ob_is_valid E typed p; ob_comp_valid E typed p; ob_join_checked E [] p]
      | _ => VBad end
    else if tag_is name "cons" then
      (* self-consistency of iterators, cross-type comparisons and components: no inconsistency; plus parity data *)
      match args with [VB a; VB b] => VC "cons" [VL []; ob_cons_parity E a b] | _ => VBad end
    else VBad
  end.
Definition run := run_fuel 1.

(* ---- the Unix byte family next to real std::path (C01 C06 C07 C13): same answers ---- *)
Definition KNOWN_C06_STRIP_UNTRIMMED : N := 6.
Definition snap_parts (v : val) : option (list byte * val) :=
  match vargs "t" v with Some [VB b; r; _] => Some (b, r) | _ => None end.
Fixpoint hist_rel (ops : list val) (us ss : list val) : bool :=
  match ops, us, ss with
  | [], [], [] => true
  | op :: ops', u :: us', s :: ss' =>
      match snap_parts u, snap_parts s with
      | Some (bu, ru), Some (bs, rs) =>
          val_eqb ru rs && list_eqb (ucomps bu) (ucomps bs) &&
          (match op with
           | VC t [VB x] => if (tag_is t "push" || tag_is t "join") && negb (match x with [] => true | _ => false end)
                            then beq_list bu bs else true
           | _ => true
           end) && hist_rel ops' us' ss'
      | _, _ => false
      end
  | _, _, _ => false
  end.
Definition oracle_pair (which : string) (args : list val) (out : val) : N :=
  match vargs "t" out with
  | Some [u; s] =>
      if tag_is which "c06" then
        match vargs "c06" u, vargs "c06" s with
        | Some [pu; au; nu; ru; eu; fu], Some [ps; as_; ns; rs; es; fs] =>
            let same := val_eqb pu ps && val_eqb au as_ && val_eqb nu ns && val_eqb eu es && val_eqb fu fs in
            match vargs "t" ru, vargs "t" rs with
            | Some [swu; ewu; spu], Some [sws; ews; sps] =>
                if negb (same && val_eqb swu sws && val_eqb ewu ews) then fail
                else if val_eqb spu sps then pass
                else match obytes spu, obytes sps with
                     | Some (Some a), Some (Some b) =>
                         (* typed-path returns the raw remainder, std the trimmed one: path-equal, impl = std ++ junk *)
                         if bytes_prefix b a && list_eqb (ucomps a) (ucomps b) then KNOWN_C06_STRIP_UNTRIMMED else fail
                     | _, _ => fail
                     end
            | _, _ => fail
            end
        | _, _ => fail
        end
      else if tag_is which "hist" then
        match args, vargs "hist" u, vargs "hist" s with
        | [_; VL ops], Some [VL us], Some [VL ss] => ob (hist_rel ops us ss)
        | _, _, _ => fail
        end
      else if tag_is which "c13" then
        match vargs "c13" u, vargs "c13" s with
        | Some (hu :: _), Some (hs :: _) => ob (val_eqb hu hs)
        | _, _ => fail
        end
      else if tag_is which "c03" then
        match vargs "c03" u, vargs "c03" s with
        | Some [VL su; iu], Some [VL ss; is_] =>
            ob (all2 (fun a b =>
                        match vargs "st" a, vargs "st" b with
                        | Some [ca; VB ra; _; fa], Some [cb; VB rb; _; fb] =>
                            val_eqb ca cb && list_eqb (ucomps ra) (ucomps rb) &&
                            (* the iterator reports a root / absoluteness exactly when std's remainder does *)
                            match vargs "t" fa, vargs "t" fb with
                            | Some [ha; aa; _; _; _], Some [hb; ab; _; _; _] => val_eqb ha hb && val_eqb aa ab
                            | _, _ => false
                            end
                        | _, _ => false
                        end) su ss)
        | _, _ => fail
        end
      else pass
  | _ => fail
  end.

(* what a runtime-typed answer must look like once the wrapper is erased: the variant tags
   (tu)/(tw) become N and, for c05, the discriminant the derived Hash of the wrapper feeds first
   is dropped from both hash feeds *)
Fixpoint erase_variant (v : val) : val :=
  match v with
  | VC t [] => if tag_is t "tu" || tag_is t "tw" then VN else v
  | VC t l => VC t (map erase_variant l)
  | VL l => VL (map erase_variant l)
  | _ => v
  end.
(* a runtime-typed answer never changes which encoding it wraps: every variant tag in it is the family's *)
Fixpoint variants_ok (tag : string) (v : val) : bool :=
  match v with
  | VC t [] => if tag_is t "tu" || tag_is t "tw" then tag_is t tag else true
  | VC t l => forallb (variants_ok tag) l
  | VL l => forallb (variants_ok tag) l
  | _ => true
  end.
(* the two observations that exist only for one of the two sides of a same.* comparison:
   - c09: the list of variant tags of the paths handed out (typed side only; checked by variants_ok) is dropped;
   - c03: the prefix an iterator reports about itself (byte / UTF-8 components only; the typed components
     have no such query) is blanked on both sides *)
Fixpoint blank_state_prefix (v : val) : val :=
  match v with
  | VC t l =>
      let l' := map blank_state_prefix l in
      if tag_is t "t" then match l' with [hr; ab; pv; var; _] => VC t [hr; ab; pv; var; VN] | _ => VC t l' end
      else VC t l'
  | VL l => VL (map blank_state_prefix l)
  | _ => v
  end.
Definition drop_parent_variants (v : val) : val :=
  match v with
  | VC t [a; b; c; _] => if tag_is t "c09" then VC t [a; b; c; VL []] else v
  | _ => v
  end.
Definition untype (name : string) (v : val) : val :=
  let v := erase_variant v in
  if tag_is name "c05" then
    match v with
    | VC t [ec; VL (_ :: ha); VL (_ :: hb)] => VC t [ec; VL ha; VL hb]
    | _ => v
    end
  else if tag_is name "c09" then drop_parent_variants v
  else if tag_is name "c03" then blank_state_prefix v
  else v.

Definition check (op : string) (args : list val) (out : val) : N :=
  let (name, suffix) := split_dot op EmptyString in
  if tag_is name "c01" then
    match args with
    | [VB p; VB sched] => match d_c01 out with Some o => ob (check_c01 p (e_dirs sched) o) | None => 0 end
    | _ => 0
    end
  else if tag_is name "c14c" then
    (* conversions between the families succeed exactly on valid UTF-8 and keep the bytes (no inconsistency list) *)
    match args, out with [VB p], VC t [VBool ok] => ob (tag_is t "c14c" && Bool.eqb ok (utf8_valid p)) | _, _ => 0 end
  else if tag_is name "c19" then
    match args, out with
    | [VB p], VC t [ts; VB lo; VB di; VBool all_ok; VL fmts] =>
        ob (tag_is t "c19" && all_ok
            && val_eqb ts (if utf8_valid p then VSome (VB p) else VN)
            && beqN lo (lossy p) && beqN di (lossy p)
            && Nat.eqb (List.length fmts) 6 && forallb (fun f => val_eqb f (VB (lossy p))) fmts)
    | _, _ => 0
    end
  else if tag_is name "c15d" then
    match args, out with
    | [VB p], VC t [VBool w] =>
        ob (tag_is t "c15d" &&
            Bool.eqb w (match p with b :: _ => N.eqb b 92 | [] => false end
                        || match wprefix_grammar p with Some _ => true | None => false end))
    | _, _ => 0
    end
  else if tag_is name "pair" then oracle_pair suffix args out
  else if tag_is name "same" then
    let (n2, fam) := split_dot suffix EmptyString in
    let typed := match family fam with Some (_, t) => t | None => false end in
    match vargs "t" out with
    | Some [a; b] =>
        let tag := match family fam with Some (SelW, _) => "tw" | _ => "tu" end in
        let b' := if typed && tag_is n2 "c03" then blank_state_prefix b else b in
        ob (val_eqb (if typed then untype n2 a else a) b' && (if typed then variants_ok tag a else true))
    | _ => 0
    end
  else oracle name suffix args out.
