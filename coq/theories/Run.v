(* Untyped entry points used by the extracted driver:
     run   op args        = the model's answer, encoded
     check op args out    = the property oracle applied to an (implementation or model) answer *)
From Coq Require Import List NArith Bool String Ascii.
Import ListNotations.
From TP Require Import Core Val Path Unix Spec Ops.
Open Scope N_scope.
Open Scope string_scope.

Definition e_comp (c : comp) : val :=
  match c with Root => VC "R" [] | Cur => VC "C" [] | Parent => VC "P" [] | Normal n => VC "Nm" [VB n] end.
Definition d_comp (v : val) : option comp :=
  match v with
  | VC "R" [] => Some Root | VC "C" [] => Some Cur | VC "P" [] => Some Parent
  | VC "Nm" [VB n] => Some (Normal n)
  | _ => None
  end.
Definition e_dirs (l : list N) : list bool := map (fun b => negb (N.eqb b 0)) l.

Definition d_pair {A B} (fa : val -> option A) (fb : val -> option B) (v : val) : option (A * B) :=
  match v with
  | VC "t" [a; b] => match fa a, fb b with Some x, Some y => Some (x, y) | _, _ => None end
  | _ => None
  end.

Definition e_c01 (o : c01_out) : val :=
  VC "c01" [ vlist (fun x => vpair (vopt e_comp (fst x)) (VB (snd x))) (c01_impl o);
             vlist (fun x => vpair (vopt e_comp (fst x)) (vlist e_comp (snd x))) (c01_std o);
             VBool (c01_has_root o); VBool (c01_is_abs o);
             VBool (c01_std_has_root o); VBool (c01_std_is_abs o);
             vopt e_comp (c01_try_from o) ].
Definition d_c01 (v : val) : option c01_out :=
  match v with
  | VC "c01" [a; b; VBool c; VBool d; VBool e; VBool f; g] =>
      match dList (d_pair (dOpt d_comp) dB) a, dList (d_pair (dOpt d_comp) (dList d_comp)) b, dOpt d_comp g with
      | Some a', Some b', Some g' =>
          Some {| c01_impl := a'; c01_std := b'; c01_has_root := c; c01_is_abs := d;
                  c01_std_has_root := e; c01_std_is_abs := f; c01_try_from := g' |}
      | _, _, _ => None
      end
  | _ => None
  end.

Definition VBad := VC "badargs" [].

Definition run (op : string) (args : list val) : val :=
  match op, args with
  | "c01", [VB p; VB sched] => e_c01 (model_c01 p (e_dirs sched))
  | _, _ => VBad
  end.

Definition check (op : string) (args : list val) (out : val) : bool :=
  match op, args with
  | "c01", [VB p; VB sched] =>
      match d_c01 out with Some o => check_c01 p (e_dirs sched) o | None => false end
  | _, _ => false
  end.
