(* Gallina transcription of the parts of Rust's std::path (cfg(unix): no prefixes, '/' the
   only separator) that C01, C06, C07 and C13 name as the oracle: Components (front/back
   state machine, trimming as_path), Path::{parent, file_name, file_stem, extension,
   starts_with, ends_with, strip_prefix, eq, cmp}, PathBuf::{push, pop, set_file_name,
   set_extension}.  Source: library/std/src/path.rs.  It is tied to the real std::path of
   the toolchain the harness is compiled with by the "sd" family of operations. *)
From Coq Require Import List NArith Bool Lia.
Import ListNotations.
From TP Require Import Core Path Unix.
Open Scope N_scope.

Definition ssep (b : byte) : bool := b =? 47.

Inductive sstate := SPrefix | SStartDir | SBody | SDone.
Definition sidx (s : sstate) : nat := match s with SPrefix => 0 | SStartDir => 1 | SBody => 2 | SDone => 3 end.
Definition sle (a b : sstate) : bool := Nat.leb (sidx a) (sidx b).
Definition s_is (a b : sstate) : bool := Nat.eqb (sidx a) (sidx b).

Record scomps := { s_path : list byte; s_root : bool; s_front : sstate; s_back : sstate }.

(* Path::components *)
Definition s_init (l : list byte) : scomps :=
  {| s_path := l; s_root := match l with b :: _ => ssep b | [] => false end; s_front := SStartDir; s_back := SBody |}.

Definition s_include_cur_dir (c : scomps) : bool :=
  if s_root c then false
  else match s_path c with
       | [b] => b =? 46
       | b :: d :: _ => (b =? 46) && ssep d
       | [] => false
       end.
Definition s_len_before_body (c : scomps) : nat :=
  let root := if sle (s_front c) SStartDir && s_root c then 1%nat else 0%nat in
  let cur := if sle (s_front c) SStartDir && s_include_cur_dir c then 1%nat else 0%nat in
  (root + cur)%nat.
Definition s_finished (c : scomps) : bool :=
  s_is (s_front c) SDone || s_is (s_back c) SDone || negb (sle (s_front c) (s_back c)).
(* parse_single_component *)
Definition s_single (seg : list byte) : option comp :=
  if is_dot seg then None else if is_dotdot seg then Some Parent
  else match seg with [] => None | _ => Some (Normal seg) end.
(* parse_next_component: (size, comp) *)
Definition s_next_comp (path : list byte) : nat * option comp :=
  let (seg, rest) := span_nsep ssep path in
  ((length seg + match rest with [] => 0 | _ => 1 end)%nat, s_single seg).
(* parse_next_component_back *)
Definition s_next_comp_back (c : scomps) : nat * option comp :=
  let start := s_len_before_body c in
  let body := skipn start (s_path c) in
  let (seg_r, rest_r) := span_nsep ssep (rev body) in
  ((length seg_r + match rest_r with [] => 0 | _ => 1 end)%nat, s_single (rev seg_r)).

Definition s_with_path (c : scomps) (p : list byte) : scomps :=
  {| s_path := p; s_root := s_root c; s_front := s_front c; s_back := s_back c |}.
Definition s_with_front (c : scomps) (f : sstate) : scomps :=
  {| s_path := s_path c; s_root := s_root c; s_front := f; s_back := s_back c |}.
Definition s_with_back (c : scomps) (b : sstate) : scomps :=
  {| s_path := s_path c; s_root := s_root c; s_front := s_front c; s_back := b |}.
Definition drop_last (n : nat) (l : list byte) : list byte := firstn (length l - n) l.

Fixpoint s_trim_left (fuel : nat) (c : scomps) : scomps :=
  match fuel with
  | O => c
  | S f => match s_path c with
           | [] => c
           | _ => let (size, cm) := s_next_comp (s_path c) in
                  match cm with Some _ => c | None => s_trim_left f (s_with_path c (skipn size (s_path c))) end
           end
  end.
Fixpoint s_trim_right (fuel : nat) (c : scomps) : scomps :=
  match fuel with
  | O => c
  | S f => if Nat.ltb (s_len_before_body c) (length (s_path c)) then
             let (size, cm) := s_next_comp_back c in
             match cm with Some _ => c | None => s_trim_right f (s_with_path c (drop_last size (s_path c))) end
           else c
  end.
(* Components::as_path *)
Definition s_as_path (c : scomps) : list byte :=
  let fuel := S (length (s_path c)) in
  let c1 := if s_is (s_front c) SBody then s_trim_left fuel c else c in
  let c2 := if s_is (s_back c1) SBody then s_trim_right fuel c1 else c1 in
  s_path c2.

(* Iterator::next *)
Fixpoint s_next (fuel : nat) (c : scomps) : option comp * scomps :=
  match fuel with
  | O => (None, c)
  | S f =>
      if s_finished c then (None, c)
      else match s_front c with
           | SBody =>
               match s_path c with
               | [] => s_next f (s_with_front c SDone)
               | _ => let (size, cm) := s_next_comp (s_path c) in
                      let c' := s_with_path c (skipn size (s_path c)) in
                      match cm with Some x => (Some x, c') | None => s_next f c' end
               end
           | SStartDir =>
               let c1 := s_with_front c SBody in
               if s_root c then (Some Root, s_with_path c1 (tl (s_path c1)))
               else if s_include_cur_dir c then (Some Cur, s_with_path c1 (tl (s_path c1)))
               else s_next f c1
           | SPrefix => s_next f (s_with_front c SStartDir)
           | SDone => (None, c)
           end
  end.
(* DoubleEndedIterator::next_back *)
Fixpoint s_next_back (fuel : nat) (c : scomps) : option comp * scomps :=
  match fuel with
  | O => (None, c)
  | S f =>
      if s_finished c then (None, c)
      else match s_back c with
           | SBody =>
               if Nat.ltb (s_len_before_body c) (length (s_path c)) then
                 let (size, cm) := s_next_comp_back c in
                 let c' := s_with_path c (drop_last size (s_path c)) in
                 match cm with Some x => (Some x, c') | None => s_next_back f c' end
               else s_next_back f (s_with_back c SStartDir)
           | SStartDir =>
               let c1 := s_with_back c SDone in
               if s_root c then (Some Root, s_with_path c1 (drop_last 1 (s_path c1)))
               else if s_include_cur_dir c then (Some Cur, s_with_path c1 (drop_last 1 (s_path c1)))
               else s_next_back f c1
           | SPrefix => (None, s_with_back c SDone)
           | SDone => (None, c)
           end
  end.
Definition s_fuel (c : scomps) : nat := (length (s_path c) + 5)%nat.
Definition s_nextf (c : scomps) : option (comp * scomps) :=
  match s_next (s_fuel c) c with (Some x, c') => Some (x, c') | (None, _) => None end.
Definition s_nextb (c : scomps) : option (comp * scomps) :=
  match s_next_back (s_fuel c) c with (Some x, c') => Some (x, c') | (None, _) => None end.
(* the observable state after a failed step is the same path as before: as_path of an
   exhausted iterator does not change between calls *)

Definition s_components (l : list byte) : list comp := front_all scomps comp s_nextf (S (length l)) (s_init l).

(* Path::parent *)
Definition s_parent (l : list byte) : option (list byte) :=
  match s_nextb (s_init l) with
  | Some (c, c') => match c with Normal _ | Cur | Parent => Some (s_as_path c') | Root => None end
  | None => None
  end.
Fixpoint s_ancestors_fuel (fuel : nat) (cur : option (list byte)) : list (list byte) :=
  match fuel with
  | O => []
  | S f => match cur with Some p => p :: s_ancestors_fuel f (s_parent p) | None => [] end
  end.
Definition s_ancestors (l : list byte) := s_ancestors_fuel (S (S (length l))) (Some l).
Definition s_file_name (l : list byte) : option (list byte) :=
  match s_nextb (s_init l) with Some (Normal n, _) => Some n | _ => None end.
Definition s_file_stem (l : list byte) : option (list byte) :=
  match s_file_name l with
  | Some n => let (before, after) := rsplit_file_at_dot n in opt_or before after
  | None => None
  end.
Definition s_extension (l : list byte) : option (list byte) :=
  match s_file_name l with
  | Some n => let (before, after) := rsplit_file_at_dot n in opt_and before after
  | None => None
  end.

(* iter_after with component equality *)
Fixpoint s_iter_after (next : scomps -> option (comp * scomps)) (fuel : nat) (it pre : scomps) : option scomps :=
  match fuel with
  | O => None
  | S f =>
      match next it, next pre with
      | Some (x, it'), Some (y, pre') => if comp_eqb x y then s_iter_after next f it' pre' else None
      | Some _, None => Some it
      | None, None => Some it
      | None, Some _ => None
      end
  end.
Definition s_strip_prefix (l base : list byte) : option (list byte) :=
  match s_iter_after s_nextf (S (S (length base))) (s_init l) (s_init base) with
  | Some c => Some (s_as_path c)
  | None => None
  end.
Definition s_starts_with (l base : list byte) : bool :=
  match s_iter_after s_nextf (S (S (length base))) (s_init l) (s_init base) with Some _ => true | None => false end.
Definition s_ends_with (l child : list byte) : bool :=
  match s_iter_after s_nextb (S (S (length child))) (s_init l) (s_init child) with Some _ => true | None => false end.
Definition s_path_eq (a b : list byte) : bool := list_eqb (s_components a) (s_components b).
Definition s_path_cmp (a b : list byte) : comparison :=
  list_cmp_c comp comp_cmp (s_components a) (s_components b).
Definition s_has_root (l : list byte) : bool := s_root (s_init l).

(* PathBuf::_push (cfg(unix)) *)
Definition s_push (buf p : list byte) : list byte :=
  let need_sep := match last_byte buf with Some c => negb (ssep c) | None => false end in
  if s_has_root p then p
  else if need_sep then buf ++ 47 :: p
  else buf ++ p.
Definition s_pop (buf : list byte) : list byte * bool :=
  match s_parent buf with
  | Some p => (firstn (length p) buf, true)
  | None => (buf, false)
  end.
Definition s_set_file_name (buf name : list byte) : list byte :=
  let b1 := match s_file_name buf with Some _ => fst (s_pop buf) | None => buf end in
  s_push b1 name.
(* PathBuf::_set_extension: truncate right after the file stem (a sub-slice of the buffer).
   The file name is the tail of the path at the iteration of next_back that returns it. *)
Definition s_set_extension (buf ext : list byte) : list byte * bool :=
  match s_file_name buf, s_file_stem buf with
  | Some n, Some stem =>
      let name_end :=
        (* end of the file name = length of the buffer minus what next_back's trimming removed:
           run the back iterator once with an empty-comp trimming loop *)
        let fix find_end (fuel : nat) (c : scomps) : nat :=
            match fuel with
            | O => length (s_path c)
            | S f => if Nat.ltb (s_len_before_body c) (length (s_path c)) then
                       let (size, cm) := s_next_comp_back c in
                       match cm with
                       | Some _ => length (s_path c)
                       | None => find_end f (s_with_path c (drop_last size (s_path c)))
                       end
                     else length (s_path c)
            end in
        find_end (S (length buf)) (s_init buf) in
      let stem_end := (name_end - (length n - length stem))%nat in
      let b1 := firstn stem_end buf in
      (match ext with [] => b1 | _ => b1 ++ 46 :: ext end, true)
  | _, _ => (buf, false)
  end.
Definition s_normalize (l : list byte) : list byte := l.   (* not in std (stable); never observed *)
