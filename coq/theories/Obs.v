(* Observations: what the harness prints for one case, computed by the model.
   One Section over an encoding's functions, instantiated for Unix and Windows.
   (Encoders only; no property logic here.) *)
From Coq Require Import List NArith Bool String Ascii.
Import ListNotations.
From TP Require Import Core Val Path Unix Win StdUnix.
Open Scope string_scope.
Open Scope N_scope.

Definition e_comp (c : comp) : val :=
  match c with Root => VC "R" [] | Cur => VC "C" [] | Parent => VC "P" [] | Normal n => VC "Nm" [VB n] end.
Definition e_wkind (k : wprefix) : val :=
  match k with
  | Verbatim x => VC "V" [VB x]
  | VerbatimUNC x y => VC "VU" [VB x; VB y]
  | VerbatimDisk d => VC "VD" [VI d]
  | DeviceNS x => VC "DN" [VB x]
  | UNC x y => VC "U" [VB x; VB y]
  | Disk d => VC "Dk" [VI d]
  end.
Definition e_wcomp (c : wcomp) : val :=
  match c with
  | WPrefix raw k => VC "Px" [VB raw; e_wkind k]
  | WC c => e_comp c
  end.
Definition e_err (e : cerr) : val :=
  match e with
  | EPrefix => VC "EPrefix" [] | ERoot => VC "ERoot" [] | ETraversal => VC "ETraversal" [] | EInvalid => VC "EInvalid" []
  end.
Definition e_ord (c : comparison) : val := match c with Lt => VI 0 | Eq => VI 1 | Gt => VI 2 end.
Definition e_hcall (h : hcall) : val :=
  match h with
  | HWrite x => VC "w" [VB x] | HUsize n => VC "us" [VI n] | HU8 n => VC "u8" [VI n] | HIsize n => VC "is" [VI n]
  end.
Definition e_dirs (l : list N) : list bool := map (fun b => negb (N.eqb b 0)) l.
Definition vt (l : list val) : val := VC "t" l.

(* a buffer-mutation history; mirrors Api::hist of the harness *)
Inductive hop :=
| HPush (x : list byte) | HPushC (x : list byte) | HPop | HSfn (x : list byte) | HSext (x : list byte)
| HClear | HJoin (x : list byte) | HWfn (x : list byte) | HWext (x : list byte) | HNorm
| HExtend (xs : list (list byte)) | HCollect (xs : list (list byte)) | HBad.

Definition tag_is (s t : string) : bool := String.eqb s t.
Definition d_hop (v : val) : hop :=
  match v with
  | VC t [VB x] =>
      if tag_is t "push" then HPush x else if tag_is t "pushc" then HPushC x
      else if tag_is t "sfn" then HSfn x else if tag_is t "sext" then HSext x
      else if tag_is t "join" then HJoin x else if tag_is t "wfn" then HWfn x
      else if tag_is t "wext" then HWext x
      else if tag_is t "clonefrom" then HCollect [x]     (* clone_from(&PathBuf::from(x)): the buffer becomes x, as collecting [x] does *)
      else HBad
  | VC t [] =>
      if tag_is t "pop" then HPop else if tag_is t "clear" then HClear else if tag_is t "norm" then HNorm
      else if tag_is t "shrinkfit" then HExtend []        (* capacity management leaves the contents alone, as extending by nothing does *)
      else HBad
  | VC t [VI _] =>
      if tag_is t "reserve" || tag_is t "shrinkto" then HExtend [] else HBad
  | VC t [VL xs] =>
      let bs := flat_map (fun x => match x with VB b => [b] | _ => [] end) xs in
      if tag_is t "extend" then HExtend bs else if tag_is t "collect" then HCollect bs else HBad
  | _ => HBad
  end.

Record encops := {
  st : Type; cmp : Type;
  init : list byte -> st;
  nextf : st -> option (cmp * st); nextb : st -> option (cmp * st);
  remaining : st -> list byte;
  back_off : st -> nat;
  c_bytes : cmp -> list byte;
  c_inner : cmp -> bool;               (* does the component carry a slice of the input (Normal / Prefix) *)
  c_valid : cmp -> bool;
  e_c : cmp -> val;
  has_root : list byte -> bool; is_absolute : list byte -> bool;
  st_has_root : st -> bool; st_is_absolute : st -> bool;   (* asked of an iterator in any state *)
  st_prefix : st -> val;                                    (* Windows: prefix() of the iterator in its current state *)
  o_parent : list byte -> option (list byte);
  o_ancestors : list byte -> list (list byte);
  o_file_name : list byte -> option (list byte);
  o_file_stem : list byte -> option (list byte);
  o_extension : list byte -> option (list byte);
  o_starts_with : list byte -> list byte -> bool;
  o_ends_with : list byte -> list byte -> bool;
  o_strip_prefix : list byte -> list byte -> option (list byte);
  o_eq : list byte -> list byte -> bool;
  o_cmp : list byte -> list byte -> comparison;
  o_hash : list byte -> list hcall;
  o_push : list byte -> list byte -> list byte;
  o_push_checked : list byte -> list byte -> list byte * option cerr;
  o_pop : list byte -> list byte * bool;
  o_set_file_name : list byte -> list byte -> list byte;
  o_set_extension : list byte -> list byte -> list byte * bool;
  o_normalize : list byte -> list byte;
  o_is_valid : list byte -> bool;
  o_components : list byte -> list cmp;
  vtag : string;                         (* "tu" / "tw" *)
  vidx : N                               (* derive(Hash) discriminant of the typed wrapper *)
}.

Section Obs.
Variable E : encops.
Variable typed : bool.                   (* runtime-typed family: results carry the variant tag *)
Notation st := (st E). Notation cmp := (cmp E).
Notation init := (init E). Notation nextf := (nextf E). Notation nextb := (nextb E).
Notation remaining := (remaining E). Notation back_off := (back_off E). Notation c_bytes := (c_bytes E).
Notation c_inner := (c_inner E). Notation c_valid := (c_valid E). Notation e_c := (e_c E).
Notation has_root := (has_root E). Notation is_absolute := (is_absolute E).
Notation st_has_root := (st_has_root E). Notation st_is_absolute := (st_is_absolute E). Notation st_prefix := (st_prefix E).
Notation o_parent := (o_parent E). Notation o_ancestors := (o_ancestors E).
Notation o_file_name := (o_file_name E). Notation o_file_stem := (o_file_stem E). Notation o_extension := (o_extension E).
Notation o_starts_with := (o_starts_with E). Notation o_ends_with := (o_ends_with E).
Notation o_strip_prefix := (o_strip_prefix E). Notation o_eq := (o_eq E). Notation o_cmp := (o_cmp E).
Notation o_hash := (o_hash E). Notation o_push := (o_push E). Notation o_push_checked := (o_push_checked E).
Notation o_pop := (o_pop E). Notation o_set_file_name := (o_set_file_name E). Notation o_set_extension := (o_set_extension E).
Notation o_normalize := (o_normalize E). Notation o_is_valid := (o_is_valid E). Notation o_components := (o_components E).
Notation vtag := (vtag E). Notation vidx := (vidx E).

Definition variant : val := if typed then VC vtag [] else VN.

(* what the iterator itself reports in its current state: has_root, is_absolute, its path view, the variant *)
Definition it_state (s : st) : val :=
  vt [VBool (st_has_root s); VBool (st_is_absolute s); VB (remaining s); variant; if typed then VN else st_prefix s].
(* schedule with absolute offsets; [a] = offset of the current input inside the original *)
Fixpoint obs_sched (s : st) (a : nat) (sched : list bool) : list val :=
  match sched with
  | [] => []
  | d :: r =>
      match (if d then nextb s else nextf s) with
      | Some (c, s') =>
          let off := if d then (a + back_off s)%nat else a in
          let a' := if d then a else (a + (List.length (remaining s) - List.length (remaining s')))%nat in
          VC "st" [VSome (e_c c); VB (remaining s'); if c_inner c then VSome (vnat off) else VN; it_state s']
          :: obs_sched s' a' r
      | None => VC "st" [VN; VB (remaining s); VN; it_state s] :: obs_sched s a r
      end
  end.
Fixpoint obs_iter (s : st) (sched : list bool) : list val :=
  match sched with
  | [] => []
  | d :: r =>
      match (if d then nextb s else nextf s) with
      | Some (c, s') => vpair (VSome (VB (c_bytes c))) (VB (remaining s')) :: obs_iter s' r
      | None => vpair VN (VB (remaining s)) :: obs_iter s r
      end
  end.
Definition o_sched (p : list byte) (sched : list bool) : val := VL (obs_sched (init p) O sched).
Definition o_iter_sched (p : list byte) (sched : list bool) : val := VL (obs_iter (init p) sched).
Definition o_flags (p : list byte) : val :=
  vt [VBool (has_root p); VBool (is_absolute p); VBool (negb (is_absolute p))].
Definition ob_is_valid (p : list byte) : val := if typed then VN else VBool (o_is_valid p).
Definition ob_comp_valid (p : list byte) : val :=
  VL (map (fun c => if typed then VN else VBool (c_valid c)) (o_components p)).
Definition ob_parent (p : list byte) : val := vopt VB (o_parent p).
Definition ob_ancestors (p : list byte) : val := vlist VB (o_ancestors p).
(* the variant tag of every path parent / ancestors hand out (runtime-typed families) *)
Definition ob_parent_variants (p : list byte) : val :=
  if typed then VL ((match o_parent p with Some _ => [variant] | None => [] end) ++ map (fun _ => variant) (o_ancestors p)) else VL [].
Definition ob_names (p : list byte) : val :=
  vt [vopt VB (o_file_name p); vopt VB (o_file_stem p); vopt VB (o_extension p)].
Definition ob_rel (a b : list byte) : val :=
  vt [VBool (o_starts_with a b); VBool (o_ends_with a b); vopt VB (o_strip_prefix a b)].
Definition ob_eqcmp (a b : list byte) : val :=
  vt [VBool (o_eq a b); e_ord (o_cmp a b); VSome (e_ord (o_cmp a b)); VBool (negb (o_eq a b))].
Definition ob_hash (p : list byte) : val :=
  VL (map e_hcall ((if typed then [HIsize vidx] else []) ++ o_hash p)).
Definition ob_join (a b : list byte) : val := vpair (VB (o_push a b)) variant.
Definition ob_join_checked (a b : list byte) : val :=
  match o_push_checked a b with
  | (_, Some e) => VC "err" [e_err e]
  | (r, None) => VC "ok" [VB r]
  end.
Definition ob_normalize (p : list byte) : val := VB (o_normalize p).
Definition ob_with_file_name (p n : list byte) : val := VB (o_set_file_name p n).
Definition ob_with_extension (p e : list byte) : val := VB (fst (o_set_extension p e)).

Definition hist_step (buf : list byte) (op : hop) : list byte * val :=
  match op with
  | HPush x => (o_push buf x, VN)
  | HPushC x => match o_push_checked buf x with (b, Some e) => (b, e_err e) | (b, None) => (b, VN) end
  | HPop => let (b, r) := o_pop buf in (b, VBool r)
  | HSfn x => (o_set_file_name buf x, VN)
  | HSext x => let (b, r) := o_set_extension buf x in (b, VBool r)
  | HClear => ([], VN)
  | HJoin x => (o_push buf x, VN)
  | HWfn x => (o_set_file_name buf x, VN)
  | HWext x => (fst (o_set_extension buf x), VN)
  | HNorm => (o_normalize buf, VN)
  | HExtend xs => (fold_left o_push xs buf, VN)
  | HCollect xs => (fold_left o_push xs [], VN)
  | HBad => (buf, VC "badop" [])
  end.
Fixpoint obs_hist (buf : list byte) (ops : list hop) : list val :=
  match ops with
  | [] => []
  | op :: r => let (b, res) := hist_step buf op in vt [VB b; res; variant] :: obs_hist b r
  end.
Definition ob_hist (init_buf : list byte) (ops : list val) : val := VL (obs_hist init_buf (map d_hop ops)).
(* the remaining bytes after k front steps (a failed step leaves the iterator where it is) *)
Fixpoint front_k (k : nat) (s : st) : st :=
  match k with
  | O => s
  | S k' => match nextf s with Some (_, s') => front_k k' s' | None => front_k k' s end
  end.
(* PartialEq / PartialOrd of two partially consumed Components: the code re-parses what remains of each
   (src/unix/non_utf8/components.rs:115-140, src/windows/non_utf8/components.rs:256-285) *)
Definition ob_cons_parity (a b : list byte) : val :=
  VL (map (fun k => let ra := remaining (front_k k (init a)) in let rb := remaining (front_k k (init b)) in
                    vt [VBool (o_eq ra rb); VSome (e_ord (o_cmp ra rb))]) [1%nat; 2%nat]).
End Obs.

Definition UE : encops := {|
  st := ustate; cmp := comp; init := u_init; nextf := u_nextf; nextb := u_nextb; remaining := u_remaining;
  back_off := u_back_off; c_bytes := uc_bytes; c_inner := c_is_normal; c_valid := uc_is_valid; e_c := e_comp;
  has_root := u_has_root; is_absolute := u_is_absolute; st_has_root := us_has_root; st_is_absolute := us_has_root; st_prefix := (fun _ => VN); o_parent := u_parent; o_ancestors := u_ancestors;
  o_file_name := u_file_name; o_file_stem := u_file_stem; o_extension := u_extension;
  o_starts_with := u_starts_with; o_ends_with := u_ends_with; o_strip_prefix := u_strip_prefix;
  o_eq := u_path_eq; o_cmp := u_path_cmp; o_hash := u_hash; o_push := u_push; o_push_checked := u_push_checked;
  o_pop := u_pop; o_set_file_name := u_set_file_name; o_set_extension := u_set_extension; o_normalize := u_normalize;
  o_is_valid := u_is_valid; o_components := u_components; vtag := "tu"; vidx := 0 |}.
Definition wc_inner (c : wcomp) : bool := match c with WPrefix _ _ => true | WC (Normal _) => true | _ => false end.
Definition WE : encops := {|
  st := wstate; cmp := wcomp; init := w_init; nextf := w_nextf; nextb := w_nextb; remaining := w_remaining;
  back_off := w_back_off; c_bytes := wc_bytes; c_inner := wc_inner; c_valid := wc_is_valid; e_c := e_wcomp;
  has_root := w_has_root; is_absolute := w_is_absolute; st_has_root := ws_has_root; st_is_absolute := ws_is_absolute;
  st_prefix := (fun s => match w_nextf s with Some (WPrefix raw k, _) => VSome (vpair (VB raw) (e_wkind k)) | _ => VN end); o_parent := w_parent; o_ancestors := w_ancestors;
  o_file_name := w_file_name; o_file_stem := w_file_stem; o_extension := w_extension;
  o_starts_with := w_starts_with; o_ends_with := w_ends_with; o_strip_prefix := w_strip_prefix;
  o_eq := w_path_eq; o_cmp := w_path_cmp; o_hash := w_hash; o_push := w_push; o_push_checked := w_push_checked;
  o_pop := w_pop; o_set_file_name := w_set_file_name; o_set_extension := w_set_extension; o_normalize := w_normalize;
  o_is_valid := w_is_valid; o_components := w_components; vtag := "tw"; vidx := 1 |}.

(* real std::path (cfg(unix)) as transcribed in StdUnix.v: the "sd" family *)
Definition SE : encops := {|
  st := scomps; cmp := comp; init := s_init; nextf := s_nextf; nextb := s_nextb; remaining := s_as_path;
  back_off := fun _ => O; c_bytes := uc_bytes; c_inner := fun _ => false; c_valid := fun _ => true; e_c := e_comp;
  has_root := s_has_root; is_absolute := s_has_root;
  st_has_root := fun c => s_has_root (s_as_path c); st_is_absolute := fun c => s_has_root (s_as_path c); st_prefix := (fun _ => VN); o_parent := s_parent; o_ancestors := s_ancestors;
  o_file_name := s_file_name; o_file_stem := s_file_stem; o_extension := s_extension;
  o_starts_with := s_starts_with; o_ends_with := s_ends_with; o_strip_prefix := s_strip_prefix;
  o_eq := s_path_eq; o_cmp := s_path_cmp; o_hash := fun _ => []; o_push := s_push;
  o_push_checked := fun b p => (s_push b p, None);
  o_pop := s_pop; o_set_file_name := s_set_file_name; o_set_extension := s_set_extension; o_normalize := s_normalize;
  o_is_valid := fun _ => true; o_components := s_components; vtag := "sd"; vidx := 0 |}.
