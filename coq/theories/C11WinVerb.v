(* C11 for Windows paths with a VERBATIM prefix followed by a root: normalize, read again from scratch, is the
   lexical fold of the input's components (under exactly \\?\ a "." is a component: the fold drops it).
   Left out: the verbatim prefix named "UNC" (finding D17) and the one with the empty name. *)
From Coq Require Import List NArith Bool Lia Arith.
Import ListNotations.
From TP Require Import Core CoreProofs CoreSched Path Unix Win Spec Ops UnixProofs C02Proofs C04Proofs C08Proofs C11Proofs GenJoin
  WinProofs WinTrunc WinSimple C16Proofs C11WinProofs WinExtend C12Win C11WinPrefixed WinVerbJoin.
Open Scope N_scope.

Notation WPUSHC := (fun (buf : list byte) (c : wcomp) => w_push buf (wc_bytes c)).

(* the fold over a rooted stack of names: a root, then names *)
Lemma nfc_rooted cs : forall ns0, Forall pn_comp cs -> Forall (fun c => c <> Root) cs -> Forall pn_name ns0 ->
  exists ns, NFC cs (rev ns0 ++ [Root]) = Root :: ns /\ Forall pn_name ns.
Proof.
  induction cs as [|c cs IH]; intros ns0 Hg Hnr Hns; cbn [norm_fold].
  - exists ns0. split; [|exact Hns]. rewrite rev_app_distr. cbn [rev app]. rewrite rev_involutive. reflexivity.
  - inversion Hg as [|? ? Gc Gcs]; subst. inversion Hnr as [|? ? Nc Ncs]; subst.
    destruct c as [| | |n]; cbn [c_is_current c_is_parent negb andb].
    + congruence.
    + apply IH; assumption.
    + destruct ns0 as [|y ns1] using rev_ind.
      * cbn [rev app c_is_normal]. apply (IH [] Gcs Ncs (Forall_nil _)).
      * rewrite rev_app_distr. cbn [rev app]. apply Forall_app in Hns as [Hns1 Hy]. inversion Hy as [|? ? Hyn _]; subst.
        destruct y as [| | |m]; cbn in Hyn; try contradiction. cbn [c_is_normal]. apply IH; assumption.
    + assert (E : Normal n :: rev ns0 ++ [Root] = rev (ns0 ++ [Normal n]) ++ [Root]) by (rewrite rev_app_distr; reflexivity).
      rewrite E. apply IH; try assumption. apply Forall_app. split; [exact Hns|]. constructor; [exact Gc | constructor].
Qed.

Section VN.
Variables (p : list byte) (k : wprefix) (nm : bool).
Notation f := (s_wsep nm).
Hypothesis Hk : k_verbatim k = true.
Hypothesis Hunc : k <> Verbatim [85; 78; 67].
Hypothesis W : forall r', sep_headed f r' ->
  wprefix_grammar (p ++ r') = Some (k, r') /\ s_norm (p ++ r') = nm /\ wspec (p ++ r') = WPrefix p k :: map WC (spec_comps f nm r').

Definition VInv (buf : list byte) : Prop := exists rb, buf = p ++ rb /\ sep_headed f rb.

Lemma push_name_verb buf n : VInv buf -> pn n -> VInv (w_push buf n) /\ wspec (w_push buf n) = wspec buf ++ [WC (Normal n)].
Proof.
  intros (rb & -> & Hrb) (G & Hn). destruct (W rb Hrb) as (Hg & Hnm & _).
  assert (Hrb' : sep_headed (s_wsep (s_norm (p ++ rb))) rb) by (rewrite Hnm; exact Hrb).
  split.
  - destruct (join_verbatim_struct (p ++ rb) k rb n Hg Hk Hunc Hrb' Hn (gn_ne n G)) as (p' & items & items' & El & _ & _ & _ & _ & _ & _ & Ew).
    apply app_inv_tail in El. subst p'. rewrite Ew. exists (92 :: render (map cbytes items')). split; [reflexivity|].
    exists 92, (render (map cbytes items')). split; [reflexivity|]. unfold s_wsep. reflexivity.
  - apply (wspec_push_name_verbatim (p ++ rb) k rb n Hg Hk Hunc Hrb' Hn G).
Qed.
Lemma fold_push_names_verb ns : forall buf, VInv buf -> Forall pn_name ns ->
  wspec (fold_left WPUSHC (map WC ns) buf) = wspec buf ++ map WC ns.
Proof.
  induction ns as [|c ns IH]; intros buf Hb H; cbn [fold_left map]; [rewrite app_nil_r; reflexivity|].
  inversion H as [|? ? Hc Hns]; subst. destruct c as [| | |n]; cbn in Hc; try contradiction. cbn [wc_bytes].
  destruct (push_name_verb buf n Hb Hc) as (H1 & H2). rewrite (IH _ H1 Hns), H2, <- app_assoc. reflexivity.
Qed.
End VN.

Theorem w_normalize_verbatim l k r : wprefix_grammar l = Some (k, r) -> k_verbatim k = true ->
  k <> Verbatim [85; 78; 67] -> k <> Verbatim [] -> sep_headed (s_wsep (s_norm l)) r ->
  Forall pn_comp (spec_comps (s_wsep (s_norm l)) (s_norm l) r) ->
  wspec (w_normalize l) = nfold (wspec l) [] /\ w_normalize (w_normalize l) = w_normalize l.
Proof.
  intros Hg Hk Hunc Hemp Hr Hnames. set (nm := s_norm l) in *.
  assert (Hrne : r <> []) by (destruct Hr as (s & t & -> & _); discriminate).
  (* one name is enough to get the structure: use the join lemma's packaging with b = "x" *)
  destruct (join_verbatim_struct l k r [120] Hg Hk Hunc Hr eq_refl ltac:(discriminate)) as (p & items & _ & El & Hlen & W & Wl & Hit & _).
  fold nm in W, Wl, Hit.
  (* the bare prefix *)
  assert (Hbare : wspec p = [WPrefix p k]).
  { assert (Hpm : prefix l = Some (k, r)) by (rewrite <- prefix_grammar; exact Hg).
    destruct (prefix_trunc l k r [] Hpm (lead_nil r)) as (a & Ela & _ & Ept & _); [intros ->; congruence|].
    assert (a = p).
    { rewrite El in Ela. apply (f_equal (@rev byte)) in Ela. rewrite !rev_app_distr in Ela. apply app_inv_head in Ela.
      rewrite <- (rev_involutive p), <- (rev_involutive a), Ela. reflexivity. }
    subst a. rewrite app_nil_r in Ept. unfold wspec. rewrite prefix_grammar, Ept. cbn [length]. rewrite Nat.sub_0_r, firstn_all. reflexivity. }
  (* the body *)
  assert (Ebody : spec_comps (s_wsep nm) nm r = Root :: items).
  { destruct (W r Hr) as (_ & _ & W3). rewrite <- El in W3. rewrite Wl in W3. inversion W3 as [E]. clear W3.
    destruct (spec_comps (s_wsep nm) nm r) as [|c0 cs0]; [discriminate|]. cbn [map] in E. inversion E; subst c0.
    f_equal. clear -H1. revert items H1. induction cs0 as [|c cs IH]; intros [|i it] H; try discriminate; [reflexivity|].
    cbn [map] in H. inversion H; subst. f_equal. apply IH. assumption. }
  assert (Hni : Forall pn_comp items) by (rewrite Ebody in Hnames; inversion Hnames; assumption).
  assert (Hnr : Forall (fun c => c <> Root) items).
  { eapply Forall_impl; [|exact Hit]. intros c Hc ->. exact Hc. }
  destruct (nfc_rooted items [] Hni Hnr (Forall_nil _)) as (ns & Enf & Hns). cbn [rev app] in Enf.
  (* both sides *)
  assert (Rhs : nfold (wspec l) [] = WPrefix p k :: WC Root :: map WC ns).
  { rewrite Wl. cbn [nfold k_is_cur k_is_parent].
    pose proof (nfold_prefixed p k items [Root]) as Hnf. cbn [map app] in Hnf. rewrite Hnf, Enf. reflexivity. }
  assert (Hroot : w_push p [92] = p ++ [92]).
  { rewrite w_push_join_spec. unfold join_spec.
    assert (H1 : sp_has_prefix [92] = false) by reflexivity. rewrite H1.
    unfold sp_verbatim, sp_prefix. rewrite Hbare, Hk.
    assert (H2 : wspec [92] = [WC Root]) by reflexivity. rewrite H2. cbn [fold_left]. unfold vstep. cbn [k_is_cur k_is_parent k_is_root firstn app].
    cbn [vrender andb app wc_bytes k_is_root negb].
    assert (Hn : match WPrefix p k with WC Root => false | WPrefix _ (Disk _) => false | _ => true end = true) by (destruct k; try discriminate; reflexivity).
    rewrite Hn. cbn [andb negb app]. reflexivity. }
  assert (Hf92 : s_wsep nm 92 = true) by reflexivity.
  assert (Hinv : VInv p nm (p ++ [92])) by (exists [92]; split; [reflexivity | exists 92, []; auto]).
  assert (Wroot : wspec (p ++ [92]) = [WPrefix p k; WC Root]).
  { destruct (W [92] (ex_intro _ 92 (ex_intro _ [] (conj eq_refl Hf92)))) as (_ & _ & W3). rewrite W3. cbn [spec_comps]. rewrite Hf92. reflexivity. }
  assert (Unf : forall cs, fold_left WPUSHC (WPrefix p k :: WC Root :: map WC cs) [] = fold_left WPUSHC (map WC cs) (p ++ [92])).
  { intros cs. cbn [fold_left wc_bytes]. rewrite w_push_nil, Hroot. reflexivity. }
  assert (Lhs : w_normalize l = fold_left WPUSHC (map WC ns) (p ++ [92])).
  { rewrite w_normalize_unfold_all, Wl. cbn [norm_fold wc_is_current wc_is_parent negb andb].
    pose proof (nfw_prefixed p k items [Root]) as Hnw. cbn [map app] in Hnw. rewrite Hnw, Enf. apply Unf. }
  assert (Wn : wspec (w_normalize l) = WPrefix p k :: WC Root :: map WC ns).
  { rewrite Lhs. rewrite (fold_push_names_verb p k nm Hk Hunc W ns (p ++ [92]) Hinv Hns). rewrite Wroot. reflexivity. }
  split; [rewrite Wn, Rhs; reflexivity|].
  (* idempotence: the fold of a list without "." and ".." is the list *)
  rewrite (w_normalize_unfold_all (w_normalize l)), Wn.
  rewrite (NFW_fixed (WPrefix p k :: WC Root :: map WC ns) []).
  - cbn [rev app]. rewrite Unf. symmetry. exact Lhs.
  - constructor; [split; reflexivity|]. constructor; [split; reflexivity|].
    apply Forall_forall. intros c Hin. apply in_map_iff in Hin as (c0 & <- & Hin).
    rewrite Forall_forall in Hns. specialize (Hns _ Hin). destruct c0; cbn in Hns; try contradiction. split; reflexivity.
Qed.
