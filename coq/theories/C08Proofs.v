(* C08: the model of WindowsEncoding::push is the documented rule table [join_spec] of Spec.v,
   for all byte strings a and b. *)
From Coq Require Import List NArith Bool Lia Arith.
Import ListNotations.
From TP Require Import Core CoreProofs CoreSched Path Unix Win Spec UnixProofs WinProofs C02Proofs.
Open Scope N_scope.

Lemma last_c_last_w l : last_c l = last_w l.
Proof. reflexivity. Qed.
Lemma removelast_c_w l : removelast_c l = removelast_w l.
Proof.
  unfold removelast_w. induction l as [|x [|y t] IH]; [reflexivity | reflexivity |].
  change (removelast_c (x :: y :: t)) with (x :: removelast_c (y :: t)). rewrite IH.
  cbn [rev]. destruct (rev t ++ [y]) as [|z u] eqn:E.
  - destruct (rev t); discriminate.
  - cbn [app tl rev]. rewrite rev_app_distr. reflexivity.
Qed.
Lemma push_comp_vstep acc c : push_comp acc c = vstep acc c.
Proof.
  unfold push_comp, vstep. destruct c as [raw k|[| | |n]]; cbn [k_is_cur k_is_parent k_is_root]; try reflexivity.
  rewrite last_c_last_w. destruct (last_w acc) as [[r k|[| | |n]]|]; cbn [k_is_normal]; try reflexivity.
  apply removelast_c_w.
Qed.
Lemma fold_push_comp_vstep cs : forall acc, fold_left push_comp cs acc = fold_left vstep cs acc.
Proof. induction cs as [|c cs IH]; intros acc; cbn [fold_left]; [reflexivity|]. rewrite push_comp_vstep. apply IH. Qed.

Lemma rebuild_vrender cs : forall ns acc, rebuild cs ns acc = acc ++ vrender cs ns.
Proof.
  induction cs as [|c cs IH]; intros ns acc; cbn [rebuild vrender]; [rewrite app_nil_r; reflexivity|].
  rewrite IH. rewrite <- !app_assoc.
  assert (E : (ns && negb (wcomp_eqb c (WC Root))) = (ns && negb (k_is_root c))).
  { destruct c as [raw k|[| | |n]]; reflexivity. }
  rewrite E. destruct (ns && negb (k_is_root c)).
  - rewrite <- app_assoc. cbn [app]. f_equal. f_equal. f_equal.
    destruct c as [raw k|[| | |n]]; try reflexivity. destruct k; reflexivity.
  - cbn [app]. f_equal. f_equal. destruct c as [raw k|[| | |n]]; try reflexivity. destruct k; reflexivity.
Qed.

Lemma ends_with_sep_spec l : ends_with_byte l 92 || ends_with_byte l 47 = ends_in_sep l.
Proof.
  unfold ends_with_byte, ends_in_sep, last_byte, s_sep_any. destruct (rev l) as [|b t]; reflexivity.
Qed.

Lemma firstn_length_firstn {X} (l : list X) n : firstn (length (firstn n l)) l = firstn n l.
Proof.
  revert n; induction l as [|x l IH]; intros n; [destruct n; reflexivity|].
  destruct n; [reflexivity|]. cbn. f_equal. apply IH.
Qed.
(* the raw bytes of the prefix are the leading bytes of the path *)
Lemma sp_prefix_leading l raw k : sp_prefix l = Some (raw, k) -> firstn (length raw) l = raw.
Proof.
  unfold sp_prefix, wspec. destruct (wprefix_grammar l) as [[k' rest]|].
  - intros H. inversion H; subst. apply firstn_length_firstn.
  - destruct (spec_comps (s_wsep (s_norm l)) (s_norm l) l) as [|c t]; cbn; discriminate.
Qed.

Lemma q_has_prefix b : w_is_absolute b || w_has_prefix b = sp_has_prefix b.
Proof.
  rewrite w_is_absolute_spec, w_has_prefix_spec. unfold sp_has_prefix, sp_prefix.
  destruct (wspec b) as [|[raw k|c] t]; try reflexivity. destruct t as [|[r2 k2|[| | |n]] t]; reflexivity.
Qed.
Lemma q_verbatim a : w_has_any_verbatim_prefix a = sp_verbatim a.
Proof.
  rewrite w_has_any_verbatim_prefix_spec. unfold sp_verbatim, sp_prefix.
  destruct (wspec a) as [|[raw k|c] t]; try reflexivity.
Qed.
Lemma q_rooted b : sp_has_prefix b = false -> w_has_root b = sp_rooted b.
Proof.
  rewrite w_has_root_spec. unfold sp_has_prefix, sp_rooted, sp_prefix.
  destruct (wspec b) as [|[raw k|c] t]; try reflexivity. discriminate.
Qed.
Lemma q_prefix_raw a : firstn (w_prefix_len a) a = sp_prefix_raw a.
Proof.
  unfold w_prefix_len, sp_prefix_raw. rewrite w_prefix_of_spec. fold (sp_prefix a).
  destruct (sp_prefix a) as [[raw k]|] eqn:E; [|reflexivity]. apply (sp_prefix_leading a raw k E).
Qed.
Lemma q_only_disk a : w_is_only_disk a = sp_bare_drive a.
Proof. rewrite w_is_only_disk_spec. reflexivity. Qed.

Theorem w_push_join_spec a b : w_push a b = join_spec a b.
Proof.
  unfold w_push, join_spec. destruct b as [|b0 bt]; [reflexivity|].
  rewrite q_has_prefix. destruct (sp_has_prefix (b0 :: bt)) eqn:Hp; [reflexivity|].
  rewrite q_verbatim. destruct (sp_verbatim a) eqn:Hv.
  - rewrite !w_components_wspec, fold_push_comp_vstep, rebuild_vrender. reflexivity.
  - rewrite (q_rooted _ Hp). destruct (sp_rooted (b0 :: bt)); [rewrite q_prefix_raw; reflexivity|].
    rewrite q_only_disk. rewrite <- ends_with_sep_spec.
    destruct a as [|a0 at_]; [reflexivity|]. cbn [negb andb orb].
    destruct (ends_with_byte (a0 :: at_) 92), (ends_with_byte (a0 :: at_) 47), (sp_bare_drive (a0 :: at_)); reflexivity.
Qed.

(* histories: extend / FromIterator are folds of push, hence folds of the rule table *)
Theorem w_extend_join_spec ps : forall a, fold_left w_push ps a = fold_left join_spec ps a.
Proof. induction ps as [|p ps IH]; intros a; cbn [fold_left]; [reflexivity|]. rewrite w_push_join_spec. apply IH. Qed.

(* consequences stated by the property *)
Theorem join_empty a : join_spec a [] = a.
Proof. reflexivity. Qed.
Theorem join_prefixed a b : sp_has_prefix b = true -> join_spec a b = b.
Proof. unfold join_spec. intros H. rewrite H. destruct b; [|reflexivity]. cbn in H. discriminate. Qed.
(* in the non-verbatim cases the bytes are a (or just its prefix), the optional separator, b *)
Theorem join_nonverbatim_bytes a b : b <> [] -> sp_has_prefix b = false -> sp_verbatim a = false ->
  join_spec a b = sp_prefix_raw a ++ b \/ join_spec a b = a ++ b \/ join_spec a b = a ++ 92 :: b.
Proof.
  intros Hb Hp Hv. unfold join_spec. rewrite Hp, Hv. destruct b; [congruence|].
  destruct (sp_rooted _); [left; reflexivity|].
  destruct (_ || _ || _); [right; left; reflexivity | right; right; reflexivity].
Qed.
(* only a verbatim base normalises: vstep never lets a "." or ".." of b through, never removes the prefix or root *)
Lemma vstep_no_dots acc c : forallb (fun x => negb (k_is_cur x || k_is_parent x)) acc = true ->
  forallb (fun x => negb (k_is_cur x || k_is_parent x)) (vstep acc c) = true.
Proof.
  intros H. unfold vstep. destruct (k_is_cur c) eqn:Hc; [exact H|]. destruct (k_is_parent c) eqn:Hp.
  - destruct (last_w acc) as [x|]; [|exact H]. destruct (k_is_normal x); [|exact H].
    unfold removelast_w. rewrite forallb_forall in *. intros y Hy. apply H.
    apply in_rev in Hy. apply in_rev. destruct (rev acc); [destruct Hy | right; exact Hy].
  - destruct (k_is_root c) eqn:Hr.
    + rewrite forallb_app. cbn. rewrite Hc, Hp. cbn. rewrite andb_true_r.
      rewrite forallb_forall in *. intros y Hy. apply H. destruct acc; [destruct Hy|]. cbn in Hy. destruct Hy as [<-|[]]. left. reflexivity.
    + rewrite forallb_app. cbn. rewrite Hc, Hp, H. reflexivity.
Qed.
