(* Typed "composite operations": for each property, what is observed on one case
   (the model_ functions), and the executable oracle for the property itself, written against the
   specification only (the check_ functions).  The same check_ terms are (i) proved to accept the
   model on all inputs (Props/), (ii) extracted and evaluated on the implementation's
   output on every explored case. *)
From Coq Require Import List NArith Bool Lia.
Import ListNotations.
From TP Require Import Core Path Unix Spec.
Open Scope N_scope.

Definition ocomp_eqb (a b : option comp) : bool :=
  match a, b with Some x, Some y => comp_eqb x y | None, None => true | _, _ => false end.

(* ---------------- C01 ---------------- *)
Record c01_out := {
  c01_impl : list (option comp * list byte);      (* component, remaining bytes *)
  c01_std : list (option comp * list comp);       (* std: component, components of std's remainder *)
  c01_has_root : bool; c01_is_abs : bool;
  c01_std_has_root : bool; c01_std_is_abs : bool;
  c01_try_from : option comp;
  c01_flags : list (bool * bool);                 (* has_root / is_absolute asked of the iterator after every step *)
  c01_std_flags : list (bool * bool)              (* std: has_root / is_absolute of the remainder path *)
}.
Definition root_first (cs : list comp) : bool := match cs with Root :: _ => true | _ => false end.
Definition model_c01 (p : list byte) (sched : list bool) : c01_out :=
  {| c01_impl := map (fun x => (fst x, u_remaining (snd x))) (sched_run u_nextf u_nextb (u_init p) sched);
     c01_std := deq_run (ucomps p) sched;
     c01_has_root := u_has_root p; c01_is_abs := u_is_absolute p;
     c01_std_has_root := match ucomps p with Root :: _ => true | _ => false end;
     c01_std_is_abs := match ucomps p with Root :: _ => true | _ => false end;
     c01_try_from := u_try_from p;
     c01_flags := map (fun x => (us_has_root (snd x), us_has_root (snd x))) (sched_run u_nextf u_nextb (u_init p) sched);
     c01_std_flags := map (fun x => (root_first (snd x), root_first (snd x))) (deq_run (ucomps p) sched) |}.

Fixpoint all2 {A B} (f : A -> B -> bool) (a : list A) (b : list B) : bool :=
  match a, b with
  | [], [] => true
  | x :: a', y :: b' => f x y && all2 f a' b'
  | _, _ => false
  end.
Definition check_c01 (p : list byte) (sched : list bool) (o : c01_out) : bool :=
  let spec := deq_run (ucomps p) sched in
  let root := match ucomps p with Root :: _ => true | _ => false end in
  all2 (fun i s => ocomp_eqb (fst i) (fst s) && list_eqb (ucomps (snd i)) (snd s)) (c01_impl o) spec
  && all2 (fun i s => ocomp_eqb (fst i) (fst s) && list_eqb (snd i) (snd s)) (c01_std o) spec
  && Bool.eqb (c01_has_root o) root && Bool.eqb (c01_is_abs o) root
  && Bool.eqb (c01_std_has_root o) root && Bool.eqb (c01_std_is_abs o) root
  && ocomp_eqb (c01_try_from o) (match ucomps p with [c] => Some c | _ => None end)
  && all2 (fun f s => Bool.eqb (fst f) (root_first (snd s)) && Bool.eqb (snd f) (root_first (snd s))) (c01_flags o) spec
  && all2 (fun f s => Bool.eqb (fst f) (root_first (snd s)) && Bool.eqb (snd f) (root_first (snd s))) (c01_std_flags o) spec.
