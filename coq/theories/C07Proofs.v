(* C07: a Unix path buffer and a std::path::PathBuf (transcription) driven by the same history of
   push / pop / set_file_name / clear / extend / collect / join / with_file_name stay component-equal,
   and every boolean result agrees -- for every history and every pair of component-equal start buffers. *)
From Coq Require Import List NArith Bool Lia Arith String.
Import ListNotations.
From TP Require Import Core CoreProofs CoreSched Path Unix StdUnix Spec Val Obs UnixProofs C04Proofs StdProofs.
Open Scope N_scope.
Open Scope list_scope.

Lemma ucomps_nil_inv l : ucomps l = [] -> l = [].
Proof.
  intros H. destruct l as [|b r]; [reflexivity|]. exfalso.
  rewrite ucomps_cs in H. unfold cs in H. cbn [fst snd] in H.
  pose proof (front_spec usep true usep_dot AtBeg (b :: r) eq_refl) as F.
  cbn [parse_front] in F. destruct (usep b) eqn:Hb.
  - destruct F as (F & _). rewrite F in H. discriminate.
  - unfold filename in F. destruct (span_cons_nsep usep b r Hb) as (n' & rest & Hs & _). rewrite Hs in F.
    destruct F as (F & _). rewrite F in H. discriminate.
Qed.
Lemma ucomps_snoc_sep b : b <> [] -> ucomps (b ++ [47]) = ucomps b.
Proof.
  intros Hb. rewrite !ucomps_cs. unfold cs, cspec. cbn [fst snd].
  rewrite (body_snoc_sep usep true b 47 eq_refl). f_equal.
  apply lead_extra_app_keep; [exact Hb|]. destruct b as [|x [|y t]]; try exact I. reflexivity.
Qed.

(* std's push and the model's push are the same function of the bytes for a non-empty argument *)
Lemma s_push_u_push buf p : p <> [] -> s_push buf p = u_push buf p.
Proof.
  intros Hp. unfold s_push, u_push. destruct p as [|p0 pt]; [congruence|].
  unfold u_is_absolute. rewrite <- s_has_root_spec.
  destruct (s_has_root (p0 :: pt)); [reflexivity|].
  destruct buf as [|b0 bt]; [reflexivity|].
  destruct (last_byte (b0 :: bt)) as [c|]; [|reflexivity].
  unfold ssep. destruct (c =? 47); reflexivity.
Qed.
(* pushing onto component-equal buffers gives component-equal buffers *)
Lemma u_push_comps_eq a b p : ucomps a = ucomps b -> p <> [] -> ucomps (u_push a p) = ucomps (u_push b p).
Proof.
  intros E Hp. destruct p as [|p0 pt] eqn:Ep; [congruence|]. rewrite <- Ep in *.
  destruct (u_is_absolute p) eqn:Ha.
  - unfold u_push. rewrite Ep. rewrite <- Ep. rewrite Ha. reflexivity.
  - assert (Hr : no_root_p p).
    { unfold no_root_p. rewrite Ep. unfold u_is_absolute in Ha. rewrite u_has_root_spec, ucomps_cs in Ha.
      unfold cs, cspec in Ha. cbn [fst snd] in Ha. rewrite Ep in Ha. destruct (usep p0) eqn:Hs; [|reflexivity].
      rewrite (lead_extra_sep usep true p0 pt Hs) in Ha. discriminate. }
    destruct a as [|a0 at_] eqn:Ea; destruct b as [|b0 bt] eqn:Eb.
    + reflexivity.
    + symmetry in E. apply ucomps_nil_inv in E. discriminate.
    + apply ucomps_nil_inv in E. discriminate.
    + rewrite <- Ea, <- Eb in *. rewrite (u_push_comps a p Hr Hp) by (rewrite Ea; discriminate).
      rewrite (u_push_comps b p Hr Hp) by (rewrite Eb; discriminate). rewrite E. reflexivity.
Qed.
Lemma push_sim tp sd p : ucomps tp = ucomps sd -> ucomps (u_push tp p) = ucomps (s_push sd p).
Proof.
  intros E. destruct p as [|p0 pt] eqn:Ep.
  - (* empty argument: typed-path does nothing, std may append a separator *)
    cbn [u_push]. unfold s_push. cbn [s_has_root s_init s_root].
    destruct (last_byte sd) as [c|] eqn:El; [|rewrite app_nil_r; exact E].
    destruct (ssep c); cbn [negb]; [rewrite app_nil_r; exact E|].
    rewrite E. symmetry. apply ucomps_snoc_sep. intros ->. discriminate.
  - rewrite (s_push_u_push sd (p0 :: pt)) by discriminate. apply u_push_comps_eq; [exact E | discriminate].
Qed.
(* pop *)
Lemma s_pop_spec b : s_pop b = match s_parent b with Some r => (r, true) | None => (b, false) end.
Proof.
  unfold s_pop. pose proof (s_parent_spec b) as S. destruct (s_parent b) as [r|]; [|reflexivity].
  destruct (u_parent b) as [r'|]; [|contradiction]. destruct S as (_ & _ & (j & Hj) & _).
  rewrite Hj at 1. rewrite firstn_app, firstn_all, Nat.sub_diag. cbn. rewrite app_nil_r. reflexivity.
Qed.
Lemma pop_sim tp sd : ucomps tp = ucomps sd ->
  ucomps (fst (u_pop tp)) = ucomps (fst (s_pop sd)) /\ snd (u_pop tp) = snd (s_pop sd).
Proof.
  intros E. rewrite u_pop_spec, s_pop_spec. symmetry in E. pose proof (su_parent_comps sd tp E) as P.
  destruct (s_parent sd) as [r|]; destruct (u_parent tp) as [r'|]; try contradiction; cbn [fst snd].
  - split; [symmetry; exact P | reflexivity].
  - split; [symmetry; exact E | reflexivity].
Qed.
(* file_name is a function of the components *)
Lemma u_file_name_comps a b : ucomps a = ucomps b -> u_file_name a = u_file_name b.
Proof. intros E. rewrite !u_file_name_spec, E. reflexivity. Qed.
Lemma set_file_name_sim tp sd n : ucomps tp = ucomps sd ->
  ucomps (u_set_file_name tp n) = ucomps (s_set_file_name sd n).
Proof.
  intros E. unfold u_set_file_name, set_file_name, s_set_file_name. fold u_file_name u_pop.
  rewrite s_file_name_spec. rewrite <- (u_file_name_comps tp sd E).
  destruct (u_file_name tp); apply push_sim; [apply (pop_sim tp sd E) | exact E].
Qed.
Lemma extend_sim ps : forall tp sd, ucomps tp = ucomps sd -> ucomps (fold_left u_push ps tp) = ucomps (fold_left s_push ps sd).
Proof. induction ps as [|p ps IH]; intros tp sd E; cbn [fold_left]; [exact E|]. apply IH. apply push_sim. exact E. Qed.

(* the operations std::path::PathBuf shares with the crate *)
Definition std_op (op : hop) : bool :=
  match op with
  | HPush _ | HPop | HSfn _ | HClear | HJoin _ | HWfn _ | HExtend _ | HCollect _ => true
  | _ => false
  end.
Theorem hist_step_sim tp sd op : std_op op = true -> ucomps tp = ucomps sd ->
  ucomps (fst (hist_step UE tp op)) = ucomps (fst (hist_step SE sd op)) /\
  snd (hist_step UE tp op) = snd (hist_step SE sd op).
Proof.
  intros Hop E. destruct op; try discriminate; cbn [hist_step UE SE o_push o_pop o_set_file_name fst snd].
  - split; [apply push_sim; exact E | reflexivity].
  - destruct (pop_sim tp sd E) as (E1 & E2). destruct (u_pop tp) as [b1 r1]. destruct (s_pop sd) as [b2 r2].
    cbn [fst snd] in *. split; [exact E1 | rewrite E2; reflexivity].
  - split; [apply set_file_name_sim; exact E | reflexivity].
  - split; reflexivity.
  - split; [apply push_sim; exact E | reflexivity].
  - split; [apply set_file_name_sim; exact E | reflexivity].
  - split; [apply extend_sim; exact E | reflexivity].
  - split; [apply extend_sim; reflexivity | reflexivity].
Qed.
(* every history: after every step the two buffers are component-equal and the results agree *)
Fixpoint hist_bufs (E : encops) (buf : list byte) (ops : list hop) : list (list byte * val) :=
  match ops with
  | [] => []
  | op :: r => let (b, res) := hist_step E buf op in (b, res) :: hist_bufs E b r
  end.
Theorem hist_sim ops : forall tp sd, forallb std_op ops = true -> ucomps tp = ucomps sd ->
  Forall2 (fun u s => ucomps (fst u) = ucomps (fst s) /\ snd u = snd s) (hist_bufs UE tp ops) (hist_bufs SE sd ops).
Proof.
  induction ops as [|op ops IH]; intros tp sd Hops E; [constructor|].
  cbn [forallb] in Hops. apply andb_true_iff in Hops as [Hop Hops].
  cbn [hist_bufs]. destruct (hist_step_sim tp sd op Hop E) as (E1 & E2).
  destruct (hist_step UE tp op) as [b1 r1]. destruct (hist_step SE sd op) as [b2 r2]. cbn [fst snd] in *.
  constructor; [split; assumption | apply IH; assumption].
Qed.
(* whenever the pushed path is non-empty the two pushes are the same function of the bytes, so buffers
   that were byte-identical stay byte-identical *)
Theorem push_bytes buf p : p <> [] -> u_push buf p = s_push buf p.
Proof. intros H. symmetry. apply s_push_u_push. exact H. Qed.

(* the byte-level relation between the two buffers: identical, or std carries one extra trailing '/'
   (left by a push of the empty path, which typed-path ignores) *)
Definition Rb (tp sd : list byte) : Prop :=
  sd = tp \/ (sd = tp ++ [47] /\ tp <> [] /\ last_byte tp <> Some 47).
Lemma last_byte_app_single l x : last_byte (l ++ [x]) = Some x.
Proof. unfold last_byte. rewrite rev_app_distr. reflexivity. Qed.
(* a non-empty push makes the buffers byte-identical again, whatever the relation was *)
Theorem push_bytes_R tp sd p : Rb tp sd -> p <> [] -> u_push tp p = s_push sd p.
Proof.
  intros [-> | (-> & Hne & Hl)] Hp; [apply push_bytes; exact Hp|].
  rewrite (s_push_u_push _ p Hp). unfold u_push. destruct p as [|p0 pt]; [congruence|].
  destruct (u_is_absolute (p0 :: pt)); [reflexivity|].
  destruct tp as [|t0 tt] eqn:Et; [congruence|]. rewrite <- Et in *.
  destruct (tp ++ [47]) as [|z zs] eqn:Ez; [destruct tp; discriminate|]. rewrite <- Ez.
  rewrite last_byte_app_single. change (47 =? 47) with true. cbn iota.
  destruct (last_byte tp) as [b|] eqn:El.
  - destruct (b =? 47) eqn:Eb; [apply N.eqb_eq in Eb; subst; congruence|]. rewrite <- app_assoc. reflexivity.
  - exfalso. unfold last_byte in El. rewrite Et in El. destruct (rev (t0 :: tt)) eqn:Er; [|discriminate].
    apply (f_equal (@List.length N)) in Er. rewrite rev_length in Er. discriminate.
Qed.
(* pushes (also of the empty path), clear, extend and collect keep the relation *)
Lemma push_keeps_R tp sd p : Rb tp sd -> Rb (u_push tp p) (s_push sd p).
Proof.
  intros HR. destruct p as [|p0 pt] eqn:Ep.
  - cbn [u_push]. unfold s_push. cbn [s_has_root s_init s_root].
    destruct HR as [-> | (-> & Hne & Hl)].
    + destruct (last_byte tp) as [c|] eqn:El; [|left; apply app_nil_r].
      unfold ssep. destruct (c =? 47) eqn:Ec; cbn [negb]; [left; apply app_nil_r|].
      right. split; [reflexivity|]. split; [intros ->; discriminate|]. rewrite El. intros X; inversion X; subst. discriminate.
    + rewrite last_byte_app_single. cbn. right. rewrite app_nil_r. auto.
  - left. symmetry. apply push_bytes_R; [exact HR | discriminate].
Qed.
Lemma extend_keeps_R ps : forall tp sd, Rb tp sd -> Rb (fold_left u_push ps tp) (fold_left s_push ps sd).
Proof. induction ps as [|p ps IH]; intros tp sd H; cbn [fold_left]; [exact H|]. apply IH. apply push_keeps_R. exact H. Qed.
Lemma Rb_comps tp sd : Rb tp sd -> ucomps tp = ucomps sd.
Proof. intros [-> | (-> & Hne & _)]; [reflexivity|]. symmetry. apply ucomps_snoc_sep. exact Hne. Qed.
