(* C18 - Every operation is total: no panic and no non-termination on any input.
   What the model can carry: the loops of the modelled code stop by themselves (fuel beyond the input
   length is irrelevant) and the slice arithmetic of the parsers stays in bounds in every reachable
   state.  What it cannot exhibit (allocation, stack depth, time) is covered by running every operation
   under catch_unwind and a watchdog on long inputs, release and debug builds (implementation-only stream). *)
From Coq Require Import List NArith Bool.
Import ListNotations.
From TP Require Import Core CoreProofs CoreSched Path Unix Win Spec Utf8 UnixProofs WinProofs C17Proofs Utf8Proofs.

(* component iteration terminates: any fuel >= S (length input) collects the same components *)
Theorem C18_unix_components_terminate : forall (p : list N) (k : nat),
  front_all ustate comp u_nextf (S (length p) + k) (u_init p) = u_components p.
Proof. exact u_components_fuel_stable. Qed.
Theorem C18_windows_components_terminate : forall (l : list N) (k : nat),
  front_all wstate wcomp w_nextf (S (length l) + k) (w_init l) = w_components l.
Proof. exact w_components_fuel_stable. Qed.
(* every front step strictly shortens the input (the progress argument behind zero_or_more / the trimming loops) *)
Theorem C18_front_step_progress : forall (is_sep : N -> bool) (norm : bool), is_sep 46%N = false ->
  forall s, inv is_sep norm s = true ->
  match next_front is_sep norm s with
  | Some (_, s') => (length (snd s') < length (snd s))%nat
  | None => True
  end.
Proof.
  intros is_sep norm Hd s H. pose proof (next_front_spec is_sep norm Hd s H) as F.
  destruct (next_front is_sep norm s) as [[c s']|]; [destruct F as (_ & _ & X); exact X | exact I].
Qed.
(* ancestors is finite *)
Theorem C18_ancestors_finite : forall p : list N, (length (u_ancestors p) <= S (S (length p)))%nat.
Proof. exact u_ancestors_finite. Qed.
(* Windows parser: &input[prefix.len()..] and &input[..len] are in bounds in every reachable state *)
Theorem C18_windows_prefix_slice_in_bounds : forall (l : list N) (sched : list bool),
  Forall (fun x => (plen (snd x) <= length (w_input (snd x)))%nat) (sched_run w_nextf w_nextb (w_init l) sched).
Proof. exact w_reachable_prefix_in_bounds. Qed.
Theorem C18_windows_back_truncation_in_bounds : forall (s : wstate) (c : comp) (l' : list N), winv s ->
  parse_back (wsep (w_norm s)) (w_norm s) (w_st s) (skipn (plen s) (w_input s)) = Some (c, l') ->
  (length l' + plen s <= length (w_input s))%nat.
Proof. exact w_back_truncation_in_bounds. Qed.
Theorem C18_pop_truncation_in_bounds : forall p : list N, (length (fst (u_pop p)) <= length p)%nat.
Proof. exact u_pop_in_bounds. Qed.
(* the UTF-8 decoder makes progress on non-empty input and never reads past the end *)
Theorem C18_utf8_step_progress : forall (l : list N) (ok : bool) (n : nat),
  l <> [] -> utf8_step l = (ok, n) -> (0 < n <= length l)%nat.
Proof. intros l ok n H E. split; [eapply step_pos; eauto | eapply step_le; eauto]. Qed.
Print Assumptions C18_unix_components_terminate.
Print Assumptions C18_windows_components_terminate.
Print Assumptions C18_front_step_progress.
Print Assumptions C18_windows_prefix_slice_in_bounds.
Print Assumptions C18_windows_back_truncation_in_bounds.
Print Assumptions C18_utf8_step_progress.
