(* C07 - Unix path buffers track std::path::PathBuf over every mutation history.
   std::path::PathBuf is its transcription in StdUnix.v (push, pop, set_file_name over std's Components
   state machine), diffed against the real PathBuf on every explored history (pair.hist). *)
From Coq Require Import List NArith Bool.
Import ListNotations.
From TP Require Import Core Path Unix StdUnix Spec Val Obs C07Proofs StdParentBytes C07Bytes.

(* For EVERY history of push / pop / set_file_name / clear / extend / collect / join / with_file_name and
   every pair of component-equal start buffers: after every step the two buffers are component-equal
   and the step's result (the boolean of pop) is the same *)
Theorem C07_history : forall (ops : list hop) (tp sd : list N),
  forallb std_op ops = true -> ucomps tp = ucomps sd ->
  Forall2 (fun u s => ucomps (fst u) = ucomps (fst s) /\ snd u = snd s) (hist_bufs UE tp ops) (hist_bufs SE sd ops).
Proof. exact hist_sim. Qed.
Check C07_history.
(* one step, un-folded *)
Theorem C07_step : forall (tp sd : list N) (op : hop), std_op op = true -> ucomps tp = ucomps sd ->
  ucomps (fst (hist_step UE tp op)) = ucomps (fst (hist_step SE sd op)) /\
  snd (hist_step UE tp op) = snd (hist_step SE sd op).
Proof. exact hist_step_sim. Qed.
(* whenever the pushed path is non-empty the two buffers are byte-identical: for identical buffers,
   and also when std's buffer carries the extra trailing '/' a push of the empty path leaves behind
   (relation Rb); pushes, clear, extend and collect keep that relation *)
Theorem C07_push_bytes : forall buf p : list N, p <> [] -> u_push buf p = s_push buf p.
Proof. exact push_bytes. Qed.
Theorem C07_push_bytes_R : forall tp sd p : list N, Rb tp sd -> p <> [] -> u_push tp p = s_push sd p.
Proof. exact push_bytes_R. Qed.
Theorem C07_push_keeps_R : forall tp sd p : list N, Rb tp sd -> Rb (u_push tp p) (s_push sd p).
Proof. exact push_keeps_R. Qed.
Theorem C07_extend_keeps_R : forall (ps : list (list N)) (tp sd : list N), Rb tp sd -> Rb (fold_left u_push ps tp) (fold_left s_push ps sd).
Proof. exact extend_keeps_R. Qed.
Theorem C07_R_component_equal : forall tp sd : list N, Rb tp sd -> ucomps tp = ucomps sd.
Proof. exact Rb_comps. Qed.
Print Assumptions C07_history.
Print Assumptions C07_step.
Print Assumptions C07_push_bytes.
Print Assumptions C07_push_bytes_R.
Print Assumptions C07_push_keeps_R.
Print Assumptions C07_extend_keeps_R.
Print Assumptions C07_R_component_equal.
(* the byte-level statement for every history (this was C07_bytes_partial until StdParentBytes.v /
   C07Bytes.v): pop and set_file_name keep Rb too, because the two parents are the same bytes and a
   trailing '/' does not change the parent; hence after every step of every history over the shared
   operations the buffers are related by Rb and the results agree, and a push or join of a non-empty
   path after any history leaves byte-identical buffers *)
Theorem C07_pop_keeps_R : forall tp sd : list N, Rb tp sd ->
  Rb (fst (u_pop tp)) (fst (s_pop sd)) /\ snd (u_pop tp) = snd (s_pop sd).
Proof. exact pop_keeps_R. Qed.
Theorem C07_set_file_name_keeps_R : forall tp sd n : list N, Rb tp sd -> Rb (u_set_file_name tp n) (s_set_file_name sd n).
Proof. exact sfn_keeps_R. Qed.
Theorem C07_history_bytes : forall (ops : list hop) (tp sd : list N), forallb std_op ops = true -> Rb tp sd ->
  Forall2 (fun u s => Rb (fst u) (fst s) /\ snd u = snd s) (hist_bufs UE tp ops) (hist_bufs SE sd ops).
Proof. exact hist_R. Qed.
Theorem C07_history_then_push_bytes : forall (buf : list N) (ops : list hop) (p : list N),
  forallb std_op ops = true -> p <> [] ->
  hist_end UE buf (ops ++ [HPush p]) = hist_end SE buf (ops ++ [HPush p]).
Proof. exact hist_then_push_bytes. Qed.
Print Assumptions C07_pop_keeps_R.
Print Assumptions C07_set_file_name_keeps_R.
Print Assumptions C07_history_bytes.
Print Assumptions C07_history_then_push_bytes.

Example C07_example :
  map fst (hist_bufs UE [47;97] [HPush [98;47;99]; HPop; HSfn [100;46;101]; HPush []; HPush [102]])
  = [[47;97;47;98;47;99]; [47;97;47;98]; [47;97;47;100;46;101]; [47;97;47;100;46;101]; [47;97;47;100;46;101;47;102]]
  /\ map fst (hist_bufs SE [47;97] [HPush [98;47;99]; HPop; HSfn [100;46;101]; HPush []; HPush [102]])
  = [[47;97;47;98;47;99]; [47;97;47;98]; [47;97;47;100;46;101]; [47;97;47;100;46;101;47]; [47;97;47;100;46;101;47;102]].
Proof. vm_compute. split; reflexivity. Qed.
