(* C03 - Component iteration is double-ended-coherent and conserves the input bytes.
   Property theorems only; proofs in CoreSched.v, Deq.v, UnixProofs.v, WinProofs.v. *)
From Coq Require Import List NArith Bool.
Import ListNotations.
From TP Require Import Core CoreProofs CoreSched Path Unix Win Spec UnixProofs WinProofs Val Obs C03Slices.

(* Unix: any interleaving of front and back steps pops the specification list [ucomps p]
   from the requested ends (every component exactly once and in order; None once it is
   empty), and the bytes still held re-parse to the un-consumed middle *)
Theorem C03_unix_interleave : forall (p : list N) (sched : list bool),
  map (fun x => (fst x, ucomps (u_remaining (snd x)))) (sched_run u_nextf u_nextb (u_init p) sched)
  = deq_run (ucomps p) sched.
Proof. exact u_sched_spec. Qed.
Print Assumptions C03_unix_interleave.

(* Windows: the same for the prefix-aware parser; [wcs] is the component list the iterator
   still holds (the pre-parsed prefix, if not yet handed out, then the core's components) *)
Theorem C03_windows_interleave : forall (l : list N) (sched : list bool),
  map (fun x => (fst x, wcs (snd x))) (sched_run w_nextf w_nextb (w_init l) sched) = deq_run (w_components l) sched.
Proof. exact w_interleave. Qed.
Print Assumptions C03_windows_interleave.

(* taking components from the back yields the reverse of taking them from the front *)
Theorem C03_unix_back_is_rev_front : forall p : list N, u_components_rev p = rev (u_components p).
Proof. exact u_back_is_rev_front. Qed.
Theorem C03_windows_back_is_rev_front : forall l : list N, w_components_rev l = rev (w_components l).
Proof. exact w_back_is_rev_front. Qed.
Print Assumptions C03_unix_back_is_rev_front.
Print Assumptions C03_windows_back_is_rev_front.

(* the iterator is exhausted after finitely many steps: fuel beyond the input length never
   changes what is collected (the loop stopped by itself, not by running out of fuel) *)
Theorem C03_unix_terminates : forall (p : list N) (k : nat),
  front_all ustate comp u_nextf (S (length p) + k) (u_init p) = u_components p.
Proof. exact u_components_fuel_stable. Qed.
Theorem C03_windows_terminates : forall (l : list N) (k : nat),
  front_all wstate wcomp w_nextf (S (length l) + k) (w_init l) = w_components l.
Proof. exact w_components_fuel_stable. Qed.
Print Assumptions C03_unix_terminates.
Print Assumptions C03_windows_terminates.

(* ... and stays exhausted: in every state a schedule can reach, once no component is left every
   further step from either end answers None and leaves the iterator where it is *)
Theorem C03_unix_stays_exhausted : forall (p : list N) (sched : list bool),
  Forall (fun x => ucomps (u_remaining (snd x)) = [] ->
                   forall sched2, sched_run u_nextf u_nextb (snd x) sched2 = map (fun _ => (None, snd x)) sched2)
         (sched_run u_nextf u_nextb (u_init p) sched).
Proof. exact u_exhausted_stays. Qed.
Theorem C03_windows_stays_exhausted : forall (l : list N) (sched : list bool),
  Forall (fun x => wcs (snd x) = [] ->
                   forall sched2, sched_run w_nextf w_nextb (snd x) sched2 = map (fun _ => (None, snd x)) sched2)
         (sched_run w_nextf w_nextb (w_init l) sched).
Proof. exact w_exhausted_stays. Qed.
Print Assumptions C03_unix_stays_exhausted.
Print Assumptions C03_windows_stays_exhausted.

(* at most one prefix, and only first *)
Theorem C03_windows_prefix_only_first : forall (l : list N) (c : wcomp),
  In c (tl (w_components l)) -> match c with WPrefix _ _ => False | WC _ => True end.
Proof. exact w_prefix_only_first. Qed.
(* the raw prefix is a non-empty leading slice of the input *)
Theorem C03_windows_prefix_is_leading_slice : forall (l raw : list N) (k : wprefix),
  prefix_component l = Some (raw, k) -> exists rest, prefix l = Some (k, rest) /\ l = raw ++ rest /\ raw <> [].
Proof. exact prefix_component_raw. Qed.
Print Assumptions C03_windows_prefix_is_leading_slice.

(* conservation, at the level of the declarative split that defines the components: the input
   is its separator-free segments woven with single separator bytes, in order and without
   overlap; the normal components are exactly the segments that are not "", "." or ".."
   (definition of seg_comp), so everything between them is separators, "." and ".." *)
Theorem C03_conservation : forall (is_sep : N -> bool) (l : list N), exists seps : list N,
  (Forall (fun b => is_sep b = true) seps) /\
  (S (length seps) = length (split is_sep l))%nat /\ (l = weave (split is_sep l) seps) /\
  (Forall (fun g => nosep is_sep g = true) (split is_sep l)).
Proof. exact split_weave. Qed.
Print Assumptions C03_conservation.
(* "the prefix and every normal component are sub-slices of the input that appear in order without
   overlap" (this was C03_offsets_partial until C03Slices.v).  For the generic core parser -- any separator
   test, normalising or not, hence Unix and the Windows body -- and any schedule of front and back steps
   started on a window of a larger input: every normal name handed out is the slice of the ORIGINAL input
   at the reported offset, the windows of unconsumed input are nested, and each slice lies inside the
   window before its step and outside the window after it (before it for a front step, behind it for a
   back step).  Hence any two slices are disjoint, front slices ascend, back slices descend, and a front
   slice lies before every slice handed out later.  The offsets meant are the ones the model prints
   (C03_unix_reported_offsets, C03_windows_reported_offsets), which are compared with the implementation's
   on every explored case; that
   the gaps consist of separators, "." and ".." is C03_conservation above. *)
Theorem C03_slices : forall (is_sep : N -> bool) (norm : bool), is_sep 46 = false ->
  forall (sched : list bool) (s : pstate * list N) (a : nat) (pre post : list N), length pre = a ->
  entries_ok (pre ++ snd s ++ post) (a, length (snd s)) (slices is_sep norm s a sched).
Proof. exact slices_ok. Qed.
Theorem C03_slices_ordered : forall (p : list N) (es : list entry) (w : nat * nat), entries_ok p w es ->
  forall (i j : nat) (ei ej : entry), (i < j)%nat -> nth_error es i = Some ei -> nth_error es j = Some ej ->
  match snd (fst ei), snd (fst ej) with
  | Some (oi, ni), Some (oj, nj) => if fst (fst ei) then (oj + length nj <= oi)%nat else (oi + length ni <= oj)%nat
  | _, _ => True
  end.
Proof. exact slices_ordered. Qed.
Theorem C03_unix_slices : forall (p : list N) (sched : list bool),
  entries_ok p (0%nat, length p) (slices usep true (u_init p) 0 sched).
Proof. exact u_slices_ok. Qed.
Theorem C03_unix_reported_offsets : forall (sched : list bool) (s : ustate) (a : nat),
  map step_off (obs_sched UE false s a sched) = map entry_off (slices usep true s a sched).
Proof. exact obs_sched_offsets. Qed.
Print Assumptions C03_slices.
Print Assumptions C03_slices_ordered.
Print Assumptions C03_unix_slices.
Print Assumptions C03_unix_reported_offsets.
(* the same for the Windows iterator: the prefix is a slice as well (at the start of the window), the body
   is the generic core over what follows it *)
Theorem C03_windows_slices : forall (l : list N) (sched : list bool),
  entries_ok l (0%nat, length l) (wslices (w_init l) 0 sched).
Proof. exact w_slices_ok. Qed.
Theorem C03_windows_reported_offsets : forall (sched : list bool) (s : wstate) (a : nat),
  map step_off (obs_sched WE false s a sched) = map entry_off (wslices s a sched).
Proof. exact obs_sched_offsets_w. Qed.
Print Assumptions C03_windows_slices.
Print Assumptions C03_windows_reported_offsets.
Example C03_windows_slices_example :
  map entry_off (wslices (w_init [67;58;92;97;47;46;47;98;92]) 0 [true; false; false; true; false])
  = [VSome (vnat 7); VSome (vnat 0); VN; VSome (vnat 3); VN].
Proof. vm_compute. reflexivity. Qed.
Example C03_slices_example :
  map entry_off (slices usep true (u_init [47;97;47;47;98;47;46;47;99]) 0 [false; true; false; false])
  = [VN; VSome (vnat 8); VSome (vnat 1); VSome (vnat 4)].
Proof. vm_compute. reflexivity. Qed.

Example C03_example_windows :
  map fst (sched_run w_nextf w_nextb (w_init [67;58;92;97;47;46;47;98;92]) [true; false; false; true; false])
  = [Some (WC (Normal [98])); Some (WPrefix [67;58] (Disk 67)); Some (WC Root); Some (WC (Normal [97])); None].
Proof. vm_compute. reflexivity. Qed.
