(* C03 - Component iteration is double-ended-coherent and conserves the input bytes.
   Property theorems only; proofs in CoreSched.v, Deq.v, UnixProofs.v, WinProofs.v. *)
From Coq Require Import List NArith Bool.
Import ListNotations.
From TP Require Import Core CoreProofs CoreSched Path Unix Win Spec UnixProofs WinProofs.

(* Unix: any interleaving of front and back steps pops the specification list [ucomps p]
   from the requested ends (every component exactly once and in order; None once it is
   empty), and the bytes still held re-parse to the un-consumed middle *)
Theorem C03_unix_interleave : forall (p : list N) (sched : list bool),
  map (fun x => (fst x, ucomps (u_remaining (snd x)))) (sched_run u_nextf u_nextb (u_init p) sched)
  = deq_run (ucomps p) sched.
Proof. exact u_sched_spec. Qed.
Print Assumptions C03_unix_interleave.

(* Windows: the same for the prefix-aware parser; [wcs] is the component list the iterator
   still holds (the pre-parsed prefix, if not yet handed out, then the core's components) *)
Theorem C03_windows_interleave : forall (l : list N) (sched : list bool),
  map (fun x => (fst x, wcs (snd x))) (sched_run w_nextf w_nextb (w_init l) sched) = deq_run (w_components l) sched.
Proof. exact w_interleave. Qed.
Print Assumptions C03_windows_interleave.

(* taking components from the back yields the reverse of taking them from the front *)
Theorem C03_unix_back_is_rev_front : forall p : list N, u_components_rev p = rev (u_components p).
Proof. exact u_back_is_rev_front. Qed.
Theorem C03_windows_back_is_rev_front : forall l : list N, w_components_rev l = rev (w_components l).
Proof. exact w_back_is_rev_front. Qed.
Print Assumptions C03_unix_back_is_rev_front.
Print Assumptions C03_windows_back_is_rev_front.

(* the iterator is exhausted after finitely many steps: fuel beyond the input length never
   changes what is collected (the loop stopped by itself, not by running out of fuel) *)
Theorem C03_unix_terminates : forall (p : list N) (k : nat),
  front_all ustate comp u_nextf (S (length p) + k) (u_init p) = u_components p.
Proof. exact u_components_fuel_stable. Qed.
Theorem C03_windows_terminates : forall (l : list N) (k : nat),
  front_all wstate wcomp w_nextf (S (length l) + k) (w_init l) = w_components l.
Proof. exact w_components_fuel_stable. Qed.
Print Assumptions C03_unix_terminates.
Print Assumptions C03_windows_terminates.

(* ... and stays exhausted: in every state a schedule can reach, once no component is left every
   further step from either end answers None and leaves the iterator where it is *)
Theorem C03_unix_stays_exhausted : forall (p : list N) (sched : list bool),
  Forall (fun x => ucomps (u_remaining (snd x)) = [] ->
                   forall sched2, sched_run u_nextf u_nextb (snd x) sched2 = map (fun _ => (None, snd x)) sched2)
         (sched_run u_nextf u_nextb (u_init p) sched).
Proof. exact u_exhausted_stays. Qed.
Theorem C03_windows_stays_exhausted : forall (l : list N) (sched : list bool),
  Forall (fun x => wcs (snd x) = [] ->
                   forall sched2, sched_run w_nextf w_nextb (snd x) sched2 = map (fun _ => (None, snd x)) sched2)
         (sched_run w_nextf w_nextb (w_init l) sched).
Proof. exact w_exhausted_stays. Qed.
Print Assumptions C03_unix_stays_exhausted.
Print Assumptions C03_windows_stays_exhausted.

(* at most one prefix, and only first *)
Theorem C03_windows_prefix_only_first : forall (l : list N) (c : wcomp),
  In c (tl (w_components l)) -> match c with WPrefix _ _ => False | WC _ => True end.
Proof. exact w_prefix_only_first. Qed.
(* the raw prefix is a non-empty leading slice of the input *)
Theorem C03_windows_prefix_is_leading_slice : forall (l raw : list N) (k : wprefix),
  prefix_component l = Some (raw, k) -> exists rest, prefix l = Some (k, rest) /\ l = raw ++ rest /\ raw <> [].
Proof. exact prefix_component_raw. Qed.
Print Assumptions C03_windows_prefix_is_leading_slice.

(* conservation, at the level of the declarative split that defines the components: the input
   is its separator-free segments woven with single separator bytes, in order and without
   overlap; the normal components are exactly the segments that are not "", "." or ".."
   (definition of seg_comp), so everything between them is separators, "." and ".." *)
Theorem C03_conservation : forall (is_sep : N -> bool) (l : list N), exists seps : list N,
  (Forall (fun b => is_sep b = true) seps) /\
  (S (length seps) = length (split is_sep l))%nat /\ (l = weave (split is_sep l) seps) /\
  (Forall (fun g => nosep is_sep g = true) (split is_sep l)).
Proof. exact split_weave. Qed.
Print Assumptions C03_conservation.
(* C03_offsets_partial: that the byte offsets the implementation reports for each prefix / normal
   component are those of the woven segments is not proved; it is checked on every explored case
   by oracle_c03 (slices at the reported offsets, ascending, disjoint, junk-only gaps). *)

Example C03_example_windows :
  map fst (sched_run w_nextf w_nextb (w_init [67;58;92;97;47;46;47;98;92]) [true; false; false; true; false])
  = [Some (WC (Normal [98])); Some (WPrefix [67;58] (Disk 67)); Some (WC Root); Some (WC (Normal [97])); None].
Proof. vm_compute. reflexivity. Qed.
