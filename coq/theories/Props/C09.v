(* C09 - parent, ancestors and pop remove exactly the last component. *)
From Coq Require Import List NArith Bool.
Import ListNotations.
From TP Require Import Core Path Unix Win Spec UnixProofs WinProofs WinTrunc.

(* Unix, full strength: the parent is a leading byte slice whose components (re-parsed from
   scratch) are the original's without the last one, and the removed component is a name, "." or ".." *)
Theorem C09_unix_parent_some : forall p r : list N, u_parent p = Some r ->
  (exists j, p = r ++ j) /\ ucomps r = removelast (ucomps p) /\
  (exists c, ucomps p = ucomps r ++ [c] /\ removable_c c = true).
Proof. exact u_parent_some. Qed.
(* absent exactly when the path is empty or ends in the root *)
Theorem C09_unix_parent_none : forall p : list N,
  u_parent p = None <-> (ucomps p = [] \/ exists cs, ucomps p = cs ++ [Root]).
Proof. exact u_parent_none. Qed.
(* pop truncates the buffer to exactly the parent; false and unchanged when there is none *)
Theorem C09_unix_pop : forall p : list N,
  u_pop p = match u_parent p with Some r => (r, true) | None => (p, false) end.
Proof. exact u_pop_spec. Qed.
(* ancestors: the path itself, then the ancestors of its parent; finite *)
Theorem C09_unix_ancestors : forall p : list N,
  u_ancestors p = p :: match u_parent p with Some r => u_ancestors r | None => [] end.
Proof. exact u_ancestors_unfold. Qed.
Theorem C09_unix_ancestors_finite : forall p : list N, (length (u_ancestors p) <= S (S (length p)))%nat.
Proof. exact u_ancestors_finite. Qed.
Print Assumptions C09_unix_parent_some.
Print Assumptions C09_unix_parent_none.
Print Assumptions C09_unix_pop.
Print Assumptions C09_unix_ancestors.

(* Windows *)
Theorem C09_windows_parent_none : forall l : list N,
  w_parent l = None <-> (w_components l = [] \/ exists cs c, w_components l = cs ++ [c] /\ wremovable c = false).
Proof. exact w_parent_none. Qed.
Theorem C09_windows_parent_slice : forall l r : list N, w_parent l = Some r -> exists j, l = r ++ j.
Proof. exact w_parent_slice. Qed.
Theorem C09_windows_pop : forall l : list N,
  w_pop l = match w_parent l with Some r => (r, true) | None => (l, false) end.
Proof. exact w_pop_spec. Qed.
(* the parent is the input of the iterator after the back step, and that iterator holds exactly the
   components without the last one ... *)
Theorem C09_windows_parent_state : forall l r : list N, w_parent l = Some r ->
  exists s' c, w_nextb (w_init l) = Some (c, s') /\ r = w_input s' /\ wremovable c = true /\
               w_components l = wcs s' ++ [c] /\ wcs s' = removelast (w_components l).
Proof. exact w_parent_some. Qed.
(* ... and read again from scratch -- a new prefix parse of the shortened bytes -- the parent has exactly
   the components of the path without the last one, for every Windows input, all six prefix kinds and
   their look-alikes included (this was C09_windows_parent_some_partial until WinTrunc.v).  The core is
   the stability of the prefix grammar under truncation of what follows the prefix (C09_prefix_truncation):
   each alternative is stable when its rest is shortened, failure of an alternative is inherited by every
   leading piece of the input, and the one real exception -- the verbatim prefix with the empty name
   truncated to nothing, which would read as UNC("?") -- cannot arise from a parent, because what follows
   that prefix starts with a separator and a back step that leaves nothing has handed out the root. *)
Theorem C09_windows_parent : forall l r : list N, w_parent l = Some r ->
  w_components r = removelast (w_components l).
Proof. exact w_parent_reparse. Qed.
(* and so along the whole ancestors chain: every entry, read again from scratch, is the previous entry
   without its last component *)
Theorem C09_windows_ancestors_chain : forall l : list N, comp_chain (w_ancestors l).
Proof. exact w_ancestors_chain. Qed.
Theorem C09_prefix_truncation : forall (l : list N) (k : wprefix) (r r' : list N),
  prefix l = Some (k, r) -> lead r' r -> (k = Verbatim [] -> r' = [] -> r = []) ->
  exists a, l = a ++ r /\ a <> [] /\ prefix (a ++ r') = Some (k, r') /\ exact_verbatim (a ++ r') = exact_verbatim l.
Proof. exact prefix_trunc. Qed.
Print Assumptions C09_windows_parent_none.
Print Assumptions C09_windows_parent_slice.
Print Assumptions C09_windows_pop.
Print Assumptions C09_windows_parent_state.
Print Assumptions C09_windows_parent.
Print Assumptions C09_prefix_truncation.
Print Assumptions C09_windows_ancestors_chain.

(* non-vacuity *)
Example C09_example : u_parent [47;97;47;98;47;46;47] = Some [47;97] /\ w_parent [67;58] = None
                      /\ w_parent [67;58;92;97] = Some [67;58;92] /\ w_parent [67;58;92] = None.
Proof. vm_compute. repeat split. Qed.
(* \\?\UNC\s\sh\a\b : the parent keeps the verbatim UNC prefix and the root *)
Example C09_windows_example :
  w_parent [92;92;63;92;85;78;67;92;115;92;115;104;92;97;92;98] = Some [92;92;63;92;85;78;67;92;115;92;115;104;92;97]
  /\ w_components [92;92;63;92;85;78;67;92;115;92;115;104;92;97]
     = removelast (w_components [92;92;63;92;85;78;67;92;115;92;115;104;92;97;92;98]).
Proof. vm_compute. split; reflexivity. Qed.
