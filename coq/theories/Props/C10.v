(* C10 - Prefix and suffix relations are consistent with equality and joining. *)
From Coq Require Import List NArith Bool.
Import ListNotations.
From TP Require Import Core Path Unix Win Spec GenJoin WinSimple C04Proofs C10Proofs WinProofs C10WinProofs WinExtend C10WinAll WinVerbJoin WinVerbMore.

(* Unix, all byte strings p q. *)
(* starts_with holds exactly when q's components are a leading run of p's components *)
Theorem C10_unix_starts_with : forall p q : list N,
  u_starts_with p q = true <-> exists t, ucomps p = ucomps q ++ t.
Proof. exact u_starts_with_iff. Qed.
(* ends_with is the mirror image on trailing runs *)
Theorem C10_unix_ends_with : forall p q : list N,
  u_ends_with p q = true <-> exists t, ucomps p = t ++ ucomps q.
Proof. exact u_ends_with_iff. Qed.
(* strip_prefix succeeds exactly when starts_with holds, and the remainder re-parses to the
   components of p that follow those of q *)
Theorem C10_unix_strip_prefix : forall p q : list N,
  match u_strip_prefix p q with
  | Some r => ucomps p = ucomps q ++ ucomps r
  | None => ~ exists t, ucomps p = ucomps q ++ t
  end.
Proof. exact u_strip_prefix_spec. Qed.
Theorem C10_unix_strip_iff_starts : forall p q : list N,
  (exists r, u_strip_prefix p q = Some r) <-> u_starts_with p q = true.
Proof. exact u_strip_iff_starts. Qed.
(* in particular whenever p equals q *)
Theorem C10_unix_equal_paths : forall p q : list N,
  u_path_eq p q = true -> u_starts_with p q = true /\ u_ends_with p q = true.
Proof. exact u_eq_starts_with. Qed.
(* a joined with a relative b starts with a; stripping a from it yields b's components minus a
   leading "." (added b, characterised by C04_unix_added) *)
Theorem C10_unix_join_starts : forall a b : list N, no_root_p b -> u_starts_with (u_push a b) a = true.
Proof. exact u_join_starts_with. Qed.
Theorem C10_unix_join_strip : forall a b r : list N, no_root_p b -> b <> [] -> a <> [] ->
  u_strip_prefix (u_push a b) a = Some r -> ucomps r = added b.
Proof. exact u_join_strip. Qed.
(* q joined with the remainder gives p's components back *)
Theorem C10_unix_strip_then_join : forall p q r : list N,
  u_strip_prefix p q = Some r -> q <> [] -> r <> [] -> no_root_p r ->
  ucomps (u_push q r) = ucomps q ++ added r /\ ucomps p = ucomps q ++ ucomps r.
Proof. exact u_strip_then_join. Qed.
Print Assumptions C10_unix_starts_with.
Print Assumptions C10_unix_ends_with.
Print Assumptions C10_unix_strip_prefix.
Print Assumptions C10_unix_strip_iff_starts.
Print Assumptions C10_unix_equal_paths.
Print Assumptions C10_unix_join_starts.
Print Assumptions C10_unix_join_strip.
Print Assumptions C10_unix_strip_then_join.

(* The abstract form: for ANY double-ended component iterator whose components are determined by
   their bytes, helpers::iter_after decides exactly the leading-run / trailing-run relation
   (C10Proofs.iter_after_front / iter_after_back).  Windows components are NOT determined by their
   bytes (`C:` vs `c:` are equal prefixes with different bytes; Normal "C:" and Prefix `C:` have equal
   bytes): that is the known finding D7, see C10_windows_d7_refuted. *)
Theorem C10_abstract_front : forall (st A : Type) (cs : st -> list A) (Inv : st -> Prop) (nf : st -> option (A * st))
  (c_bytes : A -> list N) (good : A -> Prop),
  (forall s, Inv s -> match nf s with Some (c, s') => cs s = c :: cs s' /\ Inv s' | None => cs s = [] end) ->
  (forall s, Inv s -> Forall good (cs s)) ->
  (forall x y, good x -> good y -> (beq_list (c_bytes x) (c_bytes y) = true <-> x = y)) ->
  forall fuel it pre, Inv it -> Inv pre -> (length (cs pre) < fuel)%nat ->
  match iter_after st A c_bytes nf fuel it pre with
  | Some s => Inv s /\ cs it = cs pre ++ cs s
  | None => ~ exists t, cs it = cs pre ++ t
  end.
Proof. exact iter_after_front. Qed.
Print Assumptions C10_abstract_front.

(* Windows, prefix-free paths (not starting with two separators): components are determined by their
   bytes, so the same theorems hold over the grammar specification wspec *)
Theorem C10_windows_starts_with_plain : forall p q : list N, noprefix p = true -> noprefix q = true ->
  (w_starts_with p q = true <-> exists t, wspec p = wspec q ++ t).
Proof. exact w_starts_with_plain. Qed.
Theorem C10_windows_ends_with_plain : forall p q : list N, noprefix p = true -> noprefix q = true ->
  (w_ends_with p q = true <-> exists t, wspec p = t ++ wspec q).
Proof. exact w_ends_with_plain. Qed.
Theorem C10_windows_strip_iff_starts_plain : forall p q : list N, noprefix p = true -> noprefix q = true ->
  ((exists r, w_strip_prefix p q = Some r) <-> w_starts_with p q = true).
Proof. exact w_strip_iff_starts. Qed.
Theorem C10_windows_join_starts_plain : forall a b : list N, noprefix a = true -> noprefix b = true ->
  g_rooted (wsep true) b = false -> w_starts_with (w_push a b) a = true.
Proof. exact w_join_starts_with_plain. Qed.
Print Assumptions C10_windows_starts_with_plain.
Print Assumptions C10_windows_ends_with_plain.
Print Assumptions C10_windows_strip_iff_starts_plain.
Print Assumptions C10_windows_join_starts_plain.
(* the known findings on the model: D7 (equal paths that do not start with each other; a name that
   matches a prefix), D10 (base of two separators), D15 (remainder that re-reads as a prefix) *)
Lemma C10_windows_d7_refuted :
  w_path_eq [67;58;92;97] [99;58;92;97] = true /\ w_starts_with [67;58;92;97] [99;58;92;97] = false
  /\ w_ends_with [97;92;67;58] [67;58] = true.
Proof. vm_compute. repeat split. Qed.
Lemma C10_windows_d10_refuted : w_push [92;92] [98] = [92;92;98] /\ w_starts_with [92;92;98] [92;92] = false.
Proof. vm_compute. split; reflexivity. Qed.
Lemma C10_windows_d15_refuted :
  w_strip_prefix [67;58;92;92;97] [67;58] = Some [92;92;97] /\ w_push [67;58] [92;92;97] = [92;92;97].
Proof. vm_compute. split; reflexivity. Qed.
(* Windows, EVERY pair of paths, one direction (C10WinAll.v): whenever q's components are a leading (trailing)
   run of p's components -- the same components, a prefix spelled the same way -- starts_with (ends_with) holds
   and strip_prefix succeeds, handing back the iterator state whose components are the rest; in particular a
   path starts with and ends with itself, whatever its prefix.  (The converse, and prefixes that are equal but
   spelled differently, are the finding D7.) *)
Theorem C10_windows_starts_with_complete : forall p q : list N,
  (exists t, wspec p = wspec q ++ t) -> w_starts_with p q = true.
Proof. exact w_starts_with_complete. Qed.
Theorem C10_windows_ends_with_complete : forall p q : list N,
  (exists t, wspec p = t ++ wspec q) -> w_ends_with p q = true.
Proof. exact w_ends_with_complete. Qed.
Theorem C10_windows_strip_prefix_complete : forall p q : list N, (exists t, wspec p = wspec q ++ t) ->
  exists s, w_strip_prefix p q = Some (w_remaining s) /\ winv s /\ wspec p = wspec q ++ wcs s.
Proof. exact w_strip_prefix_complete. Qed.
Theorem C10_windows_self : forall p : list N, w_starts_with p p = true /\ w_ends_with p p = true.
Proof. exact w_starts_with_refl. Qed.
(* "for a relative, prefix-free b and an a without a verbatim prefix, a joined with b starts with a, and
   stripping a from it yields b's components, minus a leading ." -- for a with a UNC, device-namespace or drive
   prefix followed by a non-empty rest (WinExtend.v) *)
Theorem C10_windows_join_starts_prefixed : forall (a : list N) (k : wprefix) (r b : list N),
  wprefix_grammar a = Some (k, r) -> k_verbatim k = false -> r <> [] ->
  noprefix b = true -> g_rooted (wsep true) b = false -> w_starts_with (w_push a b) a = true.
Proof. exact w_join_starts_with_prefixed. Qed.
Theorem C10_windows_join_strip_prefixed : forall (a : list N) (k : wprefix) (r b : list N),
  wprefix_grammar a = Some (k, r) -> k_verbatim k = false -> r <> [] ->
  noprefix b = true -> g_rooted (wsep true) b = false -> b <> [] ->
  exists s, w_strip_prefix (w_push a b) a = Some (w_remaining s) /\ winv s /\ wcs s = map WC (gadded (wsep true) b).
Proof. exact w_join_strip_prefixed. Qed.
Print Assumptions C10_windows_starts_with_complete.
Print Assumptions C10_windows_ends_with_complete.
Print Assumptions C10_windows_strip_prefix_complete.
Print Assumptions C10_windows_self.
Print Assumptions C10_windows_join_starts_prefixed.
Print Assumptions C10_windows_join_strip_prefixed.
(* ... and a checked join onto a base with a verbatim prefix followed by a root starts with the base *)
Theorem C10_windows_join_starts_verbatim : forall (a : list N) (k : wprefix) (r p : list N),
  wprefix_grammar a = Some (k, r) -> k_verbatim k = true -> k <> Verbatim [85; 78; 67] ->
  sep_headed (s_wsep (s_norm a)) r -> p <> [] -> w_scan (wspec p) O = None ->
  w_starts_with (w_push a p) a = true.
Proof. exact w_join_checked_starts_with_verbatim. Qed.
Print Assumptions C10_windows_join_starts_verbatim.
(* Windows, EVERY pair of paths, exactly (C10WinAll.v): starts_with / ends_with hold precisely when the BYTE
   SPELLINGS of q's components are a leading / trailing run of the byte spellings of p's components, and
   strip_prefix succeeds precisely when starts_with holds.  The distance between this and the property's "q's
   components are a leading run of p's components" is exactly the finding D7: components with equal spelling
   that are different (Normal "C:" vs the drive C:), and equal components spelled differently (C: vs c:). *)
Theorem C10_windows_starts_with_exact : forall p q : list N,
  w_starts_with p q = true <-> exists c1 t, wspec p = c1 ++ t /\ map wc_bytes c1 = map wc_bytes (wspec q).
Proof. exact w_starts_with_bytes_iff. Qed.
Theorem C10_windows_ends_with_exact : forall p q : list N,
  w_ends_with p q = true <-> exists t c1, wspec p = t ++ c1 /\ map wc_bytes c1 = map wc_bytes (wspec q).
Proof. exact w_ends_with_bytes_iff. Qed.
Theorem C10_windows_strip_iff_starts : forall p q : list N,
  (exists r, w_strip_prefix p q = Some r) <-> w_starts_with p q = true.
Proof. exact w_strip_iff_starts_all. Qed.
Print Assumptions C10_windows_starts_with_exact.
Print Assumptions C10_windows_ends_with_exact.
Print Assumptions C10_windows_strip_iff_starts.
(* C10_windows_partial: what is left to oracle_c10 on explored pairs: that outside the D7 class equal spellings
   mean equal components (component relations over wspec), the re-reading of the remainder as a path (D15), and
   joins onto a bare prefix (D10). *)

Example C10_example :
  u_starts_with [47;97;47;47;98;47;46;47;99] [47;97;47;98] = true       (* /a//b/./c starts with /a/b *)
  /\ u_strip_prefix [47;97;47;47;98;47;46;47;99] [47;97;47;98] = Some [99]
  /\ u_ends_with [47;97;47;98] [97;47;98;47] = true
  /\ u_starts_with [47;97;98] [47;97] = false.
Proof. vm_compute. repeat split. Qed.
