(* C14 - UTF-8 path types are faithful, panic-free views of the byte path types.
   Faithfulness ("same bytes and same outcome as the byte API") is carried by the correspondence: the
   UTF-8 families are answered by the byte model and compared with the byte family on every case (the same.X operations),
   and the harness re-validates every &str / String it receives.  Proved here: the facts about UTF-8 that
   make the views sound -- validity is preserved by concatenation, and by cutting next to an ASCII byte
   (every cut the parsers make is at / \ . : ? or at an end). *)
From Coq Require Import List NArith Bool.
Import ListNotations.
From TP Require Import Core Path Unix Win Utf8 Utf8Proofs C14Proofs C13Proofs.

Theorem C14_valid_iff : forall l : list N, utf8_valid l = true <-> Valid l.
Proof. exact utf8_valid_iff. Qed.
Theorem C14_concat : forall a b : list N, Valid a -> Valid b -> Valid (a ++ b).
Proof. exact Valid_app. Qed.
Theorem C14_cut_before_ascii : forall l : list N, Valid l -> forall k, (k < length l)%nat -> (nth k l 0 < 128)%N ->
  Valid (firstn k l) /\ Valid (skipn k l).
Proof. exact Valid_cut_before_ascii. Qed.
Theorem C14_cut_after_ascii : forall l : list N, Valid l -> forall k, (k < length l)%nat -> (nth k l 0 < 128)%N ->
  Valid (firstn (S k) l) /\ Valid (skipn (S k) l).
Proof. exact Valid_cut_after_ascii. Qed.
(* mutation histories made of pushes keep a Unix buffer valid *)
Theorem C14_unix_push_valid : forall cur p : list N, Valid cur -> Valid p -> Valid (u_push cur p).
Proof. exact u_push_valid. Qed.
Theorem C14_unix_extend_valid : forall (ps : list (list N)) (cur : list N),
  Valid cur -> Forall Valid ps -> Valid (fold_left u_push ps cur).
Proof. exact u_extend_valid. Qed.
Print Assumptions C14_valid_iff.
Print Assumptions C14_concat.
Print Assumptions C14_cut_before_ascii.
Print Assumptions C14_cut_after_ascii.
Print Assumptions C14_unix_push_valid.
(* the slices handed out for the last component of a valid UTF-8 Unix path are valid UTF-8: file name,
   stem, extension (every cut is next to a separator or the dot) *)
Theorem C14_unix_file_name_valid : forall l n : list N, Valid l -> u_file_name l = Some n -> Valid n.
Proof. exact u_file_name_valid. Qed.
Theorem C14_unix_file_stem_valid : forall l st : list N, Valid l -> u_file_stem l = Some st -> Valid st.
Proof. exact u_file_stem_valid. Qed.
Theorem C14_unix_extension_valid : forall l e : list N, Valid l -> u_extension l = Some e -> Valid e.
Proof. exact u_extension_valid. Qed.
(* set_extension on a valid buffer with a valid extension: the truncation point is a character boundary
   (no panic in String::truncate) and the result is valid *)
Theorem C14_unix_set_extension_valid : forall l n ext : list N, Valid l -> Valid ext -> u_file_name l = Some n ->
  exists before j, l = before ++ n ++ j /\ Valid (before ++ stem_of n) /\ Valid (fst (u_set_extension l ext)).
Proof. exact u_set_extension_cut_valid. Qed.
Print Assumptions C14_unix_file_name_valid.
Print Assumptions C14_unix_file_stem_valid.
Print Assumptions C14_unix_extension_valid.
Print Assumptions C14_unix_set_extension_valid.
(* C14_slices_partial: that the remaining slices the model returns (every component, remainders, parent,
   strip_prefix remainder; all Windows slices) start and end at such a cut is not proved operation by operation;
   the harness checks std::str::from_utf8 on every returned &str, and the set_extension truncation point
   (formerly a panic, D5) is covered by the C13 cases with multi-byte characters next to dots. *)
