(* C14 - UTF-8 path types are faithful, panic-free views of the byte path types.
   Faithfulness ("same bytes and same outcome as the byte API") is carried by the correspondence: the
   UTF-8 families are answered by the byte model and compared with the byte family on every case (the same.X operations),
   and the harness re-validates every &str / String it receives.  Proved here: the facts about UTF-8 that
   make the views sound -- validity is preserved by concatenation, and by cutting next to an ASCII byte
   (every cut the parsers make is at / \ . : ? or at an end). *)
From Coq Require Import List NArith Bool.
Import ListNotations.
From TP Require Import Core Path Unix Win Utf8 Utf8Proofs C14Proofs C13Proofs C14Slices C14Win.

Theorem C14_valid_iff : forall l : list N, utf8_valid l = true <-> Valid l.
Proof. exact utf8_valid_iff. Qed.
Theorem C14_concat : forall a b : list N, Valid a -> Valid b -> Valid (a ++ b).
Proof. exact Valid_app. Qed.
Theorem C14_cut_before_ascii : forall l : list N, Valid l -> forall k, (k < length l)%nat -> (nth k l 0 < 128)%N ->
  Valid (firstn k l) /\ Valid (skipn k l).
Proof. exact Valid_cut_before_ascii. Qed.
Theorem C14_cut_after_ascii : forall l : list N, Valid l -> forall k, (k < length l)%nat -> (nth k l 0 < 128)%N ->
  Valid (firstn (S k) l) /\ Valid (skipn (S k) l).
Proof. exact Valid_cut_after_ascii. Qed.
(* mutation histories made of pushes keep a Unix buffer valid *)
Theorem C14_unix_push_valid : forall cur p : list N, Valid cur -> Valid p -> Valid (u_push cur p).
Proof. exact u_push_valid. Qed.
Theorem C14_unix_extend_valid : forall (ps : list (list N)) (cur : list N),
  Valid cur -> Forall Valid ps -> Valid (fold_left u_push ps cur).
Proof. exact u_extend_valid. Qed.
Print Assumptions C14_valid_iff.
Print Assumptions C14_concat.
Print Assumptions C14_cut_before_ascii.
Print Assumptions C14_cut_after_ascii.
Print Assumptions C14_unix_push_valid.
(* the slices handed out for the last component of a valid UTF-8 Unix path are valid UTF-8: file name,
   stem, extension (every cut is next to a separator or the dot) *)
Theorem C14_unix_file_name_valid : forall l n : list N, Valid l -> u_file_name l = Some n -> Valid n.
Proof. exact u_file_name_valid. Qed.
Theorem C14_unix_file_stem_valid : forall l st : list N, Valid l -> u_file_stem l = Some st -> Valid st.
Proof. exact u_file_stem_valid. Qed.
Theorem C14_unix_extension_valid : forall l e : list N, Valid l -> u_extension l = Some e -> Valid e.
Proof. exact u_extension_valid. Qed.
(* set_extension on a valid buffer with a valid extension: the truncation point is a character boundary
   (no panic in String::truncate) and the result is valid *)
Theorem C14_unix_set_extension_valid : forall l n ext : list N, Valid l -> Valid ext -> u_file_name l = Some n ->
  exists before j, l = before ++ n ++ j /\ Valid (before ++ stem_of n) /\ Valid (fst (u_set_extension l ext)).
Proof. exact u_set_extension_cut_valid. Qed.
Print Assumptions C14_unix_file_name_valid.
Print Assumptions C14_unix_file_stem_valid.
Print Assumptions C14_unix_extension_valid.
Print Assumptions C14_unix_set_extension_valid.
(* "every string slice they hand out ... is valid UTF-8 cut on character boundaries", for the iterators and
   the slices built from them (this was C14_slices_partial until C14Slices.v).  For the generic core parser
   with ASCII separators -- Unix, and the Windows body -- and ANY schedule of front and back steps on a valid
   UTF-8 window: every later window (what as_str / as_path of the partially consumed iterator shows) and
   every normal name handed out is valid UTF-8; hence so are parent and the remainder of strip_prefix.
   Every cut the parser makes is next to a separator or a ".", and no UTF-8 sequence has an ASCII byte
   inside. *)
Theorem C14_sched_valid : forall (is_sep : N -> bool) (norm : bool), is_sep 46 = false ->
  (forall s, is_sep s = true -> s < 128) ->
  forall (sched : list bool) (s : pstate * list N), Valid (snd s) ->
  Forall (fun x : option comp * (pstate * list N) =>
            Valid (snd (snd x)) /\ (forall n, fst x = Some (Normal n) -> Valid n))
         (sched_run (next_front is_sep norm) (next_back is_sep norm) s sched).
Proof. exact sched_Valid. Qed.
Theorem C14_unix_sched_valid : forall (p : list N) (sched : list bool), Valid p ->
  Forall (fun x : option comp * ustate =>
            Valid (u_remaining (snd x)) /\ (forall n, fst x = Some (Normal n) -> Valid n))
         (sched_run u_nextf u_nextb (u_init p) sched).
Proof. exact u_sched_Valid. Qed.
Theorem C14_unix_parent_valid : forall l r : list N, Valid l -> u_parent l = Some r -> Valid r.
Proof. exact u_parent_Valid. Qed.
Theorem C14_unix_strip_prefix_valid : forall l base r : list N, Valid l -> u_strip_prefix l base = Some r -> Valid r.
Proof. exact u_strip_prefix_Valid. Qed.
Theorem C14_windows_body_sched_valid : forall (norm : bool) (sched : list bool) (s : pstate * list N), Valid (snd s) ->
  Forall (fun x : option comp * (pstate * list N) =>
            Valid (snd (snd x)) /\ (forall n, fst x = Some (Normal n) -> Valid n))
         (sched_run (next_front (wsep norm) norm) (next_back (wsep norm) norm) s sched).
Proof. exact w_body_sched_Valid. Qed.
Print Assumptions C14_windows_body_sched_valid.
Print Assumptions C14_sched_valid.
Print Assumptions C14_unix_sched_valid.
Print Assumptions C14_unix_parent_valid.
Print Assumptions C14_unix_strip_prefix_valid.
(* the Windows iterator as a whole (C14Win.v): every alternative of the prefix grammar stops next to an ASCII
   byte or at the end of the input, so the prefix slice of a valid input and what follows it are valid; with
   the body theorem above, every window, every prefix and every normal name under any schedule is valid *)
Theorem C14_windows_prefix_valid : forall (l raw : list N) (k : wprefix), prefix_component l = Some (raw, k) ->
  Valid l -> Valid raw /\ Valid (skipn (length raw) l).
Proof. exact prefix_component_Valid. Qed.
Theorem C14_windows_sched_valid : forall (l : list N) (sched : list bool), Valid l ->
  Forall (fun x : option wcomp * wstate => Valid (w_input (snd x)) /\ wout_ok (fst x))
         (sched_run w_nextf w_nextb (w_init l) sched).
Proof. exact w_init_sched_Valid. Qed.
Print Assumptions C14_windows_prefix_valid.
Print Assumptions C14_windows_sched_valid.
