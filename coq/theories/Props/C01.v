(* C01 - Unix paths parse exactly as std::path does on a Unix host.
   Property theorems only; proofs live in UnixProofs.v / CoreSched.v / CoreProofs.v. *)
From Coq Require Import List NArith Bool.
Import ListNotations.
From TP Require Import Core Path Unix Spec Ops UnixProofs.

(* For every byte string p and every schedule of front/back steps, what the model of
   typed-path's Unix parser answers (components, and after every step the remaining bytes)
   passes the oracle check_c01: the components are those obtained by popping the
   declarative list [ucomps p] from the chosen ends (None once it is empty, and from then
   on), every remainder re-parses to the un-consumed middle of [ucomps p], has_root and
   is_absolute hold exactly when [ucomps p] starts with Root, and try_from succeeds exactly
   on one-component inputs.  [ucomps] is the specification of std's Unix parser; it is tied
   to the real std::path on every run by the std columns of the c01 operation. *)
Theorem C01_holds : forall (p : list N) (sched : list bool), check_c01 p sched (model_c01 p sched) = true.
Proof. exact c01_holds. Qed.
Check C01_holds : forall (p : list N) (sched : list bool), check_c01 p sched (model_c01 p sched) = true.
Print Assumptions C01_holds.

(* the model's front iteration is the specification, for all inputs *)
Theorem C01_components : forall p : list N, u_components p = ucomps p.
Proof. exact u_components_spec. Qed.
Print Assumptions C01_components.

(* the interleaving statement itself, un-encoded *)
Theorem C01_interleave : forall (p : list N) (sched : list bool),
  map (fun x => (fst x, ucomps (u_remaining (snd x)))) (sched_run u_nextf u_nextb (u_init p) sched)
  = deq_run (ucomps p) sched.
Proof. exact u_sched_spec. Qed.
Print Assumptions C01_interleave.

(* non-vacuity: a concrete path with root, a "." segment, "..", doubled separators, mixed schedule *)
Example C01_example :
  map (fun x => fst x) (sched_run u_nextf u_nextb (u_init [47;97;47;46;47;47;46;46;47;98;47]) [true;false;false;true;false])
  = [Some (Normal [98]); Some Root; Some (Normal [97]); Some Parent; None].
Proof. vm_compute. reflexivity. Qed.
