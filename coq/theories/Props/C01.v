(* C01 - Unix paths parse exactly as std::path does on a Unix host.
   Property theorems only; proofs live in UnixProofs.v / CoreSched.v / CoreProofs.v. *)
From Coq Require Import List NArith Bool.
Import ListNotations.
From TP Require Import Core Path Unix StdUnix Spec Ops UnixProofs StdProofs StdInterleave.

(* For every byte string p and every schedule of front/back steps, what the model of
   typed-path's Unix parser answers (components, and after every step the remaining bytes)
   passes the oracle check_c01: the components are those obtained by popping the
   declarative list [ucomps p] from the chosen ends (None once it is empty, and from then
   on), every remainder re-parses to the un-consumed middle of [ucomps p], has_root and
   is_absolute hold exactly when [ucomps p] starts with Root, and try_from succeeds exactly
   on one-component inputs.  [ucomps] is the specification of std's Unix parser; it is tied
   to the real std::path on every run by the std columns of the c01 operation. *)
Theorem C01_holds : forall (p : list N) (sched : list bool), check_c01 p sched (model_c01 p sched) = true.
Proof. exact c01_holds. Qed.
Check C01_holds : forall (p : list N) (sched : list bool), check_c01 p sched (model_c01 p sched) = true.
Print Assumptions C01_holds.

(* the model's front iteration is the specification, for all inputs *)
Theorem C01_components : forall p : list N, u_components p = ucomps p.
Proof. exact u_components_spec. Qed.
Print Assumptions C01_components.

(* the interleaving statement itself, un-encoded *)
Theorem C01_interleave : forall (p : list N) (sched : list bool),
  map (fun x => (fst x, ucomps (u_remaining (snd x)))) (sched_run u_nextf u_nextb (u_init p) sched)
  = deq_run (ucomps p) sched.
Proof. exact u_sched_spec. Qed.
Print Assumptions C01_interleave.

(* "exactly as std::path does": the Gallina transcription of std's Components state machine (StdUnix.v,
   diffed against the real std::path on every explored case) yields the same specification list from
   the front and, reversed, from the back; its remainder (as_path, with std's trimming) after any number
   of front steps, or of back steps, reads as the not yet consumed components; it reports a root exactly
   when the model does *)
Theorem C01_std_front : forall l : list N, s_components l = ucomps l.
Proof. exact s_components_spec. Qed.
Theorem C01_std_back : forall l : list N, back_all scomps comp s_nextb (S (length l)) (s_init l) = rev (ucomps l).
Proof. exact s_components_rev_spec. Qed.
Theorem C01_std_front_step : forall c : scomps, FInv c ->
  match s_nextf c with Some (x, c') => fcs c = x :: fcs c' /\ FInv c' | None => fcs c = [] end.
Proof. exact s_next_front_step. Qed.
Theorem C01_std_back_step : forall c : scomps, BInv c ->
  match s_nextb c with Some (x, c') => bcs c = bcs c' ++ [x] /\ BInv c' | None => bcs c = [] end.
Proof. exact s_next_back_step. Qed.
Theorem C01_std_remainder_front : forall c : scomps, FInv c -> s_front c = SBody -> ucomps (s_as_path c) = fcs c.
Proof. exact s_as_path_front. Qed.
Theorem C01_std_remainder_back : forall c : scomps, BInv c ->
  ucomps (s_as_path c) = bcs c /\ exists j, s_path c = s_as_path c ++ j.
Proof. exact s_as_path_back. Qed.
Theorem C01_std_has_root : forall l : list N, s_has_root l = u_has_root l.
Proof. exact s_has_root_spec. Qed.
Print Assumptions C01_std_front.
Print Assumptions C01_std_back.
Print Assumptions C01_std_front_step.
Print Assumptions C01_std_back_step.
Print Assumptions C01_std_remainder_front.
Print Assumptions C01_std_remainder_back.
Print Assumptions C01_std_has_root.
(* arbitrary interleavings of the transcription (std's front and back state meeting in the middle):
   every schedule of next / next_back pops the specification list from the chosen ends, the remainder
   std shows after every step (Components::as_path) reads as what is left, and therefore the model of
   typed-path and the transcription of std agree step for step.  (This was C01_std_interleave_partial
   until StdInterleave.v; the transcription itself is tied to the real std::path by running both on
   every explored case, interleavings included.) *)
Theorem C01_std_interleave : forall (l : list N) (sched : list bool),
  map (fun x => (fst x, ucomps (s_as_path (snd x)))) (sched_run s_nextf s_nextb (s_init l) sched)
  = deq_run (ucomps l) sched.
Proof. exact s_sched_remainders. Qed.
Theorem C01_model_vs_std_interleave : forall (l : list N) (sched : list bool),
  map (fun x => (fst x, ucomps (u_remaining (snd x)))) (sched_run u_nextf u_nextb (u_init l) sched)
  = map (fun x => (fst x, ucomps (s_as_path (snd x)))) (sched_run s_nextf s_nextb (s_init l) sched).
Proof. exact u_s_sched_agree. Qed.
Print Assumptions C01_std_interleave.
Print Assumptions C01_model_vs_std_interleave.
(* non-vacuity of the new case: a back step taken after the front has entered the body *)
Example C01_std_interleave_example :
  map (fun x => fst x) (sched_run s_nextf s_nextb (s_init [47;97;47;46;47;47;46;46;47;98;47]) [false;true;false;true;true;false])
  = [Some Root; Some (Normal [98]); Some (Normal [97]); Some Parent; None; None].
Proof. vm_compute. reflexivity. Qed.

(* non-vacuity: a concrete path with root, a "." segment, "..", doubled separators, mixed schedule *)
Example C01_example :
  map (fun x => fst x) (sched_run u_nextf u_nextb (u_init [47;97;47;46;47;47;46;46;47;98;47]) [true;false;false;true;false])
  = [Some (Normal [98]); Some Root; Some (Normal [97]); Some Parent; None].
Proof. vm_compute. reflexivity. Qed.
