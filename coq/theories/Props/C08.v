(* C08 - Windows join and push follow the documented joining rules. *)
From Coq Require Import List NArith Bool.
Import ListNotations.
From TP Require Import Core Path Unix Win Spec C08Proofs GenJoin WinSimple.

(* The rule table is Spec.join_spec (written over the grammar specification wspec only):
     b empty                      -> a
     b has a prefix               -> b
     a has a verbatim prefix      -> a's components then b's, "." dropped, ".." cancelling a preceding
                                     normal component (never root or prefix), written with single '\'
     b rooted (no prefix)         -> a's prefix bytes followed by b
     otherwise                    -> a ++ b when a is empty, ends in '\' or '/', or is a bare drive;
                                     a ++ '\' ++ b in every other case.
   The model of WindowsEncoding::push equals it on ALL pairs of byte strings. *)
Theorem C08_bytes : forall a b : list N, w_push a b = join_spec a b.
Proof. exact w_push_join_spec. Qed.
Check C08_bytes : forall a b : list N, w_push a b = join_spec a b.
Print Assumptions C08_bytes.

(* every history of pushes (extend, FromIterator) is the same fold of the rule table *)
Theorem C08_histories : forall (ps : list (list N)) (a : list N), fold_left w_push ps a = fold_left join_spec ps a.
Proof. exact w_extend_join_spec. Qed.
Print Assumptions C08_histories.

(* an empty b changes nothing; a prefixed b replaces a *)
Theorem C08_empty : forall a : list N, w_push a [] = a.
Proof. intros a. rewrite w_push_join_spec. apply join_empty. Qed.
Theorem C08_prefixed : forall a b : list N, sp_has_prefix b = true -> w_push a b = b.
Proof. intros a b H. rewrite w_push_join_spec. apply join_prefixed. exact H. Qed.
(* in the non-verbatim cases the bytes are a's bytes (or just its prefix), the optional separator, b's bytes *)
Theorem C08_nonverbatim_bytes : forall a b : list N, b <> [] -> sp_has_prefix b = false -> sp_verbatim a = false ->
  w_push a b = sp_prefix_raw a ++ b \/ w_push a b = a ++ b \/ w_push a b = a ++ 92 :: b.
Proof. intros a b H1 H2 H3. rewrite w_push_join_spec. apply join_nonverbatim_bytes; assumption. Qed.
Print Assumptions C08_empty.
Print Assumptions C08_prefixed.
Print Assumptions C08_nonverbatim_bytes.

(* only a verbatim base normalises, and the normalising step never lets a "." or ".." through *)
Theorem C08_verbatim_step_clean : forall (acc : list wcomp) (c : wcomp),
  forallb (fun x => negb (k_is_cur x || k_is_parent x)) acc = true ->
  forallb (fun x => negb (k_is_cur x || k_is_parent x)) (vstep acc c) = true.
Proof. exact vstep_no_dots. Qed.
Print Assumptions C08_verbatim_step_clean.
(* the component-level reading, for paths without UNC / verbatim / device prefix: b prefix-free, non-empty *)
(* ... a prefix-free (not starting with two separators), b relative: a's components followed by b's
   (minus a leading "." of b, which no longer starts the path), or b itself when a is empty *)
Theorem C08_comps_plain : forall a b : list N, noprefix a = true -> noprefix b = true ->
  g_rooted (wsep true) b = false -> b <> [] ->
  wspec (w_push a b) = match a with [] => wspec b | _ => wspec a ++ map WC (gadded (wsep true) b) end.
Proof. exact wspec_join_plain. Qed.
(* ... a with a drive prefix X:, b relative: the same; after a bare drive no separator is inserted and a
   leading "." of b still starts the path *)
Theorem C08_comps_disk : forall (d : N) (ra b : list N), s_alpha d = true -> noprefix b = true ->
  g_rooted (wsep true) b = false -> b <> [] ->
  wspec (w_push (d :: 58 :: ra) b) =
  match ra with
  | [] => WPrefix [d; 58] (Disk (s_upper d)) :: map WC (gcomps (wsep true) b)
  | _ => wspec (d :: 58 :: ra) ++ map WC (gadded (wsep true) b)
  end.
Proof. exact wspec_join_disk. Qed.
(* ... b rooted (no prefix): a's prefix followed by b *)
Theorem C08_comps_rooted_disk : forall (d : N) (ra b : list N), s_alpha d = true -> noprefix b = true ->
  g_rooted (wsep true) b = true ->
  wspec (w_push (d :: 58 :: ra) b) = WPrefix [d; 58] (Disk (s_upper d)) :: map WC (gcomps (wsep true) b).
Proof. exact wspec_join_rooted_disk. Qed.
Print Assumptions C08_comps_plain.
Print Assumptions C08_comps_disk.
Print Assumptions C08_comps_rooted_disk.
(* C08_comps_partial: for a with a UNC / verbatim / device prefix the component-level reading is decided
   on every explored pair through the C10 oracle (the join starts with a and stripping a yields b's
   components); at Unix it holds by C04_unix_contains. *)

Example C08_example :
  w_push [67;58] [97] = [67;58;97]                                    (* C: + a = C:a *)
  /\ w_push [67;58;92;120] [92;121] = [67;58;92;121]                  (* C:\x + \y = C:\y *)
  /\ w_push [97;47] [98] = [97;47;98]                                 (* a/ + b = a/b *)
  /\ w_push [92;92;63;92;67;58;92;97] [46;46;92;46;92;98] = [92;92;63;92;67;58;92;98]   (* \\?\C:\a + ..\.\b *)
  /\ w_push [97] [68;58;98] = [68;58;98].
Proof. vm_compute. repeat split. Qed.
