(* C08 - Windows join and push follow the documented joining rules. *)
From Coq Require Import List NArith Bool.
Import ListNotations.
From TP Require Import Core Path Unix Win Spec C08Proofs.

(* The rule table is Spec.join_spec (written over the grammar specification wspec only):
     b empty                      -> a
     b has a prefix               -> b
     a has a verbatim prefix      -> a's components then b's, "." dropped, ".." cancelling a preceding
                                     normal component (never root or prefix), written with single '\'
     b rooted (no prefix)         -> a's prefix bytes followed by b
     otherwise                    -> a ++ b when a is empty, ends in '\' or '/', or is a bare drive;
                                     a ++ '\' ++ b in every other case.
   The model of WindowsEncoding::push equals it on ALL pairs of byte strings. *)
Theorem C08_bytes : forall a b : list N, w_push a b = join_spec a b.
Proof. exact w_push_join_spec. Qed.
Check C08_bytes : forall a b : list N, w_push a b = join_spec a b.
Print Assumptions C08_bytes.

(* every history of pushes (extend, FromIterator) is the same fold of the rule table *)
Theorem C08_histories : forall (ps : list (list N)) (a : list N), fold_left w_push ps a = fold_left join_spec ps a.
Proof. exact w_extend_join_spec. Qed.
Print Assumptions C08_histories.

(* an empty b changes nothing; a prefixed b replaces a *)
Theorem C08_empty : forall a : list N, w_push a [] = a.
Proof. intros a. rewrite w_push_join_spec. apply join_empty. Qed.
Theorem C08_prefixed : forall a b : list N, sp_has_prefix b = true -> w_push a b = b.
Proof. intros a b H. rewrite w_push_join_spec. apply join_prefixed. exact H. Qed.
(* in the non-verbatim cases the bytes are a's bytes (or just its prefix), the optional separator, b's bytes *)
Theorem C08_nonverbatim_bytes : forall a b : list N, b <> [] -> sp_has_prefix b = false -> sp_verbatim a = false ->
  w_push a b = sp_prefix_raw a ++ b \/ w_push a b = a ++ b \/ w_push a b = a ++ 92 :: b.
Proof. intros a b H1 H2 H3. rewrite w_push_join_spec. apply join_nonverbatim_bytes; assumption. Qed.
Print Assumptions C08_empty.
Print Assumptions C08_prefixed.
Print Assumptions C08_nonverbatim_bytes.

(* only a verbatim base normalises, and the normalising step never lets a "." or ".." through *)
Theorem C08_verbatim_step_clean : forall (acc : list wcomp) (c : wcomp),
  forallb (fun x => negb (k_is_cur x || k_is_parent x)) acc = true ->
  forallb (fun x => negb (k_is_cur x || k_is_parent x)) (vstep acc c) = true.
Proof. exact vstep_no_dots. Qed.
Print Assumptions C08_verbatim_step_clean.
(* C08_comps_partial: the component-level reading ("a's components followed by b's") of the
   non-verbatim branches is not proved for Windows; it is checked on every explored pair through the
   C10 oracle (the join starts with a and stripping a yields b's components) and holds at Unix by
   C04_unix_contains. *)

Example C08_example :
  w_push [67;58] [97] = [67;58;97]                                    (* C: + a = C:a *)
  /\ w_push [67;58;92;120] [92;121] = [67;58;92;121]                  (* C:\x + \y = C:\y *)
  /\ w_push [97;47] [98] = [97;47;98]                                 (* a/ + b = a/b *)
  /\ w_push [92;92;63;92;67;58;92;97] [46;46;92;46;92;98] = [92;92;63;92;67;58;92;98]   (* \\?\C:\a + ..\.\b *)
  /\ w_push [97] [68;58;98] = [68;58;98].
Proof. vm_compute. repeat split. Qed.
