(* C08 - Windows join and push follow the documented joining rules. *)
From Coq Require Import List NArith Bool.
Import ListNotations.
From TP Require Import Core Path Unix Win Spec C08Proofs GenJoin WinSimple WinExtend WinBare WinVerbJoin WinHist WinVerbMore WinVerbBare.

(* The rule table is Spec.join_spec (written over the grammar specification wspec only):
     b empty                      -> a
     b has a prefix               -> b
     a has a verbatim prefix      -> a's components then b's, "." dropped, ".." cancelling a preceding
                                     normal component (never root or prefix), written with single '\'
     b rooted (no prefix)         -> a's prefix bytes followed by b
     otherwise                    -> a ++ b when a is empty, ends in '\' or '/', or is a bare drive;
                                     a ++ '\' ++ b in every other case.
   The model of WindowsEncoding::push equals it on ALL pairs of byte strings. *)
Theorem C08_bytes : forall a b : list N, w_push a b = join_spec a b.
Proof. exact w_push_join_spec. Qed.
Check C08_bytes : forall a b : list N, w_push a b = join_spec a b.
Print Assumptions C08_bytes.

(* every history of pushes (extend, FromIterator) is the same fold of the rule table *)
Theorem C08_histories : forall (ps : list (list N)) (a : list N), fold_left w_push ps a = fold_left join_spec ps a.
Proof. exact w_extend_join_spec. Qed.
Print Assumptions C08_histories.

(* an empty b changes nothing; a prefixed b replaces a *)
Theorem C08_empty : forall a : list N, w_push a [] = a.
Proof. intros a. rewrite w_push_join_spec. apply join_empty. Qed.
Theorem C08_prefixed : forall a b : list N, sp_has_prefix b = true -> w_push a b = b.
Proof. intros a b H. rewrite w_push_join_spec. apply join_prefixed. exact H. Qed.
(* in the non-verbatim cases the bytes are a's bytes (or just its prefix), the optional separator, b's bytes *)
Theorem C08_nonverbatim_bytes : forall a b : list N, b <> [] -> sp_has_prefix b = false -> sp_verbatim a = false ->
  w_push a b = sp_prefix_raw a ++ b \/ w_push a b = a ++ b \/ w_push a b = a ++ 92 :: b.
Proof. intros a b H1 H2 H3. rewrite w_push_join_spec. apply join_nonverbatim_bytes; assumption. Qed.
Print Assumptions C08_empty.
Print Assumptions C08_prefixed.
Print Assumptions C08_nonverbatim_bytes.

(* only a verbatim base normalises, and the normalising step never lets a "." or ".." through *)
Theorem C08_verbatim_step_clean : forall (acc : list wcomp) (c : wcomp),
  forallb (fun x => negb (k_is_cur x || k_is_parent x)) acc = true ->
  forallb (fun x => negb (k_is_cur x || k_is_parent x)) (vstep acc c) = true.
Proof. exact vstep_no_dots. Qed.
Print Assumptions C08_verbatim_step_clean.
(* the component-level reading, for paths without UNC / verbatim / device prefix: b prefix-free, non-empty *)
(* ... a prefix-free (not starting with two separators), b relative: a's components followed by b's
   (minus a leading "." of b, which no longer starts the path), or b itself when a is empty *)
Theorem C08_comps_plain : forall a b : list N, noprefix a = true -> noprefix b = true ->
  g_rooted (wsep true) b = false -> b <> [] ->
  wspec (w_push a b) = match a with [] => wspec b | _ => wspec a ++ map WC (gadded (wsep true) b) end.
Proof. exact wspec_join_plain. Qed.
(* ... a with a drive prefix X:, b relative: the same; after a bare drive no separator is inserted and a
   leading "." of b still starts the path *)
Theorem C08_comps_disk : forall (d : N) (ra b : list N), s_alpha d = true -> noprefix b = true ->
  g_rooted (wsep true) b = false -> b <> [] ->
  wspec (w_push (d :: 58 :: ra) b) =
  match ra with
  | [] => WPrefix [d; 58] (Disk (s_upper d)) :: map WC (gcomps (wsep true) b)
  | _ => wspec (d :: 58 :: ra) ++ map WC (gadded (wsep true) b)
  end.
Proof. exact wspec_join_disk. Qed.
(* ... b rooted (no prefix): a's prefix followed by b *)
Theorem C08_comps_rooted_disk : forall (d : N) (ra b : list N), s_alpha d = true -> noprefix b = true ->
  g_rooted (wsep true) b = true ->
  wspec (w_push (d :: 58 :: ra) b) = WPrefix [d; 58] (Disk (s_upper d)) :: map WC (gcomps (wsep true) b).
Proof. exact wspec_join_rooted_disk. Qed.
Print Assumptions C08_comps_plain.
Print Assumptions C08_comps_disk.
Print Assumptions C08_comps_rooted_disk.
(* ... a with a UNC, device-namespace or drive prefix followed by a non-empty rest (WinExtend.v).  First the
   grammar fact everything rests on: such a prefix is read the same way whatever follows it, provided what
   follows begins with a separator (after a drive: anything).  The rest must be non-empty: \\server alone takes
   the next name as its share. *)
Theorem C08_prefix_grammar_stable : forall (l : list N) (k : wprefix) (r : list N),
  wprefix_grammar l = Some (k, r) -> k_verbatim k = false -> r <> [] ->
  exists p, l = p ++ r /\ p <> [] /\ fits k r /\
            forall r', fits k r' -> wprefix_grammar (p ++ r') = Some (k, r') /\ s_norm (p ++ r') = true.
Proof. exact grammar_repl. Qed.
Theorem C08_prefixed_decomposition : forall (l : list N) (k : wprefix) (r : list N),
  wprefix_grammar l = Some (k, r) -> k_verbatim k = false -> r <> [] ->
  exists p, l = p ++ r /\ p <> [] /\ fits k r /\
            forall r', fits k r' -> wspec (p ++ r') = WPrefix p k :: map WC (gcomps (wsep true) r').
Proof. exact wspec_prefixed. Qed.
(* ... b relative, prefix-free, non-empty: a's components followed by b's (minus a leading ".") *)
Theorem C08_comps_prefixed : forall (a : list N) (k : wprefix) (r b : list N),
  wprefix_grammar a = Some (k, r) -> k_verbatim k = false -> r <> [] ->
  noprefix b = true -> g_rooted (wsep true) b = false -> b <> [] ->
  wspec (w_push a b) = wspec a ++ map WC (gadded (wsep true) b).
Proof. exact wspec_join_prefixed. Qed.
(* ... b rooted (no prefix): a's prefix followed by b *)
Theorem C08_comps_rooted_prefixed : forall (a : list N) (k : wprefix) (r b : list N),
  wprefix_grammar a = Some (k, r) -> k_verbatim k = false -> r <> [] ->
  noprefix b = true -> g_rooted (wsep true) b = true ->
  exists p, a = p ++ r /\ wspec (w_push a b) = WPrefix p k :: map WC (gcomps (wsep true) b).
Proof. exact wspec_join_rooted_prefixed. Qed.
Print Assumptions C08_prefix_grammar_stable.
Print Assumptions C08_prefixed_decomposition.
Print Assumptions C08_comps_prefixed.
Print Assumptions C08_comps_rooted_prefixed.
(* ... a the BARE prefix: a UNC prefix with a non-empty share, a device-namespace prefix or a drive, with nothing
   after it (WinBare.v).  It is read the same way when a separator and anything else follows, it does not end in
   a separator, so the join inserts one: the prefix, the root every non-drive prefix implies, what b adds. *)
Theorem C08_bare_prefix_stable : forall (l : list N) (k : wprefix),
  wprefix_grammar l = Some (k, []) -> k_verbatim k = false -> complete k ->
  l <> [] /\ (is_disk k = false -> ends_in_sep l = false) /\
  forall r', fits k r' -> wprefix_grammar (l ++ r') = Some (k, r') /\ s_norm (l ++ r') = true.
Proof. exact grammar_bare. Qed.
Theorem C08_comps_bare : forall (a : list N) (k : wprefix) (b : list N),
  wprefix_grammar a = Some (k, []) -> k_verbatim k = false -> complete k -> is_disk k = false ->
  noprefix b = true -> g_rooted (wsep true) b = false -> b <> [] ->
  w_push a b = a ++ 92 :: b /\ wspec (w_push a b) = wspec a ++ WC Root :: map WC (gadded (wsep true) b).
Proof. exact wspec_join_bare. Qed.
Theorem C08_comps_rooted_bare : forall (a : list N) (k : wprefix) (b : list N),
  wprefix_grammar a = Some (k, []) -> k_verbatim k = false -> complete k ->
  noprefix b = true -> g_rooted (wsep true) b = true ->
  w_push a b = a ++ b /\ wspec (w_push a b) = WPrefix a k :: map WC (gcomps (wsep true) b).
Proof. exact wspec_join_rooted_bare. Qed.
Print Assumptions C08_bare_prefix_stable.
Print Assumptions C08_comps_bare.
Print Assumptions C08_comps_rooted_bare.
(* the condition "complete" is needed: \\server alone takes the next name as its share *)
Lemma C08_incomplete_unc_refuted :
  wprefix_grammar [92;92;115] = Some (UNC [115] [], []) /\ wprefix_grammar [92;92;115;92;120] = Some (UNC [115] [120], []).
Proof. vm_compute. split; reflexivity. Qed.
(* ... a with a VERBATIM prefix (\\?\name, \\?\UNC\server\share, \\?\X:) followed by a root (WinVerbJoin.v): the
   join folds b's components into a's -- "." dropped, ".." cancelling a preceding name and never the root or the
   prefix, a root keeping only the prefix -- and writes the result with single '\'; read again from scratch the
   result has exactly the folded components.  The core is a writer / reader round trip: every component the
   grammar reads after a separator survives being written with '\' between names and read again.  The one
   verbatim kind left out is the prefix NAMED exactly "UNC" (finding D17). *)
Theorem C08_comps_verbatim : forall (a : list N) (k : wprefix) (r b : list N),
  wprefix_grammar a = Some (k, r) -> k_verbatim k = true -> k <> Verbatim [85; 78; 67] ->
  sep_headed (s_wsep (s_norm a)) r -> noprefix b = true -> b <> [] ->
  wspec (w_push a b) = fold_left vstep (wspec b) (wspec a).
Proof. exact wspec_join_verbatim. Qed.
Theorem C08_verbatim_prefix_stable : forall (l : list N) (k : wprefix) (r : list N),
  wprefix_grammar l = Some (k, r) -> k_verbatim k = true -> k <> Verbatim [85; 78; 67] -> r <> [] ->
  exists p, l = p ++ r /\ (4 <= length p)%nat /\ fitsv (s_wsep (s_norm l)) k r /\
            forall r', fitsv (s_wsep (s_norm l)) k r' ->
                       wprefix_grammar (p ++ r') = Some (k, r') /\ s_norm (p ++ r') = s_norm l.
Proof. exact grammar_repl_verbatim. Qed.
Theorem C08_write_read_roundtrip : forall (f : N -> bool) (norm : bool), f 92 = true -> f 46 = false ->
  forall items, Forall (atom_ok f norm) items -> spec_comps f norm (92 :: render (map cbytes items)) = Root :: items.
Proof. exact spec_comps_render. Qed.
Print Assumptions C08_comps_verbatim.
Print Assumptions C08_verbatim_prefix_stable.
Print Assumptions C08_write_read_roundtrip.
(* the exception the stability theorem carries is real: the finding D17 *)
Lemma C08_verbatim_named_unc_refuted :
  wprefix_grammar [92;92;63;92;85;78;67;92] = Some (Verbatim [85;78;67], [92]) /\
  wprefix_grammar ([92;92;63;92;85;78;67] ++ [92;120]) = Some (VerbatimUNC [120] [], []).
Proof. exact grammar_repl_verbatim_unc_refuted. Qed.
(* ... and over every HISTORY of pushes (extend, FromIterator): each relative, prefix-free, non-empty path pushed
   appends what it adds, whatever was pushed before; the prefix is read the same way after every step (WinHist.v) *)
Theorem C08_history_comps_prefixed : forall (a : list N) (k : wprefix) (r : list N) (bs : list (list N)),
  wprefix_grammar a = Some (k, r) -> k_verbatim k = false -> r <> [] -> Forall rel_plain bs ->
  wspec (fold_left w_push bs a) = wspec a ++ flat_map (fun b => map WC (gadded (wsep true) b)) bs.
Proof. exact wspec_push_history_prefixed. Qed.
Theorem C08_history_comps_plain : forall (bs : list (list N)) (a : list N),
  noprefix a = true -> a <> [] -> Forall rel_plain bs ->
  noprefix (fold_left w_push bs a) = true /\
  wspec (fold_left w_push bs a) = wspec a ++ flat_map (fun b => map WC (gadded (wsep true) b)) bs.
Proof. exact wspec_push_history_plain. Qed.
Theorem C08_history_comps_verbatim : forall (a : list N) (k : wprefix) (r : list N) (bs : list (list N)),
  wprefix_grammar a = Some (k, r) -> k_verbatim k = true -> k <> Verbatim [85; 78; 67] ->
  sep_headed (s_wsep (s_norm a)) r -> Forall (fun b => noprefix b = true /\ b <> []) bs ->
  wspec (fold_left w_push bs a) = fold_left (fun acc b => fold_left vstep (wspec b) acc) bs (wspec a).
Proof. exact wspec_push_history_verbatim. Qed.
Print Assumptions C08_history_comps_verbatim.
Print Assumptions C08_history_comps_prefixed.
Print Assumptions C08_history_comps_plain.
(* ... a the BARE verbatim prefix (\\?\C:, \\?\name, \\?\UNC\server\share, nothing after it; WinVerbBare.v): read the
   same way when a separator and anything else follows; a relative b made of names is written after a '\', and
   read again the result is the prefix, the root such a prefix implies, and b's components *)
Theorem C08_bare_verbatim_prefix_stable : forall (l : list N) (k : wprefix),
  wprefix_grammar l = Some (k, []) -> k_verbatim k = true -> vcomplete k ->
  (4 <= length l)%nat /\
  forall r', fitsv (s_wsep (s_norm l)) k r' -> wprefix_grammar (l ++ r') = Some (k, r') /\ s_norm (l ++ r') = s_norm l.
Proof. exact grammar_bare_verbatim. Qed.
Theorem C08_comps_bare_verbatim : forall (a : list N) (k : wprefix) (b : list N),
  wprefix_grammar a = Some (k, []) -> k_verbatim k = true -> vcomplete k ->
  noprefix b = true -> b <> [] -> Forall (fun c => exists n, c = Normal n) (gcomps (wsep true) b) ->
  wspec (w_push a b) = wspec a ++ WC Root :: wspec b.
Proof. exact wspec_join_bare_verbatim. Qed.
Print Assumptions C08_bare_verbatim_prefix_stable.
Print Assumptions C08_comps_bare_verbatim.
(* C08_comps_partial: what is left unproved at the level of components: a bare verbatim prefix joined with a b
   that holds "." / ".." or a root, a verbatim drive followed by a name without a root (\\?\C:name), and the
   verbatim prefix named "UNC" (D17); decided on every explored pair through the C10 oracle. *)
Example C08_prefixed_example :
  wspec (w_push [92;92;115;92;104;92;100] [120;47;121]) =
  wspec [92;92;115;92;104;92;100] ++ [WC (Normal [120]); WC (Normal [121])]           (* \\s\h\d + x/y *)
  /\ wprefix_grammar [92;92;46;92;67;79;77;49;92;97] = Some (DeviceNS [67;79;77;49], [92;97]).   (* \\.\COM1\a *)
Proof. vm_compute. repeat split. Qed.

Example C08_example :
  w_push [67;58] [97] = [67;58;97]                                    (* C: + a = C:a *)
  /\ w_push [67;58;92;120] [92;121] = [67;58;92;121]                  (* C:\x + \y = C:\y *)
  /\ w_push [97;47] [98] = [97;47;98]                                 (* a/ + b = a/b *)
  /\ w_push [92;92;63;92;67;58;92;97] [46;46;92;46;92;98] = [92;92;63;92;67;58;92;98]   (* \\?\C:\a + ..\.\b *)
  /\ w_push [97] [68;58;98] = [68;58;98].
Proof. vm_compute. repeat split. Qed.
