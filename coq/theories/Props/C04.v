(* C04 - Checked join never escapes, replaces or re-roots the base path. *)
From Coq Require Import List NArith Bool.
Import ListNotations.
From TP Require Import Core CoreProofs Path Unix Win Spec UnixProofs WinProofs C04Proofs.

(* the decision: a checked push either fails, leaving the base byte-for-byte unchanged, or
   succeeds with exactly the unchecked join; which of the two is the scan over the components
   of the untrusted path (at Unix: over the specification list ucomps p) *)
Theorem C04_unix_decision : forall base p : list N,
  u_push_checked base p =
  match u_scan (ucomps p) O with Some e => (base, Some e) | None => (u_push base p, None) end.
Proof. exact u_push_checked_decision. Qed.
Theorem C04_windows_decision : forall base p : list N,
  w_push_checked base p =
  match w_scan (w_components p) O with Some e => (base, Some e) | None => (w_push base p, None) end.
Proof. exact w_push_checked_decision. Qed.
Print Assumptions C04_unix_decision.
Print Assumptions C04_windows_decision.

(* it succeeds exactly when p has no root, no normal component containing a forbidden byte,
   and no ".." that outnumbers the normal components before it *)
Theorem C04_unix_success_iff : forall (cs : list comp) (d : nat),
  u_scan cs d = None <->
  (forallb (fun c => negb (c_is_root c)) cs = true /\ forallb comp_valid_u cs = true /\ never_climbs cs d).
Proof. exact u_scan_none_iff. Qed.
(* otherwise the error names the kind of the first offending component *)
Theorem C04_unix_first_offender : forall (cs : list comp) (d : nat) (e : cerr), u_scan cs d = Some e ->
  exists pre c post, cs = pre ++ c :: post /\ u_scan pre d = None /\
                     offence c (d + cnt_normal pre - cnt_parent pre) = Some e.
Proof. exact u_scan_first_offender. Qed.
Print Assumptions C04_unix_success_iff.
Print Assumptions C04_unix_first_offender.

(* on success the result's components begin with exactly the base's components, followed by
   what p adds: its components minus a leading "." (which no longer starts the path); the added
   components never climb above the base (never_climbs, from C04_unix_success_iff) *)
Theorem C04_unix_contains : forall base p : list N,
  u_scan (ucomps p) O = None -> p <> [] -> base <> [] ->
  ucomps (u_push base p) = ucomps base ++ added p.
Proof. exact u_push_contains. Qed.
Theorem C04_unix_added : forall p : list N, no_root_p p ->
  added p = match ucomps p with Cur :: t => t | l => l end.
Proof. exact added_spec. Qed.
Print Assumptions C04_unix_contains.
Print Assumptions C04_unix_added.
(* C04_windows_contains_partial: the Windows containment statement (with the implicit root after a bare
   non-disk prefix and the verbatim fold) is not proved; the Windows success/failure decision, the error
   kind and "failure leaves the base unchanged / success equals the unchecked join" are checked against
   scan_spec over the grammar specification wspec by oracle_c04 on every explored (base, p) pair. *)

Example C04_example :
  u_push_checked [47;115;114;118] [97;47;46;46;47;46;46;47;101] = ([47;115;114;118], Some ETraversal)
  /\ u_push_checked [47;115;114;118] [97;47;46;47;98] = ([47;115;114;118;47;97;47;46;47;98], None)
  /\ w_push_checked [67;58;92;98] [120;124;121] = ([67;58;92;98], Some EInvalid).
Proof. vm_compute. repeat split. Qed.
