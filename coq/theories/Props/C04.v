(* C04 - Checked join never escapes, replaces or re-roots the base path. *)
From Coq Require Import List NArith Bool.
Import ListNotations.
From TP Require Import Core CoreProofs Path Unix Win Spec UnixProofs WinProofs C02Proofs C04Proofs GenJoin WinSimple WinExtend WinBare WinVerbJoin WinVerbBare.

(* the decision: a checked push either fails, leaving the base byte-for-byte unchanged, or
   succeeds with exactly the unchecked join; which of the two is the scan over the components
   of the untrusted path (at Unix: over the specification list ucomps p) *)
Theorem C04_unix_decision : forall base p : list N,
  u_push_checked base p =
  match u_scan (ucomps p) O with Some e => (base, Some e) | None => (u_push base p, None) end.
Proof. exact u_push_checked_decision. Qed.
Theorem C04_windows_decision : forall base p : list N,
  w_push_checked base p =
  match w_scan (w_components p) O with Some e => (base, Some e) | None => (w_push base p, None) end.
Proof. exact w_push_checked_decision. Qed.
Print Assumptions C04_unix_decision.
Print Assumptions C04_windows_decision.

(* it succeeds exactly when p has no root, no normal component containing a forbidden byte,
   and no ".." that outnumbers the normal components before it *)
Theorem C04_unix_success_iff : forall (cs : list comp) (d : nat),
  u_scan cs d = None <->
  (forallb (fun c => negb (c_is_root c)) cs = true /\ forallb comp_valid_u cs = true /\ never_climbs cs d).
Proof. exact u_scan_none_iff. Qed.
(* otherwise the error names the kind of the first offending component *)
Theorem C04_unix_first_offender : forall (cs : list comp) (d : nat) (e : cerr), u_scan cs d = Some e ->
  exists pre c post, cs = pre ++ c :: post /\ u_scan pre d = None /\
                     offence c (d + cnt_normal pre - cnt_parent pre) = Some e.
Proof. exact u_scan_first_offender. Qed.
Print Assumptions C04_unix_success_iff.
Print Assumptions C04_unix_first_offender.

(* on success the result's components begin with exactly the base's components, followed by
   what p adds: its components minus a leading "." (which no longer starts the path); the added
   components never climb above the base (never_climbs, from C04_unix_success_iff) *)
Theorem C04_unix_contains : forall base p : list N,
  u_scan (ucomps p) O = None -> p <> [] -> base <> [] ->
  ucomps (u_push base p) = ucomps base ++ added p.
Proof. exact u_push_contains. Qed.
Theorem C04_unix_added : forall p : list N, no_root_p p ->
  added p = match ucomps p with Cur :: t => t | l => l end.
Proof. exact added_spec. Qed.
Print Assumptions C04_unix_contains.
Print Assumptions C04_unix_added.
(* Windows: the scan runs over the grammar specification wspec p, and succeeds exactly when p has no
   prefix, no root, no normal component with a forbidden byte, and no ".." outnumbering the normal
   components before it *)
Theorem C04_windows_decision_spec : forall base p : list N,
  w_push_checked base p =
  match w_scan (wspec p) O with Some e => (base, Some e) | None => (w_push base p, None) end.
Proof. intros base p. rewrite w_push_checked_decision, w_components_wspec. reflexivity. Qed.
Theorem C04_windows_success_iff : forall (cs : list wcomp) (d : nat),
  w_scan cs d = None <-> (forallb w_plain_comp cs = true /\ forallb wc_is_valid cs = true /\ w_never_climbs cs d).
Proof. exact w_scan_none_iff. Qed.
(* Windows containment for the bases without UNC / verbatim / device prefix: a prefix-free base not
   starting with two separators (noprefix), or a drive prefix X: followed by anything non-empty:
   on success the result's components begin with exactly the base's, followed by p's components minus
   a leading "." *)
Theorem C04_windows_contains_plain : forall base p : list N, noprefix base = true -> base <> [] -> p <> [] ->
  w_scan (wspec p) O = None ->
  w_push_checked base p = (w_push base p, None) /\ wspec (w_push base p) = wspec base ++ map WC (gadded (wsep true) p).
Proof. exact w_push_checked_contains_plain. Qed.
Theorem C04_windows_contains_disk : forall (d : N) (ra p : list N), s_alpha d = true -> ra <> [] -> p <> [] ->
  w_scan (wspec p) O = None ->
  w_push_checked (d :: 58 :: ra) p = (w_push (d :: 58 :: ra) p, None) /\
  wspec (w_push (d :: 58 :: ra) p) = wspec (d :: 58 :: ra) ++ map WC (gadded (wsep true) p).
Proof. exact w_push_checked_contains_disk. Qed.
Print Assumptions C04_windows_decision_spec.
Print Assumptions C04_windows_success_iff.
Print Assumptions C04_windows_contains_plain.
Print Assumptions C04_windows_contains_disk.
(* ... and for the bases with a UNC, device-namespace or drive prefix followed by a non-empty rest
   (WinExtend.v: such a prefix is read the same way whatever is appended after the rest) *)
Theorem C04_windows_contains_prefixed : forall (a : list N) (k : wprefix) (r p : list N),
  wprefix_grammar a = Some (k, r) -> k_verbatim k = false -> r <> [] -> p <> [] ->
  w_scan (wspec p) O = None ->
  w_push_checked a p = (w_push a p, None) /\ wspec (w_push a p) = wspec a ++ map WC (gadded (wsep true) p).
Proof. exact w_push_checked_contains_prefixed. Qed.
Print Assumptions C04_windows_contains_prefixed.
(* ... and for the bare prefix (a UNC prefix with a non-empty share or a device-namespace prefix, nothing after
   it): the result is the base, the root such a prefix implies, and what p adds (WinBare.v) *)
Theorem C04_windows_contains_bare : forall (a : list N) (k : wprefix) (p : list N),
  wprefix_grammar a = Some (k, []) -> k_verbatim k = false -> complete k -> is_disk k = false ->
  p <> [] -> w_scan (wspec p) O = None ->
  w_push_checked a p = (w_push a p, None) /\ wspec (w_push a p) = wspec a ++ WC Root :: map WC (gadded (wsep true) p).
Proof. exact w_push_checked_contains_bare. Qed.
Print Assumptions C04_windows_contains_bare.
(* ... and for the bases with a VERBATIM prefix followed by a root (WinVerbJoin.v): the join folds p's components
   into the base's, and what the scan accepts (no prefix, no root, no ".." outnumbering the names before it)
   never reaches below the base: the result is the base's components followed by names *)
Theorem C04_windows_contains_verbatim : forall (a : list N) (k : wprefix) (r p : list N),
  wprefix_grammar a = Some (k, r) -> k_verbatim k = true -> k <> Verbatim [85; 78; 67] ->
  sep_headed (s_wsep (s_norm a)) r -> p <> [] -> w_scan (wspec p) O = None ->
  w_push_checked a p = (w_push a p, None) /\
  exists added, Forall (fun c => k_is_normal c = true) added /\ wspec (w_push a p) = wspec a ++ added.
Proof. exact w_push_checked_contains_verbatim. Qed.
Print Assumptions C04_windows_contains_verbatim.
(* ... and for the bare verbatim prefix joined with names (WinVerbBare.v): base, implied root, the names *)
Theorem C04_windows_contains_bare_verbatim : forall (a : list N) (k : wprefix) (p : list N),
  wprefix_grammar a = Some (k, []) -> k_verbatim k = true -> vcomplete k ->
  p <> [] -> w_scan (wspec p) O = None -> Forall (fun c => exists n, c = Normal n) (gcomps (wsep true) p) ->
  w_push_checked a p = (w_push a p, None) /\ wspec (w_push a p) = wspec a ++ WC Root :: wspec p.
Proof. exact w_push_checked_contains_bare_verbatim. Qed.
Print Assumptions C04_windows_contains_bare_verbatim.
(* C04_windows_contains_partial: what is left unproved: a bare verbatim prefix joined with a path that holds "." or
   "..", a verbatim drive followed by a name without a root (not well-formed in Spec.wf_comps), and the two recorded findings -- the base of exactly two separators (D10) and the
   verbatim prefix named exactly "UNC" (D17): in both, appending a separator and a name spells a longer prefix.
   (A \\server with an empty share behaves the same way; it is not a well-formed path in Spec.wf_comps.)  Those
   are decided on every explored (base, p) pair by oracle_c04 itself, over the specification only
   (Oracles.c04_contains). *)
Lemma C04_windows_d10_refuted :
  w_push_checked [92;92] [98] = ([92;92;98], None) /\ wspec [92;92] = [WC Root] /\
  wspec [92;92;98] = [WPrefix [92;92;98] (UNC [98] [])].
Proof. vm_compute. repeat split. Qed.
Lemma C04_windows_d17_refuted :
  w_push_checked [92;92;63;92;85;78;67] [120] = ([92;92;63;92;85;78;67;92;120], None) /\
  wspec [92;92;63;92;85;78;67] = [WPrefix [92;92;63;92;85;78;67] (Verbatim [85;78;67])] /\
  wspec [92;92;63;92;85;78;67;92;120] = [WPrefix [92;92;63;92;85;78;67;92;120] (VerbatimUNC [120] [])].
Proof. vm_compute. repeat split. Qed.

Example C04_example :
  u_push_checked [47;115;114;118] [97;47;46;46;47;46;46;47;101] = ([47;115;114;118], Some ETraversal)
  /\ u_push_checked [47;115;114;118] [97;47;46;47;98] = ([47;115;114;118;47;97;47;46;47;98], None)
  /\ w_push_checked [67;58;92;98] [120;124;121] = ([67;58;92;98], Some EInvalid).
Proof. vm_compute. repeat split. Qed.
