(* C13 - set_extension changes only the extension of the final component. *)
From Coq Require Import List NArith Bool.
Import ListNotations.
From TP Require Import Core CoreProofs Path Unix Spec Utf8Proofs C11Proofs C13Proofs StdUnix StdSetExt Win C13Win GenJoin WinSimple WinExtend C13WinComps C13WinVerb WinTrunc WinFileName.

(* Unix, every buffer l and extension ext. *)
(* a path without a file name: false, buffer untouched *)
Theorem C13_unix_none : forall l ext : list N, u_file_name l = None -> u_set_extension l ext = (l, false).
Proof. exact u_set_extension_none. Qed.
(* a path with a file name n: true; the bytes are everything before the name, the old stem and, when
   ext is non-empty, a dot and ext - no matter which separators or "." segments trailed the name *)
Theorem C13_unix_bytes : forall l n ext : list N, u_file_name l = Some n ->
  exists before j, l = before ++ n ++ j /\ lead_ok before /\ trail_ok j /\
                   u_set_extension l ext = (before ++ new_name n ext, true).
Proof. exact u_set_extension_bytes. Qed.
(* read back: the same leading components, then the new name; so the file name is the new name and
   the parent is the old parent *)
Theorem C13_unix_components : forall l n ext : list N, u_file_name l = Some n -> gname (new_name n ext) ->
  ucomps (fst (u_set_extension l ext)) = removelast (ucomps l) ++ [Normal (new_name n ext)].
Proof. exact u_set_extension_comps. Qed.
Theorem C13_unix_file_name : forall l n ext : list N, u_file_name l = Some n -> gname (new_name n ext) ->
  u_file_name (fst (u_set_extension l ext)) = Some (new_name n ext).
Proof. exact u_set_extension_file_name. Qed.
Theorem C13_unix_parent : forall l n ext r r' : list N, u_file_name l = Some n -> gname (new_name n ext) ->
  u_parent l = Some r -> u_parent (fst (u_set_extension l ext)) = Some r' -> ucomps r' = ucomps r.
Proof. exact u_set_extension_parent. Qed.
(* the hypothesis gname (new_name ..) holds for every separator-free extension outside the known
   class D13 (empty extension on a stem "." or ".."), where the truncated name IS a "." / ".." component *)
Theorem C13_unix_new_name_ok : forall l n ext : list N, u_file_name l = Some n -> nosep usep ext = true ->
  ~ (ext = [] /\ (stem_of n = [46] \/ stem_of n = [46; 46])) -> gname (new_name n ext).
Proof. exact gname_new_name. Qed.
Lemma C13_d13_refuted :
  u_file_name [47;46;46;97] = Some [46;46;97] /\ stem_of [46;46;97] = [46] /\
  u_set_extension [47;46;46;97] [] = ([47;46], true) /\ u_file_name [47;46] = None.
Proof. vm_compute. repeat split. Qed.
(* never panics in the UTF-8 twin: the truncation point is a character boundary, and the result is valid UTF-8 *)
Theorem C13_unix_char_boundary : forall l n ext : list N, Valid l -> Valid ext -> u_file_name l = Some n ->
  exists before j, l = before ++ n ++ j /\ Valid (before ++ stem_of n) /\ Valid (fst (u_set_extension l ext)).
Proof. exact u_set_extension_cut_valid. Qed.
Print Assumptions C13_unix_none.
Print Assumptions C13_unix_bytes.
Print Assumptions C13_unix_components.
Print Assumptions C13_unix_file_name.
Print Assumptions C13_unix_parent.
Print Assumptions C13_unix_new_name_ok.
Print Assumptions C13_unix_char_boundary.
(* "for Unix paths the resulting bytes equal those produced by std::path::PathBuf::set_extension": the
   transcription of std's _set_extension (StdUnix.v) and the model are the same function, result and
   boolean, on every buffer and every extension (this was C13_std_partial until StdSetExt.v: std truncates
   where its back iterator stops trimming, the model at back_off + length of the file name, and both are
   the length of skip_back of the buffer).  The transcription is diffed against the real
   std::path::PathBuf on every explored case (pair.c13). *)
Theorem C13_std_bytes : forall buf ext : list N, s_set_extension buf ext = u_set_extension buf ext.
Proof. exact set_extension_bytes. Qed.
Print Assumptions C13_std_bytes.
(* Windows, at the level of bytes (C13Win.v): without a file name set_extension returns false and leaves the
   buffer untouched; with a file name n it returns true and the buffer is everything before the name, the old
   stem and (for a non-empty extension) a dot and the extension, for every prefix kind and whatever trails
   the name *)
Theorem C13_windows_none : forall l ext : list N, w_file_name l = None -> w_set_extension l ext = (l, false).
Proof. exact w_set_extension_none. Qed.
Theorem C13_windows_bytes : forall l n ext : list N, w_file_name l = Some n ->
  exists before j, l = before ++ n ++ j /\ w_set_extension l ext = (before ++ new_name n ext, true).
Proof. exact w_set_extension_bytes. Qed.
Print Assumptions C13_windows_none.
Print Assumptions C13_windows_bytes.
(* Windows, read back at the level of components (C13WinComps.v): the old components with the last replaced by
   the new name -- for prefix-free paths and for paths with a UNC, device-namespace or drive prefix (WinExtend.v:
   such a prefix is read the same way whatever follows it).  The core is generic in the separator test. *)
Theorem C13_windows_components_plain : forall l n ext : list N, noprefix l = true -> w_file_name l = Some n ->
  gn (wsep true) (new_name n ext) ->
  wspec (fst (w_set_extension l ext)) = removelast (wspec l) ++ [WC (Normal (new_name n ext))].
Proof. exact w_set_extension_comps_plain. Qed.
Theorem C13_windows_components_prefixed : forall (l : list N) (k : wprefix) (r n ext : list N),
  wprefix_grammar l = Some (k, r) -> k_verbatim k = false -> w_file_name l = Some n ->
  gn (wsep true) (new_name n ext) ->
  wspec (fst (w_set_extension l ext)) = removelast (wspec l) ++ [WC (Normal (new_name n ext))].
Proof. exact w_set_extension_comps_prefixed. Qed.
(* the hypothesis on the new name holds for every separator-free extension outside the class D13 *)
Theorem C13_windows_new_name_ok : forall l p r n ext : list N, wview l p r -> w_file_name l = Some n ->
  nosep (wsep true) ext = true -> ~ (ext = [] /\ (stem_of n = [46] \/ stem_of n = [46; 46])) ->
  gn (wsep true) (new_name n ext).
Proof. exact w_new_name_ok. Qed.
Print Assumptions C13_windows_components_plain.
Print Assumptions C13_windows_components_prefixed.
Print Assumptions C13_windows_new_name_ok.
Example C13_windows_example :
  wprefix_grammar [92;92;115;92;104;92;102;46;116;92] = Some (UNC [115] [104], [92;102;46;116;92])      (* \\s\h\f.t\ *)
  /\ w_file_name [92;92;115;92;104;92;102;46;116;92] = Some [102;46;116]
  /\ w_set_extension [92;92;115;92;104;92;102;46;116;92] [114;115] = ([92;92;115;92;104;92;102;46;114;115], true).
Proof. vm_compute. repeat split. Qed.
(* ... and for paths with a VERBATIM prefix other than the one named "UNC" (C13WinVerb.v: the same generic core for
   either setting of the normalisation flag -- under exactly \\?\ only '\' separates and "." is a component) *)
Theorem C13_windows_components_verbatim : forall (l : list N) (k : wprefix) (r n ext : list N),
  wprefix_grammar l = Some (k, r) -> k_verbatim k = true -> k <> Verbatim [85; 78; 67] ->
  w_file_name l = Some n -> gn (s_wsep (s_norm l)) (new_name n ext) ->
  wspec (fst (w_set_extension l ext)) = removelast (wspec l) ++ [WC (Normal (new_name n ext))].
Proof. exact w_set_extension_comps_verbatim. Qed.
Theorem C13_new_name_ok_any_separator : forall (is_sep : N -> bool) (n ext : list N), is_sep 46 = false ->
  nosep is_sep n = true -> n <> [] -> nosep is_sep ext = true ->
  ~ (ext = [] /\ (stem_of n = [46] \/ stem_of n = [46; 46])) -> gn is_sep (new_name n ext).
Proof. exact gn_new_name_gen. Qed.
Print Assumptions C13_windows_components_verbatim.
Print Assumptions C13_new_name_ok_any_separator.
Example C13_windows_verbatim_example :
  wprefix_grammar [92;92;63;92;67;58;92;97;47;98;46;116] = Some (VerbatimDisk 67, [92;97;47;98;46;116])    (* \\?\C:\a/b.t *)
  /\ w_file_name [92;92;63;92;67;58;92;97;47;98;46;116] = Some [97;47;98;46;116]                              (* a/b.t is ONE name *)
  /\ w_set_extension [92;92;63;92;67;58;92;97;47;98;46;116] [114] = ([92;92;63;92;67;58;92;97;47;98;46;114], true).
Proof. vm_compute. repeat split. Qed.
(* hence, in all three cases, the file name of the result is the new name and its parent, read again, has the
   components of the old parent: "changes only the extension of the final component" *)
Theorem C13_windows_file_name_parent : forall l l' m : list N,
  wspec l' = removelast (wspec l) ++ [WC (Normal m)] ->
  w_file_name l' = Some m /\
  (forall r r', w_parent l = Some r -> w_parent l' = Some r' -> wspec r' = wspec r).
Proof. exact w_replaced_last. Qed.
Print Assumptions C13_windows_file_name_parent.
(* C13_windows_components_partial: only the verbatim prefix named "UNC" (finding D17) is left to oracle_c13. *)

Example C13_example :
  u_set_extension [102;111;111;46;116;120;116;47] [114;115] = ([102;111;111;46;114;115], true)
  /\ u_set_extension [47;120;46;195;169;195;169;47] [114;115] = ([47;120;46;114;115], true)     (* /x.éé/ + rs *)
  /\ gname (new_name [102;111;111;46;116;120;116] [114;115]).
Proof. split; [vm_compute; reflexivity|]. split; [vm_compute; reflexivity|]. vm_compute. repeat split; discriminate. Qed.
