(* C13 - set_extension changes only the extension of the final component. *)
From Coq Require Import List NArith Bool.
Import ListNotations.
From TP Require Import Core CoreProofs Path Unix Spec Utf8Proofs C11Proofs C13Proofs StdUnix StdSetExt.

(* Unix, every buffer l and extension ext. *)
(* a path without a file name: false, buffer untouched *)
Theorem C13_unix_none : forall l ext : list N, u_file_name l = None -> u_set_extension l ext = (l, false).
Proof. exact u_set_extension_none. Qed.
(* a path with a file name n: true; the bytes are everything before the name, the old stem and, when
   ext is non-empty, a dot and ext - no matter which separators or "." segments trailed the name *)
Theorem C13_unix_bytes : forall l n ext : list N, u_file_name l = Some n ->
  exists before j, l = before ++ n ++ j /\ lead_ok before /\ trail_ok j /\
                   u_set_extension l ext = (before ++ new_name n ext, true).
Proof. exact u_set_extension_bytes. Qed.
(* read back: the same leading components, then the new name; so the file name is the new name and
   the parent is the old parent *)
Theorem C13_unix_components : forall l n ext : list N, u_file_name l = Some n -> gname (new_name n ext) ->
  ucomps (fst (u_set_extension l ext)) = removelast (ucomps l) ++ [Normal (new_name n ext)].
Proof. exact u_set_extension_comps. Qed.
Theorem C13_unix_file_name : forall l n ext : list N, u_file_name l = Some n -> gname (new_name n ext) ->
  u_file_name (fst (u_set_extension l ext)) = Some (new_name n ext).
Proof. exact u_set_extension_file_name. Qed.
Theorem C13_unix_parent : forall l n ext r r' : list N, u_file_name l = Some n -> gname (new_name n ext) ->
  u_parent l = Some r -> u_parent (fst (u_set_extension l ext)) = Some r' -> ucomps r' = ucomps r.
Proof. exact u_set_extension_parent. Qed.
(* the hypothesis gname (new_name ..) holds for every separator-free extension outside the known
   class D13 (empty extension on a stem "." or ".."), where the truncated name IS a "." / ".." component *)
Theorem C13_unix_new_name_ok : forall l n ext : list N, u_file_name l = Some n -> nosep usep ext = true ->
  ~ (ext = [] /\ (stem_of n = [46] \/ stem_of n = [46; 46])) -> gname (new_name n ext).
Proof. exact gname_new_name. Qed.
Lemma C13_d13_refuted :
  u_file_name [47;46;46;97] = Some [46;46;97] /\ stem_of [46;46;97] = [46] /\
  u_set_extension [47;46;46;97] [] = ([47;46], true) /\ u_file_name [47;46] = None.
Proof. vm_compute. repeat split. Qed.
(* never panics in the UTF-8 twin: the truncation point is a character boundary, and the result is valid UTF-8 *)
Theorem C13_unix_char_boundary : forall l n ext : list N, Valid l -> Valid ext -> u_file_name l = Some n ->
  exists before j, l = before ++ n ++ j /\ Valid (before ++ stem_of n) /\ Valid (fst (u_set_extension l ext)).
Proof. exact u_set_extension_cut_valid. Qed.
Print Assumptions C13_unix_none.
Print Assumptions C13_unix_bytes.
Print Assumptions C13_unix_components.
Print Assumptions C13_unix_file_name.
Print Assumptions C13_unix_parent.
Print Assumptions C13_unix_new_name_ok.
Print Assumptions C13_unix_char_boundary.
(* "for Unix paths the resulting bytes equal those produced by std::path::PathBuf::set_extension": the
   transcription of std's _set_extension (StdUnix.v) and the model are the same function, result and
   boolean, on every buffer and every extension (this was C13_std_partial until StdSetExt.v: std truncates
   where its back iterator stops trimming, the model at back_off + length of the file name, and both are
   the length of skip_back of the buffer).  The transcription is diffed against the real
   std::path::PathBuf on every explored case (pair.c13). *)
Theorem C13_std_bytes : forall buf ext : list N, s_set_extension buf ext = u_set_extension buf ext.
Proof. exact set_extension_bytes. Qed.
Print Assumptions C13_std_bytes.
(* C13_windows_partial: the Windows instance (the same generic set_extension over the Windows back
   parser) is not proved; it is decided on every explored case by oracle_c13 over the specification. *)

Example C13_example :
  u_set_extension [102;111;111;46;116;120;116;47] [114;115] = ([102;111;111;46;114;115], true)
  /\ u_set_extension [47;120;46;195;169;195;169;47] [114;115] = ([47;120;46;114;115], true)     (* /x.éé/ + rs *)
  /\ gname (new_name [102;111;111;46;116;120;116] [114;115]).
Proof. split; [vm_compute; reflexivity|]. split; [vm_compute; reflexivity|]. vm_compute. repeat split; discriminate. Qed.
