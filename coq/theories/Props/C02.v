(* C02 - Windows paths decompose per the documented prefix and separator grammar. *)
From Coq Require Import List NArith Bool.
Import ListNotations.
From TP Require Import Core Path Unix Win Spec WinProofs C02Proofs.
Open Scope N_scope.

(* the model of the prefix parser (six ordered alternatives over parser combinators, as in
   windows/non_utf8/components/parser.rs) accepts exactly what the declarative grammar of Spec.v
   derives, with the same kind, payloads and remainder, for every byte string *)
Theorem C02_prefix_grammar : forall l : list N, wprefix_grammar l = prefix l.
Proof. exact prefix_grammar. Qed.
(* the raw prefix is a non-empty leading slice: raw ++ rest = input *)
Theorem C02_prefix_raw : forall (l raw : list N) (k : wprefix),
  prefix_component l = Some (raw, k) -> exists rest, prefix l = Some (k, rest) /\ l = raw ++ rest /\ raw <> [].
Proof. exact prefix_component_raw. Qed.
(* a drive letter is an upper-case ASCII letter *)
Theorem C02_drive_letter : forall (l : list N) (k : wprefix) (r : list N), wprefix_grammar l = Some (k, r) ->
  match k with Disk d | VerbatimDisk d => 65 <= d <= 90 | _ => True end.
Proof. exact drive_letter_upper. Qed.
Print Assumptions C02_prefix_grammar.
Print Assumptions C02_prefix_raw.
Print Assumptions C02_drive_letter.

(* the decomposition: at most one prefix, first; then root / "." / ".." / names of the rest, split on
   \ only when the path starts with exactly \\?\ (and "." kept), on \ and / otherwise (every "." dropped
   except one that starts the path after the prefix) -- that is the definition of wspec / spec_comps *)
Theorem C02_decomposition : forall l : list N, w_components l = wspec l.
Proof. exact w_components_wspec. Qed.
Theorem C02_back_is_reverse : forall l : list N, w_components_rev l = rev (w_components l).
Proof. exact w_back_is_rev_front. Qed.
Theorem C02_prefix_only_first : forall (l : list N) (c : wcomp),
  In c (tl (w_components l)) -> match c with WPrefix _ _ => False | WC _ => True end.
Proof. exact w_prefix_only_first. Qed.
(* repeated and trailing separators never produce components *)
Theorem C02_no_empty_component : forall (l n : list N), In (WC (Normal n)) (wspec l) -> n <> [].
Proof. exact wspec_no_empty_name. Qed.
Print Assumptions C02_decomposition.
Print Assumptions C02_no_empty_component.

(* the prefix, root, absoluteness and prefix-kind queries all agree with that decomposition *)
Theorem C02_prefix_query : forall l : list N,
  w_prefix_of l = match wspec l with WPrefix raw k :: _ => Some (raw, k) | _ => None end.
Proof. exact w_prefix_of_spec. Qed.
Theorem C02_prefix_kind_query : forall l : list N,
  w_prefix_kind l = match wspec l with WPrefix _ k :: _ => Some k | _ => None end.
Proof. exact w_prefix_kind_spec. Qed.
Theorem C02_has_prefix_query : forall l : list N,
  w_has_prefix l = match wspec l with WPrefix _ _ :: _ => true | _ => false end.
Proof. exact w_has_prefix_spec. Qed.
Theorem C02_is_absolute_query : forall l : list N,
  w_is_absolute l = match wspec l with WPrefix _ _ :: WC Root :: _ => true | _ => false end.
Proof. exact w_is_absolute_spec. Qed.
Theorem C02_has_root_query : forall l : list N,
  w_has_root l =
  match wspec l with
  | WC Root :: _ => true
  | WPrefix _ k :: rest =>
      match k with
      | Disk _ | VerbatimDisk _ => match rest with WC Root :: _ => true | _ => false end
      | _ => true
      end
  | _ => false
  end.
Proof. exact w_has_root_spec. Qed.
Theorem C02_has_physical_root_query : forall l : list N,
  w_has_physical_root l =
  match wspec l with WC Root :: _ => true | WPrefix _ _ :: WC Root :: _ => true | _ => false end.
Proof. exact w_has_physical_root_spec. Qed.
Theorem C02_has_implicit_root_query : forall l : list N,
  w_has_implicit_root l = match wspec l with WPrefix _ (Disk _) :: _ => false | WPrefix _ _ :: _ => true | _ => false end.
Proof. exact w_has_implicit_root_spec. Qed.
Theorem C02_has_any_verbatim_prefix_query : forall l : list N,
  w_has_any_verbatim_prefix l =
  match wspec l with WPrefix _ (Verbatim _ | VerbatimUNC _ _ | VerbatimDisk _) :: _ => true | _ => false end.
Proof. exact w_has_any_verbatim_prefix_spec. Qed.
Theorem C02_is_only_disk_query : forall l : list N,
  w_is_only_disk l = match wspec l with [WPrefix _ (Disk _)] => true | _ => false end.
Proof. exact w_is_only_disk_spec. Qed.
Theorem C02_try_from : forall l : list N, w_try_from l = match wspec l with [c] => Some c | _ => None end.
Proof. exact w_try_from_spec. Qed.
Print Assumptions C02_has_root_query.
Print Assumptions C02_is_absolute_query.
Print Assumptions C02_has_any_verbatim_prefix_query.
Print Assumptions C02_try_from.

(* near-miss classifications follow from the ordered grammar; pinned so that a re-ordering shows up *)
Example C02_near_misses :
  wspec [92;92;63;92] = [WPrefix [92;92;63;92] (UNC [63] [])]                                  (* \\?\ alone *)
  /\ wspec [92;92;63;92;85;78;67] = [WPrefix [92;92;63;92;85;78;67] (Verbatim [85;78;67])]      (* \\?\UNC *)
  /\ wspec [92;92;46;92] = [WPrefix [92;92;46;92] (UNC [46] [])]                               (* \\.\ alone *)
  /\ wspec [92;92;97;92] = [WPrefix [92;92;97;92] (UNC [97] [])]                               (* \\a\ swallows the separator *)
  /\ wspec [47;47;63;47;97;47;46;47;98] = [WPrefix [47;47;63;47;97] (Verbatim [97]); WC Root; WC (Normal [98])]
  /\ wspec [92;92;63;92;97;92;46;92;98] = [WPrefix [92;92;63;92;97] (Verbatim [97]); WC Root; WC Cur; WC (Normal [98])]
  /\ wspec [233;58;92;97] = [WC (Normal [233;58]); WC (Normal [97])]                           (* 0xE9 is not a drive letter *)
  /\ wspec [99;58;46;92;97] = [WPrefix [99;58] (Disk 67); WC Cur; WC (Normal [97])].
Proof. vm_compute. repeat split. Qed.
