(* C15 - Runtime-typed and platform wrappers are transparent. *)
From Coq Require Import List NArith Bool.
Import ListNotations.
From TP Require Import Core Path Unix Win Spec C02Proofs Run.

(* Deriving the type from raw bytes selects Windows exactly when the bytes start with '\' or carry
   a Windows prefix (one of the six kinds of the grammar specification), and Unix otherwise. *)
Lemma derive_windows_spec (p : list N) :
  derive_windows p = (match p with b :: _ => N.eqb b 92 | [] => false end
                      || match wprefix_grammar p with Some _ => true | None => false end).
Proof.
  assert (H : w_has_prefix p = match wprefix_grammar p with Some _ => true | None => false end).
  { rewrite w_has_prefix_spec. unfold wspec. destruct (wprefix_grammar p) as [[k r]|]; [reflexivity|].
    destruct (spec_comps (s_wsep (s_norm p)) (s_norm p) p); reflexivity. }
  unfold derive_windows. destruct p as [|b r]; [exact H|]. destruct (N.eqb b 92); [reflexivity|]. exact H.
Qed.
Theorem C15_derive : forall p : list N,
  derive_windows p = (match p with b :: _ => N.eqb b 92 | [] => false end
                      || match wprefix_grammar p with Some _ => true | None => false end).
Proof. exact derive_windows_spec. Qed.
Print Assumptions C15_derive.
(* The dispatch half (every Typed* / Platform* method forwards to the same-named method of the wrapped
   value and re-wraps in the same variant, except the explicit conversions) is a theorem over a table
   regenerated from src/typed/** and src/platform.rs on every run: see Generated_C15.v written by
   tools/translate.py (obligations dispatch_ok / platform_ok, closed by vm_compute over the concrete
   table whose length is part of the statement). *)
Example C15_example :
  derive_windows [67;58;92;97] = true /\ derive_windows [92;97] = true
  /\ derive_windows [47;97] = false /\ derive_windows [97;92;98] = false /\ derive_windows [47;47;63;47;120] = true.
Proof. vm_compute. repeat split. Qed.
