(* C05 - Equality, ordering and hashing of paths are mutually coherent. *)
From Coq Require Import List NArith Bool.
Import ListNotations.
From TP Require Import Core Path Unix Win Spec UnixProofs WinProofs C05Proofs C05WinProofs.

(* two Unix paths are equal exactly when their (specification) component sequences are equal *)
Theorem C05_unix_eq_iff : forall a b : list N, u_path_eq a b = true <-> ucomps a = ucomps b.
Proof. exact u_eq_iff. Qed.
(* the order is the lexicographic extension of the component order ... *)
Theorem C05_unix_cmp_lexicographic : forall a b : list N,
  u_path_cmp a b = list_cmp_c comp comp_cmp (ucomps a) (ucomps b).
Proof. exact u_cmp_lexicographic. Qed.
(* ... a total order: antisymmetric, transitive (for Lt, Eq and Gt alike), Equal exactly for equal paths *)
Theorem C05_unix_cmp_antisym : forall a b : list N, u_path_cmp b a = CompOpp (u_path_cmp a b).
Proof. exact u_cmp_antisym. Qed.
Theorem C05_unix_cmp_trans : forall (a b c : list N) (o : comparison),
  u_path_cmp a b = o -> u_path_cmp b c = o -> u_path_cmp a c = o.
Proof. exact u_cmp_trans. Qed.
Theorem C05_unix_cmp_eq_iff : forall a b : list N, u_path_cmp a b = Eq <-> u_path_eq a b = true.
Proof. exact u_cmp_eq_iff. Qed.
(* equal paths feed identical data to any hasher: the feed is the bytes of every non-root
   component, in order, then their total length *)
Theorem C05_unix_hash_feed : forall l : list N,
  u_hash l = map HWrite (map uc_bytes (filter non_root (ucomps l)))
             ++ [HUsize (total_len (map uc_bytes (filter non_root (ucomps l))))].
Proof. exact u_hash_feed. Qed.
Theorem C05_unix_eq_same_hash : forall a b : list N, u_path_eq a b = true -> u_hash a = u_hash b.
Proof. exact u_eq_same_hash. Qed.
Print Assumptions C05_unix_eq_iff.
Print Assumptions C05_unix_cmp_lexicographic.
Print Assumptions C05_unix_cmp_antisym.
Print Assumptions C05_unix_cmp_trans.
Print Assumptions C05_unix_cmp_eq_iff.
Print Assumptions C05_unix_hash_feed.
Print Assumptions C05_unix_eq_same_hash.

(* Windows: the derived component order (prefixes compared by parsed kind) lifts to a total order on
   paths that says Equal exactly for equal paths *)
Theorem C05_windows_cmp_antisym : forall a b : list N, w_path_cmp b a = CompOpp (w_path_cmp a b).
Proof. exact w_cmp_antisym. Qed.
Theorem C05_windows_cmp_trans : forall (a b c : list N) (o : comparison),
  w_path_cmp a b = o -> w_path_cmp b c = o -> w_path_cmp a c = o.
Proof. exact w_cmp_trans. Qed.
Theorem C05_windows_cmp_eq_iff : forall a b : list N, w_path_cmp a b = Eq <-> w_path_eq a b = true.
Proof. exact w_cmp_eq_iff. Qed.
Print Assumptions C05_windows_cmp_antisym.
Print Assumptions C05_windows_cmp_trans.
Print Assumptions C05_windows_cmp_eq_iff.
(* two Windows paths are equal exactly when their specification component sequences are equal
   (prefixes by parsed kind), and the order is lexicographic on them *)
Theorem C05_windows_eq_iff : forall a b : list N,
  w_path_eq a b = true <-> list_eqb_c wcomp wcomp_eqb (wspec a) (wspec b) = true.
Proof. exact w_eq_iff. Qed.
Theorem C05_windows_cmp_lexicographic : forall a b : list N,
  w_path_cmp a b = list_cmp_c wcomp wcomp_cmp (wspec a) (wspec b).
Proof. exact w_cmp_lexicographic. Qed.
(* the hasher is fed the derived hash of the parsed prefix kind (never its raw spelling), then the
   bytes of every non-root component after it, then their total length ... *)
Theorem C05_windows_hash_feed : forall l : list N,
  w_hash l = (match wkind l with Some k => wprefix_hash k | None => [] end)
             ++ map HWrite (map uc_bytes (filter non_root (wbody l)))
             ++ [HUsize (total_len (map uc_bytes (filter non_root (wbody l))))].
Proof. exact w_hash_feed. Qed.
(* ... so equal Windows paths feed identical data to any hasher, whatever their spelling *)
Theorem C05_windows_eq_same_hash : forall a b : list N, w_path_eq a b = true -> w_hash a = w_hash b.
Proof. exact w_eq_same_hash. Qed.
Print Assumptions C05_windows_eq_iff.
Print Assumptions C05_windows_cmp_lexicographic.
Print Assumptions C05_windows_hash_feed.
Print Assumptions C05_windows_eq_same_hash.

Example C05_example :
  u_path_eq [47;97;47;47;98;47;46] [47;97;47;46;47;98] = true /\ u_hash [47;97;47;47;98;47;46] = u_hash [47;97;47;46;47;98]
  /\ w_path_eq [99;58;92;97] [67;58;47;97] = true /\ w_hash [99;58;92;97] = w_hash [67;58;47;97]
  /\ u_path_cmp [97] [47;97] = Gt.
Proof. vm_compute. repeat split. Qed.
