(* C06 - Unix path queries return what std::path returns.
   "std::path" here is its Gallina transcription StdUnix.v (Components front/back state machine with
   trimming as_path, parent, file_name, ..., iter_after with component equality), which is diffed against
   the real std::path of the toolchain on every explored case (the pair.* operations).  Proved: for ALL
   byte strings, the transcription and the typed-path model give the same answer. *)
From Coq Require Import List NArith Bool.
Import ListNotations.
From TP Require Import Core Path Unix StdUnix Spec UnixProofs StdProofs StdParentBytes.

(* components from the front and from the back: the specification list, resp. its reverse *)
Theorem C06_std_components : forall l : list N, s_components l = ucomps l.
Proof. exact s_components_spec. Qed.
Theorem C06_std_components_rev : forall l : list N,
  back_all scomps comp s_nextb (S (length l)) (s_init l) = rev (ucomps l).
Proof. exact s_components_rev_spec. Qed.
(* equality, ordering, has_root *)
Theorem C06_eq : forall a b : list N, s_path_eq a b = u_path_eq a b.
Proof. exact s_path_eq_spec. Qed.
Theorem C06_cmp : forall a b : list N, s_path_cmp a b = u_path_cmp a b.
Proof. exact s_path_cmp_spec. Qed.
Theorem C06_has_root : forall l : list N, s_has_root l = u_has_root l.
Proof. exact s_has_root_spec. Qed.
(* file name, stem, extension: identical byte for byte *)
Theorem C06_file_name : forall l : list N, s_file_name l = u_file_name l.
Proof. exact s_file_name_spec. Qed.
Theorem C06_file_stem : forall l : list N, s_file_stem l = u_file_stem l.
Proof. exact s_file_stem_spec. Qed.
Theorem C06_extension : forall l : list N, s_extension l = u_extension l.
Proof. exact s_extension_spec. Qed.
(* starts_with / ends_with *)
Theorem C06_starts_with : forall p q : list N, s_starts_with p q = u_starts_with p q.
Proof. exact s_starts_with_spec. Qed.
Theorem C06_ends_with : forall p q : list N, s_ends_with p q = u_ends_with p q.
Proof. exact s_ends_with_spec. Qed.
(* parent: absent for both, or for both a leading slice of the path whose components are all but the last *)
Theorem C06_parent : forall l : list N,
  match s_parent l, u_parent l with
  | Some r, Some r' => ucomps r = removelast (ucomps l) /\ ucomps r' = removelast (ucomps l)
                       /\ (exists j, l = r ++ j) /\ (exists j, l = r' ++ j)
  | None, None => True
  | _, _ => False
  end.
Proof. exact s_parent_spec. Qed.
(* ancestors: chains of the same length whose members are pairwise equal paths *)
Theorem C06_ancestors : forall l : list N,
  Forall2 (fun a b => ucomps a = ucomps b) (s_ancestors l) (u_ancestors l).
Proof. exact s_ancestors_spec. Qed.
(* strip_prefix: succeeds for both or neither; the remainders are equal paths (their bytes differ exactly
   in the known class D8: std trims trailing separators / "." of the remainder, typed-path does not) *)
Theorem C06_strip_prefix : forall p q : list N,
  match s_strip_prefix p q, u_strip_prefix p q with
  | Some r, Some r' => ucomps r = ucomps r' /\ ucomps p = ucomps q ++ ucomps r
  | None, None => True
  | _, _ => False
  end.
Proof. exact s_strip_prefix_spec. Qed.
Lemma C06_d8_refuted : s_strip_prefix [47;97;47] [47] = Some [97] /\ u_strip_prefix [47;97;47] [47] = Some [97;47].
Proof. vm_compute. split; reflexivity. Qed.
Print Assumptions C06_std_components.
Print Assumptions C06_std_components_rev.
Print Assumptions C06_eq.
Print Assumptions C06_cmp.
Print Assumptions C06_has_root.
Print Assumptions C06_file_name.
Print Assumptions C06_file_stem.
Print Assumptions C06_extension.
Print Assumptions C06_starts_with.
Print Assumptions C06_ends_with.
Print Assumptions C06_parent.
Print Assumptions C06_ancestors.
Print Assumptions C06_strip_prefix.
(* "with returned sub-paths identical byte for byte": the parent std returns and the parent the model of
   typed-path returns are the same byte string (both absent, or equal), and so are the ancestors, one by
   one.  (This was C06_parent_bytes_partial until StdParentBytes.v: std's next_back + as_path trimming
   and the model's skip_back / "keep the leading root or ." formula are shown to compute the same
   function.)  The strip_prefix remainder is the exception and a recorded finding (D8, class 6). *)
Theorem C06_parent_bytes : forall l : list N, s_parent l = u_parent l.
Proof. exact parent_bytes. Qed.
Theorem C06_ancestors_bytes : forall l : list N, s_ancestors l = u_ancestors l.
Proof. exact ancestors_bytes. Qed.
Print Assumptions C06_parent_bytes.
Print Assumptions C06_ancestors_bytes.

Example C06_example :
  s_parent [47;97;47;47;98;47;46] = Some [47;97] /\ u_parent [47;97;47;47;98;47;46] = Some [47;97]
  /\ s_file_name [97;47;98;46;99;47] = Some [98;46;99] /\ s_ends_with [47;97;47;98] [98;47] = true.
Proof. vm_compute. repeat split. Qed.
