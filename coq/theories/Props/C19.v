(* C19 - Construction and conversion are lossless.
   In the model every wrapper (new, as_bytes, to_path_buf, into_vec, Box/Rc/Arc/Cow, OsStr ...) is the
   identity on the byte list, so "round trip = identity" is immediate there and deliberately NOT
   presented as evidence: what decides those chains is the harness (c19 / c19p: every chain, bytes,
   eq, cmp, hash feed).  What is proved is the part with content: to_str / lossy / Display. *)
From Coq Require Import List NArith Bool.
Import ListNotations.
From TP Require Import Core Utf8 Utf8Proofs C17Proofs.

(* the lossy decoding (String::from_utf8_lossy, Display) is always valid UTF-8 ... *)
Theorem C19_lossy_is_valid : forall l : list N, utf8_valid (lossy l) = true.
Proof. exact lossy_valid. Qed.
(* ... and is the identity exactly on what to_str accepts *)
Theorem C19_lossy_identity_on_valid : forall l : list N, utf8_valid l = true -> lossy l = l.
Proof. exact lossy_of_valid. Qed.
(* validity is closed under concatenation (used for every buffer the crate builds by appending) *)
Theorem C19_valid_app : forall a b : list N, utf8_valid a = true -> utf8_valid b = true -> utf8_valid (a ++ b) = true.
Proof. exact utf8_valid_app. Qed.
Print Assumptions C19_lossy_is_valid.
Print Assumptions C19_lossy_identity_on_valid.
Print Assumptions C19_valid_app.
Example C19_example : lossy [47;226;130;47;102] = [47;239;191;189;47;102] /\ utf8_valid [195;169;226;130;172;240;159;152;128] = true
                      /\ utf8_valid [237;160;128] = false /\ lossy [240;159;146;47] = [239;191;189;47].
Proof. vm_compute. repeat split. Qed.
