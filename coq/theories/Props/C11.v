(* C11 - normalize resolves "." and ".." lexically, idempotently, never above the root. *)
From Coq Require Import List NArith Bool.
Import ListNotations.
From TP Require Import Core Path Unix Win Spec GenJoin WinSimple C11Proofs C11WinProofs WinExtend C11WinPrefixed WinVerbJoin C11WinVerb.

(* Unix, every byte string: the normalised path, read back, is the lexical fold (Spec.nfold) of the
   input's components: "." dropped, each ".." cancels the nearest preceding normal component and
   otherwise vanishes, the root untouched *)
Theorem C11_unix_fold : forall l : list N, uspec (u_normalize l) = nfold (uspec l) [].
Proof. exact u_normalize_nfold. Qed.
Check C11_unix_fold : forall l : list N, uspec (u_normalize l) = nfold (uspec l) [].
(* hence no "." or ".." is left *)
Theorem C11_unix_clean : forall l : list N,
  Forall (fun c => c_is_current c = false /\ c_is_parent c = false) (ucomps (u_normalize l)).
Proof. exact u_normalize_clean. Qed.
(* same root / absoluteness as the input *)
Theorem C11_unix_root : forall l : list N, u_has_root (u_normalize l) = u_has_root l.
Proof. exact u_normalize_root. Qed.
(* normalising again returns the same bytes *)
Theorem C11_unix_idempotent : forall l : list N, u_normalize (u_normalize l) = u_normalize l.
Proof. exact u_normalize_idem. Qed.
Print Assumptions C11_unix_fold.
Print Assumptions C11_unix_clean.
Print Assumptions C11_unix_root.
Print Assumptions C11_unix_idempotent.
(* the model's fold is the specification's fold for any component list (both encodings share
   Path.norm_fold; at Windows the same lemma is used by the run-time oracle's reading) *)
Theorem C11_fold_is_nfold : forall (cs acc : list comp),
  map WC (norm_fold comp c_is_normal c_is_parent c_is_current cs acc) = nfold (map WC cs) (map WC acc).
Proof. exact norm_fold_nfold. Qed.
Print Assumptions C11_fold_is_nfold.
(* Windows, every prefix-free path (not starting with two separators) whose names carry no drive
   look-alike (names_plain: every normal name n has noprefix n -- in particular every name without ':'):
   the normalised path reads back as the lexical fold, normalising again returns the same bytes, and the
   result is rooted exactly when the input is *)
Theorem C11_windows_fold_plain : forall l : list N, noprefix l = true -> names_plain l ->
  wspec (w_normalize l) = nfold (wspec l) [].
Proof. exact w_normalize_plain. Qed.
Theorem C11_windows_idempotent_plain : forall l : list N, noprefix l = true -> names_plain l ->
  w_normalize (w_normalize l) = w_normalize l.
Proof. exact w_normalize_plain_idem. Qed.
Theorem C11_windows_root_plain : forall l : list N, noprefix l = true -> names_plain l ->
  g_rooted (wsep true) (w_normalize l) = g_rooted (wsep true) l.
Proof. exact w_normalize_plain_root. Qed.
Print Assumptions C11_windows_fold_plain.
Print Assumptions C11_windows_idempotent_plain.
Print Assumptions C11_windows_root_plain.
(* the hypothesis on names is needed: a name that looks like a drive replaces the buffer when re-pushed *)
Lemma C11_names_needed : w_normalize [97;92;99;58;100] = [99;58;100].        (* a\c:d -> c:d *)
Proof. vm_compute. reflexivity. Qed.
(* Windows, every path with a UNC, device-namespace or drive prefix followed by a non-empty rest, names without
   drive look-alike (C11WinPrefixed.v, over WinExtend.v and WinTrunc.v): the same three statements -- the
   normalised path reads back as the lexical fold (the prefix component at the bottom of the stack, which ".."
   never removes), normalising again returns the same bytes, the prefix and a root after it are kept and no
   "." or ".." is left *)
Theorem C11_windows_fold_prefixed : forall (l : list N) (k : wprefix) (r : list N),
  wprefix_grammar l = Some (k, r) -> k_verbatim k = false -> r <> [] -> Forall pn_comp (gcomps (wsep true) r) ->
  wspec (w_normalize l) = nfold (wspec l) [].
Proof. exact w_normalize_prefixed. Qed.
Theorem C11_windows_idempotent_prefixed : forall (l : list N) (k : wprefix) (r : list N),
  wprefix_grammar l = Some (k, r) -> k_verbatim k = false -> r <> [] -> Forall pn_comp (gcomps (wsep true) r) ->
  w_normalize (w_normalize l) = w_normalize l.
Proof. exact w_normalize_prefixed_idem. Qed.
Theorem C11_windows_head_prefixed : forall (l : list N) (k : wprefix) (r : list N),
  wprefix_grammar l = Some (k, r) -> k_verbatim k = false -> r <> [] -> Forall pn_comp (gcomps (wsep true) r) ->
  exists p body, wspec l = WPrefix p k :: map WC (gcomps (wsep true) r) /\ wspec (w_normalize l) = WPrefix p k :: map WC body /\
                 (g_rooted (wsep true) r = true -> exists t, body = Root :: t) /\
                 Forall (fun c => c_is_current c = false /\ c_is_parent c = false) body.
Proof. exact w_normalize_prefixed_head. Qed.
Print Assumptions C11_windows_fold_prefixed.
Print Assumptions C11_windows_idempotent_prefixed.
Print Assumptions C11_windows_head_prefixed.
Example C11_windows_prefixed_example :
  wprefix_grammar [92;92;115;92;104;92;46;46;92;120] = Some (UNC [115] [104], [92;46;46;92;120])
  /\ Forall pn_comp (gcomps (wsep true) [92;46;46;92;120]).
Proof. split; [vm_compute; reflexivity|]. vm_compute. repeat constructor; discriminate. Qed.
(* Windows, every path with a VERBATIM prefix followed by a root (C11WinVerb.v, over WinVerbJoin.v): the same --
   the normalised path reads back as the lexical fold (under exactly \\?\ a "." is a component, which the fold
   drops), and normalising again returns the same bytes.  Left out: the verbatim prefix named "UNC" (finding D17)
   and the one with the empty name. *)
Theorem C11_windows_verbatim : forall (l : list N) (k : wprefix) (r : list N),
  wprefix_grammar l = Some (k, r) -> k_verbatim k = true -> k <> Verbatim [85; 78; 67] -> k <> Verbatim [] ->
  sep_headed (s_wsep (s_norm l)) r -> Forall pn_comp (spec_comps (s_wsep (s_norm l)) (s_norm l) r) ->
  wspec (w_normalize l) = nfold (wspec l) [] /\ w_normalize (w_normalize l) = w_normalize l.
Proof. exact w_normalize_verbatim. Qed.
Print Assumptions C11_windows_verbatim.
Example C11_windows_verbatim_example :
  wprefix_grammar [92;92;63;92;67;58;92;97;92;46;92;46;46;92;98] = Some (VerbatimDisk 67, [92;97;92;46;92;46;46;92;98])
  /\ w_normalize [92;92;63;92;67;58;92;97;92;46;92;46;46;92;98] = [92;92;63;92;67;58;92;98].     (* \\?\C:\a\.\..\b *)
Proof. vm_compute. split; reflexivity. Qed.
(* C11_windows_partial: a bare prefix, the verbatim prefix named "UNC" or with the empty name, and a verbatim
   prefix followed by a name without a root are decided by oracle_c11 on every explored well-formed path (fold,
   read-back, flags, idempotence, primary separator only). *)

Example C11_example :
  u_normalize [47;46;46;47;97;47;46;47;46;46;47;46;46;47;98] = [47;98]
  /\ w_normalize [67;58;47;97;47;46;46;47;46;46;47;98] = [67;58;92;98]        (* C:/a/../../b -> C:\b *)
  /\ w_normalize [92;92;115;92;104;92;46;46;92;120] = [92;92;115;92;104;92;120].
Proof. vm_compute. repeat split. Qed.
