(* C16 - Encoding conversion keeps structure; checked conversion yields only valid paths. *)
From Coq Require Import List NArith Bool.
Import ListNotations.
From TP Require Import Core CoreProofs Path Unix Win Spec GenJoin WinSimple C16Proofs WinExtend C11WinPrefixed C16Win WinVerbJoin WinVerbMore.

(* converting a path to its own encoding returns the same bytes *)
Theorem C16_same : forall l : list N,
  with_encoding ustate comp u_init u_nextf uc_bytes c_is_root c_is_parent c_is_current u_push [47] [46] [46;46] true l = l
  /\ with_encoding wstate wcomp w_init w_nextf wc_bytes wc_is_root wc_is_parent wc_is_current w_push [92] [46] [46;46] true l = l.
Proof. exact same_encoding_identity. Qed.
(* Unix -> Windows: a Unix path whose normal names are file names in both encodings (both_name: no
   separator of either kind, no byte Windows forbids) converts to a Windows path with the same
   sequence of component kinds and names *)
Theorem C16_unix_to_windows : forall l : list N, Forall both_comp (ucomps l) -> wspec (u_to_w l) = map WC (ucomps l).
Proof. exact u_to_w_comps. Qed.
(* Windows -> Unix: a prefix-free Windows path (not starting with two separators) converts to a Unix
   path with the same kinds and names; in particular a rooted one becomes rooted *)
Theorem C16_windows_to_unix : forall l : list N, noprefix l = true -> ucomps (w_to_u l) = gcomps (wsep true) l.
Proof. exact w_to_u_comps. Qed.
(* so the round trip returns an equal path *)
Theorem C16_roundtrip : forall l : list N, Forall both_comp (ucomps l) -> ucomps (w_to_u (u_to_w l)) = ucomps l.
Proof. exact u_w_u_roundtrip. Qed.
(* the checked conversion succeeds with exactly the unchecked result, which is valid in the target ... *)
Theorem C16_checked_ok : forall l : list N, Forall both_comp (ucomps l) -> u_to_w_checked l = (Some (u_to_w l), None).
Proof. exact u_to_w_checked_ok. Qed.
Theorem C16_checked_valid : forall l : list N, Forall both_comp (ucomps l) ->
  forallb (comp_ok forbidden_windows) (wspec (u_to_w l)) = true.
Proof. exact u_to_w_valid. Qed.
(* ... and fails whenever a source name holds a byte the target forbids (names without '\', see D12) *)
Theorem C16_checked_fails : forall l : list N, Exists bad_name (ucomps l) -> exists e, u_to_w_checked l = (None, Some e).
Proof. exact u_to_w_checked_fails. Qed.
Print Assumptions C16_same.
Print Assumptions C16_unix_to_windows.
Print Assumptions C16_windows_to_unix.
Print Assumptions C16_roundtrip.
Print Assumptions C16_checked_ok.
Print Assumptions C16_checked_valid.
Print Assumptions C16_checked_fails.

(* the three known classes, as refuted-witness lemmas on the model (replayed on the real crate in
   findings/known_findings_demo.rs) *)
Lemma C16_d9_refuted : w_to_u [67;58;116;109;112] = [67;58;47;116;109;112].                 (* C:tmp -> C:/tmp *)
Proof. vm_compute. reflexivity. Qed.
Lemma C16_d12_refuted : u_to_w_checked [120;47;97;92;98] = (Some [120;92;97;92;98], None).    (* x/a\b -> Ok(x\a\b) *)
Proof. vm_compute. reflexivity. Qed.
Lemma C16_d14_refuted : w_to_w_checked [92;92;115;92;115;104;92;97] = (Some [92;97], None).   (* \\s\sh\a -> Ok(\a) *)
Proof. vm_compute. reflexivity. Qed.
(* "a Windows prefix is dropped, and a rooted or non-disk-prefixed Windows path becomes a rooted Unix path":
   for a source with a UNC, device-namespace or drive prefix followed by a rooted rest the Unix result has
   exactly the components of the rest; after a UNC or device prefix the rest is always rooted (C16Win.v) *)
Theorem C16_windows_prefixed_to_unix : forall (l : list N) (k : wprefix) (r : list N),
  wprefix_grammar l = Some (k, r) -> k_verbatim k = false -> g_rooted (wsep true) r = true ->
  ucomps (w_to_u l) = gcomps (wsep true) r.
Proof. exact w_to_u_prefixed. Qed.
Theorem C16_windows_nondisk_to_unix : forall (l : list N) (k : wprefix) (r : list N),
  wprefix_grammar l = Some (k, r) -> k_verbatim k = false -> is_disk k = false -> r <> [] ->
  ucomps (w_to_u l) = gcomps (wsep true) r /\ exists t, gcomps (wsep true) r = Root :: t.
Proof. exact w_to_u_nondisk. Qed.
Print Assumptions C16_windows_prefixed_to_unix.
Print Assumptions C16_windows_nondisk_to_unix.
(* ... and for a source with a VERBATIM prefix followed by a root: a rooted Unix path, the prefix dropped, the
   components after the root kept when none of them is a "." (under exactly \\?\ a "." is a component, which the
   Unix reading skips) and the names are names in both readings *)
Theorem C16_windows_verbatim_to_unix : forall (l : list N) (k : wprefix) (r : list N),
  wprefix_grammar l = Some (k, r) -> k_verbatim k = true -> k <> Verbatim [85; 78; 67] ->
  sep_headed (s_wsep (s_norm l)) r ->
  exists items, spec_comps (s_wsep (s_norm l)) (s_norm l) r = Root :: items /\
    (Forall (fun c => c <> Cur) items -> Forall gn_comp items -> ucomps (w_to_u l) = Root :: items).
Proof. exact w_to_u_verbatim. Qed.
Print Assumptions C16_windows_verbatim_to_unix.
(* C16_partial: Windows sources that are a bare prefix, the Windows -> Unix checked form and the UTF-8 / typed
   forms are decided on every explored case by oracle_c16. *)

Example C16_example :
  u_to_w [47;116;109;112;47;97;46;98] = [92;116;109;112;92;97;46;98]
  /\ w_to_u [97;92;46;46;47;98] = [97;47;46;46;47;98]
  /\ Forall both_comp (ucomps [47;116;109;112;47;97;46;98]).
Proof.
  split; [vm_compute; reflexivity|]. split; [vm_compute; reflexivity|].
  vm_compute. repeat constructor; discriminate.
Qed.
