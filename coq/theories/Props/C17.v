(* C17 - The validity predicate matches the documented forbidden-byte sets.
   (That the tables in src/{unix,windows}/constants.rs ARE the documented sets, and are the ones
   the model uses, is re-checked on every run over the regenerated Generated.v: tie B.) *)
From Coq Require Import List NArith Bool.
Import ListNotations.
From TP Require Import Core Path Unix Win Spec UnixProofs WinProofs C04Proofs C17Proofs Utf8 Utf8Proofs Utf8Chars.

Theorem C17_tables : u_forbidden = forbidden_unix /\ w_forbidden = forbidden_windows
  /\ forbidden_unix = [47; 0]%N /\ forbidden_windows = [92; 47; 58; 63; 42; 34; 62; 60; 124; 0]%N.
Proof. repeat split. Qed.
(* a path is valid exactly when every component of its decomposition is *)
Theorem C17_unix_path : forall l : list N, u_is_valid l = forallb (comp_ok forbidden_unix) (uspec l).
Proof. exact u_is_valid_spec. Qed.
Theorem C17_windows_path : forall l : list N, w_is_valid l = forallb (comp_ok forbidden_windows) (wspec l).
Proof. exact w_is_valid_spec. Qed.
(* prefixes, roots, "." and ".." are always valid; a normal name is valid iff it contains no forbidden byte *)
Theorem C17_component : forall (tbl : list N) (c : wcomp),
  comp_ok tbl c = match c with WC (Normal n) => forallb (fun b => negb (mem_b b tbl)) n | _ => true end.
Proof. exact comp_ok_spec. Qed.
(* the InvalidFilename verdict of the checked operations agrees with the predicate *)
Theorem C17_invalid_verdict_implies_invalid : forall (cs : list comp) (d : nat),
  u_scan cs d = Some EInvalid -> forallb comp_valid_u cs = false.
Proof. exact u_scan_invalid_implies. Qed.
Theorem C17_invalid_path_rejected : forall (cs : list comp) (d : nat),
  forallb comp_valid_u cs = false -> u_scan cs d <> None.
Proof. exact u_invalid_path_rejected. Qed.
Print Assumptions C17_unix_path.
Print Assumptions C17_windows_path.
Print Assumptions C17_component.
Print Assumptions C17_invalid_verdict_implies_invalid.
Print Assumptions C17_invalid_path_rejected.
(* the UTF-8 twins consult tables of forbidden CHARS on the characters of a name, the byte types tables of
   forbidden bytes on its bytes: on well-formed UTF-8 the two verdicts are the same for every ASCII table
   (Utf8Chars.v: a multi-byte character has a code point >= 128 and only bytes >= 128), and the tables
   regenerated from the source are ASCII *)
Theorem C17_utf8_chars : forall (T l : list N), (forall y, In y T -> (y < 128)%N) -> Valid l ->
  forallb (fun c => negb (mem_b c T)) (chars l) = name_ok T l.
Proof. intros T l HT HV. exact (name_ok_chars T l HT HV). Qed.
Theorem C17_tables_ascii :
  (forall y, In y forbidden_unix -> (y < 128)%N) /\ (forall y, In y forbidden_windows -> (y < 128)%N).
Proof. exact forbidden_tables_ascii. Qed.
Print Assumptions C17_utf8_chars.
Print Assumptions C17_tables_ascii.
Example C17_utf8_example : chars [97;195;169;226;130;172;240;159;140;186;58] = [97; 233; 8364; 127802; 58]%N      (* a e-acute euro blossom : *)
  /\ Valid [97;195;169;226;130;172;240;159;140;186;58].
Proof. split; [vm_compute; reflexivity|]. apply utf8_valid_iff. vm_compute. reflexivity. Qed.
(* C17_utf8_partial: that the char tables in the source ARE the byte tables is a generated-table obligation
   (tie B); that the UTF-8 predicates are called with them is correspondence on the utf8 families (same.c17). *)
Example C17_example : w_is_valid [67;58;92;97;124;98] = false /\ w_is_valid [92;92;63;92;67;58;92;97] = true
                      /\ u_is_valid [47;97;0] = false /\ u_is_valid [47;97;58;92] = true.
Proof. vm_compute. repeat split. Qed.
