(* C17 - The validity predicate matches the documented forbidden-byte sets.
   (That the tables in src/{unix,windows}/constants.rs ARE the documented sets, and are the ones
   the model uses, is re-checked on every run over the regenerated Generated.v: tie B.) *)
From Coq Require Import List NArith Bool.
Import ListNotations.
From TP Require Import Core Path Unix Win Spec UnixProofs WinProofs C04Proofs C17Proofs.

Theorem C17_tables : u_forbidden = forbidden_unix /\ w_forbidden = forbidden_windows
  /\ forbidden_unix = [47; 0]%N /\ forbidden_windows = [92; 47; 58; 63; 42; 34; 62; 60; 124; 0]%N.
Proof. repeat split. Qed.
(* a path is valid exactly when every component of its decomposition is *)
Theorem C17_unix_path : forall l : list N, u_is_valid l = forallb (comp_ok forbidden_unix) (uspec l).
Proof. exact u_is_valid_spec. Qed.
Theorem C17_windows_path : forall l : list N, w_is_valid l = forallb (comp_ok forbidden_windows) (wspec l).
Proof. exact w_is_valid_spec. Qed.
(* prefixes, roots, "." and ".." are always valid; a normal name is valid iff it contains no forbidden byte *)
Theorem C17_component : forall (tbl : list N) (c : wcomp),
  comp_ok tbl c = match c with WC (Normal n) => forallb (fun b => negb (mem_b b tbl)) n | _ => true end.
Proof. exact comp_ok_spec. Qed.
(* the InvalidFilename verdict of the checked operations agrees with the predicate *)
Theorem C17_invalid_verdict_implies_invalid : forall (cs : list comp) (d : nat),
  u_scan cs d = Some EInvalid -> forallb comp_valid_u cs = false.
Proof. exact u_scan_invalid_implies. Qed.
Theorem C17_invalid_path_rejected : forall (cs : list comp) (d : nat),
  forallb comp_valid_u cs = false -> u_scan cs d <> None.
Proof. exact u_invalid_path_rejected. Qed.
Print Assumptions C17_unix_path.
Print Assumptions C17_windows_path.
Print Assumptions C17_component.
Print Assumptions C17_invalid_verdict_implies_invalid.
Print Assumptions C17_invalid_path_rejected.
(* C17_utf8_partial: that the UTF-8 predicates (which consult the char tables) agree with the byte predicates is
   a generated-table obligation (chars table = bytes table, all < 128) plus correspondence on the utf8 families. *)
Example C17_example : w_is_valid [67;58;92;97;124;98] = false /\ w_is_valid [92;92;63;92;67;58;92;97] = true
                      /\ u_is_valid [47;97;0] = false /\ u_is_valid [47;97;58;92] = true.
Proof. vm_compute. repeat split. Qed.
