(* C12 - File name, stem and extension decompose the last component. *)
From Coq Require Import List NArith Bool.
Import ListNotations.
From TP Require Import Core Path Unix Win Spec UnixProofs WinProofs C11Proofs C12Proofs Win GenJoin WinSimple WinExtend C12Win WinVerbJoin WinVerbMore WinTrunc WinFileName.

(* file_name is the last component when it is a normal name, absent otherwise *)
Theorem C12_unix_file_name : forall p : list N,
  u_file_name p = match rev (ucomps p) with Normal n :: _ => Some n | _ => None end.
Proof. exact u_file_name_spec. Qed.
Theorem C12_windows_file_name : forall l : list N,
  w_file_name l = match rev (w_components l) with WC (Normal n) :: _ => Some n | _ => None end.
Proof. exact w_file_name_spec. Qed.
(* stem, a dot and the extension reproduce the name when an extension exists (the extension
   has no dot: the split is at the last one; the stem is not empty: a name whose only dot is its first
   byte has no extension); the stem is the whole name otherwise.  file_stem / extension are
   opt_or / opt_and of the two halves, for both encodings (shared helper). *)
Theorem C12_split_reproduces : forall n : list N,
  let (before, after) := rsplit_file_at_dot n in
  match opt_and before after with
  | Some e => exists st, opt_or before after = Some st /\ n = st ++ 46 :: e /\ st <> []
                         /\ forallb (fun b => negb (N.eqb b 46)) e = true
  | None => opt_or before after = Some n
  end.
Proof. exact rsplit_reproduces. Qed.
Print Assumptions C12_unix_file_name.
Print Assumptions C12_windows_file_name.
Print Assumptions C12_split_reproduces.
(* the four documented cases of the split: "..", no dot, only a leading dot, otherwise the last dot *)
Theorem C12_split_cases : forall n : list N,
  rsplit_file_at_dot n =
  if beq_list n [46; 46] then (Some n, None)
  else match span_ndot (rev n) with
       | (_, []) => (None, Some n)
       | (_, [_]) => (Some n, None)
       | (after_r, _ :: before_r) => (Some (rev before_r), Some (rev after_r))
       end.
Proof. exact rsplit_cases. Qed.
(* replacing the file name by a single valid name n (gname n: non-empty, no separator, not "." or ".."):
   Unix, all paths: the components are the old ones with the last replaced by n, so the file name is n
   and the parent is the old parent; when there was no file name the result is the old path joined with n *)
Theorem C12_unix_replace : forall l m n : list N, u_file_name l = Some m -> gname n ->
  ucomps (u_set_file_name l n) = removelast (ucomps l) ++ [Normal n].
Proof. exact u_set_file_name_some. Qed.
Theorem C12_unix_replace_file_name : forall l m n : list N, u_file_name l = Some m -> gname n ->
  u_file_name (u_set_file_name l n) = Some n.
Proof. exact u_set_file_name_file_name. Qed.
Theorem C12_unix_replace_parent : forall l m n r r' : list N, u_file_name l = Some m -> gname n ->
  u_parent l = Some r -> u_parent (u_set_file_name l n) = Some r' -> ucomps r' = ucomps r.
Proof. exact u_set_file_name_parent. Qed.
Theorem C12_unix_no_file_name_is_join : forall p n : list N,
  u_file_name p = None -> u_set_file_name p n = u_push p n.
Proof. exact u_set_file_name_none. Qed.
Print Assumptions C12_split_cases.
Print Assumptions C12_unix_replace.
Print Assumptions C12_unix_replace_file_name.
Print Assumptions C12_unix_replace_parent.
Print Assumptions C12_unix_no_file_name_is_join.
(* Windows: the replacement is pop, then the Windows push.  Without a file name it is the join; with one, and
   a parent that is prefix-free and non-empty or carries a UNC / device / drive prefix followed by a non-empty
   rest, the result read again from scratch has the old components with the last replaced by n (C12Win.v, over
   WinTrunc.w_parent_reparse and WinExtend.wspec_join_prefixed) *)
Theorem C12_windows_no_file_name_is_join : forall p n : list N,
  w_file_name p = None -> w_set_file_name p n = w_push p n.
Proof. exact w_set_file_name_none. Qed.
Theorem C12_windows_replace : forall l m n rr : list N, w_file_name l = Some m -> w_parent l = Some rr -> joinable rr ->
  noprefix n = true -> gn (wsep true) n ->
  w_set_file_name l n = w_push rr n /\
  wspec (w_set_file_name l n) = removelast (wspec l) ++ [WC (Normal n)].
Proof. exact w_set_file_name_some. Qed.
Print Assumptions C12_windows_no_file_name_is_join.
Print Assumptions C12_windows_replace.
Example C12_windows_example :
  w_file_name [92;92;115;92;104;92;100;92;102;46;116] = Some [102;46;116]                  (* \\s\h\d\f.t *)
  /\ w_parent [92;92;115;92;104;92;100;92;102;46;116] = Some [92;92;115;92;104;92;100]
  /\ wprefix_grammar [92;92;115;92;104;92;100] = Some (UNC [115] [104], [92;100])
  /\ w_set_file_name [92;92;115;92;104;92;100;92;102;46;116] [103] = [92;92;115;92;104;92;100;92;103].
Proof. vm_compute. repeat split. Qed.
(* ... with a parent that is a bare drive (C:name): the name is written right after the drive *)
Theorem C12_windows_replace_bare_drive : forall (l m n rr : list N) (d : N),
  w_file_name l = Some m -> w_parent l = Some rr -> rr = [d; 58] -> s_alpha d = true ->
  noprefix n = true -> gn (wsep true) n ->
  w_set_file_name l n = rr ++ n /\
  wspec (w_set_file_name l n) = removelast (wspec l) ++ [WC (Normal n)].
Proof. exact w_set_file_name_bare_drive. Qed.
Print Assumptions C12_windows_replace_bare_drive.
(* ... and with a parent that carries a verbatim prefix followed by a root (WinVerbJoin.v) *)
Theorem C12_windows_replace_verbatim : forall (l m n rr : list N) (k : wprefix) (r : list N),
  w_file_name l = Some m -> w_parent l = Some rr ->
  wprefix_grammar rr = Some (k, r) -> k_verbatim k = true -> k <> Verbatim [85; 78; 67] -> sep_headed (s_wsep (s_norm rr)) r ->
  noprefix n = true -> gn (wsep true) n ->
  w_set_file_name l n = w_push rr n /\
  wspec (w_set_file_name l n) = removelast (wspec l) ++ [WC (Normal n)].
Proof. exact w_set_file_name_some_verbatim. Qed.
Print Assumptions C12_windows_replace_verbatim.
(* hence, whenever the replacement reads back that way: the file name is n and the parent, read again, has the
   components of the old parent (for every prefix kind, via the re-parse theorem of C09) *)
Theorem C12_windows_replace_file_name_parent : forall l l' m : list N,
  wspec l' = removelast (wspec l) ++ [WC (Normal m)] ->
  w_file_name l' = Some m /\
  (forall r r', w_parent l = Some r -> w_parent l' = Some r' -> wspec r' = wspec r).
Proof. exact w_replaced_last. Qed.
Print Assumptions C12_windows_replace_file_name_parent.
(* C12_windows_replace_partial: for a parent that is a bare verbatim prefix, or the verbatim prefix named "UNC", the
   Windows replacement is decided by oracle_c12 on every explored (path, name) pair. *)

Example C12_example : u_file_stem [47;97;46;116;97;114;46;103;122;47] = Some [97;46;116;97;114]
                      /\ u_extension [47;97;46;116;97;114;46;103;122;47] = Some [103;122]
                      /\ u_extension [46;98;97;115;104] = None /\ u_file_stem [46;46] = None.
Proof. vm_compute. repeat split. Qed.
