(* C12 - File name, stem and extension decompose the last component. *)
From Coq Require Import List NArith Bool.
Import ListNotations.
From TP Require Import Core Path Unix Win Spec UnixProofs WinProofs C11Proofs C12Proofs.

(* file_name is the last component when it is a normal name, absent otherwise *)
Theorem C12_unix_file_name : forall p : list N,
  u_file_name p = match rev (ucomps p) with Normal n :: _ => Some n | _ => None end.
Proof. exact u_file_name_spec. Qed.
Theorem C12_windows_file_name : forall l : list N,
  w_file_name l = match rev (w_components l) with WC (Normal n) :: _ => Some n | _ => None end.
Proof. exact w_file_name_spec. Qed.
(* stem, a dot and the extension reproduce the name when an extension exists (the extension
   has no dot: the split is at the last one; the stem is not empty: a name whose only dot is its first
   byte has no extension); the stem is the whole name otherwise.  file_stem / extension are
   opt_or / opt_and of the two halves, for both encodings (shared helper). *)
Theorem C12_split_reproduces : forall n : list N,
  let (before, after) := rsplit_file_at_dot n in
  match opt_and before after with
  | Some e => exists st, opt_or before after = Some st /\ n = st ++ 46 :: e /\ st <> []
                         /\ forallb (fun b => negb (N.eqb b 46)) e = true
  | None => opt_or before after = Some n
  end.
Proof. exact rsplit_reproduces. Qed.
Print Assumptions C12_unix_file_name.
Print Assumptions C12_windows_file_name.
Print Assumptions C12_split_reproduces.
(* the four documented cases of the split: "..", no dot, only a leading dot, otherwise the last dot *)
Theorem C12_split_cases : forall n : list N,
  rsplit_file_at_dot n =
  if beq_list n [46; 46] then (Some n, None)
  else match span_ndot (rev n) with
       | (_, []) => (None, Some n)
       | (_, [_]) => (Some n, None)
       | (after_r, _ :: before_r) => (Some (rev before_r), Some (rev after_r))
       end.
Proof. exact rsplit_cases. Qed.
(* replacing the file name by a single valid name n (gname n: non-empty, no separator, not "." or ".."):
   Unix, all paths: the components are the old ones with the last replaced by n, so the file name is n
   and the parent is the old parent; when there was no file name the result is the old path joined with n *)
Theorem C12_unix_replace : forall l m n : list N, u_file_name l = Some m -> gname n ->
  ucomps (u_set_file_name l n) = removelast (ucomps l) ++ [Normal n].
Proof. exact u_set_file_name_some. Qed.
Theorem C12_unix_replace_file_name : forall l m n : list N, u_file_name l = Some m -> gname n ->
  u_file_name (u_set_file_name l n) = Some n.
Proof. exact u_set_file_name_file_name. Qed.
Theorem C12_unix_replace_parent : forall l m n r r' : list N, u_file_name l = Some m -> gname n ->
  u_parent l = Some r -> u_parent (u_set_file_name l n) = Some r' -> ucomps r' = ucomps r.
Proof. exact u_set_file_name_parent. Qed.
Theorem C12_unix_no_file_name_is_join : forall p n : list N,
  u_file_name p = None -> u_set_file_name p n = u_push p n.
Proof. exact u_set_file_name_none. Qed.
Print Assumptions C12_split_cases.
Print Assumptions C12_unix_replace.
Print Assumptions C12_unix_replace_file_name.
Print Assumptions C12_unix_replace_parent.
Print Assumptions C12_unix_no_file_name_is_join.
(* C12_windows_replace_partial: the Windows replacement (pop, then the Windows push) is decided by
   oracle_c12 on every explored (path, name) pair. *)

Example C12_example : u_file_stem [47;97;46;116;97;114;46;103;122;47] = Some [97;46;116;97;114]
                      /\ u_extension [47;97;46;116;97;114;46;103;122;47] = Some [103;122]
                      /\ u_extension [46;98;97;115;104] = None /\ u_file_stem [46;46] = None.
Proof. vm_compute. repeat split. Qed.
