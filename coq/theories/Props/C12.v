(* C12 - File name, stem and extension decompose the last component. *)
From Coq Require Import List NArith Bool.
Import ListNotations.
From TP Require Import Core Path Unix Win Spec UnixProofs WinProofs.

(* file_name is the last component when it is a normal name, absent otherwise *)
Theorem C12_unix_file_name : forall p : list N,
  u_file_name p = match rev (ucomps p) with Normal n :: _ => Some n | _ => None end.
Proof. exact u_file_name_spec. Qed.
Theorem C12_windows_file_name : forall l : list N,
  w_file_name l = match rev (w_components l) with WC (Normal n) :: _ => Some n | _ => None end.
Proof. exact w_file_name_spec. Qed.
(* stem, a dot and the extension reproduce the name when an extension exists (the extension
   has no dot: the split is at the last one; the stem is not empty: a name whose only dot is its first
   byte has no extension); the stem is the whole name otherwise.  file_stem / extension are
   opt_or / opt_and of the two halves, for both encodings (shared helper). *)
Theorem C12_split_reproduces : forall n : list N,
  let (before, after) := rsplit_file_at_dot n in
  match opt_and before after with
  | Some e => exists st, opt_or before after = Some st /\ n = st ++ 46 :: e /\ st <> []
                         /\ forallb (fun b => negb (N.eqb b 46)) e = true
  | None => opt_or before after = Some n
  end.
Proof. exact rsplit_reproduces. Qed.
Print Assumptions C12_unix_file_name.
Print Assumptions C12_windows_file_name.
Print Assumptions C12_split_reproduces.
(* C12_replace_partial: "replacing the file name by a single valid name n yields a path whose file
   name is n and whose parent is the old parent, or the old path joined with n" is definitional
   for the no-file-name case (set_file_name = push) and is checked by oracle_c12 on every explored
   (path, name) pair; the re-parse of pop-then-push is not proved. *)
Theorem C12_unix_no_file_name_is_join : forall p n : list N,
  u_file_name p = None -> u_set_file_name p n = u_push p n.
Proof. intros p n H. unfold u_set_file_name, set_file_name. fold u_file_name. rewrite H. reflexivity. Qed.
Print Assumptions C12_unix_no_file_name_is_join.

Example C12_example : u_file_stem [47;97;46;116;97;114;46;103;122;47] = Some [97;46;116;97;114]
                      /\ u_extension [47;97;46;116;97;114;46;103;122;47] = Some [103;122]
                      /\ u_extension [46;98;97;115;104] = None /\ u_file_stem [46;46] = None.
Proof. vm_compute. repeat split. Qed.
